/-
The JSON grammar of RFC 8259, as inductive predicates over lists of Unicode characters
(`List Char`; a Lean `Char` is a Unicode scalar value, which is what UTF-8 can encode, RFC 8259 §8.1).

This file is written from the RFC alone. It imports nothing of the model: it knows neither the printer
(`Model/Print.lean`) nor the reader used in the older recovery theorems (`Lemmas/PrintJson.lean`).
Every definition quotes the ABNF rule it transcribes (`; §n` = section of RFC 8259).

Part 1 is the grammar (which texts are JSON). Part 2 is the denotation (which JSON value a text stands
for): the same rules once more, each carrying the value it denotes; `Lemmas/JsonGrammar.lean` proves that
a text with a denotation is a text of the grammar (`ValD.val`, `ObjD.obj`, ...) and that a text has at most
one denotation (`ValD.unique`). Part 3 is an executable recogniser for numbers.
-/
namespace Sqlgrep.JsonGrammar

/-! ## Part 1 — the grammar -/

/-! ### §2 whitespace and the six structural characters -/

/-- `ws = *( %x20 / %x09 / %x0A / %x0D )`  ; §2 -/
def Ws (cs : List Char) : Prop := ∀ c ∈ cs, c = ' ' ∨ c = '\t' ∨ c = '\n' ∨ c = '\r'

/-- a structural character with its optional whitespace, `ws c ws`  ; §2
(`begin-array = ws %x5B ws`, `begin-object = ws %x7B ws`, `end-array = ws %x5D ws`,
`end-object = ws %x7D ws`, `name-separator = ws %x3A ws`, `value-separator = ws %x2C ws`) -/
def Sep (c : Char) (cs : List Char) : Prop := ∃ a b, Ws a ∧ Ws b ∧ cs = a ++ c :: b

/-! ### §6 numbers -/

/-- `DIGIT = %x30-39` -/
def Digit (c : Char) : Prop := 0x30 ≤ c.toNat ∧ c.toNat ≤ 0x39
/-- `digit1-9 = %x31-39` -/
def Digit19 (c : Char) : Prop := 0x31 ≤ c.toNat ∧ c.toNat ≤ 0x39
/-- `*DIGIT` -/
def Digits (cs : List Char) : Prop := ∀ c ∈ cs, Digit c
/-- `1*DIGIT` -/
def Digits1 (cs : List Char) : Prop := cs ≠ [] ∧ Digits cs

/-- an optional part `[ P ]` -/
def Opt (P : List Char → Prop) (cs : List Char) : Prop := cs = [] ∨ P cs

/-- `int = zero / ( digit1-9 *DIGIT )`  ; §6 -/
inductive IntPart : List Char → Prop
  | zero : IntPart ['0']
  | nonzero {d : Char} {ds : List Char} : Digit19 d → Digits ds → IntPart (d :: ds)

/-- `frac = decimal-point 1*DIGIT`  ; §6 -/
inductive Frac : List Char → Prop
  | mk {ds : List Char} : Digits1 ds → Frac ('.' :: ds)

/-- `exp = e [ minus / plus ] 1*DIGIT`, `e = %x65 / %x45`  ; §6 -/
inductive Exp : List Char → Prop
  | mk {e : Char} {sign ds : List Char} : (e = 'e' ∨ e = 'E') → (sign = [] ∨ sign = ['-'] ∨ sign = ['+']) →
      Digits1 ds → Exp (e :: sign ++ ds)

/-- `number = [ minus ] int [ frac ] [ exp ]`  ; §6 -/
inductive Num : List Char → Prop
  | mk {m i f e : List Char} : Opt (· = ['-']) m → IntPart i → Opt Frac f → Opt Exp e → Num (m ++ i ++ f ++ e)

/-! ### §7 strings -/

/-- `unescaped = %x20-21 / %x23-5B / %x5D-10FFFF`  ; §7 — every code point from U+0020 on except `"` and `\` -/
def Unescaped (c : Char) : Prop := 0x20 ≤ c.toNat ∧ c.toNat ≠ 0x22 ∧ c.toNat ≠ 0x5C

/-- value of `HEXDIG` (RFC 5234: `0`-`9`, `A`-`F`, letters in either case) -/
def hexVal (c : Char) : Option Nat :=
  if 0x30 ≤ c.toNat ∧ c.toNat ≤ 0x39 then some (c.toNat - 0x30)
  else if 0x41 ≤ c.toNat ∧ c.toNat ≤ 0x46 then some (c.toNat - 0x41 + 10)
  else if 0x61 ≤ c.toNat ∧ c.toNat ≤ 0x66 then some (c.toNat - 0x61 + 10)
  else none

def HexDig (c : Char) : Prop := (hexVal c).isSome = true

/-- the two-character escapes of §7: the character after the backslash, and the character represented
```
   %x22 /          ; "    quotation mark  U+0022
   %x5C /          ; \    reverse solidus U+005C
   %x2F /          ; /    solidus         U+002F
   %x62 /          ; b    backspace       U+0008
   %x66 /          ; f    form feed       U+000C
   %x6E /          ; n    line feed       U+000A
   %x72 /          ; r    carriage return U+000D
   %x74 /          ; t    tab             U+0009
``` -/
def escapeTable : List (Char × Char) :=
  [('"', '"'), ('\\', '\\'), ('/', '/'), ('b', Char.ofNat 0x08), ('f', Char.ofNat 0x0C), ('n', Char.ofNat 0x0A),
   ('r', Char.ofNat 0x0D), ('t', Char.ofNat 0x09)]

/-- `char = unescaped / escape ( %x22 / %x5C / %x2F / %x62 / %x66 / %x6E / %x72 / %x74 / %x75 4HEXDIG )`  ; §7 -/
inductive StrChar : List Char → Prop
  | unescaped {c : Char} : Unescaped c → StrChar [c]
  | escape {e : Char} : e ∈ escapeTable.map Prod.fst → StrChar ['\\', e]
  | unicode {a b c d : Char} : HexDig a → HexDig b → HexDig c → HexDig d → StrChar ['\\', 'u', a, b, c, d]

/-- `*char` -/
inductive Chars : List Char → Prop
  | nil : Chars []
  | cons {c cs : List Char} : StrChar c → Chars cs → Chars (c ++ cs)

/-- `string = quotation-mark *char quotation-mark`  ; §7 -/
inductive Str : List Char → Prop
  | mk {cs : List Char} : Chars cs → Str ('"' :: cs ++ ['"'])

/-! ### §3 values, §4 objects, §5 arrays -/

mutual
/-- `value = false / null / true / object / array / number / string`  ; §3 -/
inductive Val : List Char → Prop
  | false : Val ['f', 'a', 'l', 's', 'e']
  | null : Val ['n', 'u', 'l', 'l']
  | true : Val ['t', 'r', 'u', 'e']
  | object {cs : List Char} : Obj cs → Val cs
  | array {cs : List Char} : Arr cs → Val cs
  | number {cs : List Char} : Num cs → Val cs
  | string {cs : List Char} : Str cs → Val cs
/-- `object = begin-object [ member *( value-separator member ) ] end-object`  ; §4 -/
inductive Obj : List Char → Prop
  | empty {b e : List Char} : Sep '{' b → Sep '}' e → Obj (b ++ e)
  | members {b ms e : List Char} : Sep '{' b → Members ms → Sep '}' e → Obj (b ++ ms ++ e)
/-- `member *( value-separator member )`  ; §4 -/
inductive Members : List Char → Prop
  | one {m : List Char} : Member m → Members m
  | cons {m s ms : List Char} : Member m → Sep ',' s → Members ms → Members (m ++ s ++ ms)
/-- `member = string name-separator value`  ; §4 -/
inductive Member : List Char → Prop
  | mk {k s v : List Char} : Str k → Sep ':' s → Val v → Member (k ++ s ++ v)
/-- `array = begin-array [ value *( value-separator value ) ] end-array`  ; §5 -/
inductive Arr : List Char → Prop
  | empty {b e : List Char} : Sep '[' b → Sep ']' e → Arr (b ++ e)
  | elements {b vs e : List Char} : Sep '[' b → Elems vs → Sep ']' e → Arr (b ++ vs ++ e)
/-- `value *( value-separator value )`  ; §5 -/
inductive Elems : List Char → Prop
  | one {v : List Char} : Val v → Elems v
  | cons {v s vs : List Char} : Val v → Sep ',' s → Elems vs → Elems (v ++ s ++ vs)
end

/-- `JSON-text = ws value ws`  ; §2 -/
def JsonText (cs : List Char) : Prop := ∃ a v b, Ws a ∧ Val v ∧ Ws b ∧ cs = a ++ v ++ b

/-! ## Part 2 — what a JSON text denotes -/

/-- a decimal number `mant × 10^exp` (§6: "a number is represented in base 10 using decimal digits") -/
structure Dec where
  mant : Int
  exp : Int
  deriving DecidableEq, Repr, Inhabited

/-- JSON values (§1: four primitive types — strings, numbers, booleans, null — and two structured types —
objects, arrays). An object is "an unordered collection of name/value pairs"; the denotation keeps the
members in the order of the text, so statements about member order can be made at all. -/
inductive JVal where
  | null
  | bool (b : Bool)
  | num (d : Dec)
  | str (s : List Char)
  | arr (xs : List JVal)
  | obj (ms : List (List Char × JVal))
  deriving Repr, Inhabited

/-- value of a run of decimal digits -/
def digitsVal (ds : List Char) : Nat := ds.foldl (fun n c => 10 * n + (c.toNat - 0x30)) 0

/-- `[ frac ]` with the digits after the decimal point -/
inductive FracD : List Char → List Char → Prop
  | none : FracD [] []
  | some {ds : List Char} : Digits1 ds → FracD ('.' :: ds) ds

/-- `[ exp ]` with the exponent it denotes -/
inductive ExpD : List Char → Int → Prop
  | none : ExpD [] 0
  | plain {e : Char} {ds : List Char} : (e = 'e' ∨ e = 'E') → Digits1 ds → ExpD (e :: ds) (digitsVal ds)
  | plus {e : Char} {ds : List Char} : (e = 'e' ∨ e = 'E') → Digits1 ds → ExpD (e :: '+' :: ds) (digitsVal ds)
  | minus {e : Char} {ds : List Char} : (e = 'e' ∨ e = 'E') → Digits1 ds → ExpD (e :: '-' :: ds) (-(digitsVal ds : Int))

/-- `number`: `[-] i [. f] [e x]` denotes `± (digits i f) × 10^(x − |f|)`  ; §6 -/
inductive NumD : List Char → Dec → Prop
  | pos {i f e fd : List Char} {ev : Int} : IntPart i → FracD f fd → ExpD e ev →
      NumD (i ++ f ++ e) ⟨digitsVal (i ++ fd), ev - fd.length⟩
  | neg {i f e fd : List Char} {ev : Int} : IntPart i → FracD f fd → ExpD e ev →
      NumD ('-' :: (i ++ f ++ e)) ⟨-(digitsVal (i ++ fd) : Int), ev - fd.length⟩

/-- the 16-bit value of four hexadecimal digits -/
def hex4 (a b c d : Char) : Option Nat :=
  match hexVal a, hexVal b, hexVal c, hexVal d with
  | some x, some y, some z, some w => some (((x * 16 + y) * 16 + z) * 16 + w)
  | _, _, _, _ => none

/-- the character one `char` of a string represents  ; §7. `\uXXXX` is the code point XXXX; a character
outside the Basic Multilingual Plane is "a 12-character sequence, encoding the UTF-16 surrogate pair". A
`\u` escape of a lone surrogate denotes no character (§8.2 calls the behaviour unpredictable). -/
inductive StrCharD : List Char → Char → Prop
  | unescaped {c : Char} : Unescaped c → StrCharD [c] c
  | escape {e c : Char} : (e, c) ∈ escapeTable → StrCharD ['\\', e] c
  | unicode {a b c d : Char} {n : Nat} : hex4 a b c d = some n → (n < 0xD800 ∨ 0xE000 ≤ n) →
      StrCharD ['\\', 'u', a, b, c, d] (Char.ofNat n)
  | surrogates {a b c d e f g h : Char} {hi lo : Nat} : hex4 a b c d = some hi → hex4 e f g h = some lo →
      0xD800 ≤ hi → hi < 0xDC00 → 0xDC00 ≤ lo → lo < 0xE000 →
      StrCharD ['\\', 'u', a, b, c, d, '\\', 'u', e, f, g, h]
        (Char.ofNat (0x10000 + (hi - 0xD800) * 0x400 + (lo - 0xDC00)))

inductive CharsD : List Char → List Char → Prop
  | nil : CharsD [] []
  | cons {c cs : List Char} {x : Char} {xs : List Char} : StrCharD c x → CharsD cs xs → CharsD (c ++ cs) (x :: xs)

/-- `string` and the sequence of characters it represents  ; §7 -/
inductive StrD : List Char → List Char → Prop
  | mk {cs xs : List Char} : CharsD cs xs → StrD ('"' :: cs ++ ['"']) xs

mutual
inductive ValD : List Char → JVal → Prop
  | false : ValD ['f', 'a', 'l', 's', 'e'] (.bool false)
  | null : ValD ['n', 'u', 'l', 'l'] .null
  | true : ValD ['t', 'r', 'u', 'e'] (.bool true)
  | object {cs : List Char} {ms : List (List Char × JVal)} : ObjD cs ms → ValD cs (.obj ms)
  | array {cs : List Char} {xs : List JVal} : ArrD cs xs → ValD cs (.arr xs)
  | number {cs : List Char} {d : Dec} : NumD cs d → ValD cs (.num d)
  | string {cs s : List Char} : StrD cs s → ValD cs (.str s)
/-- an object text and its members (name, value) in the order of the text -/
inductive ObjD : List Char → List (List Char × JVal) → Prop
  | empty {b e : List Char} : Sep '{' b → Sep '}' e → ObjD (b ++ e) []
  | members {b ms e : List Char} {xs : List (List Char × JVal)} : Sep '{' b → MembersD ms xs → Sep '}' e →
      ObjD (b ++ ms ++ e) xs
inductive MembersD : List Char → List (List Char × JVal) → Prop
  | one {m : List Char} {x : List Char × JVal} : MemberD m x → MembersD m [x]
  | cons {m s ms : List Char} {x : List Char × JVal} {xs : List (List Char × JVal)} :
      MemberD m x → Sep ',' s → MembersD ms xs → MembersD (m ++ s ++ ms) (x :: xs)
inductive MemberD : List Char → List Char × JVal → Prop
  | mk {k s v name : List Char} {x : JVal} : StrD k name → Sep ':' s → ValD v x → MemberD (k ++ s ++ v) (name, x)
inductive ArrD : List Char → List JVal → Prop
  | empty {b e : List Char} : Sep '[' b → Sep ']' e → ArrD (b ++ e) []
  | elements {b vs e : List Char} {xs : List JVal} : Sep '[' b → ElemsD vs xs → Sep ']' e → ArrD (b ++ vs ++ e) xs
inductive ElemsD : List Char → List JVal → Prop
  | one {v : List Char} {x : JVal} : ValD v x → ElemsD v [x]
  | cons {v s vs : List Char} {x : JVal} {xs : List JVal} : ValD v x → Sep ',' s → ElemsD vs xs →
      ElemsD (v ++ s ++ vs) (x :: xs)
end

/-- `JSON-text = ws value ws` and the value it denotes  ; §2 -/
def JsonTextD (cs : List Char) (x : JVal) : Prop := ∃ a v b, Ws a ∧ ValD v x ∧ Ws b ∧ cs = a ++ v ++ b

/-! ## Part 3 — an executable recogniser for `number` (sound and complete: `Lemmas/JsonNumber.lean`) -/

instance : DecidablePred Ws := fun cs => by unfold Ws; infer_instance
instance : DecidablePred Digit := fun c => by unfold Digit; infer_instance
instance : DecidablePred Digit19 := fun c => by unfold Digit19; infer_instance
instance : DecidablePred Digits := fun cs => by unfold Digits; infer_instance
instance : DecidablePred Digits1 := fun cs => by unfold Digits1; infer_instance

/-- the leading run of digits and what follows it -/
def spanDigits : List Char → List Char × List Char
  | [] => ([], [])
  | c :: cs => if Digit c then (c :: (spanDigits cs).1, (spanDigits cs).2) else ([], c :: cs)

/-- `[ exp ]` up to the end of the text: the exponent -/
def expValue : List Char → Option Int
  | [] => some 0
  | e :: t =>
    if e = 'e' ∨ e = 'E' then
      match t with
      | '-' :: ds => if Digits1 ds then some (-(digitsVal ds : Int)) else none
      | '+' :: ds => if Digits1 ds then some (digitsVal ds : Int) else none
      | ds => if Digits1 ds then some (digitsVal ds : Int) else none
    else none

/-- `[ frac ] [ exp ]` up to the end of the text: the fraction digits and the exponent -/
def fracExpValue : List Char → Option (List Char × Int)
  | '.' :: t =>
    let (fd, r) := spanDigits t
    if fd = [] then none else (expValue r).map (fd, ·)
  | cs => (expValue cs).map ([], ·)

/-- `int [ frac ] [ exp ]`: the integer digits, the fraction digits and the exponent -/
def unsignedValue : List Char → Option (List Char × List Char × Int)
  | [] => none
  | d :: t =>
    if d = '0' then (fracExpValue t).map (['0'], ·)
    else if Digit19 d then
      let (ds, r) := spanDigits t
      (fracExpValue r).map (d :: ds, ·)
    else none

/-- the number a text denotes, if it is a `number` -/
def numValue : List Char → Option Dec
  | '-' :: t => (unsignedValue t).map fun (i, fd, ev) => ⟨-(digitsVal (i ++ fd) : Int), ev - fd.length⟩
  | cs => (unsignedValue cs).map fun (i, fd, ev) => ⟨digitsVal (i ++ fd), ev - fd.length⟩

/-- is this text a `number` of §6? -/
def isJsonNumber (cs : List Char) : Bool := (numValue cs).isSome

end Sqlgrep.JsonGrammar
