// C08: DISTINCT emits each distinct output tuple once, at its first occurrence; per result table for aggregates.
// Every statement is generated WITHOUT DISTINCT, run, and run again with DISTINCT over the same input; the oracle
// (on the implementation) decides "same tuple" on the typed rows with its own equality.
use sqlgrep::model::{Float, Value};

use crate::c04::join_lines;
use crate::engine_run::*;
use crate::exprs::canon_value;
use crate::queries::*;
use crate::run::{Params, Run};
use crate::runq::{run_engine_batch, RowsOutcome};
use crate::util::{value_sexp, Rng};

/// the property's equality of values: NULL equal to NULL, numbers by value (-0.0 = 0.0, NaN = NaN; with `by_value`
/// also an INT and a REAL denoting the same number, as the sentence says — the implementation distinguishes them:
/// known finding D45), everything else by content
fn same_value(a: &Value, b: &Value, by_value: bool) -> bool {
    match (a, b) {
        (Value::Int(x), Value::Float(Float(y))) | (Value::Float(Float(y)), Value::Int(x)) =>
            by_value && y.is_finite() && y.fract() == 0.0 && y.abs() < 9.0e15 && (*y as i64) == *x,
        (Value::Null, Value::Null) => true,
        (Value::Int(x), Value::Int(y)) => x == y,
        (Value::Float(Float(x)), Value::Float(Float(y))) => (x.is_nan() && y.is_nan()) || x == y,
        (Value::Bool(x), Value::Bool(y)) => x == y,
        (Value::String(x), Value::String(y)) => x == y,
        (Value::Array(t, xs), Value::Array(u, ys)) => t == u && xs.len() == ys.len() && xs.iter().zip(ys.iter()).all(|(x, y)| same_value(x, y, by_value)),
        (Value::Timestamp(x), Value::Timestamp(y)) => x == y,
        (Value::Interval(x), Value::Interval(y)) => x == y,
        _ => false,
    }
}

fn same_tuple(a: &[Value], b: &[Value], by_value: bool) -> bool {
    a.len() == b.len() && a.iter().zip(b.iter()).all(|(x, y)| same_value(x, y, by_value))
}

/// indices of the first occurrences
fn first_occurrences_by(rows: &[Vec<Value>], by_value: bool) -> Vec<usize> {
    let mut kept: Vec<usize> = Vec::new();
    for (i, r) in rows.iter().enumerate() {
        if !kept.iter().any(|&j| same_tuple(&rows[j], r, by_value)) {
            kept.push(i);
        }
    }
    kept
}

/// what the sentence demands (numbers by value, across INT and REAL too)
fn first_occurrences(rows: &[Vec<Value>]) -> Vec<usize> { first_occurrences_by(rows, true) }

/// the failure is exactly the known finding D45: the implementation's answer is the first occurrences under the
/// type-sensitive equality, and differs from the demanded one only because an INT and a REAL of one value recur
fn is_d45(rows_p: &[Vec<Value>], got: &[Vec<Value>], limit: Option<usize>) -> bool {
    let mut strict: Vec<Vec<Value>> = first_occurrences_by(rows_p, false).iter().map(|&i| rows_p[i].clone()).collect();
    if let Some(n) = limit { strict.truncate(n); }
    show_rows(got) == show_rows(&strict)
}

/// exact content (REAL by bits, NaN payload aside)
fn show_row(r: &[Value]) -> String {
    r.iter().map(|v| value_sexp(&canon_value(v))).collect::<Vec<_>>().join(" ")
}

fn show_rows(rows: &[Vec<Value>]) -> Vec<String> {
    rows.iter().map(|r| show_row(r)).collect()
}

const SELECT_TEMPLATES: &[&str] = &[
    "SELECT k FROM t", "SELECT r FROM t", "SELECT k, v FROM t", "SELECT v, w, r FROM t", "SELECT s, k FROM t WHERE v IS NOT NULL",
    "SELECT r, k FROM t", "SELECT v + w FROM t", "SELECT create_array(v, w) FROM t", "SELECT r * 1.0, v FROM t", "SELECT * FROM t",
    "SELECT (CASE WHEN w > 0 THEN v ELSE r END) AS n FROM t", "SELECT k, (CASE WHEN w > 0 THEN v ELSE r END) AS n FROM t",
    "SELECT k, y FROM t INNER JOIN u::'@J' ON t.k = u.k", "SELECT u.v, s FROM t OUTER JOIN u::'@J' ON t.k = u.k", "SELECT y FROM t INNER JOIN u::'@J' ON t.v = u.v",
];

const AGG_TEMPLATES: &[&str] = &[
    "SELECT COUNT(*) FROM t GROUP BY k", "SELECT MAX(w), COUNT(v) FROM t GROUP BY k", "SELECT SUM(v) FROM t GROUP BY s",
    "SELECT MIN(r) FROM t GROUP BY k", "SELECT w FROM t GROUP BY w, k", "SELECT MAX(r), MIN(r) FROM t GROUP BY v",
    "SELECT COUNT(w) FROM t GROUP BY k, v", "SELECT BOOL_OR(v > 1) FROM t GROUP BY k", "SELECT STRING_AGG(s, ',') FROM t GROUP BY k",
    "SELECT MIN(k) FROM t GROUP BY v", "SELECT AVG(v) FROM t GROUP BY w", "SELECT COUNT(*), MAX(v) FROM t GROUP BY k, s",
];

const HAVINGS: &[&str] = &["COUNT(*) > 0", "COUNT(*) >= 1", "COUNT(*) > 1", "SUM(v) > 0", "MAX(w) >= 0", "COUNT(v) < 3"];

/// inputs with few distinct tuples: lines drawn with repetition from a small pool (recurrences after gaps), pool
/// members differing in one column, only by NULL, by -0.0/0.0/nan
fn gen_dup_lines(rng: &mut Rng) -> Vec<String> {
    let base_k = *rng.pick(&["a", "b", "ab"]);
    // neighbours that differ only in the low bits of a large magnitude: distinct tuples that any lossy normalisation of
    // the DISTINCT key (e.g. through f64, f32, i32) would merge
    const BIG: &[i64] = &[9007199254740992, 9007199254740993, 9007199254740994, 4611686018427387904, 4611686018427387905,
        9223372036854775807, 9223372036854775806, -9223372036854775808, -9223372036854775807, 4294967296, 4294967297, 16777216, 16777217];
    let big = rng.chance(1, 4);
    let base_v = if big { rng.pick(BIG).to_string() } else { rng.range(-2, 4).to_string() };
    let base_w = rng.range(0, 3).to_string();
    let base_r = *rng.pick(&["0", "-0.0", "0.0", "1.5", "nan", "-nan", "inf"]);
    let base_s = *rng.pick(&["x", "y", "10"]);
    let mk = |k: &str, v: &str, w: &str, r: &str, s: &str| format!("{};{};{};{};{};", k, v, w, r, s);
    let mut pool: Vec<String> = vec![mk(base_k, &base_v, &base_w, base_r, base_s)];
    let n_var = 1 + rng.below(5);
    for _ in 0..n_var {
        let (mut k, mut v, mut w, mut r, mut s) = (base_k.to_owned(), base_v.clone(), base_w.clone(), base_r.to_owned(), base_s.to_owned());
        let choice = if big && rng.chance(1, 2) { 1 } else { rng.below(9) };
        match choice {
            0 => k = (*rng.pick(&["a", "b", "z"])).to_owned(),
            1 => v = if big {
                // mostly the immediate neighbours of the base value
                let b: i64 = base_v.parse().unwrap_or(0);
                match rng.below(4) { 0 => b.saturating_add(1).to_string(), 1 => b.saturating_sub(1).to_string(), 2 => b.saturating_add(2).to_string(), _ => rng.pick(BIG).to_string() }
            } else { rng.range(-2, 4).to_string() },
            2 => w = rng.range(0, 3).to_string(),
            3 => r = (*rng.pick(&["0", "-0.0", "0.0", "-0", "1.5", "nan", "1.50", "15e-1", "1.5000000000000002", "9007199254740993", "9007199254740992", "1e-320", "0.1", "0.10000000000000002"])).to_owned(),
            4 => s = (*rng.pick(&["x", "y", "X"])).to_owned(),
            5 => k = String::new(),
            6 => v = String::new(),
            7 => { r = String::new(); w = String::new(); }
            _ => { k = String::new(); v = String::new(); w = String::new(); r = String::new(); }
        }
        pool.push(mk(&k, &v, &w, &r, &s));
    }
    if rng.chance(1, 4) { pool.push((*rng.pick(&["", "garbage", ";;;;;"])).to_owned()); }
    let n = match rng.below(4) { 0 => rng.below(3), 1 => rng.below(7), _ => rng.below(16) };
    (0..n).map(|_| rng.pick(&pool).clone()).collect()
}

fn add_distinct(text: &str) -> String {
    text.replacen("SELECT ", "SELECT DISTINCT ", 1)
}

fn special_tag(lines: &[String]) -> &'static str {
    let all = lines.join("\n");
    if all.contains("nan") { "nan" } else if all.contains("-0") { "pm0" } else if all.contains(";;") { "nulls" } else { "plain" }
}

/// ORACLE-ONLY large streams (no case for the Lean model: its list memory is quadratic): `n` distinct tuples
/// followed by recurrences of early, middle and late ones; records(DISTINCT q) must be exactly the first occurrences
/// of records(q), computed here with a hash set on the rendered rows. Catches a DISTINCT memory that forgets
/// (is bounded, cleared, sampled) once it holds many tuples.
fn large_stream(run: &mut Run, rng: &mut Rng, n: usize, two_columns: bool) {
    use std::collections::HashSet;
    use std::fmt::Write;
    let mut content = String::with_capacity(n * 14 + 4096);
    let keys = ["a", "b", "c"];
    let mut nlines = 0usize;
    let mut push = |content: &mut String, i: usize| {
        // tuple i: v = i (and k cycling with i, so that both columns are needed to tell tuples apart)
        if two_columns { content.push_str(keys[i % 3]); }
        let _ = write!(content, ";{};;;;\n", if two_columns { i / 3 } else { i });
    };
    for i in 0..n { push(&mut content, i); nlines += 1; }
    // recurrences: early, middle, late, and a random sample; then a few fresh tuples and the same recurrences again
    let mut again: Vec<usize> = vec![0, 1, 2, 99_999 % n, 100_000 % n, 100_001 % n, n / 2, n / 2 + 1, n - 2, n - 1];
    for _ in 0..40 { again.push(rng.below(n)); }
    for &i in &again { push(&mut content, i); nlines += 1; }
    for i in n..n + 5 { push(&mut content, i); nlines += 1; }
    for &i in &again { push(&mut content, i); nlines += 1; }
    let cols = if two_columns { "k, v" } else { "v" };
    let defs = format!("{}\n{}", MAIN_DEF, JOIN_DEF);
    let files = vec![content.into_bytes()];
    let desc = format!("large stream: {} distinct tuples ({}), then {} recurrences, 5 fresh tuples, the recurrences again; SELECT [DISTINCT] {} FROM t", n, if two_columns { "k cycling a,b,c with v = i/3" } else { "v = 0..n" }, again.len(), cols);
    let plain = match prepare(&defs, &format!("SELECT {} FROM t", cols)) { Ok(p) => p, Err(_) => return };
    let dist = match prepare(&defs, &format!("SELECT DISTINCT {} FROM t", cols)) { Ok(p) => p, Err(_) => return };
    let rp = run_files(&plain, &files);
    let rd = run_files(&dist, &files);
    run.oracle_checks += 1;
    run.count(&format!("large-stream:{}:{}", if two_columns { "2col" } else { "1col" }, n));
    if rp.status != "ok" || rd.status != "ok" || rp.printed.len() != nlines {
        run.fail(desc, "large-stream-run-fails", format!("status {} / {} records {} of {} lines", rp.status, rd.status, rp.printed.len(), nlines));
        return;
    }
    let mut seen: HashSet<&str> = HashSet::with_capacity(n + 16);
    let want: Vec<&str> = rp.printed.iter().map(|s| s.as_str()).filter(|s| seen.insert(*s)).collect();
    if rd.printed.len() != want.len() || rd.printed.iter().zip(want.iter()).any(|(a, b)| a != b) {
        let pos = rd.printed.iter().zip(want.iter()).position(|(a, b)| a != b).unwrap_or(want.len().min(rd.printed.len()));
        let class = if rd.printed.len() > want.len() { "distinct-duplicate-emitted:large-stream" } else if rd.printed.len() < want.len() { "distinct-row-lost:large-stream" } else { "distinct-other-row-or-order:large-stream" };
        run.fail(desc, class, format!("DISTINCT printed {} records, the first occurrences are {}; first difference at record {}: {:?} vs {:?}", rd.printed.len(), want.len(), pos, rd.printed.get(pos), want.get(pos)));
        return;
    }
    // COUNT(DISTINCT v): the number of distinct non-NULL values
    if !two_columns {
        let cd = match prepare(&defs, "SELECT COUNT(DISTINCT v) FROM t") { Ok(p) => p, Err(_) => return };
        let rc = run_files(&cd, &files);
        run.oracle_checks += 1;
        let got = rc.records().get(0).and_then(|r| r.rsplit(": ").next().and_then(|x| x.parse::<usize>().ok()));
        if rc.status != "ok" || got != Some(n + 5) {
            run.fail(desc, "count-distinct-wrong:large-stream", format!("COUNT(DISTINCT v) printed {:?} ({}), there are {} distinct values", rc.records(), rc.status, n + 5));
        }
    }
}

pub fn run(p: &Params) -> Run {
    let mut run = Run::new("C08");
    let mut rng = Rng::new(p.seed ^ 0x08);
    // large streams first (oracle only)
    let sizes: Vec<(usize, bool)> = if p.tier_thorough {
        vec![(100_001, false), (130_000, false), (200_003, true), (260_000, false), (524_288, false), (1_050_000, true)]
    } else {
        let extra = 100_001 + rng.below(60_000);
        vec![(extra, false), (262_150, true)]
    };
    for (n, two) in sizes { large_stream(&mut run, &mut rng, n, two); }
    let iterations = p.n(2000, 50_000);
    let jpath = crate::runq::tmp_file(b"");
    let jp = jpath.display().to_string();
    for it in 0..iterations {
        let sch = gen_schema(&mut rng);
        let aggregate = it % 2 == 1;
        // the statement without DISTINCT
        let (text, joined_q) = if aggregate {
            let mut t = if rng.chance(1, 2) { (*rng.pick(AGG_TEMPLATES)).to_owned() } else {
                gen_query(&mut rng, &sch, &QueryOpts { allow_limit: false, allow_distinct: false, allow_join: false, aggregate: Some(true) }, "").text
            };
            if !t.contains("HAVING") && rng.chance(1, 2) { t = format!("{} HAVING {}", t, rng.pick(HAVINGS)); }
            if rng.chance(1, 8) { t = format!("{} LIMIT {}", t, rng.below(4)); }
            (t, false)
        } else if rng.chance(2, 3) {
            let t = (*rng.pick(SELECT_TEMPLATES)).replace("@J", &jp);
            let j = t.contains("JOIN");
            (if rng.chance(1, 8) { format!("{} LIMIT {}", t, rng.below(5)) } else { t }, j)
        } else {
            let gq = gen_query(&mut rng, &sch, &QueryOpts { allow_limit: false, allow_distinct: false, allow_join: true, aggregate: Some(false) }, &jp);
            (gq.text, gq.joined)
        };
        let dtext = add_distinct(&text);
        let jlines: Vec<String> = (0..rng.below(8)).map(|_| gen_join_line(&mut rng)).collect();
        let joined = join_lines(&jlines);
        std::fs::write(&jpath, &joined).unwrap();
        let (plain, dist) = match (prepare(&sch.defs, &text), prepare(&sch.defs, &dtext)) {
            (Ok(a), Ok(b)) => (a, b),
            _ => { run.count("rejected"); continue; }
        };
        let lines = if text.contains("THEN v ELSE r") {
            // one output column that is INT on some rows and REAL on others, same numbers
            let n = rng.below(8);
            (0..n).map(|_| format!("{};{};{};{};x;", rng.pick(&["a", "b"]), rng.range(0, 3), rng.range(0, 2), rng.pick(&["0", "1", "2", "1.5", "-0.0"]))).collect()
        } else if rng.chance(3, 4) { gen_dup_lines(&mut rng) } else { let nl = rng.below(12); crate::c04::gen_input(&mut rng, nl, 40, false) };
        let cut = rng.below(lines.len() + 1);
        let files: Vec<Vec<u8>> = if rng.chance(1, 3) { vec![join_lines(&lines[..cut]), join_lines(&lines[cut..])] } else { vec![join_lines(&lines)] };
        let desc = format!("query={} joined={:?} input={:?} cut={}", dtext, jlines, lines, if files.len() > 1 { cut as i64 } else { -1 });
        let sp = special_tag(&lines);
        let kind = if aggregate { if text.contains("HAVING") { "agg-having" } else { "agg" } } else if joined_q { "join" } else { "sel" };
        let has_limit = text.contains("LIMIT");

        // batch runs: correspondence for both statements
        let rp = run_files(&plain, &files);
        let rd = run_files(&dist, &files);
        if let Some(case) = batch_case(&dist, &joined, &files, None) {
            let removed = rp.status == "ok" && rd.records().len() < rp.records().len();
            run.case_with_desc(case, rd.wire(), format!("{}:{}:{}:rm{}:f{}:l{}", kind, sp, rd.status, removed as u8, files.len(), has_limit as u8), desc.clone());
        }
        if it % 4 == 0 {
            if let Some(case) = batch_case(&plain, &joined, &files, None) {
                run.case_with_desc(case, rp.wire(), format!("{}:plain:{}", kind, rp.status), desc.replace("DISTINCT ", ""));
            }
        }
        if rd.status == "panic" {
            run.oracle_checks += 1;
            run.fail(desc.clone(), "panic:distinct", "batch run with DISTINCT panicked".to_owned());
            continue;
        }

        if !aggregate {
            // typed rows, engine level: DISTINCT q = first occurrences of q (LIMIT, if any, applies after DISTINCT)
            let (wp, sp_steps) = run_incremental(&plain_without_limit(&sch.defs, &text).unwrap_or_else(|| prepare(&sch.defs, &text).unwrap()), &lines);
            let (wd, sd_steps) = run_incremental(&dist, &lines);
            if let Some(case) = incr_case(&dist, &joined, &join_lines(&lines)) {
                if it % 3 == 0 {
                    run.case_with_desc(case, wd.clone(), format!("incr:{}:{}:{}", kind, sp, if wd.contains("err:") { "err" } else { "ok" }), format!("incremental {}", desc));
                }
            }
            if wp.contains("err:") || wp.contains("panic") { run.count("plain-fails"); continue; }
            run.oracle_checks += 1;
            if wd.contains("err:") || wd.contains("panic") {
                run.fail(desc.clone(), "distinct-run-fails", format!("the run without DISTINCT succeeds, with DISTINCT: {}", wd));
                continue;
            }
            let rows_p: Vec<Vec<Value>> = sp_steps.iter().flatten().flat_map(|(_, rows)| rows.clone()).collect();
            let mut rows_d: Vec<Vec<Value>> = Vec::new();
            for s in sd_steps.iter().flatten() { rows_d.extend(s.1.clone()); }
            let kept = first_occurrences(&rows_p);
            let mut expect: Vec<Vec<Value>> = kept.iter().map(|&i| rows_p[i].clone()).collect();
            if let Some(n) = limit_of(&text) { expect.truncate(n); }
            if show_rows(&rows_d) != show_rows(&expect) {
                let class = if is_d45(&rows_p, &rows_d, limit_of(&text)) { "D45:distinct-int-real-not-by-value" } else { classify(&rows_d, &expect) };
                run.fail(desc.clone(), class, format!("DISTINCT gives {:?}, first occurrences of the output without DISTINCT are {:?} (of {:?})", show_rows(&rows_d), show_rows(&expect), show_rows(&rows_p)));
                continue;
            }
            // the printed records of the batch run (memory across files)
            if rd.status == "ok" && rp.status == "ok" && !has_limit && rp.records().len() == rows_p.len() {
                let want: Vec<String> = kept.iter().map(|&i| rp.records()[i].clone()).collect();
                if rd.records() != want {
                    run.fail(desc.clone(), "distinct-batch-records-differ", format!("batch DISTINCT printed {:?}, expected {:?}", rd.records(), want));
                }
            }
        } else {
            // batch: the final table
            let tp = run_engine_batch(&sch.defs, &strip_limit(&text), &lines);
            let td = run_engine_batch(&sch.defs, &dtext, &lines);
            match (&tp, &td) {
                (RowsOutcome::Rows { rows: rows_p, .. }, RowsOutcome::Rows { rows: rows_d, .. }) => {
                    run.oracle_checks += 1;
                    let kept = first_occurrences(rows_p);
                    let mut expect: Vec<Vec<Value>> = kept.iter().map(|&i| rows_p[i].clone()).collect();
                    if let Some(n) = limit_of(&text) { expect.truncate(n); }
                    if show_rows(rows_d) != show_rows(&expect) {
                        let class = if is_d45(rows_p, rows_d, limit_of(&text)) { "D45:distinct-int-real-not-by-value".to_owned() } else { format!("agg-{}", classify(rows_d, &expect)) };
                        run.fail(desc.clone(), &class, format!("DISTINCT table {:?}, first occurrences of the table without DISTINCT are {:?} (of {:?})", show_rows(rows_d), show_rows(&expect), show_rows(rows_p)));
                        continue;
                    }
                    if rd.status == "ok" && rd.records().len() != expect.len() {
                        run.fail(desc.clone(), "agg-distinct-batch-records-differ", format!("batch DISTINCT printed {} records, expected {}", rd.records().len(), expect.len()));
                    }
                }
                (RowsOutcome::Rows { .. }, other) => {
                    run.oracle_checks += 1;
                    run.fail(desc.clone(), "agg-distinct-run-fails", format!("the run without DISTINCT succeeds, with DISTINCT: {:?}", other));
                }
                _ => { run.count("plain-fails"); }
            }
            // incremental: every result table separately (fresh memory per table), statements without LIMIT
            if !has_limit {
                let (wp, sp_steps) = run_incremental(&plain, &lines);
                let (wd, sd_steps) = run_incremental(&dist, &lines);
                if it % 3 == 1 {
                    if let Some(case) = incr_case(&dist, &joined, &join_lines(&lines)) {
                        run.case_with_desc(case, wd.clone(), format!("incr:{}:{}:{}", kind, sp, if wd.contains("err:") { "err" } else { "ok" }), format!("incremental {}", desc));
                    }
                }
                if !(wp.contains("err:") || wp.contains("panic")) {
                    if wd.contains("err:") || wd.contains("panic") || sd_steps.len() != sp_steps.len() {
                        run.oracle_checks += 1;
                        run.fail(desc.clone(), "agg-distinct-incremental-fails", format!("line-at-a-time without DISTINCT succeeds, with DISTINCT: {}", wd));
                    } else {
                        for (k, (a, b)) in sp_steps.iter().zip(sd_steps.iter()).enumerate() {
                            run.oracle_checks += 1;
                            let ok = match (a, b) {
                                (None, None) => true,
                                (Some((_, rows_p)), Some((_, rows_d))) => {
                                    let kept = first_occurrences(rows_p);
                                    let expect: Vec<Vec<Value>> = kept.iter().map(|&i| rows_p[i].clone()).collect();
                                    show_rows(rows_d) == show_rows(&expect)
                                }
                                _ => false,
                            };
                            if !ok {
                                run.fail(format!("{} k={}", desc, k + 1), "agg-distinct-table-differs-on-refresh", format!("after line {} the DISTINCT table is {:?}, the table without DISTINCT {:?}", k + 1, b.as_ref().map(|x| show_rows(&x.1)), a.as_ref().map(|x| show_rows(&x.1))));
                                break;
                            }
                        }
                    }
                }
            }
        }
    }
    let _ = std::fs::remove_file(jpath);
    run.notes.push("statements generated without DISTINCT (templates + generator; select, join, aggregates with/without HAVING, some with LIMIT) and run with and without DISTINCT over inputs drawn with repetition from a small pool of lines that differ in one column, only by NULL, by -0.0/0.0/nan spelling (recurrences after gaps), 1-2 files; oracle on the implementation's typed rows: DISTINCT q = first occurrences of q under the property's own value equality (batch, engine level, and every incremental result table separately)".to_owned());
    // the end-to-end stream: the same property seen from raw texts and raw file bytes (`e2e.rs`, Lean `Pipeline.runText`)
    crate::e2e::stream(&mut run, &mut Rng::new(p.seed ^ 0xe2e08), p.n(250, 3000), "distinct");
    run
}

fn limit_of(text: &str) -> Option<usize> {
    text.rfind(" LIMIT ").and_then(|i| text[i + 7..].trim().parse().ok())
}

fn strip_limit(text: &str) -> String {
    match text.rfind(" LIMIT ") { Some(i) => text[..i].to_owned(), None => text.to_owned() }
}

fn plain_without_limit(defs: &str, text: &str) -> Option<Prepared> {
    prepare(defs, &strip_limit(text)).ok()
}

fn classify(got: &[Vec<Value>], want: &[Vec<Value>]) -> &'static str {
    if got.len() > want.len() { "distinct-duplicate-emitted" } else if got.len() < want.len() { "distinct-row-lost" } else { "distinct-other-row-or-order" }
}
