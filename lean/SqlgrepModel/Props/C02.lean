import SqlgrepModel.Lemmas.ExtractJson
import SqlgrepModel.Lemmas.JsonDoc
import SqlgrepModel.Lemmas.JsonDocPath
/-
C02 — JSON-path extraction yields exactly the addressed JSON value, typed.

Model: `JsonAccess.getValue` / `fromLinear`, `convertFromJson`, the `Json` branch of `Extract.extractColumn`
and `ParsingInput.new` (`serde_json::from_str(line).unwrap_or(Null)` once per line iff the table has JSON columns),
mirroring /repo HEAD. The JSON tree is a parameter (`LineOracle.json`, `none` = not JSON): all theorems of the first sections
hold for every tree, every definition and every oracle answer; the last section starts from the BYTES of the line
(`Model/JsonDoc.lean` `docOfLine`: the RFC 8259 grammar of `Spec/JsonGrammar.lean` plus serde_json's number classification). Specification: `followPath` (the value reached by following
the path), `noCoercion` (the decision table) and `specColumn`.
-/
namespace Sqlgrep.Props.C02
open Sqlgrep Sqlgrep.Extract Sqlgrep.Lit

/-- **json_get_spec.** `get_value` returns the value reached by following the path step by step (object member by
name, array element by index); it is `none` iff some step is absent from the value reached so far. -/
theorem json_get_spec (a : JsonAccess) (j : Json) :
    a.getValue j = followPath a.steps j ∧
    (a.getValue j = none ↔
      ∃ (pre : List JsonStep) (s : JsonStep) (post : List JsonStep) (v : Json),
        a.steps = pre ++ s :: post ∧ followPath pre j = some v ∧ JsonAccess.step v s = none) := by
  refine ⟨getValue_eq_followPath a j, ?_⟩
  rw [getValue_eq_followPath a j]
  exact followPath_none_iff a.steps j

/-- paths compose: following `pre ++ post` is following `post` from where `pre` leads -/
theorem json_path_compose (pre post : List JsonStep) (j : Json) :
    followPath (pre ++ post) j = (followPath pre j).bind (followPath post) :=
  followPath_append pre post j

/-- one step: a field step works on objects only (first member of that name in the parsed tree, where serde_json
has already kept the last duplicate), an index step on arrays only -/
theorem json_step_spec (j : Json) (name : List Nat) (i : Nat) :
    (JsonAccess.step j (.field name) = match j with | .obj kvs => kvs.lookup name | _ => none) ∧
    (JsonAccess.step j (.index i) = match j with | .arr xs => xs[i]? | _ => none) := by
  constructor <;> cases j <;> rfl

/-- `from_linear` builds exactly the written path; it is total on non-empty part lists (the empty list is D30,
rejected by the parser) -/
theorem fromLinear_total_partial (parts : List JsonStep) :
    (parts = [] → JsonAccess.fromLinear parts = none) ∧
    (parts ≠ [] → ∃ a, JsonAccess.fromLinear parts = some a ∧ a.steps = parts) :=
  fromLinear_spec parts

/-- **json_convert_no_coercion.** `convert_from_json` is the decision table `noCoercion`. -/
theorem json_convert_no_coercion (ty : VType) (j : Json) : convertFromJson ty j = noCoercion ty j :=
  convertFromJson_eq_noCoercion ty j

/-- INT only from integers that fit 64 bits -/
theorem int_only_from_integers (j : Json) (n : Int) :
    convertFromJson .int j = .int n ↔
      (∃ u f, j = .num (.posInt u f) ∧ u ≤ 9223372036854775807 ∧ n = (u : Int)) ∨ (∃ f, j = .num (.negInt n f)) := by
  rw [convertFromJson_eq_noCoercion]
  cases j with
  | num x =>
    cases x with
    | posInt u f =>
      simp only [noCoercion]
      by_cases h : u ≤ 9223372036854775807
      · simp only [h, if_true, Value.int.injEq]
        constructor
        · intro hn; left; exact ⟨u, f, rfl, h, hn.symm⟩
        · rintro (⟨u', f', hj, _, hn⟩ | ⟨f', hj⟩)
          · injection hj with hj; injection hj with hu _; subst hu; exact hn.symm
          · injection hj with hj; cases hj
      · simp only [h, if_false, reduceCtorEq, false_iff, not_or, not_exists]
        constructor
        · rintro u' f' ⟨hj, hle, _⟩
          injection hj with hj; injection hj with hu _; subst hu; exact h hle
        · intro f' hj; injection hj with hj; cases hj
    | negInt m f =>
      simp only [noCoercion, Value.int.injEq]
      constructor
      · intro h; subst h; right; exact ⟨f, rfl⟩
      · rintro (⟨u', f', hj, _⟩ | ⟨f', hj⟩)
        · injection hj with hj; cases hj
        · injection hj with hj; injection hj with hm _
    | float b =>
      simp only [noCoercion, reduceCtorEq, false_iff, not_or, not_exists]
      constructor
      · rintro u f ⟨hj, _⟩; injection hj with hj; cases hj
      · intro f hj; injection hj with hj; cases hj
  | _ =>
    simp only [noCoercion, reduceCtorEq, false_iff, not_or, not_exists]
    constructor
    · rintro u f ⟨hj, _⟩; cases hj
    · intro f hj; cases hj

/-- a JSON value of another kind, a float, or an integer beyond `i64` is NULL for INT — never rounded or wrapped -/
theorem int_otherwise_null (j : Json) (h : ∀ n, convertFromJson .int j ≠ .int n) : convertFromJson .int j = .null := by
  rw [convertFromJson_eq_noCoercion] at *
  cases j with
  | num x =>
    cases x with
    | posInt u f =>
      simp only [noCoercion] at *
      split
      · rename_i hu; exact absurd (by simp [hu]) (h u)
      · rfl
    | negInt m f => exact absurd rfl (h m)
    | float b => rfl
  | _ => rfl

/-- REAL from any number (integers through `as f64`), from nothing else -/
theorem real_from_any_number (j : Json) :
    (∀ x, j = .num x → ∃ b, convertFromJson .real j = .real b) ∧
    ((∀ x, j ≠ .num x) → convertFromJson .real j = .null) := by
  constructor
  · intro x hx; subst hx; cases x <;> exact ⟨_, rfl⟩
  · intro h
    cases j with
    | num x => exact absurd rfl (h x)
    | _ => rfl

/-- TEXT only from strings, BOOLEAN only from booleans: everything else is NULL -/
theorem text_bool_only_from_own_kind (j : Json) :
    (convertFromJson .text j = match j with | .str s => .text s | _ => .null) ∧
    (convertFromJson .bool j = match j with | .bool b => .bool b | _ => .null) := by
  constructor <;> cases j <;> rfl

/-- arrays element-wise: a JSON array becomes an array of the element conversions (position and length kept,
wrong-typed elements NULL); anything else is NULL -/
theorem array_elementwise (e : VType) (j : Json) :
    convertFromJson (.array e) j =
      match j with
      | .arr xs => .array e (xs.map (convertFromJson e))
      | _ => .null := by
  cases j <;> rfl

/-- TIMESTAMP / INTERVAL columns get nothing from a JSON value without CONVERT -/
theorem timestamp_interval_null (j : Json) :
    convertFromJson .timestamp j = .null ∧ convertFromJson .interval j = .null := by
  constructor <;> cases j <;> rfl

/-- **json_column_spec.** The value of a JSON column: DEFAULT (NULL if none) iff the path is absent (also when the
line is not JSON: then the tree is `null`); otherwise, with CONVERT, the JSON string parsed as a literal of the
declared type (NULL for non-strings and non-literals), without CONVERT the un-coerced conversion; then TRIM. -/
theorem json_column_spec (o : Oracles) (c : Column) (inp : ParsingInput) (a : JsonAccess) (hp : c.parsing = .json a) :
    columnValue o c inp =
      applyTrim c (match followPath a.steps inp.json with
        | none => c.defaultValue
        | some v =>
          if c.options.convert then (match v with | .str s => literal o c.type s | _ => .null)
          else noCoercion c.type v) := by
  rw [columnValue_eq_spec]
  unfold specColumn
  rw [hp]
  simp only []
  cases followPath a.steps inp.json with
  | none => rfl
  | some v =>
    simp only []
    cases c.options.convert with
    | false => rfl
    | true => cases v <;> rfl

/-- DEFAULT is used only when the path is absent: when the path leads somewhere, the declared default is irrelevant -/
theorem json_default_only_when_absent (o : Oracles) (c : Column) (inp : ParsingInput) (a : JsonAccess) (v : Json)
    (hp : c.parsing = .json a) (hv : followPath a.steps inp.json = some v) (dflt : Option Value) :
    columnValue o c inp = columnValue o { c with options := { c.options with default := dflt } } inp := by
  rw [json_column_spec o c inp a hp,
    json_column_spec o { c with options := { c.options with default := dflt } } inp a hp, hv]
  rfl

/-- a line that is not JSON (or a table without JSON columns) presents the tree `null`, on which every path is absent -/
theorem not_json_is_absent (d : TableDef) (lo : LineOracle) (hn : lo.json = none) (a : JsonAccess) :
    followPath a.steps (ParsingInput.new d lo).json = none := by
  have hj : (ParsingInput.new d lo).json = .null := by
    unfold ParsingInput.new
    simp only [hn, Option.getD_none]
    split <;> rfl
  rw [hj]
  cases a with
  | last s => cases s <;> rfl
  | cons s inner => cases s <;> rfl

/-- **json_columns_independent.** A JSON column's value is a function of its own definition and the line's JSON
tree alone — not of any other column, pattern or pattern result; and position `i` of a kept row is column `i`. -/
theorem json_columns_independent (o : Oracles) (c : Column) (inp inp' : ParsingInput) (hj : c.isJson = true)
    (h : inp.json = inp'.json) : columnValue o c inp = columnValue o c inp' :=
  json_columnValue_congr o c inp inp' hj h

theorem row_is_columnwise (o : Oracles) (d : TableDef) (lo : LineOracle)
    (hkeep : ¬ cutBy o (ParsingInput.new d lo) d.columns) (i : Nat) (c : Column) (hc : d.columns[i]? = some c) :
    (extractRow o d lo)[i]? = some (columnValue o c (ParsingInput.new d lo)) := by
  unfold extractRow
  rw [extractWith_kept o d _ hkeep, List.getElem?_map, hc]
  rfl

/-- **regex_columns_unaffected.** The regex columns of a mixed table have the values they have in the same table
without its JSON columns: the regex side keeps working on the raw line. -/
theorem regex_columns_unaffected (o : Oracles) (d : TableDef) (lo : LineOracle) :
    (withoutJson d).columns.map (fun c => columnValue o c (ParsingInput.new (withoutJson d) lo)) =
    (d.columns.filter (fun c => !c.isJson)).map (fun c => columnValue o c (ParsingInput.new d lo)) := by
  unfold withoutJson
  simp only []
  apply List.map_congr_left
  intro c hc
  have hj : c.isJson = false := by
    have := (List.mem_filter.1 hc).2
    simpa using this
  exact (regex_column_same_input o d lo c hj).symm

/-! ### from the bytes of the line

Until `Model/JsonDoc.lean` the statements above started from a JSON tree that the harness shipped
(`LineOracle.json` = what `serde_json::from_str` answered). `JsonDoc.docOfLine` computes that tree from the bytes of
the line, so the statements can start from the bytes; "the line parsed as one JSON document" is RFC 8259
(`Spec/JsonGrammar.lean`) through `parseJson_iff`. -/

/-- the regex side does not look at the JSON tree of the line -/
theorem buildResults_json (lo : LineOracle) (j : Option Json) (ps : List Pattern) (acc : List (Text × RegexResult)) :
    buildResults { lo with json := j } ps acc = buildResults lo ps acc := by
  induction ps generalizing acc with
  | nil => rfl
  | cons p ps ih =>
    unfold buildResults
    cases p.mode with
    | captures =>
      simp only []
      cases lo.captures p.regex with
      | none => exact ih acc
      | some gs => exact ih _
    | split => exact ih _

/-- the parsing input of a line whose JSON tree is computed from its bytes -/
theorem input_from_text (d : TableDef) (lo : LineOracle) (hj : d.anyJson = true) :
    ParsingInput.new d (JsonDoc.withDoc lo) =
      { regex := (ParsingInput.new d lo).regex, json := (JsonDoc.docOfLine lo.line).getD .null } := by
  unfold ParsingInput.new JsonDoc.withDoc
  simp only [hj, if_true]
  rw [buildResults_json]

/-- **json_column_from_text.** The value of a JSON-path column of a line, from the BYTES of the line: it is `specColumn`
— the sentence of C02 written as a function — applied to `JsonDoc.docOfLine line`, the Lean computation of
`serde_json::from_str::<Value>(line)` (`Value::Null` when the line has no document). -/
theorem json_column_from_text (o : Oracles) (d : TableDef) (lo : LineOracle) (c : Column) (hj : d.anyJson = true) :
    columnValue o c (ParsingInput.new d (JsonDoc.withDoc lo)) =
      specColumn o c { regex := (ParsingInput.new d lo).regex, json := (JsonDoc.docOfLine lo.line).getD .null } := by
  rw [input_from_text d lo hj, columnValue_eq_spec]

/-- … spelled out: DEFAULT iff the path is absent from the document of the line, else the addressed value, typed -/
theorem json_column_from_text_spec (o : Oracles) (d : TableDef) (lo : LineOracle) (c : Column) (a : JsonAccess)
    (hj : d.anyJson = true) (hp : c.parsing = .json a) :
    columnValue o c (ParsingInput.new d (JsonDoc.withDoc lo)) =
      applyTrim c (match followPath a.steps ((JsonDoc.docOfLine lo.line).getD .null) with
        | none => c.defaultValue
        | some v =>
          if c.options.convert then (match v with | .str s => literal o c.type s | _ => .null)
          else noCoercion c.type v) := by
  rw [input_from_text d lo hj, json_column_spec o c _ a hp]

/-- **the document of a line is the RFC 8259 reading of its bytes**: when a JSON column found a value `v` at its path,
the bytes of the line are the UTF-8 encoding of a `JSON-text` of RFC 8259 (`JsonTextD`, the grammar with denotation of
`Spec/JsonGrammar.lean`; `parseJson_iff` makes the parser that produced the tree sound and complete for it), the tree
the path was followed through is serde_json's classification (`JsonDoc.toJson`) of a tree `l` denoting the text's
value, nested no deeper than serde_json's limit. -/
theorem json_value_comes_from_rfc8259_text (lo : LineOracle) (a : JsonAccess) (v : Json)
    (hv : followPath a.steps ((JsonDoc.docOfLine lo.line).getD .null) = some v) :
    ∃ cs l j, Utf8.decode lo.line = some cs ∧ JsonGrammar.JsonTextD cs l.erase ∧ l.depth ≤ JsonDoc.maxDepth ∧
      JsonDoc.toJson l = some j ∧ followPath a.steps j = some v := by
  cases hd : JsonDoc.docOfLine lo.line with
  | none =>
    rw [hd] at hv
    have : followPath a.steps (Option.getD none Json.null) = none := by
      cases a with
      | last s => cases s <;> rfl
      | cons s inner => cases s <;> rfl
    rw [this] at hv; cases hv
  | some j =>
    rw [hd] at hv
    obtain ⟨cs, l, h1, h2, h3, h4⟩ := JsonDoc.docOfLine_rfc8259 lo.line j hd
    exact ⟨cs, l, j, h1, h2, h3, h4, hv⟩

/-- a line that is not UTF-8, or whose text is not a `JSON-text` of RFC 8259, gives every JSON column its DEFAULT -/
theorem not_rfc8259_line_is_default (o : Oracles) (d : TableDef) (lo : LineOracle) (c : Column) (a : JsonAccess)
    (hj : d.anyJson = true) (hp : c.parsing = .json a)
    (hn : Utf8.decode lo.line = none ∨ ∃ cs, Utf8.decode lo.line = some cs ∧ ¬ ∃ x, JsonGrammar.JsonTextD cs x) :
    columnValue o c (ParsingInput.new d (JsonDoc.withDoc lo)) = applyTrim c c.defaultValue := by
  have hdoc : JsonDoc.docOfLine lo.line = none := by
    rcases hn with h | ⟨cs, h1, h2⟩
    · exact JsonDoc.not_utf8_not_json _ h
    · exact JsonDoc.not_rfc8259_not_json _ cs h1 h2
  rw [json_column_from_text_spec o d lo c a hj hp, hdoc]
  have : followPath a.steps (Option.getD none Json.null) = none := by
    cases a with
    | last s => cases s <;> rfl
    | cons s inner => cases s <;> rfl
  rw [this]

/-- `noCoercion .real` of a number node is the number's REAL (`as_f64`) -/
theorem real_of_number (n : JNum) (b : Nat) (h : (Json.num n).asF64 = some b) : noCoercion .real (.num n) = .real b := by
  cases n <;> (simp only [Json.asF64, Option.some.injEq] at h; subst h; rfl)

theorem applyTrim_real (c : Column) (b : Nat) : applyTrim c (.real b) = .real b := by
  unfold applyTrim; split <;> rfl

/-- **json_real_is_nearest.** A REAL column fed from a JSON number holds THE nearest REAL to the decimal number the
RFC 8259 grammar gives the number's text. Precisely: if the line has a document and the column's path leads to a number in
it, then the bytes of the line are the UTF-8 of a `JSON-text` (`JsonTextD cs l.erase`), the number is one of the
text's `number` literals `lex` whose denotation by the grammar is the decimal `dec = mant · 10^exp`
(`JsonGrammar.numValue`, the executable form of `NumD`), and the column's value is the REAL with the literal's sign whose
magnitude `r = decToF64 false |mant| exp` is finite and at least as close to `|mant| · 10^exp` as every REAL `y`
(distances in units of 2^-1074 over the common denominator, `DecFloat.decToF64_nearest`; a tie goes to the even
mantissa, `DecFloat.decToF64_tie_even`). Since /repo 265d413 (serde_json `float_roundtrip`); before it the value could
be one unit in the last place off (finding D66). -/
theorem json_real_is_nearest (o : Oracles) (d : TableDef) (lo : LineOracle) (c : Column) (a : JsonAccess)
    (hj : d.anyJson = true) (hp : c.parsing = .json a) (ht : c.type = .real) (hc : c.options.convert = false)
    (j : Json) (n : JNum) (hdoc : JsonDoc.docOfLine lo.line = some j) (hv : followPath a.steps j = some (.num n)) :
    ∃ (cs : List Char) (l : JsonDoc.LVal) (lex : List Char) (dec : JsonGrammar.Dec),
      Utf8.decode lo.line = some cs ∧ JsonGrammar.JsonTextD cs l.erase ∧ lex ∈ l.lexemes ∧
      JsonGrammar.numValue lex = some dec ∧
      columnValue o c (ParsingInput.new d (JsonDoc.withDoc lo)) = .real (JsonDoc.realOfDec (JsonDoc.lexNeg lex) dec) ∧
      JsonDoc.realOfDec (JsonDoc.lexNeg lex) dec % 2 ^ 63 = DecFloat.decToF64 false dec.mant.natAbs dec.exp ∧
      F64.isFinite (DecFloat.decToF64 false dec.mant.natAbs dec.exp) = true ∧
      ∀ y, DecFloat.adist (DecFloat.numOf dec.mant.natAbs dec.exp * DecFloat.unitScale)
              (F64.umag (DecFloat.decToF64 false dec.mant.natAbs dec.exp) * DecFloat.denOf dec.exp) ≤
           DecFloat.adist (DecFloat.numOf dec.mant.natAbs dec.exp * DecFloat.unitScale) (F64.umag y * DecFloat.denOf dec.exp) := by
  obtain ⟨cs, l, h1, h2, _, h4⟩ := JsonDoc.docOfLine_rfc8259 lo.line j hdoc
  have hn : n ∈ JsonDoc.nums j := JsonDoc.nums_followPath a.steps j (.num n) hv n (by simp [JsonDoc.nums])
  obtain ⟨lex, hl, hs⟩ := JsonDoc.toJson_nums l j h4 n hn
  obtain ⟨dec, hd, hf, hfin⟩ := JsonDoc.serdeNumber_spec lex n hs
  have hmag := JsonDoc.realOfDec_mag (JsonDoc.lexNeg lex) dec
  have hne : DecFloat.decToF64 false dec.mant.natAbs dec.exp ≠ DecFloat.infBits := by rw [← hmag]; exact hfin
  have near := fun y => DecFloat.decToF64_nearest dec.mant.natAbs dec.exp y hne
  refine ⟨cs, l, lex, dec, h1, h2, hl, hd, ?_, hmag, (near 0).1, fun y => (near y).2⟩
  rw [json_column_from_text_spec o d lo c a hj hp, hdoc]
  simp only [Option.getD_some, hv, hc, ht]
  rw [real_of_number n _ hf]
  simp only [Bool.false_eq_true, if_false]
  rw [applyTrim_real]

/-! ### which NUMBER a JSON number literal becomes ("INT only from integers within 64 bits, REAL from any number")

The statements above take the number node as serde_json classified it. These start from the LITERAL: a text `lex`
that the RFC 8259 grammar derives from `number` with the denotation `d = mant · 10^exp` (`JsonGrammar.NumD lex d`;
`C17Json.isJsonNumber_exact`: `numValue` decides it), and say what `JsonDoc.serdeNumber` — the function `docOfLine`
executes for every number of a line — makes of it, and what an INT / REAL column then holds. -/

open JsonGrammar in
/-- **number_literal_real (M1 a, L1).** For EVERY number literal — integer literals of any length, fractions,
exponents — read as REAL (`as_f64`, which is what a REAL column takes):
* if the magnitude `|mant| · 10^exp` rounds to infinity the literal is no number at all (serde_json's
  `NumberOutOfRange`; the whole line is then not JSON: `out_of_range_literal_line_is_default`);
* otherwise the REAL is the nearest REAL of the literal's exact decimal value, `JsonDoc.nearestReal d`
  (`nearestReal_is_nearest`), for every literal but the zeros written with a minus — `-0`, `-0.0`, `-0e3` —, whose REAL
  is `-0.0`: the sign of a zero is the sign of the text (the denotation `⟨0, e⟩` has none). -/
theorem number_literal_real {lex : List Char} {d : Dec} (h : NumD lex d) :
    (DecFloat.decToF64 false d.mant.natAbs d.exp = DecFloat.infBits → JsonDoc.serdeNumber lex = none) ∧
    (DecFloat.decToF64 false d.mant.natAbs d.exp ≠ DecFloat.infBits →
      ∃ n, JsonDoc.serdeNumber lex = some n ∧
        (Json.num n).asF64 =
          some (if JsonDoc.lexNeg lex = true ∧ d.mant = 0 then DecFloat.signMask else JsonDoc.nearestReal d) ∧
        convertFromJson .real (.num n) =
          .real (if JsonDoc.lexNeg lex = true ∧ d.mant = 0 then DecFloat.signMask else JsonDoc.nearestReal d)) := by
  refine ⟨(JsonDoc.serdeNumber_none_iff h).2, fun hfin => ?_⟩
  cases hs : JsonDoc.serdeNumber lex with
  | none => exact absurd ((JsonDoc.serdeNumber_none_iff h).1 hs) hfin
  | some n =>
    refine ⟨n, rfl, ?_, ?_⟩
    · rw [JsonDoc.serdeNumber_asF64 h n hs, JsonDoc.litReal_eq h]
    · rw [JsonDoc.real_of_literal h n hs, JsonDoc.litReal_eq h]

/-- `nearestReal d` is THE nearest REAL: its sign bit is the sign of `d`, its magnitude is `decToF64` of `|d|`, and
when that is finite no REAL `y` is closer to `|mant| · 10^exp` (distances in units of 2^-1074 over the common
denominator; a tie goes to the even mantissa: `DecFloat.decToF64_tie_even`) -/
theorem nearestReal_is_nearest (d : JsonGrammar.Dec) :
    JsonDoc.nearestReal d = (if d.mant < 0 then DecFloat.signMask else 0) + DecFloat.decToF64 false d.mant.natAbs d.exp ∧
    (DecFloat.decToF64 false d.mant.natAbs d.exp ≠ DecFloat.infBits →
      F64.isFinite (DecFloat.decToF64 false d.mant.natAbs d.exp) = true ∧
      ∀ y, DecFloat.adist (DecFloat.numOf d.mant.natAbs d.exp * DecFloat.unitScale)
              (F64.umag (DecFloat.decToF64 false d.mant.natAbs d.exp) * DecFloat.denOf d.exp) ≤
           DecFloat.adist (DecFloat.numOf d.mant.natAbs d.exp * DecFloat.unitScale) (F64.umag y * DecFloat.denOf d.exp)) := by
  constructor
  · unfold JsonDoc.nearestReal
    by_cases hneg : d.mant < 0
    · simp only [hneg, decide_true, if_true]; exact DecFloat.decToF64_neg _ _
    · simp only [hneg, decide_false, if_false, Nat.zero_add]
  · intro hfin
    exact ⟨(DecFloat.decToF64_nearest _ _ 0 hfin).1, fun y => (DecFloat.decToF64_nearest _ _ y hfin).2⟩

open JsonGrammar in
/-- a literal is out of range exactly when its exact value is at least `(2^54 − 1) · 2^970 = 2^1024 − 2^970`, the
IEEE-754 overflow threshold (half a unit in the last place above the largest finite REAL) -/
theorem number_literal_out_of_range_iff {lex : List Char} {d : Dec} (h : NumD lex d) :
    JsonDoc.serdeNumber lex = none ↔
      (2 ^ 54 - 1) * DecFloat.topHalfUlp * DecFloat.denOf d.exp ≤ DecFloat.numOf d.mant.natAbs d.exp * DecFloat.unitScale := by
  rw [JsonDoc.serdeNumber_none_iff h, DecFloat.decToF64_overflow_iff]

open JsonGrammar in
/-- **number_literal_classification (M1 b).** serde_json's three kinds of number, from the literal:
* `PosInt(n)` exactly for an integer literal (no fraction, no exponent: `integer_literal_iff`) without a minus sign whose
  value `n ≤ u64::MAX`;
* `NegInt(n)` exactly for an integer literal of negative value `n ≥ i64::MIN`;
* `Float` for every other literal in range: a fraction or an exponent makes a float even when the value is integral
  (`1.0`, `1e2`), so does an integer literal above `u64::MAX` or below `i64::MIN`, and so does `-0`;
and an integer literal that fits `u64` is never out of range. -/
theorem number_literal_classification {lex : List Char} {d : Dec} (h : NumD lex d) :
    (∀ u f, JsonDoc.serdeNumber lex = some (.posInt u f) ↔
      JsonDoc.isIntLiteral lex = true ∧ JsonDoc.lexNeg lex = false ∧ d.mant = (u : Int) ∧ u ≤ JsonDoc.u64Max ∧
        f = JsonDoc.realOfDec false d) ∧
    (∀ m f, JsonDoc.serdeNumber lex = some (.negInt m f) ↔
      JsonDoc.isIntLiteral lex = true ∧ d.mant = m ∧ m < 0 ∧ -9223372036854775808 ≤ m ∧ f = JsonDoc.realOfDec true d) ∧
    (∀ b, JsonDoc.serdeNumber lex = some (.float b) ↔
      DecFloat.decToF64 false d.mant.natAbs d.exp ≠ DecFloat.infBits ∧ b = JsonDoc.realOfDec (JsonDoc.lexNeg lex) d ∧
        ¬ (JsonDoc.isIntLiteral lex = true ∧ JsonDoc.lexNeg lex = false ∧ d.mant ≤ (JsonDoc.u64Max : Int)) ∧
        ¬ (JsonDoc.isIntLiteral lex = true ∧ d.mant < 0 ∧ -9223372036854775808 ≤ d.mant)) := by
  have hs := JsonDoc.lexNeg_of_numD h
  have hcl := JsonDoc.serdeNumber_classify h
  -- an integer literal has exponent 0, so one that fits `u64` (or `i64`) is in range
  have hfit : JsonDoc.isIntLiteral lex = true → d.mant.natAbs ≤ JsonDoc.u64Max →
      DecFloat.decToF64 false d.mant.natAbs d.exp ≠ DecFloat.infBits := by
    intro hint hu
    obtain ⟨i, _, ⟨_, hd⟩ | ⟨_, hd⟩⟩ := JsonDoc.intLiteral_shape h hint <;>
      (have he : d.exp = 0 := by rw [hd]
       rw [he]; exact JsonDoc.u64_finite _ hu)
  refine ⟨fun u f => ?_, fun m f => ?_, fun b => ?_⟩
  · rw [hcl]
    constructor
    · intro hx
      split at hx
      · cases hx
      · split at hx
        · rename_i hc
          simp only [Option.some.injEq, JNum.posInt.injEq] at hx
          have h0 := hs.2 hc.2.1
          refine ⟨hc.1, hc.2.1, by omega, by have := hc.2.2; omega, ?_⟩
          rw [← hx.2, hc.2.1]
        · split at hx <;> cases hx
    · rintro ⟨hint, hneg, hm, hu, hf⟩
      have hu' : d.mant ≤ (JsonDoc.u64Max : Int) := by omega
      rw [if_neg (hfit hint (by omega)), if_pos ⟨hint, hneg, hu'⟩, hneg, hf]
      congr 2; omega
  · rw [hcl]
    constructor
    · intro hx
      split at hx
      · cases hx
      · split at hx
        · cases hx
        · split at hx
          · rename_i hc
            simp only [Option.some.injEq, JNum.negInt.injEq] at hx
            have hneg : JsonDoc.lexNeg lex = true := by
              cases hn : JsonDoc.lexNeg lex with
              | true => rfl
              | false => have := hs.2 hn; omega
            refine ⟨hc.1, hx.1, by omega, by omega, ?_⟩
            rw [← hx.2, hneg]
          · cases hx
    · rintro ⟨hint, hm, hlt, hb, hf⟩
      have hneg : JsonDoc.lexNeg lex = true := by
        cases hn : JsonDoc.lexNeg lex with
        | true => rfl
        | false => have := hs.2 hn; omega
      have hno : ¬ (JsonDoc.isIntLiteral lex = true ∧ JsonDoc.lexNeg lex = false ∧ d.mant ≤ (JsonDoc.u64Max : Int)) := by
        rintro ⟨_, hx, _⟩; rw [hneg] at hx; cases hx
      rw [if_neg (hfit hint (by unfold JsonDoc.u64Max; omega)), if_neg hno, if_pos ⟨hint, by omega, by omega⟩, hneg, hf, hm]
  · rw [hcl]
    constructor
    · intro hx
      split at hx
      · cases hx
      · rename_i hfin
        split at hx
        · cases hx
        · rename_i hc1
          split at hx
          · cases hx
          · rename_i hc2
            simp only [Option.some.injEq, JNum.float.injEq] at hx
            exact ⟨hfin, hx.symm, hc1, hc2⟩
    · rintro ⟨hfin, hb, hc1, hc2⟩
      rw [if_neg hfin, if_neg hc1, if_neg hc2, hb]

open JsonGrammar in
/-- **integer_literal_iff.** "integer literal" (`JsonDoc.isIntLiteral`) is: the `number` is an `int` of the grammar with an
optional minus in front — equivalently, the text contains no decimal point and no exponent marker —, and then it denotes
that integer with exponent 0. -/
theorem integer_literal_iff {lex : List Char} {d : Dec} (h : NumD lex d) :
    (JsonDoc.isIntLiteral lex = true ↔
      ∃ i, IntPart i ∧ ((lex = i ∧ d = ⟨digitsVal i, 0⟩) ∨ (lex = '-' :: i ∧ d = ⟨-(digitsVal i : Int), 0⟩))) ∧
    (JsonDoc.isIntLiteral lex = true ↔ ∀ c ∈ lex, c ≠ '.' ∧ c ≠ 'e' ∧ c ≠ 'E') := by
  refine ⟨⟨JsonDoc.intLiteral_shape h, ?_⟩, JsonDoc.intLiteral_iff_chars h⟩
  rintro ⟨i, hi, ⟨rfl, _⟩ | ⟨rfl, _⟩⟩
  · exact (JsonDoc.intLiteral_of_int hi).1
  · exact (JsonDoc.intLiteral_of_int hi).2.1

open JsonGrammar in
/-- **int_column_from_literal (M1 b, column level).** What `convert_from_json` (`as_i64`) gives an INT column for a number
literal in range: the integer `d.mant`, exactly, when the literal is an integer literal with
`i64::MIN ≤ d.mant ≤ i64::MAX` other than `-0`; NULL for every other number literal — `1.0` and `1e2` (floats for
serde_json although integral: the sentence's "INT only from integers" does not say whether `1.0` is one; the code says
it is not), `0.5`, the `u64` band `9223372036854775808 … 18446744073709551615`, anything longer, anything below
`i64::MIN` — never a rounded, truncated or wrapped value. The literal `-0` also gives NULL (serde_json keeps it as the
float `-0.0`), although `0` gives 0: observation N1 of DESIGN.md section 0 — the sentence's clauses are one-directional
("INT only from integers", "NULL when the JSON value has another type") and do not decide the literals whose VALUE is an
integer within 64 bits but which are written `-0`, `1.0`, `1e2`; this theorem states what the code does with them
(serde_json's classification), the property oracle of the harness accepts NULL or the INT of the same value there
(`oracle-accepts-either:int-from-integral-literal`), and the correspondence check reports any change of behaviour. -/
theorem int_column_from_literal {lex : List Char} {d : Dec} (h : NumD lex d) (n : JNum)
    (hn : JsonDoc.serdeNumber lex = some n) :
    convertFromJson .int (.num n) =
      if JsonDoc.isIntLiteral lex = true ∧ -9223372036854775808 ≤ d.mant ∧ d.mant ≤ 9223372036854775807 ∧
          ¬ (JsonDoc.lexNeg lex = true ∧ d.mant = 0) then .int d.mant
      else .null :=
  JsonDoc.int_of_literal h n hn

/-! #### … at the line level: from the bytes of the line to the column (M1 c) -/

/-- what a column of type `ty` (without CONVERT) holds when its path addresses the number literal `lex` denoting `d`:
REAL — the nearest REAL of `d` (`-0.0` for a zero written with a minus); INT — `d.mant` for an integer literal within
`i64` other than `-0`, else NULL; every other type — NULL ("NULL when the JSON value has another type") -/
def numberCell (ty : VType) (lex : List Char) (d : JsonGrammar.Dec) : Value :=
  match ty with
  | .real => .real (if JsonDoc.lexNeg lex = true ∧ d.mant = 0 then DecFloat.signMask else JsonDoc.nearestReal d)
  | .int =>
    if JsonDoc.isIntLiteral lex = true ∧ -9223372036854775808 ≤ d.mant ∧ d.mant ≤ 9223372036854775807 ∧
        ¬ (JsonDoc.lexNeg lex = true ∧ d.mant = 0) then .int d.mant
    else .null
  | _ => .null

theorem applyTrim_not_text (c : Column) (v : Value) (h : ∀ s, v ≠ .text s) : applyTrim c v = v := by
  unfold applyTrim
  split
  · split
    · rename_i s; exact absurd rfl (h s)
    · rfl
  · rfl

theorem numberCell_not_text (ty : VType) (lex : List Char) (d : JsonGrammar.Dec) : ∀ s, numberCell ty lex d ≠ .text s := by
  intro s
  unfold numberCell
  cases ty <;> simp only [ne_eq, reduceCtorEq, not_false_eq_true]
  split <;> simp

open JsonGrammar in
/-- the cell of a number node that is the reading of the literal `lex` -/
theorem number_cell (c : Column) {lex : List Char} {d : Dec} (h : NumD lex d) (n : JNum)
    (hn : JsonDoc.serdeNumber lex = some n) :
    applyTrim c (noCoercion c.type (.num n)) = numberCell c.type lex d := by
  have hv : noCoercion c.type (.num n) = numberCell c.type lex d := by
    rw [← convertFromJson_eq_noCoercion]
    cases hty : c.type with
    | real => simp only [numberCell]; rw [JsonDoc.real_of_literal h n hn, JsonDoc.litReal_eq h]
    | int => simp only [numberCell]; exact JsonDoc.int_of_literal h n hn
    | bool => rfl
    | text => rfl
    | array e => rfl
    | timestamp => rfl
    | interval => rfl
  rw [hv, applyTrim_not_text c _ (numberCell_not_text _ _ _)]

open JsonGrammar in
/-- **json_number_column_from_text (M1 c).** A JSON-path column (no CONVERT) whose path found a number in the document of
the line: the bytes of the line are the UTF-8 of a `JSON-text` of RFC 8259 with the tree `l` (`JsonTextD cs l.erase`);
following the column's path through that tree — object members by name, the LAST one of a repeated name, array
elements by index: `JsonDoc.followL`, on the grammar's denotation `JsonDoc.followV` — ends at a `number` literal `lex`
denoting `d`; and the column holds `numberCell`: the nearest REAL of `d` (sign of zero from the text) in a REAL column,
the integer `d.mant` in an INT column exactly for an integer literal within `i64` other than `-0`, NULL otherwise. -/
theorem json_number_column_from_text (o : Oracles) (d : TableDef) (lo : LineOracle) (c : Column) (a : JsonAccess)
    (hj : d.anyJson = true) (hp : c.parsing = .json a) (hc : c.options.convert = false)
    (j : Json) (n : JNum) (hdoc : JsonDoc.docOfLine lo.line = some j) (hv : followPath a.steps j = some (.num n)) :
    ∃ (cs : List Char) (l : JsonDoc.LVal) (lex : List Char) (dec : Dec),
      Utf8.decode lo.line = some cs ∧ JsonTextD cs l.erase ∧
      JsonDoc.followL a.steps l = some (.num lex) ∧ JsonDoc.followV a.steps l.erase = some (.num dec) ∧
      NumD lex dec ∧ JsonDoc.serdeNumber lex = some n ∧
      columnValue o c (ParsingInput.new d (JsonDoc.withDoc lo)) = numberCell c.type lex dec := by
  obtain ⟨cs, l, h1, h2, _, h4⟩ := (JsonDoc.docOfLine_some_iff lo.line j).1 hdoc
  obtain ⟨lex, hl, hs⟩ := (JsonDoc.followPath_num a.steps l j h4 n).1 hv
  obtain ⟨dec, hd, _, _⟩ := JsonDoc.serdeNumber_spec lex n hs
  have hD := numValue_sound hd
  refine ⟨cs, l, lex, dec, h1, JsonDoc.parseJsonL_grammar h2, hl, ?_, hD, hs, ?_⟩
  · rw [← JsonDoc.followL_erase, hl]
    simp only [Option.map_some, JsonDoc.LVal.erase, hd, Option.getD_some]
  · rw [json_column_from_text_spec o d lo c a hj hp, hdoc]
    simp only [Option.getD_some, hv, hc, Bool.false_eq_true, if_false]
    exact number_cell c hD n hs

open JsonGrammar in
/-- **json_number_column_from_bytes (M1 c, from the text).** The same from the other end: the bytes of the line decode to
the text `cs`, which the RFC 8259 parser reads as the tree `l` (`parseJsonL cs = some l`, i.e. `JsonTextD cs l.erase`:
`JsonDoc.parseJsonL_grammar` / `_complete`), nested within serde_json's limit. Then
* if some number literal of the text is out of the REAL range, the line is not JSON for sqlgrep and EVERY JSON column
  of it has its DEFAULT (`1e400` anywhere in the line voids the whole line — observation N2 of DESIGN.md section 0:
  `{"x":1,"y":1e400}` is a JSON-text of RFC 8259 in which `.x` is the integer 1, yet column `x` is NULL / DEFAULT. Decided
  reading of the sentence's "the line is not valid JSON": valid = accepted by the JSON parser the program uses, serde_json,
  with its documented limits — every number a finite REAL, at most 127 nested containers (`recursion limit 128`); the
  hypothesis `hdep` is the second limit, `nested_beyond_limit_line_is_default` its other side, `line_is_json_iff` the
  whole reading in one statement);
* otherwise a column whose path addresses a number literal `lex` of the text (denoting `dec`) holds
  `numberCell c.type lex dec`. -/
theorem json_number_column_from_bytes (o : Oracles) (d : TableDef) (lo : LineOracle) (c : Column) (a : JsonAccess)
    (hj : d.anyJson = true) (hp : c.parsing = .json a) (hc : c.options.convert = false)
    (cs : List Char) (l : JsonDoc.LVal) (hd : Utf8.decode lo.line = some cs) (hl : JsonDoc.parseJsonL cs = some l)
    (hdep : l.depth ≤ JsonDoc.maxDepth) :
    ((∃ lex ∈ l.lexemes, JsonDoc.serdeNumber lex = none) →
      columnValue o c (ParsingInput.new d (JsonDoc.withDoc lo)) = applyTrim c c.defaultValue) ∧
    ((∀ lex ∈ l.lexemes, JsonDoc.serdeNumber lex ≠ none) →
      ∀ lex dec, JsonDoc.followL a.steps l = some (.num lex) → NumD lex dec →
        columnValue o c (ParsingInput.new d (JsonDoc.withDoc lo)) = numberCell c.type lex dec) := by
  have habs : followPath a.steps (Option.getD none Json.null) = none := by
    cases a with
    | last s => cases s <;> rfl
    | cons s inner => cases s <;> rfl
  constructor
  · intro hov
    have hnone : JsonDoc.docOfLine lo.line = none := by
      unfold JsonDoc.docOfLine JsonDoc.docOfChars
      rw [hd]; simp only; rw [hl]; simp only; rw [if_pos hdep]
      exact (JsonDoc.toJson_none_iff l).2 hov
    rw [json_column_from_text_spec o d lo c a hj hp, hnone, habs]
  · intro hin lex dec hfl hD
    cases hjs : JsonDoc.toJson l with
    | none =>
      obtain ⟨lx, hlx, hnx⟩ := (JsonDoc.toJson_none_iff l).1 hjs
      exact absurd hnx (hin lx hlx)
    | some j =>
      have hdoc : JsonDoc.docOfLine lo.line = some j :=
        (JsonDoc.docOfLine_some_iff lo.line j).2 ⟨cs, l, hd, hl, hdep, hjs⟩
      have hmem : lex ∈ l.lexemes := JsonDoc.followL_lexeme a.steps l lex hfl
      cases hs : JsonDoc.serdeNumber lex with
      | none => exact absurd hs (hin lex hmem)
      | some n =>
        have hv : followPath a.steps j = some (.num n) := (JsonDoc.followPath_num a.steps l j hjs n).2 ⟨lex, hfl, hs⟩
        rw [json_column_from_text_spec o d lo c a hj hp, hdoc]
        simp only [Option.getD_some, hv, hc, Bool.false_eq_true, if_false]
        exact number_cell c hD n hs

/-- a line with a number literal out of range anywhere gives every JSON column its DEFAULT (corollary, spelled out).
Observation N2 (DESIGN.md section 0), not a finding: the text may well be a JSON-text of RFC 8259 in which this column's
path addresses a perfectly good value (`{"x":1,"y":1e400}`); "the line is not valid JSON" of the sentence is read as
"rejected by the JSON parser the program uses (serde_json) with its documented limits": a number must be a finite REAL
(`number_literal_out_of_range_iff`: magnitude below `2^1024 − 2^970`), containers nest at most 127 deep. -/
theorem out_of_range_literal_line_is_default (o : Oracles) (d : TableDef) (lo : LineOracle) (c : Column) (a : JsonAccess)
    (hj : d.anyJson = true) (hp : c.parsing = .json a)
    (cs : List Char) (l : JsonDoc.LVal) (hd : Utf8.decode lo.line = some cs) (hl : JsonDoc.parseJsonL cs = some l)
    (lex : List Char) (hmem : lex ∈ l.lexemes) (hov : JsonDoc.serdeNumber lex = none) :
    columnValue o c (ParsingInput.new d (JsonDoc.withDoc lo)) = applyTrim c c.defaultValue := by
  have hnone : JsonDoc.docOfLine lo.line = none := by
    unfold JsonDoc.docOfLine JsonDoc.docOfChars
    rw [hd]; simp only; rw [hl]; simp only
    split
    · exact (JsonDoc.toJson_none_iff l).2 ⟨lex, hmem, hov⟩
    · rfl
  rw [json_column_from_text_spec o d lo c a hj hp, hnone]
  have : followPath a.steps (Option.getD none Json.null) = none := by
    cases a with
    | last s => cases s <;> rfl
    | cons s inner => cases s <;> rfl
  rw [this]

/-- **nested_beyond_limit_line_is_default (observation N2, the nesting limit).** A line whose text is a JSON-text of
RFC 8259 (`parseJsonL cs = some l`) but nests more than 127 containers — arrays AND objects count, `LVal.depth` — is not
JSON for sqlgrep (serde_json's `recursion limit 128`: `remaining_depth` starts at 128 and must stay positive), and every
JSON column of it has its DEFAULT, also a column whose own path stays at the surface (`{"x":1,"y":[[[…128…]]]}`). -/
theorem nested_beyond_limit_line_is_default (o : Oracles) (d : TableDef) (lo : LineOracle) (c : Column) (a : JsonAccess)
    (hj : d.anyJson = true) (hp : c.parsing = .json a)
    (cs : List Char) (l : JsonDoc.LVal) (hd : Utf8.decode lo.line = some cs) (hl : JsonDoc.parseJsonL cs = some l)
    (hdeep : JsonDoc.maxDepth < l.depth) :
    columnValue o c (ParsingInput.new d (JsonDoc.withDoc lo)) = applyTrim c c.defaultValue := by
  have hnone : JsonDoc.docOfLine lo.line = none := by
    unfold JsonDoc.docOfLine JsonDoc.docOfChars
    rw [hd]; simp only; rw [hl]; simp only
    rw [if_neg (by omega)]
  rw [json_column_from_text_spec o d lo c a hj hp, hnone]
  have : followPath a.steps (Option.getD none Json.null) = none := by
    cases a with
    | last s => cases s <;> rfl
    | cons s inner => cases s <;> rfl
  rw [this]

/-- **line_is_json_iff (observation N2, the decided reading of "valid JSON").** A line is JSON for sqlgrep — has a
document, `docOfLine` — exactly when its bytes are UTF-8, the text is a JSON-text of RFC 8259 (`parseJsonL`, sound and
complete for `Spec/JsonGrammar.lean`), it nests at most 127 containers, and every number literal of it is in the REAL
range (`serdeNumber lex ≠ none`; by `number_literal_out_of_range_iff`: magnitude below `2^1024 − 2^970`). The last two
are serde_json's documented limits, not RFC 8259's: "valid JSON" in the sentence of C02 is read as "accepted by the JSON
parser the program uses, with its documented limits". -/
theorem line_is_json_iff (line : List Nat) :
    (JsonDoc.docOfLine line).isSome = true ↔
      ∃ cs l, Utf8.decode line = some cs ∧ JsonDoc.parseJsonL cs = some l ∧ l.depth ≤ JsonDoc.maxDepth ∧
        ∀ lex ∈ l.lexemes, JsonDoc.serdeNumber lex ≠ none := by
  constructor
  · intro h
    cases hj : JsonDoc.docOfLine line with
    | none => rw [hj] at h; cases h
    | some j =>
      obtain ⟨cs, l, h1, h2, h3, h4⟩ := (JsonDoc.docOfLine_some_iff line j).1 hj
      refine ⟨cs, l, h1, h2, h3, ?_⟩
      intro lex hmem hnone
      have := (JsonDoc.toJson_none_iff l).2 ⟨lex, hmem, hnone⟩
      rw [this] at h4; cases h4
  · rintro ⟨cs, l, h1, h2, h3, h4⟩
    cases hjs : JsonDoc.toJson l with
    | none =>
      obtain ⟨lx, hlx, hnx⟩ := (JsonDoc.toJson_none_iff l).1 hjs
      exact absurd hnx (h4 lx hlx)
    | some j =>
      rw [(JsonDoc.docOfLine_some_iff line j).2 ⟨cs, l, h1, h2, h3, hjs⟩]; rfl

/-! ### non-vacuity -/

/-- `{"a": {"b": [10, "x"]}, "n": 18446744073709551616}` as serde_json presents it -/
def exTree : Json :=
  .obj [([97], .obj [([98], .arr [.num (.posInt 10 0x4024000000000000), .str [120]])]),
        ([110], .num (.float 0x43f0000000000000))]

def pathAB0 : JsonAccess := .cons (.field [97]) (.cons (.field [98]) (.last (.index 0)))

example : JsonAccess.fromLinear [.field [97], .field [98], .index 0] = some pathAB0 := by decide
example : pathAB0.getValue exTree = some (.num (.posInt 10 0x4024000000000000)) := by rfl
example : (JsonAccess.cons (.field [97]) (.last (.field [122]))).getValue exTree = none := by rfl
example : convertFromJson .int (.num (.posInt 10 0x4024000000000000)) = .int 10 := by rfl
example : convertFromJson .int (.num (.float 0x43f0000000000000)) = .null := by rfl
example : convertFromJson .int (.num (.posInt 9223372036854775808 0x43e0000000000000)) = .null := by rfl
example : convertFromJson .real (.num (.posInt 10 0x4024000000000000)) = .real 0x4024000000000000 := by rfl
example : convertFromJson .text (.num (.posInt 10 0x4024000000000000)) = .null := by rfl
example : convertFromJson (.array .int) (.arr [.num (.posInt 10 0x4024000000000000), .str [120]]) = .array .int [.int 10, .null] := by rfl

def exCol : Column := { parsing := .json pathAB0, type := .int, options := { default := some (.int 7) } }
def exInp : ParsingInput := { regex := [], json := exTree }
example : columnValue { parseF64 := fun _ => none } exCol exInp = .int 10 := by rfl
example : columnValue { parseF64 := fun _ => none } exCol { regex := [], json := .null } = .int 7 := by rfl
example : followPath pathAB0.steps exInp.json = some (.num (.posInt 10 0x4024000000000000)) := by rfl


/-- from bytes: the line `{"a":{"b":[10,"x"]},"a":{"b":[7]}}` — a repeated key keeps the last value -/
def exLine : List Nat := "{\"a\":{\"b\":[10,\"x\"]}, \"a\" : {\"b\":[7, 1.5, -0, 1e400]}}".toUTF8.toList.map (·.toNat)
def exLine2 : List Nat := " {\"a\":{\"b\":[10,1.5,-0,18446744073709551616]}}\n".toUTF8.toList.map (·.toNat)
example : JsonDoc.docOfLine exLine = none := by decide +kernel                      -- `1e400` is out of range: not a document
example : ((JsonDoc.docOfLine exLine2).bind (followPath pathAB0.steps)).bind Json.asI64 = some 10 := by decide +kernel
example : ((JsonDoc.docOfLine exLine2).bind (followPath pathAB0.steps)).bind Json.asF64 = some 0x4024000000000000 := by decide +kernel
example : ((JsonDoc.docOfLine exLine2).bind (followPath [.field [97], .field [98], .index 2])).bind Json.asI64 = none := by decide +kernel   -- `-0` is the float -0.0
example : ((JsonDoc.docOfLine exLine2).bind (followPath [.field [97], .field [98], .index 2])).bind Json.asF64 = some 0x8000000000000000 := by decide +kernel
example : ((JsonDoc.docOfLine exLine2).bind (followPath [.field [97], .field [98], .index 3])).bind Json.asF64 = some 0x43f0000000000000 := by decide +kernel   -- above `u64::MAX`: a float
example : JsonDoc.docOfLine [0x7b, 0xff, 0x7d] = none := by decide +kernel           -- not UTF-8

/-- the two literals of finding D66: the JSON REAL is now `f64::from_str` of the literal (before /repo 265d413 serde_json
answered `…6d` and `0x0010000000000000`) -/
example : ((JsonDoc.docOfLine ("{\"x\":239.21e-27}".toUTF8.toList.map (·.toNat))).bind (followPath [.field [120]])).bind Json.asF64
    = some 0x3ad2820acce1ed6c := by decide +kernel
example : (JsonDoc.docOfLine ("2.2250738585072011e-308".toUTF8.toList.map (·.toNat))).bind Json.asF64 = some 0x000fffffffffffff := by decide +kernel

/-! #### number literals (M1, L1): the literals of the audit, evaluated by the kernel -/

section literals
open JsonGrammar JsonDoc

/-- what `serdeNumber` makes of a literal, flattened for comparison: kind, integer payload, REAL bits -/
def litView (s : String) : Option (String × Int × Nat) :=
  match serdeNumber s.toList with
  | some (.posInt u f) => some ("PosInt", (u : Int), f)
  | some (.negInt m f) => some ("NegInt", m, f)
  | some (.float b) => some ("Float", 0, b)
  | none => none

-- the denotations (hypothesis `NumD lex d` of every theorem of this section), by the complete recogniser
example : NumD "18446744073709551615".toList ⟨18446744073709551615, 0⟩ := numValue_sound (by decide +kernel)
example : NumD "-9223372036854775809".toList ⟨-9223372036854775809, 0⟩ := numValue_sound (by decide +kernel)
example : NumD "1e2".toList ⟨1, 2⟩ := numValue_sound (by decide +kernel)
example : NumD "1.0".toList ⟨10, -1⟩ := numValue_sound (by decide +kernel)
example : NumD "0.1".toList ⟨1, -1⟩ := numValue_sound (by decide +kernel)
example : NumD "-0".toList ⟨0, 0⟩ ∧ NumD "-0.0".toList ⟨0, -1⟩ := ⟨numValue_sound (by decide +kernel), numValue_sound (by decide +kernel)⟩
example : NumD "1e400".toList ⟨1, 400⟩ := numValue_sound (by decide +kernel)

-- integer literals: `u64::MAX` is a `PosInt` (REAL 2^64), one more is a float; `i64::MIN` is a `NegInt`, one less a float
example : litView "18446744073709551615" = some ("PosInt", 18446744073709551615, 0x43f0000000000000) := by decide +kernel
example : litView "18446744073709551616" = some ("Float", 0, 0x43f0000000000000) := by decide +kernel
example : litView "9223372036854775808" = some ("PosInt", 9223372036854775808, 0x43e0000000000000) := by decide +kernel
example : litView "9223372036854775807" = some ("PosInt", 9223372036854775807, 0x43e0000000000000) := by decide +kernel
example : litView "-9223372036854775808" = some ("NegInt", -9223372036854775808, 0xc3e0000000000000) := by decide +kernel
example : litView "-9223372036854775809" = some ("Float", 0, 0xc3e0000000000000) := by decide +kernel
-- a fraction or an exponent makes a float, integral value or not
example : litView "1e2" = some ("Float", 0, 0x4059000000000000) := by decide +kernel       -- 100.0
example : litView "1.0" = some ("Float", 0, 0x3ff0000000000000) := by decide +kernel
example : litView "0.1" = some ("Float", 0, 0x3fb999999999999a) := by decide +kernel
-- the sign of zero: `-0` and `-0.0` are the float -0.0, `0` is the integer 0, `0.0` the float +0.0
example : litView "-0" = some ("Float", 0, 0x8000000000000000) := by decide +kernel
example : litView "-0.0" = some ("Float", 0, 0x8000000000000000) := by decide +kernel
example : litView "0" = some ("PosInt", 0, 0) ∧ litView "0.0" = some ("Float", 0, 0) := by decide +kernel
-- out of range: no number; the largest finite REAL and the last literal below the overflow threshold are in range
example : litView "1e400" = none ∧ litView "1.7976931348623159e308" = none := by decide +kernel
example : litView "1.7976931348623157e308" = some ("Float", 0, 0x7fefffffffffffff)
    ∧ litView "1.7976931348623158e308" = some ("Float", 0, 0x7fefffffffffffff) := by decide +kernel
-- the integer-literal test
example : isIntLiteral "-12".toList = true ∧ isIntLiteral "1e2".toList = false ∧ isIntLiteral "1.0".toList = false := by decide

-- the cells (`numberCell`, the right-hand side of `json_number_column_from_text`), flattened for comparison
def cellView : Value → Option (String × Int)
  | .int n => some ("INT", n)
  | .real b => some ("REAL", (b : Int))
  | .null => some ("NULL", 0)
  | _ => none

example : cellView (numberCell .int "9223372036854775807".toList ⟨9223372036854775807, 0⟩) = some ("INT", 9223372036854775807) := by decide +kernel
example : cellView (numberCell .int "-9223372036854775808".toList ⟨-9223372036854775808, 0⟩) = some ("INT", -9223372036854775808) := by decide +kernel
example : cellView (numberCell .int "9223372036854775808".toList ⟨9223372036854775808, 0⟩) = some ("NULL", 0) := by decide +kernel
example : cellView (numberCell .int "18446744073709551615".toList ⟨18446744073709551615, 0⟩) = some ("NULL", 0) := by decide +kernel
example : cellView (numberCell .int "-9223372036854775809".toList ⟨-9223372036854775809, 0⟩) = some ("NULL", 0) := by decide +kernel
example : cellView (numberCell .int "1.0".toList ⟨10, -1⟩) = some ("NULL", 0)
    ∧ cellView (numberCell .int "1e2".toList ⟨1, 2⟩) = some ("NULL", 0) := by decide +kernel
example : cellView (numberCell .int "0".toList ⟨0, 0⟩) = some ("INT", 0)
    ∧ cellView (numberCell .int "-0".toList ⟨0, 0⟩) = some ("NULL", 0) := by decide +kernel   -- observation N1
example : cellView (numberCell .real "-0".toList ⟨0, 0⟩) = some ("REAL", 0x8000000000000000)
    ∧ cellView (numberCell .real "-0.0".toList ⟨0, -1⟩) = some ("REAL", 0x8000000000000000)
    ∧ cellView (numberCell .real "0.0".toList ⟨0, -1⟩) = some ("REAL", 0) := by decide +kernel
example : cellView (numberCell .real "0.1".toList ⟨1, -1⟩) = some ("REAL", 0x3fb999999999999a)
    ∧ cellView (numberCell .real "18446744073709551615".toList ⟨18446744073709551615, 0⟩) = some ("REAL", 0x43f0000000000000)
    ∧ cellView (numberCell .real "-9223372036854775809".toList ⟨-9223372036854775809, 0⟩) = some ("REAL", 0xc3e0000000000000) := by
  decide +kernel
example : cellView (numberCell .text "1".toList ⟨1, 0⟩) = some ("NULL", 0)
    ∧ cellView (numberCell .bool "1".toList ⟨1, 0⟩) = some ("NULL", 0) := by decide +kernel

/-- the line `{"a":[1.0,-0,18446744073709551615],"a":[1e2,-0.0,9223372036854775808,-9223372036854775809]}`: a repeated key -/
def exLine3 : List Nat :=
  "{\"a\":[1.0,-0,18446744073709551615],\"a\":[1e2,-0.0,9223372036854775808,-9223372036854775809]}".toUTF8.toList.map (·.toNat)

/-- the literal a path addresses in the text of `exLine3` -/
def litAt (steps : List JsonStep) : Option (List Char) :=
  match ((Utf8.decode exLine3).bind parseJsonL).bind (followL steps) with
  | some (.num lex) => some lex
  | _ => none

-- hypotheses of `json_number_column_from_bytes` on it: the text decodes, parses, every literal is in range, and the
-- path `a[0]` addresses the literal `1e2` of the LAST member named `a`
example : ((Utf8.decode exLine3).bind parseJsonL).isSome = true := by decide +kernel
example : (match (Utf8.decode exLine3).bind parseJsonL with
    | some l => decide (l.depth ≤ maxDepth) && l.lexemes.all (fun lex => (serdeNumber lex).isSome) | none => false) = true := by
  decide +kernel
example : litAt [.field [97], .index 0] = some "1e2".toList ∧ litAt [.field [97], .index 2] = some "9223372036854775808".toList
    ∧ litAt [.field [97], .index 3] = some "-9223372036854775809".toList ∧ litAt [.field [97], .index 4] = none := by decide +kernel
-- … and of `json_number_column_from_text`: the document has numbers there, with the values the theorems predict
example : ((docOfLine exLine3).bind (followPath [.field [97], .index 0])).bind Json.asI64 = none
    ∧ ((docOfLine exLine3).bind (followPath [.field [97], .index 0])).bind Json.asF64 = some 0x4059000000000000
    ∧ ((docOfLine exLine3).bind (followPath [.field [97], .index 1])).bind Json.asF64 = some 0x8000000000000000
    ∧ ((docOfLine exLine3).bind (followPath [.field [97], .index 2])).bind Json.asI64 = none
    ∧ ((docOfLine exLine3).bind (followPath [.field [97], .index 2])).bind Json.asF64 = some 0x43e0000000000000
    ∧ ((docOfLine exLine3).bind (followPath [.field [97], .index 3])).bind Json.asF64 = some 0xc3e0000000000000 := by
  decide +kernel
-- a literal out of range anywhere voids the line (`out_of_range_literal_line_is_default`)
example : docOfLine ("{\"a\":1,\"b\":[2e308]}".toUTF8.toList.map (·.toNat)) = none := by decide +kernel

/-- observation N2, the nesting limit: `{"x":1,"y":[[[…]]]}` with `k` arrays around nothing (total depth `k + 1`) and
`{"x":1,"y":{"a":{"a":…null…}}}` with `k` objects -/
def nestedArrays (k : Nat) : List Nat :=
  "{\"x\":1,\"y\":".toUTF8.toList.map (·.toNat) ++ List.replicate k 91 ++ List.replicate k 93 ++ [125]
def nestedObjects (k : Nat) : List Nat :=
  "{\"x\":1,\"y\":".toUTF8.toList.map (·.toNat) ++ (List.replicate k [123, 34, 97, 34, 58]).flatten ++ [110, 117, 108, 108] ++
    List.replicate k 125 ++ [125]

-- total depth 127 (126 inner containers): a document, `.x` is the integer 1 …
example : ((docOfLine (nestedArrays 126)).bind (followPath [.field [120]])).bind Json.asI64 = some 1 := by decide +kernel
example : ((docOfLine (nestedObjects 126)).bind (followPath [.field [120]])).bind Json.asI64 = some 1 := by decide +kernel
-- … total depth 128: RFC 8259 still derives the text (`parseJsonL`), serde_json's recursion limit rejects the line —
-- arrays and objects alike (`nested_beyond_limit_line_is_default`)
example : docOfLine (nestedArrays 127) = none ∧ docOfLine (nestedObjects 127) = none := by decide +kernel
example : (match (Utf8.decode (nestedArrays 127)).bind parseJsonL with | some l => l.depth | none => 0) = 128
    ∧ (match (Utf8.decode (nestedObjects 127)).bind parseJsonL with | some l => l.depth | none => 0) = 128 := by decide +kernel

end literals

end Sqlgrep.Props.C02
