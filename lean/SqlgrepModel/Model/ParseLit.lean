import SqlgrepModel.Model.Value
import SqlgrepModel.Model.Civil
/-
Literal syntax of `ValueType::parse` (`src/model.rs`): `i64::from_str`, `bool::from_str`, the
INTERVAL form `h:m:s` (chrono `TimeDelta::try_hours/try_minutes/try_seconds`, `checked_add`), the TIMESTAMP form `%Y-%m-%d %H:%M:%S` (chrono `NaiveDateTime::parse_from_str`),
`str::trim` / `trim_start` (Unicode `White_Space`), ASCII `to_lowercase`, and `create_timestamp`.
`f64::from_str` is an oracle (see `Extract.Oracles`).

TEXT is a list of UTF-8 bytes throughout.
-/
namespace Sqlgrep

abbrev Text := List Nat

namespace Lit

def isDigit (b : Nat) : Bool := decide (48 ≤ b) && decide (b ≤ 57)

/-- value of a digit string, most significant first (no validation) -/
def digitsVal (ds : List Nat) : Nat := ds.foldl (fun acc b => acc * 10 + (b - 48)) 0

/-- one or more ASCII digits → their value -/
def parseDigits (ds : List Nat) : Option Nat :=
  if ds.isEmpty then none else if ds.all isDigit then some (digitsVal ds) else none

def i64Min : Int := -9223372036854775808
def i64Max : Int := 9223372036854775807
def inI64 (n : Int) : Bool := decide (i64Min ≤ n) && decide (n ≤ i64Max)

/-- `i64::from_str`: optional single `+`/`-`, then at least one ASCII digit, nothing else; overflow is an error -/
def parseI64 (s : Text) : Option Int :=
  match s with
  | 45 :: ds =>
    match parseDigits ds with
    | some n => if inI64 (-(n : Int)) then some (-(n : Int)) else none
    | none => none
  | 43 :: ds =>
    match parseDigits ds with
    | some n => if inI64 (n : Int) then some (n : Int) else none
    | none => none
  | ds =>
    match parseDigits ds with
    | some n => if inI64 (n : Int) then some (n : Int) else none
    | none => none

/-- `bool::from_str`: exactly `true` / `false` -/
def parseBool (s : Text) : Option Bool :=
  if s = [116, 114, 117, 101] then some true
  else if s = [102, 97, 108, 115, 101] then some false
  else none

/-! ### whitespace (`char::is_whitespace` = Unicode `White_Space`, a fixed set of 25 code points) -/

/-- byte length of the whitespace character at the head of `s` (0 if there is none) -/
def wsPrefix (s : Text) : Nat :=
  match s with
  | b :: rest =>
    if (9 ≤ b && b ≤ 13) || b == 32 then 1
    else match b, rest with
      | 0xC2, c :: _ => if c == 0x85 || c == 0xA0 then 2 else 0
      | 0xE1, 0x9A :: 0x80 :: _ => 3
      | 0xE2, 0x80 :: c :: _ => if (0x80 ≤ c && c ≤ 0x8A) || c == 0xA8 || c == 0xA9 || c == 0xAF then 3 else 0
      | 0xE2, 0x81 :: 0x9F :: _ => 3
      | 0xE3, 0x80 :: 0x80 :: _ => 3
      | _, _ => 0
  | [] => 0

/-- byte length of the whitespace character at the end of the string whose *reversed* bytes are `r` -/
def wsSuffixRev (r : Text) : Nat :=
  match r with
  | [] => 0
  | b :: rest =>
    if (9 ≤ b && b ≤ 13) || b == 32 then 1
    else match rest with
      | 0xC2 :: _ => if b == 0x85 || b == 0xA0 then 2 else 0
      | 0x9A :: 0xE1 :: _ => if b == 0x80 then 3 else 0
      | 0x80 :: 0xE2 :: _ => if (0x80 ≤ b && b ≤ 0x8A) || b == 0xA8 || b == 0xA9 || b == 0xAF then 3 else 0
      | 0x81 :: 0xE2 :: _ => if b == 0x9F then 3 else 0
      | 0x80 :: 0xE3 :: _ => if b == 0x80 then 3 else 0
      | _ => 0

def trimStartFuel : Nat → Text → Text
  | 0, s => s
  | fuel + 1, s =>
    let k := wsPrefix s
    if k == 0 then s else trimStartFuel fuel (s.drop k)

/-- `str::trim_start` -/
def trimStart (s : Text) : Text := trimStartFuel s.length s

def trimEndRevFuel : Nat → Text → Text
  | 0, r => r
  | fuel + 1, r =>
    let k := wsSuffixRev r
    if k == 0 then r else trimEndRevFuel fuel (r.drop k)

/-- `str::trim_end` -/
def trimEnd (s : Text) : Text := (trimEndRevFuel s.length s.reverse).reverse

/-- `str::trim` -/
def trim (s : Text) : Text := trimEnd (trimStart s)

/-! ### ASCII lower-casing and month names (`data_model.rs`, TIMESTAMP part 1) -/

def isAscii (s : Text) : Bool := s.all (fun b => decide (b < 128))

def asciiLower (s : Text) : Text := s.map (fun b => if 65 ≤ b && b ≤ 90 then b + 32 else b)

/-- month names accepted at index 1 of a TIMESTAMP column (lower-cased text → month) -/
def monthTable : List (Text × Nat) :=
  [ ([106, 97, 110], 1),
    ([102, 101, 98], 2),
    ([109, 97, 114], 3),
    ([97, 112, 114], 4),
    ([109, 97, 121], 5),
    ([106, 117, 110], 6),
    ([106, 117, 110, 101], 6),
    ([106, 117, 108], 7),
    ([106, 117, 108, 121], 7),
    ([97, 117, 103], 8),
    ([115, 101, 112], 9),
    ([115, 101, 112, 116], 9),
    ([111, 99, 116], 10),
    ([110, 111, 118], 11),
    ([100, 101, 99], 12) ]

/-- `value.to_lowercase()` matched against the month names. A text with a non-ASCII character never
matches: the only non-ASCII character whose lower case is ASCII is U+212A (→ `k`), and no name contains `k`. -/
def monthOfName (s : Text) : Option Nat :=
  if isAscii s then monthTable.lookup (asciiLower s) else none

/-! ### INTERVAL `h:m:s` -/

/-- `str::split(":")` -/
def splitColon : Text → List Text
  | [] => [[]]
  | b :: rest =>
    if b == 58 then [] :: splitColon rest
    else match splitColon rest with
      | p :: ps => (b :: p) :: ps
      | [] => [[b]]

/-- largest number of whole seconds of a chrono `TimeDelta` (`i64::MAX / 1000`); with zero nanoseconds the
smallest is the negation -/
def maxDeltaSecs : Int := 9223372036854775

def deltaOk (secs : Int) : Bool := decide (-maxDeltaSecs ≤ secs) && decide (secs ≤ maxDeltaSecs)

/-- `ValueType::Interval.parse`: three `i64` literals; `try_hours(h)?.checked_add(&try_minutes(m)?)?
.checked_add(&try_seconds(s)?)?` — every constructor and every partial sum must stay in chrono's range -/
def parseInterval (s : Text) : Option Value :=
  match splitColon s with
  | [a, b, c] =>
    match parseI64 a, parseI64 b, parseI64 c with
    | some h, some m, some sec =>
      if deltaOk (h * 3600) && deltaOk (m * 60) && deltaOk (h * 3600 + m * 60) && deltaOk sec
          && deltaOk (h * 3600 + m * 60 + sec) then
        some (.interval ((h * 3600 + m * 60 + sec) * 1000000000))
      else none
    | _, _, _ => none
  | _ => none

/-! ### timestamps -/

/-- sqlgrep `create_timestamp(year, month, day, hour, minute, second, microsecond)` for arguments that
already have their machine types (`i32` year, `u32` others), in UTC -/
def mkTimestamp (y : Int) (mo d h mi s us : Nat) : Option Value :=
  if Civil.validDate y mo d && decide (us * 1000 < 4294967296) && Civil.validTimeNano h mi s (us * 1000) then
    some (.timestamp (Civil.daysFromCE y mo d) ((h * 3600 + mi * 60 + s : Nat) : Int) ((us * 1000 : Nat) : Int))
  else none

/-- chrono `scan::number(s, 1, max)`: up to `max` leading ASCII digits, at least one -/
def scanNumber (s : Text) (max : Nat) : Option (Text × Nat) :=
  let ds := (s.take max).takeWhile isDigit
  if ds.isEmpty then none else some (s.drop ds.length, digitsVal ds)

/-- `%Y`: `-`/`+` followed by any number of digits, or up to four digits without sign; must fit `i32` -/
def scanYear (s : Text) : Option (Text × Int) :=
  match s with
  | 45 :: rest =>
    match scanNumber rest rest.length with
    | some (r, n) => if n ≤ 2147483648 then some (r, -(n : Int)) else none
    | none => none
  | 43 :: rest =>
    match scanNumber rest rest.length with
    | some (r, n) => if n ≤ 2147483647 then some (r, (n : Int)) else none
    | none => none
  | _ =>
    match scanNumber s 4 with
    | some (r, n) => some (r, (n : Int))
    | none => none

def expectByte (b : Nat) (s : Text) : Option Text :=
  match s with
  | c :: rest => if c == b then some rest else none
  | [] => none

/-- two-digit field with a range check (`Parsed::set_month` etc.) -/
def scanField (s : Text) (lo hi : Nat) : Option (Text × Nat) :=
  match scanNumber (trimStart s) 2 with
  | some (r, n) => if lo ≤ n && n ≤ hi then some (r, n) else none
  | none => none

/-- `NaiveDateTime::parse_from_str(s, "%Y-%m-%d %H:%M:%S")` then `Local.from_local_datetime(..).unwrap()` in UTC.
Numeric items skip leading whitespace; the format's space matches any amount of whitespace (also none);
second 60 is the leap-second representation 59 + 10^9 ns; trailing characters are an error. -/
def parseTimestampLit (s : Text) : Option Value := do
  let (s, y) ← scanYear (trimStart s)
  let s ← expectByte 45 s
  let (s, mo) ← scanField s 1 12
  let s ← expectByte 45 s
  let (s, d) ← scanField s 1 31
  let s := trimStart s
  let (s, h) ← scanField s 0 23
  let s ← expectByte 58 s
  let (s, mi) ← scanField s 0 59
  let s ← expectByte 58 s
  let (s, sec) ← scanField s 0 60
  if !s.isEmpty then none
  else if !Civil.validDate y mo d then none
  else
    let (sec', nano) := if sec == 60 then (59, 1000000000) else (sec, 0)
    some (.timestamp (Civil.daysFromCE y mo d) ((h * 3600 + mi * 60 + sec' : Nat) : Int) (nano : Int))

end Lit
end Sqlgrep
