import SqlgrepModel.Lemmas.ParseRename
import SqlgrepModel.Model.ParseStmt
import SqlgrepModel.Lemmas.ParseJson
/-
CREATE TABLE texts and the letter case of type names, pattern modes and column options — PER OCCURRENCE.

`parse_create_table` reads an identifier token in two ways: as a NAME that goes into the tree verbatim (the table, a
pattern, a column, a JSON field) or through its lower-cased spelling only (`parse_type`: the column's type;
`parse_regex_mode`: `split` / `match`; `parse_define_column`: the options `trim` / `convert` / `microseconds`).
Which of the two is decided by the two tokens in front of the identifier (`caseFreeAfter`): the identifier follows `=`
(mode), follows `=> name` (type), or follows the type (`name TYPE` or `]`: option).

`caseVariantFrom p2 p1 ts₁ ts₂` : the token lists have the same length and locations and are equal token by token,
except that an identifier of `ts₁` in such a position may be replaced by ANY identifier with the same lower-cased
spelling — each occurrence on its own (`p2 p1` = the two tokens in front of the lists).

This file: a successful run of every function of the CREATE TABLE path on the first list is a successful run on the
second with the SAME value (`…_var`). The one call into the expression parser is `DEFAULT <primary>`, whose result
must be a literal value: `value_var` (a run of `parseExpr` / `parseUnary` / `parsePrimary` that returns a `.value`
node read brackets and one literal token, and so does the run on the variant).
-/
namespace Sqlgrep

def Tok.isIdent : Tok → Bool
  | .ident _ => true
  | _ => false

/-- the identifier behind the tokens `p2 p1` of a CREATE TABLE text is read lower-cased only: behind `=` (the pattern
mode), behind `=> name` (the column's type), behind `name TYPE` or `]` (the column option) -/
def caseFreeAfter (p2 p1 : Tok) : Bool :=
  decide (p1 = .op (.single '=')) || decide (p1 = .rsq) || (p1.isIdent && (decide (p2 = .rarrow) || p2.isIdent))

/-- two identifiers with the same lower-cased spelling -/
def Tok.sameLower : Tok → Tok → Bool
  | .ident i, .ident j => decide (lowerChars i = lowerChars j)
  | _, _ => false

/-- the same token, or — where `free` — an identifier respelled by a change of letter case -/
def Tok.caseVar (free : Bool) (a b : Tok) : Bool := decide (a = b) || (free && a.sameLower b)

/-- see the head of the file -/
def caseVariantFrom : Tok → Tok → List PTok → List PTok → Bool
  | _, _, [], [] => true
  | p2, p1, a :: as, b :: bs =>
    decide (a.loc = b.loc) && Tok.caseVar (caseFreeAfter p2 p1) a.tok b.tok && caseVariantFrom p1 a.tok as bs
  | _, _, _, _ => false

namespace Parse

/-- the parser states `s` (first vector) and `s₂` (variant) at the same index, behind the tokens `p2 p1` -/
def StV (p2 p1 : Tok) (s s₂ : PSt) : Prop := caseVariantFrom p2 p1 (s.cur :: s.rest) (s₂.cur :: s₂.rest) = true

/-- … behind whatever tokens -/
def RelV (s s₂ : PSt) : Prop := ∃ q2 q1, StV q2 q1 s s₂

theorem Tok.caseVar_cases {f : Bool} {a b : Tok} (h : Tok.caseVar f a b = true) :
    a = b ∨ (f = true ∧ ∃ i j, a = .ident i ∧ b = .ident j ∧ lowerChars i = lowerChars j) := by
  unfold Tok.caseVar at h
  simp only [Bool.or_eq_true, decide_eq_true_eq, Bool.and_eq_true] at h
  rcases h with h | ⟨hf, hl⟩
  · exact .inl h
  · right
    refine ⟨hf, ?_⟩
    cases a <;> cases b <;> simp [Tok.sameLower] at hl
    exact ⟨_, _, rfl, rfl, hl⟩

variable {p2 p1 : Tok} {s s₂ : PSt}

theorem StV.unfold (h : StV p2 p1 s s₂) :
    s.cur.loc = s₂.cur.loc ∧ Tok.caseVar (caseFreeAfter p2 p1) s.cur.tok s₂.cur.tok = true ∧
      caseVariantFrom p1 s.cur.tok s.rest s₂.rest = true := by
  simpa [StV, caseVariantFrom, Bool.and_eq_true, and_assoc] using h

theorem StV.rel (h : StV p2 p1 s s₂) : RelV s s₂ := ⟨_, _, h⟩

theorem StV.loc (h : StV p2 p1 s s₂) : s₂.cur.loc = s.cur.loc := h.unfold.1.symm

/-- a token that is no identifier is the same token in the variant -/
theorem StV.tok_nonident (h : StV p2 p1 s s₂) (hn : ∀ n, s.cur.tok ≠ .ident n) : s₂.cur.tok = s.cur.tok := by
  rcases Tok.caseVar_cases h.unfold.2.1 with e | ⟨_, i, _, hi, _⟩
  · exact e.symm
  · exact absurd hi (hn i)

/-- an identifier is an identifier with the same lower-cased spelling in the variant — the same identifier where the
position is not case-free -/
theorem StV.tok_ident (h : StV p2 p1 s s₂) {n : List Char} (hi : s.cur.tok = .ident n) :
    ∃ m, s₂.cur.tok = .ident m ∧ lowerChars m = lowerChars n ∧ (caseFreeAfter p2 p1 = false → m = n) := by
  rcases Tok.caseVar_cases h.unfold.2.1 with e | ⟨hf, i, j, hi', hj, hl⟩
  · exact ⟨n, by rw [← e, hi], rfl, fun _ => rfl⟩
  · rw [hi] at hi'
    cases hi'
    exact ⟨j, hj, hl.symm, fun hc => by rw [hc] at hf; cases hf⟩

/-- tests against a token that is no identifier come out alike -/
theorem StV.tok_eq (h : StV p2 p1 s s₂) {X : Tok} (hX : ∀ n, X ≠ .ident n) : (s₂.cur.tok = X) = (s.cur.tok = X) := by
  rcases Tok.caseVar_cases h.unfold.2.1 with e | ⟨_, i, j, hi, hj, _⟩
  · rw [e]
  · rw [hi, hj]
    apply propext
    constructor
    · intro e; exact absurd e.symm (hX _)
    · intro e; exact absurd e.symm (hX _)

theorem StV.step (h : StV p2 p1 s s₂) {u : Unit} {s' : PSt} (hn : next s = .ok u s') :
    ∃ s₂', next s₂ = .ok () s₂' ∧ StV p1 s.cur.tok s' s₂' := by
  have h3 := h.unfold.2.2
  unfold next at hn ⊢
  cases hr : s.rest with
  | nil => rw [hr] at hn; cases hn
  | cons t r =>
    rw [hr] at hn h3
    cases hn
    cases hr2 : s₂.rest with
    | nil => rw [hr2] at h3; simp [caseVariantFrom] at h3
    | cons t₂ r₂ =>
      rw [hr2] at h3
      exact ⟨⟨t₂, r₂⟩, rfl, h3⟩

theorem StV.rest_isEmpty (h : StV p2 p1 s s₂) : s₂.rest.isEmpty = s.rest.isEmpty := by
  have h3 := h.unfold.2.2
  cases hr : s.rest <;> cases hr2 : s₂.rest <;> rw [hr, hr2] at h3 <;> simp [caseVariantFrom] at h3 ⊢

theorem expectConsume_var (t : Tok) (k : PErrKind) (ht : ∀ n, t ≠ .ident n) (h : StV p2 p1 s s₂) {u : Unit} {s' : PSt}
    (hn : expectConsume t k s = .ok u s') : ∃ s₂', expectConsume t k s₂ = .ok () s₂' ∧ StV p1 t s' s₂' := by
  unfold expectConsume at hn ⊢
  simp only [h.tok_eq ht]
  by_cases hc : s.cur.tok = t
  · simp only [hc, if_true] at hn ⊢
    obtain ⟨s₂', h1, h2⟩ := h.step hn
    exact ⟨s₂', h1, hc ▸ h2⟩
  · simp only [hc, if_false, mkErr] at hn
    cases hn

/-- an identifier in a position that is not case-free: the same name -/
theorem consumeIdentifier_var (h : StV p2 p1 s s₂) (hc : caseFreeAfter p2 p1 = false) {n : List Char} {s' : PSt}
    (hn : consumeIdentifier s = .ok n s') : ∃ s₂', consumeIdentifier s₂ = .ok n s₂' ∧ StV p1 (.ident n) s' s₂' := by
  unfold consumeIdentifier at hn ⊢
  split at hn
  · rename_i i hi
    obtain ⟨m, hm, _, hmn⟩ := h.tok_ident hi
    rw [hmn hc] at hm
    rw [hm]
    cases hx : next s with
    | ok u s1 =>
      rw [hx] at hn
      simp only [PRes.bind, PRes.ok.injEq] at hn
      obtain ⟨rfl, rfl⟩ := hn
      obtain ⟨s₂', h1, h2⟩ := h.step hx
      exact ⟨s₂', by simp [h1, PRes.bind], hi ▸ h2⟩
    | err e s1 => rw [hx] at hn; cases hn
    | fuel => rw [hx] at hn; cases hn
  · simp only [mkErr] at hn; cases hn

/-- an identifier in any position: an identifier with the same lower-cased spelling -/
theorem consumeIdentifier_var' (h : StV p2 p1 s s₂) {n : List Char} {s' : PSt}
    (hn : consumeIdentifier s = .ok n s') :
    ∃ m s₂', consumeIdentifier s₂ = .ok m s₂' ∧ lowerChars m = lowerChars n ∧ StV p1 (.ident n) s' s₂' := by
  unfold consumeIdentifier at hn ⊢
  split at hn
  · rename_i i hi
    obtain ⟨m, hm, hl, _⟩ := h.tok_ident hi
    rw [hm]
    cases hx : next s with
    | ok u s1 =>
      rw [hx] at hn
      simp only [PRes.bind, PRes.ok.injEq] at hn
      obtain ⟨rfl, rfl⟩ := hn
      obtain ⟨s₂', h1, h2⟩ := h.step hx
      exact ⟨m, s₂', by simp [h1, PRes.bind], hl, hi ▸ h2⟩
    | err e s1 => rw [hx] at hn; cases hn
    | fuel => rw [hx] at hn; cases hn
  · simp only [mkErr] at hn; cases hn

theorem consumeString_var (h : StV p2 p1 s s₂) {n : List Char} {s' : PSt}
    (hn : consumeString s = .ok n s') : ∃ s₂', consumeString s₂ = .ok n s₂' ∧ StV p1 (.str n) s' s₂' := by
  unfold consumeString at hn ⊢
  split at hn
  · rename_i i hi
    rw [h.tok_nonident (by rw [hi]; simp), hi]
    cases hx : next s with
    | ok u s1 =>
      rw [hx] at hn
      simp only [PRes.bind, PRes.ok.injEq] at hn
      obtain ⟨rfl, rfl⟩ := hn
      obtain ⟨s₂', h1, h2⟩ := h.step hx
      exact ⟨s₂', by simp [h1, PRes.bind], hi ▸ h2⟩
    | err e s1 => rw [hx] at hn; cases hn
    | fuel => rw [hx] at hn; cases hn
  · simp only [mkErr] at hn; cases hn

theorem consumeInt_var (h : StV p2 p1 s s₂) {n : Int} {s' : PSt}
    (hn : consumeInt s = .ok n s') : ∃ s₂', consumeInt s₂ = .ok n s₂' ∧ StV p1 (.int n) s' s₂' := by
  unfold consumeInt at hn ⊢
  split at hn
  · rename_i i hi
    rw [h.tok_nonident (by rw [hi]; simp), hi]
    cases hx : next s with
    | ok u s1 =>
      rw [hx] at hn
      simp only [PRes.bind, PRes.ok.injEq] at hn
      obtain ⟨rfl, rfl⟩ := hn
      obtain ⟨s₂', h1, h2⟩ := h.step hx
      exact ⟨s₂', by simp [h1, PRes.bind], hi ▸ h2⟩
    | err e s1 => rw [hx] at hn; cases hn
    | fuel => rw [hx] at hn; cases hn
  · simp only [mkErr] at hn; cases hn

/-! ### the expression parser returns a literal value only for brackets around one literal token -/

end Parse

def PExpr.isValue : PExpr → Bool
  | .value _ _ => true
  | _ => false

namespace Parse

theorem combine_nonvalue {loc : Loc} {op : Tok} {l r e : PExpr} (h : combine loc op l r = .ok e) : e.isValue = false := by
  unfold combine at h
  repeat' split at h
  all_goals first
    | (cases h; rfl)
    | cases h

macro "vleaf" "[" ls:Lean.Parser.Tactic.grindParam,* "]" : tactic => `(tactic| first
  | exact okP_fuel
  | exact okP_err
  | exact okP_mkErr
  | grind (gen := 40) (ematch := 40) [PRes.OkP, PRes.bind, mkErr, PExpr.isValue, combine_nonvalue, $ls,*])

/-- `parse_binary_operator_rhs` started on a tree that is no literal returns no literal -/
theorem parseRhs_nonvalue (T : PrecTables) : ∀ (n : Nat) (prec : Int) (lhs : PExpr) (s : PSt), lhs.isValue = false →
    (parseRhs T n prec lhs s).OkP (fun e => e.isValue = false) := by
  intro n
  induction n with
  | zero => intro prec lhs s _; rw [parseRhs]; exact okP_fuel
  | succ n ih =>
    intro prec lhs s hl
    rw [parseRhs]
    psplit
    all_goals first
      | exact okP_fuel
      | exact okP_err
      | exact okP_mkErr
      | (apply okP_ok; exact hl)
      | (apply ih; first | rfl | (apply combine_nonvalue; assumption))

theorem parseCase_nonvalue (T : PrecTables) : ∀ (n : Nat) (loc : Loc) (cl : List (PExpr × PExpr)) (s : PSt),
    (parseCase T n loc cl s).OkP (fun e => e.isValue = false) := by
  intro n
  induction n with
  | zero => intro loc cl s; rw [parseCase]; exact okP_fuel
  | succ n ih =>
    intro loc cl s
    rw [parseCase]
    psplit
    all_goals first
      | exact okP_fuel
      | exact okP_err
      | exact okP_mkErr
      | (apply okP_ok; rfl)
      | apply ih

theorem tokenPrecedence_state {T : PrecTables} {s s1 : PSt} {tp : Int} (h : tokenPrecedence T s = .ok tp s1) : s1 = s := by
  unfold tokenPrecedence at h
  repeat' split at h
  all_goals first
    | (cases h; rfl)
    | (simp only [mkErr] at h; cases h)

/-- `parse_binary_operator_rhs` returns a literal only by returning its argument at once -/
theorem parseRhs_value_inv (T : PrecTables) (n : Nat) (prec : Int) (lhs : PExpr) (s : PSt) (e : PExpr) (s' : PSt)
    (hv : e.isValue = true) :
    parseRhs T n prec lhs s = .ok e s' → ∃ tp, tokenPrecedence T s = .ok tp s ∧ tp < prec ∧ e = lhs ∧ s' = s := by
  cases n with
  | zero => rw [parseRhs]; intro h; cases h
  | succ n =>
    rw [parseRhs]
    psplit
    all_goals first
      | (intro h; cases h; done)
      | (intro h
         rename_i s1 heq hlt
         cases h
         have hs := tokenPrecedence_state heq
         subst hs
         exact ⟨_, heq, hlt, rfl, rfl⟩)
      | (intro h
         exfalso
         have hx := parseRhs_nonvalue T _ _ _ _ (by first | rfl | (apply combine_nonvalue; assumption)) _ _ h
         rw [hx] at hv
         cases hv)

/-- `parse_unary_operator` returns a literal only from `parse_primary_expression` on a token that is no prefix operator -/
theorem parseUnary_value_inv (T : PrecTables) (n : Nat) (s : PSt) (e : PExpr) (s' : PSt) (hv : e.isValue = true)
    (h : parseUnary T (n + 1) s = .ok e s') :
    (∀ o, s.cur.tok ≠ .op o) ∧ s.cur.tok ≠ .kw .not ∧ parsePrimary T n s = .ok e s' := by
  rw [parseUnary] at h
  dsimp only at h
  split at h
  · exfalso
    simp only [Bool.not_true, Bool.false_eq_true, if_false] at h
    repeat' split at h
    all_goals first
      | (cases h; cases hv)
      | cases h
  · exfalso
    simp only [Bool.not_true, Bool.false_eq_true, if_false] at h
    repeat' split at h
    all_goals first
      | (cases h; cases hv)
      | cases h
  · rename_i h1 h2
    simp only [Bool.not_false, if_true] at h
    exact ⟨fun o ho => h1 o ho, fun ho => h2 ho, h⟩

theorem parseUnary_nonprefix (T : PrecTables) (n : Nat) (s : PSt) (h1 : ∀ o, s.cur.tok ≠ .op o) (h2 : s.cur.tok ≠ .kw .not) :
    parseUnary T (n + 1) s = parsePrimary T n s := by
  rw [parseUnary]
  dsimp only
  split
  · rename_i o ho; exact absurd ho (h1 o)
  · rename_i ho; exact absurd ho h2
  · simp only [Bool.not_false, if_true]

theorem parseRhs_return (T : PrecTables) (n : Nat) (prec : Int) (lhs : PExpr) (s : PSt) (tp : Int)
    (h : tokenPrecedence T s = .ok tp s) (hlt : tp < prec) : parseRhs T (n + 1) prec lhs s = .ok lhs s := by
  rw [parseRhs, h]
  simp only [hlt, if_true]

theorem tokenPrecedence_congr {T : PrecTables} {s s₂ : PSt} {tp : Int} (e : s₂.cur.tok = s.cur.tok)
    (hp : tokenPrecedence T s = .ok tp s) : tokenPrecedence T s₂ = .ok tp s₂ := by
  unfold tokenPrecedence at hp ⊢
  rw [e]
  cases hc : s.cur.tok <;> simp only [hc] at hp ⊢
  all_goals first
    | (simp only [PRes.ok.injEq, and_true] at hp ⊢; exact hp)
    | (rename_i o; cases hl : lookupOp T.binary o <;> simp only [hl, mkErr] at hp ⊢
       · cases hp
       · simp only [PRes.ok.injEq, and_true] at hp ⊢; exact hp)

theorem tokenPrecedence_var {T : PrecTables} (hT : NoIdentOps T) (h : StV p2 p1 s s₂) {tp : Int}
    (hp : tokenPrecedence T s = .ok tp s) : tokenPrecedence T s₂ = .ok tp s₂ := by
  rcases Tok.caseVar_cases h.unfold.2.1 with e | ⟨_, i, j, hi, hj, _⟩
  · exact tokenPrecedence_congr e.symm hp
  · unfold tokenPrecedence at hp ⊢
    rw [hi] at hp
    rw [hj]
    simp only [hT i] at hp
    simp only [hT j]
    simp only [PRes.ok.injEq, and_true] at hp ⊢
    exact hp

set_option hygiene false in
/-- the arm of a literal token in `parsePrimary` -/
macro "lit_arm" : tactic => `(tactic| (
  rename_i heq
  have hne : ∀ n, s.cur.tok ≠ .ident n := by rw [heq]; simp
  cases hx : Parse.next s with
  | ok u s1 =>
    rw [hx] at h
    simp only [PRes.bind, PRes.ok.injEq] at h
    obtain ⟨rfl, rfl⟩ := h
    obtain ⟨t1, g1, st1⟩ := hst.step hx
    rw [parsePrimary]
    dsimp only
    rw [hst.tok_nonident hne, heq]
    simp only [hst.loc, g1, PRes.bind]
    exact ⟨_, rfl, st1.rel⟩
  | err e1 s1 => rw [hx] at h; cases h
  | fuel => rw [hx] at h; cases h))

/-- **a run of the expression parser that returns a literal value** read brackets and one literal token — no
identifier — and the run on a case variant of the tokens returns the same literal -/
theorem value_var {T : PrecTables} (hT : NoIdentOps T) : ∀ n : Nat,
    (∀ (p2 p1 : Tok) (s s₂ : PSt) (e : PExpr) (s' : PSt), StV p2 p1 s s₂ → e.isValue = true →
      parseExpr T n s = .ok e s' → ∃ s₂', parseExpr T n s₂ = .ok e s₂' ∧ RelV s' s₂') ∧
    (∀ (p2 p1 : Tok) (s s₂ : PSt) (e : PExpr) (s' : PSt), StV p2 p1 s s₂ → e.isValue = true →
      parseUnary T n s = .ok e s' → ∃ s₂', parseUnary T n s₂ = .ok e s₂' ∧ RelV s' s₂') ∧
    (∀ (p2 p1 : Tok) (s s₂ : PSt) (e : PExpr) (s' : PSt), StV p2 p1 s s₂ → e.isValue = true →
      parsePrimary T n s = .ok e s' → ∃ s₂', parsePrimary T n s₂ = .ok e s₂' ∧ RelV s' s₂') := by
  intro n
  induction n with
  | zero =>
    refine ⟨?_, ?_, ?_⟩ <;> intro p2 p1 s s₂ e s' _ _ h
    · rw [parseExpr] at h; cases h
    · rw [parseUnary] at h; cases h
    · rw [parsePrimary] at h; cases h
  | succ n ih =>
    obtain ⟨ihE, ihU, ihP⟩ := ih
    refine ⟨?_, ?_, ?_⟩ <;> intro p2 p1 s s₂ e s' hst hv h
    · rw [parseExpr] at h
      split at h
      · rename_i lhs s1 heq
        cases n with
        | zero => rw [parseRhs] at h; cases h
        | succ m =>
          obtain ⟨tp, htp, hlt, rfl, rfl⟩ := parseRhs_value_inv T _ _ _ _ _ _ hv h
          obtain ⟨t1, g1, q2, q1, st1⟩ := ihU _ _ _ _ _ _ hst hv heq
          rw [parseExpr, g1]
          exact ⟨t1, parseRhs_return T m 0 e t1 tp (tokenPrecedence_var hT st1 htp) hlt, st1.rel⟩
      · cases h
      · cases h
    · obtain ⟨h1, h2, hp⟩ := parseUnary_value_inv T n s e s' hv h
      obtain ⟨t1, g1, r1⟩ := ihP _ _ _ _ _ _ hst hv hp
      refine ⟨t1, ?_, r1⟩
      rw [parseUnary_nonprefix T n s₂ ?_ ?_, g1]
      · intro o; rw [ne_eq, hst.tok_eq (X := .op o) (by simp)]; exact h1 o
      · rw [ne_eq, hst.tok_eq (X := .kw .not) (by simp)]; exact h2
    · rw [parsePrimary] at h
      dsimp only at h
      split at h
      · lit_arm
      · lit_arm
      · lit_arm
      · lit_arm
      · lit_arm
      · lit_arm
      · -- identifier: a column or a call
        exfalso
        repeat' split at h
        all_goals first
          | (cases h; cases hv)
          | cases h
          | (simp only [PRes.bind] at h; repeat' split at h; all_goals first | (cases h; cases hv) | cases h)
      · -- `(`
        rename_i heq
        have hne : ∀ n, s.cur.tok ≠ .ident n := by rw [heq]; simp
        split at h
        · cases h
        · cases h
        · rename_i u s1 hx
          split at h
          · cases h
          · exfalso
            repeat' split at h
            all_goals cases h
          · rename_i ex s2 hE
            split at h
            · exfalso
              repeat' split at h
              all_goals first
                | (cases h; cases hv)
                | cases h
            · rename_i hcomma
              split at h
              · cases h
              · cases h
              · rename_i u3 s3 hrp
                cases h
                obtain ⟨t1, g1, st1⟩ := hst.step hx
                obtain ⟨t2, g2, q2, q1, st2⟩ := ihE _ _ _ _ _ _ st1 hv hE
                obtain ⟨t3, g3, st3⟩ := expectConsume_var .rp _ (by simp) st2 hrp
                rw [parsePrimary]
                dsimp only
                rw [hst.tok_nonident hne, heq]
                simp only [g1, g2, st2.tok_eq (X := .comma) (by simp), hcomma, if_false, g3]
                exact ⟨_, rfl, st3.rel⟩
      · -- EXTRACT: a call
        exfalso
        repeat' split at h
        all_goals first
          | (cases h; cases hv)
          | cases h
      · -- CASE
        exfalso
        split at h
        · cases h
        · cases h
        · have hx := parseCase_nonvalue T _ _ _ _ _ _ h
          rw [hx] at hv
          cases hv
      · simp only [mkErr] at h; cases h

end Parse
end Sqlgrep
