import SqlgrepModel.Lemmas.LexNear
/-
The excerpt of `extract_near` is a piece of the located line: consecutive words of a line are separated by exactly one
whitespace character, so "previous word, space, word, space, next word" is a contiguous part of the line in which the
separating whitespace characters are shown as spaces.
-/
set_option linter.unusedSimpArgs false
namespace Sqlgrep.Lex
open Sqlgrep

/-- `a` reads like `b`: equal, except that a whitespace character of `b` may be shown as a space -/
def SimChars (o : Oracles) : List Char → List Char → Prop
  | [], [] => True
  | x :: a, y :: b => (x = y ∨ (x = ' ' ∧ (o.info y).white = true)) ∧ SimChars o a b
  | _, _ => False

theorem SimChars.refl (o : Oracles) : ∀ a : List Char, SimChars o a a
  | [] => trivial
  | _ :: a => ⟨Or.inl rfl, SimChars.refl o a⟩

theorem SimChars.append (o : Oracles) : ∀ {a b c d : List Char}, SimChars o a b → SimChars o c d → SimChars o (a ++ c) (b ++ d)
  | [], [], _, _, _, h => h
  | _ :: a, _ :: b, _, _, h1, h2 => ⟨h1.1, SimChars.append o (a := a) (b := b) h1.2 h2⟩
  | [], _ :: _, _, _, h1, _ => h1.elim
  | _ :: _, [], _, _, h1, _ => h1.elim

/-- word `b` starts right after the single whitespace character that follows word `a` -/
def Link (o : Oracles) (line : List Char) (a b : Nat × Nat) : Prop :=
  b.1 = a.1 + a.2 + 1 ∧ ∃ c, line[a.1 + a.2]? = some c ∧ (o.info c).white = true

/-- invariant of the word fold after the prefix `pre` of the line (`words` most recent first) -/
structure LInv (o : Oracles) (line : List Char) (n : Nat) (w : WordSt) : Prop where
  idx : w.index = n
  cur : w.start + w.len = n
  links : ∀ j a b, w.words[j + 1]? = some a → w.words[j]? = some b → Link o line a b
  head : ∀ a, w.words[0]? = some a → Link o line a (w.start, w.len)

theorem wordStep_linv (o : Oracles) {line : List Char} {n : Nat} {w : WordSt} (c : Char) (hc : line[n]? = some c)
    (h : LInv o line n w) : LInv o line (n + 1) (wordStep o w c) := by
  unfold wordStep
  split
  · rename_i hw
    refine ⟨by simp [h.idx], by simp [h.idx], ?_, ?_⟩
    · intro j a b ha hb
      cases j with
      | zero =>
        simp only [List.getElem?_cons_zero, Option.some.injEq] at hb
        simp only [Nat.zero_add, List.getElem?_cons_succ] at ha
        subst hb
        exact h.head a ha
      | succ j =>
        simp only [List.getElem?_cons_succ] at ha hb
        exact h.links j a b ha hb
    · intro a ha
      simp only [List.getElem?_cons_zero, Option.some.injEq] at ha
      subst ha
      refine ⟨by simp only; have := h.cur; have := h.idx; omega, c, ?_, hw⟩
      simp only
      rw [h.cur]; exact hc
  · refine ⟨by simp [h.idx], by have := h.cur; simp only; omega, h.links, ?_⟩
    intro a ha
    have := h.head a ha
    exact ⟨this.1, this.2⟩

theorem foldl_linv (o : Oracles) (line : List Char) : ∀ (rest pre : List Char) (w : WordSt), line = pre ++ rest →
    LInv o line pre.length w → LInv o line line.length (rest.foldl (wordStep o) w) := by
  intro rest
  induction rest with
  | nil => intro pre w hl h; simpa [hl] using h
  | cons c rest ih =>
    intro pre w hl h
    have hc : line[pre.length]? = some c := by rw [hl]; simp
    have := ih (pre ++ [c]) (wordStep o w c) (by simp [hl]) (by simpa using wordStep_linv o c hc h)
    simpa using this

def wordList (w : WordSt) : List (Nat × Nat) := if w.len > 0 then (w.start, w.len) :: w.words else w.words

theorem wordsOf_eq (o : Oracles) (line : List Char) : wordsOf o line = (wordList (line.foldl (wordStep o) {})).reverse := rfl

/-- consecutive words of a line are separated by exactly one whitespace character -/
theorem wordsOf_links (o : Oracles) (line : List Char) (j : Nat) (a b : Nat × Nat)
    (ha : (wordsOf o line)[j]? = some a) (hb : (wordsOf o line)[j + 1]? = some b) : Link o line a b := by
  have h := foldl_linv o line line [] {} rfl ⟨rfl, rfl, fun _ _ _ h => by simp at h, fun _ h => by simp at h⟩
  rw [wordsOf_eq] at ha hb
  generalize line.foldl (wordStep o) {} = w at h ha hb
  have hlinks : ∀ j a b, (wordList w)[j + 1]? = some a → (wordList w)[j]? = some b → Link o line a b := by
    intro j a b h1 h2
    unfold wordList at h1 h2
    by_cases hlen : w.len > 0
    · simp only [hlen, if_true] at h1 h2
      cases j with
      | zero =>
        simp only [List.getElem?_cons_zero, Option.some.injEq] at h2
        simp only [Nat.zero_add, List.getElem?_cons_succ] at h1
        subst h2
        exact h.head a h1
      | succ j =>
        simp only [List.getElem?_cons_succ] at h1 h2
        exact h.links j a b h1 h2
    · simp only [hlen, if_false] at h1 h2
      exact h.links j a b h1 h2
  generalize wordList w = L at ha hb hlinks
  have hj1 : j + 1 < L.length := by
    have := (List.getElem?_eq_some_iff.mp hb).1
    simpa using this
  rw [List.getElem?_reverse (by omega)] at ha
  rw [List.getElem?_reverse hj1] at hb
  have e : L.length - 1 - j = (L.length - 1 - (j + 1)) + 1 := by omega
  rw [e] at ha
  exact hlinks _ a b ha hb

/-- a slice followed by the next character and a following slice is one slice -/
theorem slice_join (line : List Char) (s a b : Nat) (c : Char) (hc : line[s + a]? = some c) :
    (line.drop s).take (a + 1 + b) = (line.drop s).take a ++ c :: (line.drop (s + a + 1)).take b := by
  rw [List.take_add, List.take_add_one, List.getElem?_drop, hc, List.drop_drop, Nat.add_assoc]
  simp


theorem SimChars.space (o : Oracles) {c : Char} (hc : (o.info c).white = true) {a b : List Char} (h : SimChars o a b) :
    SimChars o (' ' :: a) (c :: b) := ⟨Or.inr ⟨rfl, hc⟩, h⟩

/-- a part of the line: `off` characters in, `len` characters long -/
def IsPiece (o : Oracles) (line s : List Char) : Prop :=
  ∃ off len, off + len ≤ line.length ∧ SimChars o s ((line.drop off).take len)

/-- the excerpt around word `i` reads like a contiguous part of the line -/
theorem excerpt_piece (o : Oracles) (line : List Char) (i : Nat) (w : Nat × Nat) (s : List Char)
    (hw : (wordsOf o line)[i]? = some w) (he : excerpt line (wordsOf o line) i w = .text s) : IsPiece o line s := by
  have hb := wordsOf_bounds o line
  have hbw : w.1 + w.2 ≤ line.length := hb w (List.mem_of_getElem? hw)
  unfold excerpt at he
  rw [getSubstr_some line w hbw] at he
  -- the previous word, if any
  have hprev : (prevPart line (wordsOf o line) i = some [] ) ∨
      ∃ p, Link o line p w ∧ p.1 + p.2 ≤ line.length ∧
        prevPart line (wordsOf o line) i = some ((line.drop p.1).take p.2 ++ [' ']) := by
    unfold prevPart
    by_cases hi : i = 0
    · left; simp [hi]
    · simp only [hi, if_false]
      cases hp : (wordsOf o line)[i - 1]? with
      | none => left; rfl
      | some p =>
        right
        have hbp := hb p (List.mem_of_getElem? hp)
        refine ⟨p, wordsOf_links o line (i - 1) p w hp (by rw [show i - 1 + 1 = i by omega]; exact hw), hbp, ?_⟩
        simp [getSubstr_some line p hbp]
  have hnext : (nextPart line (wordsOf o line) i = some []) ∨
      ∃ n, Link o line w n ∧ n.1 + n.2 ≤ line.length ∧
        nextPart line (wordsOf o line) i = some (' ' :: (line.drop n.1).take n.2) := by
    unfold nextPart
    cases hn : (wordsOf o line)[i + 1]? with
    | none => left; rfl
    | some n =>
      right
      have hbn := hb n (List.mem_of_getElem? hn)
      exact ⟨n, wordsOf_links o line i w n hw hn, hbn, by simp [getSubstr_some line n hbn]⟩
  rcases hprev with hp | ⟨p, ⟨hp1, c1, hc1, hw1⟩, hbp, hp⟩ <;> rcases hnext with hn | ⟨n, ⟨hn1, c2, hc2, hw2⟩, hbn, hn⟩ <;>
    rw [hp, hn] at he <;> simp only [Near.text.injEq] at he <;> subst he
  · exact ⟨w.1, w.2, hbw, by simpa using SimChars.refl o _⟩
  · refine ⟨w.1, w.2 + 1 + n.2, by omega, ?_⟩
    rw [slice_join line w.1 w.2 n.2 c2 hc2, ← hn1]
    simpa using SimChars.append o (SimChars.refl o _) (SimChars.space o hw2 (SimChars.refl o _))
  · refine ⟨p.1, p.2 + 1 + w.2, by omega, ?_⟩
    rw [slice_join line p.1 p.2 w.2 c1 hc1, ← hp1]
    simpa using SimChars.append o (SimChars.refl o _) (SimChars.space o hw1 (SimChars.refl o _))
  · refine ⟨p.1, p.2 + 1 + (w.2 + 1 + n.2), by omega, ?_⟩
    rw [slice_join line p.1 p.2 _ c1 hc1, ← hp1, slice_join line w.1 w.2 n.2 c2 hc2, ← hn1]
    simpa using SimChars.append o (SimChars.refl o _)
      (SimChars.space o hw1 (SimChars.append o (SimChars.refl o _) (SimChars.space o hw2 (SimChars.refl o _))))

theorem nearFrom_piece (o : Oracles) (line : List Char) (col : Nat) (s : List Char) : ∀ (rest : List (Nat × Nat)) (i : Nat),
    (∀ k w, rest[k]? = some w → (wordsOf o line)[i + k]? = some w) →
    nearFrom line col (wordsOf o line) i rest = .text s → IsPiece o line s := by
  intro rest
  induction rest with
  | nil =>
    intro i _ h
    simp only [nearFrom, Near.text.injEq] at h
    subst h
    exact ⟨0, 0, Nat.zero_le _, by simp [SimChars]⟩
  | cons w rest ih =>
    intro i hidx h
    unfold nearFrom at h
    split at h
    · exact excerpt_piece o line i w s (by simpa using hidx 0 w rfl) h
    · exact ih (i + 1) (fun k x hx => by
        have := hidx (k + 1) x (by simpa using hx)
        rwa [show i + (k + 1) = i + 1 + k by omega] at this) h

/-- **the excerpt is a piece of the located line** (whitespace characters inside it shown as spaces) -/
theorem extractNear_piece (o : Oracles) (loc : Loc) (text line s : List Char) (hl : (lines text)[loc.line]? = some line)
    (h : extractNear o loc text = .text s) : IsPiece o line s := by
  unfold extractNear at h
  rw [hl] at h
  exact nearFrom_piece o line loc.column s _ 0 (fun k w hk => by simpa using hk) h

end Sqlgrep.Lex
