import SqlgrepModel.Model.Float
/-
`compare_int_float` (`/repo/src/execution/expression_execution.rs`) AS THE CODE COMPUTES IT.

    fn compare_int_float(x: i64, y: f64) -> Ordering {
        if y.is_nan() || y >= 9223372036854775808.0 { Ordering::Less }
        else if y < -9223372036854775808.0 { Ordering::Greater }
        else {
            let y_integer = y.trunc();
            match x.cmp(&(y_integer as i64)) {
                Ordering::Equal => 0.0.partial_cmp(&(y - y_integer)).unwrap_or(Ordering::Equal),
                ordering => ordering
            }
        }
    }

`F64.cmpIntReal` (`Model/Float.lean`) is the SPECIFICATION of this function (cross-multiplied exact integer
arithmetic: "compare `x` with the value of `y`"); `F64.compareIntFloatAlgo` below is the ALGORITHM, step by step on the
bit pattern of `y`:

* `y.is_nan()`                         `isNaN y`
* `y >= 2^63`, `y < -2^63`             IEEE comparisons with the two constants (`fge`, `flt`: false on NaN, else the
                                       sign-magnitude order `key` of the patterns, `-0.0 = 0.0`)
* `y.trunc()`                          `truncInt y`: the mantissa shifted by the exponent, fraction bits dropped
                                       (`m · 2^e` for `e ≥ 0`, `m / 2^-e` for `e < 0`), with the sign of `y`
* `y_integer as i64`                   `satI64`: Rust's float→int cast saturates at `i64::MIN` / `i64::MAX`
* `y - y_integer`                      `fracInt y`: the dropped fraction bits `m mod 2^-e` with the sign of `y`, in units of
                                       `2^e`. The floating-point subtraction is EXACT here (`y` and `trunc y` have the same
                                       sign and exponent range, the difference is a multiple of `ulp(y)` smaller than 1, i.e.
                                       a mantissa of fewer than 53 bits at an exponent ≥ -1074), so its sign — all that
                                       `0.0.partial_cmp(..)` reads — is the sign of the exact difference; the difference is
                                       never NaN, so `unwrap_or` never takes its default.
* `0.0.partial_cmp(&d)`                `compare 0 d` on the exact difference (`-0.0`/`0.0` cannot arise: an exact
                                       zero difference is `+0.0`)

`Lemmas/CompareIntFloat.lean` proves `compareIntFloatAlgo x y = cmpIntReal x y` for every i64 `x` and every bit
pattern `y`. The driver executes `compareIntFloatAlgo` for the `cmpir` cases of C16 (`Drivers/C16.lean`), which the
harness answers with the real `compare_values` — so it is the algorithm that is tied to the code, and the
specification that the theorems of `Props/C16.lean` are about is equal to it.
-/
namespace Sqlgrep
namespace F64

/-- the bit pattern of `9223372036854775808.0` = 2^63 -/
def two63 : Nat := 0x43E0000000000000
/-- the bit pattern of `-9223372036854775808.0` = -2^63 -/
def negTwo63 : Nat := 0xC3E0000000000000

/-- IEEE-754 `a >= b` on bit patterns: false when an operand is NaN, else numeric order (`key`) -/
def fge (a b : Nat) : Bool := !isNaN a && !isNaN b && decide (key b ≤ key a)
/-- IEEE-754 `a < b` on bit patterns -/
def flt (a b : Nat) : Bool := !isNaN a && !isNaN b && decide (key a < key b)

/-- magnitude of `f64::trunc` of a finite pattern: the mantissa shifted by the exponent, fraction bits dropped -/
def truncMag (y : Nat) : Nat :=
  if (mantExp y).2 ≥ 0 then (mantExp y).1 * 2 ^ (mantExp y).2.toNat else (mantExp y).1 / 2 ^ (-(mantExp y).2).toNat

/-- `f64::trunc` of a finite pattern, as an exact integer -/
def truncInt (y : Nat) : Int := if signBit y then -(truncMag y : Int) else (truncMag y : Int)

/-- `f as i64` for an integral `f`: saturating -/
def satI64 (t : Int) : Int := if t < -2 ^ 63 then -2 ^ 63 else if 2 ^ 63 - 1 < t then 2 ^ 63 - 1 else t

/-- the fraction bits `trunc` drops (in units of `2^e`, `e` the exponent of `mantExp`) -/
def fracMag (y : Nat) : Nat :=
  if (mantExp y).2 ≥ 0 then 0 else (mantExp y).1 % 2 ^ (-(mantExp y).2).toNat

/-- `y - y.trunc()` in units of `2^e`: the dropped fraction bits with the sign of `y` -/
def fracInt (y : Nat) : Int := if signBit y then -(fracMag y : Int) else (fracMag y : Int)

/-- **`compare_int_float` as the code computes it** -/
def compareIntFloatAlgo (x : Int) (y : Nat) : Ordering :=
  if isNaN y || fge y two63 then .lt
  else if flt y negTwo63 then .gt
  else
    -- `match x.cmp(..) { Equal => 0.0.partial_cmp(..), ordering => ordering }`
    (compare x (satI64 (truncInt y))).then (compare 0 (fracInt y))

end F64
end Sqlgrep
