import SqlgrepModel.Spec.Select
/-
List algebra of the select specification (`Spec/Select.lean`): first occurrences (`dedupFrom`, `dedupFirst`,
`dedupBlocks`), prefixes of a stream grouped into blocks (`takeBlocks`, `consumed`), and the insensitivity of
all of them to empty blocks (lines that contribute no row).
-/
namespace Sqlgrep.Spec.Select
open Sqlgrep

variable {α : Type}

/-! ### first occurrences -/

@[simp] theorem dedupFrom_nil (same : α → α → Bool) (seen : List α) : dedupFrom same seen [] = [] := rfl

theorem dedupFrom_append (same : α → α → Bool) (seen a b : List α) :
    dedupFrom same seen (a ++ b) =
      dedupFrom same seen a ++ dedupFrom same ((dedupFrom same seen a).reverse ++ seen) b := by
  induction a generalizing seen with
  | nil => simp
  | cons x xs ih =>
    simp only [List.cons_append, dedupFrom]
    by_cases h : seen.any (same x) = true
    · simp only [h, if_true]; exact ih seen
    · simp only [h]
      rw [ih (x :: seen)]
      simp

/-- the stream of `dedupBlocks` is `dedupFrom` of the stream: grouping changes neither rows nor order -/
theorem dedupBlocks_flatten (same : α → α → Bool) (seen : List α) (bs : List (List α)) :
    (dedupBlocks same seen bs).flatten = dedupFrom same seen bs.flatten := by
  induction bs generalizing seen with
  | nil => rfl
  | cons b bs ih =>
    simp only [dedupBlocks, List.flatten_cons, dedupFrom_append, ih]

@[simp] theorem dedupBlocks_length (same : α → α → Bool) (seen : List α) (bs : List (List α)) :
    (dedupBlocks same seen bs).length = bs.length := by
  induction bs generalizing seen with
  | nil => rfl
  | cons b bs ih => simp [dedupBlocks, ih]

/-- **a row is output exactly when no earlier output row is the same**: appending one more row `x` to the input
appends `x` to the output iff none of the rows output so far is the same as `x`; nothing else changes -/
theorem dedupFirst_snoc (same : α → α → Bool) (xs : List α) (x : α) :
    dedupFirst same (xs ++ [x]) =
      dedupFirst same xs ++ (if (dedupFirst same xs).any (same x) then [] else [x]) := by
  unfold dedupFirst
  rw [dedupFrom_append]
  simp only [List.append_nil, dedupFrom, List.any_reverse]

/-- every survivor is a member of the input, and survivors keep their relative order -/
theorem dedupFrom_sublist (same : α → α → Bool) (seen xs : List α) : (dedupFrom same seen xs).Sublist xs := by
  induction xs generalizing seen with
  | nil => exact List.Sublist.slnil
  | cons x xs ih =>
    simp only [dedupFrom]
    split
    · exact (ih seen).cons x
    · exact (ih (x :: seen)).cons_cons x

/-- an equivalence-like `same` (what C16 proves of `tupleSame`) -/
structure IsEquiv (same : α → α → Bool) : Prop where
  refl : ∀ a, same a a = true
  symm : ∀ a b, same a b = true → same b a = true
  trans : ∀ a b c, same a b = true → same b c = true → same a c = true

/-- with memory `seen`, every element of the input is represented among `seen` and the survivors -/
theorem dedupFrom_covers (same : α → α → Bool) (h : IsEquiv same) (seen xs : List α) (x : α) (hx : x ∈ xs) :
    (seen.any (same x) || (dedupFrom same seen xs).any (same x)) = true := by
  induction xs generalizing seen with
  | nil => cases hx
  | cons y ys ih =>
    simp only [dedupFrom]
    rcases List.mem_cons.1 hx with rfl | hmem
    · by_cases hs : seen.any (same x) = true
      · simp [hs]
      · simp [hs, h.refl]
    · by_cases hs : seen.any (same y) = true
      · simp only [hs, if_true]; exact ih seen hmem
      · have := ih (y :: seen) hmem
        simp only [hs, Bool.false_eq_true, if_false, List.any_cons, Bool.or_eq_true] at this ⊢
        rcases this with (h1 | h1) | h1
        · exact Or.inr (Or.inl h1)
        · exact Or.inl h1
        · exact Or.inr (Or.inr h1)

/-- for an equivalence, "no earlier OUTPUT row is the same" and "no earlier row at all is the same" coincide -/
theorem dedupFirst_any_eq (same : α → α → Bool) (h : IsEquiv same) (xs : List α) (x : α) :
    (dedupFirst same xs).any (same x) = xs.any (same x) := by
  cases hr : xs.any (same x) with
  | true =>
    obtain ⟨y, hy, hxy⟩ := List.any_eq_true.1 hr
    have hc := dedupFrom_covers same h [] xs y hy
    simp only [List.any_nil, Bool.false_or] at hc
    obtain ⟨z, hz, hyz⟩ := List.any_eq_true.1 hc
    exact List.any_eq_true.2 ⟨z, hz, h.trans _ _ _ hxy hyz⟩
  | false =>
    cases hl : (dedupFirst same xs).any (same x) with
    | false => rfl
    | true =>
      obtain ⟨z, hz, hxz⟩ := List.any_eq_true.1 hl
      have : xs.any (same x) = true := List.any_eq_true.2 ⟨z, (dedupFrom_sublist same [] xs).subset hz, hxz⟩
      rw [hr] at this; cases this

/-- the same statement in the form of the property sentence, against ALL earlier rows -/
theorem dedupFirst_snoc_equiv (same : α → α → Bool) (h : IsEquiv same) (xs : List α) (x : α) :
    dedupFirst same (xs ++ [x]) = dedupFirst same xs ++ (if xs.any (same x) then [] else [x]) := by
  rw [dedupFirst_snoc, dedupFirst_any_eq same h]

/-- no two survivors are the same -/
theorem dedupFrom_pairwise (same : α → α → Bool) (h : IsEquiv same) (seen xs : List α) :
    (dedupFrom same seen xs).Pairwise (fun a b => same a b = false) ∧
      ∀ a ∈ dedupFrom same seen xs, seen.any (same a) = false := by
  induction xs generalizing seen with
  | nil => exact ⟨List.Pairwise.nil, fun a ha => by cases ha⟩
  | cons x xs ih =>
    simp only [dedupFrom]
    by_cases hs : seen.any (same x) = true
    · simp only [hs, if_true]; exact ih seen
    · simp only [hs]
      obtain ⟨hp, hn⟩ := ih (x :: seen)
      refine ⟨List.Pairwise.cons ?_ hp, ?_⟩
      · intro a ha
        have := hn a ha
        simp only [List.any_cons, Bool.or_eq_false_iff] at this
        cases hxa : same x a with
        | false => rfl
        | true => rw [h.symm _ _ hxa] at this; exact absurd this.1 (by simp)
      · intro a ha
        rcases List.mem_cons.1 ha with rfl | ha
        · simpa using hs
        · have := hn a ha
          simp only [List.any_cons, Bool.or_eq_false_iff] at this
          exact this.2

/-! ### prefixes of a grouped stream -/

theorem takeBlocks_flatten (n : Nat) (bs : List (List α)) : (takeBlocks n bs).flatten = bs.flatten.take n := by
  induction bs generalizing n with
  | nil => simp [takeBlocks]
  | cons b bs ih => simp only [takeBlocks, List.flatten_cons, ih, List.take_append]

@[simp] theorem takeBlocks_length (n : Nat) (bs : List (List α)) : (takeBlocks n bs).length = bs.length := by
  induction bs generalizing n with
  | nil => rfl
  | cons b bs ih => simp [takeBlocks, ih]

theorem takeBlocks_zero_flatMap {β : Type} (f : List α → List β) (hf : f [] = []) (bs : List (List α)) :
    (takeBlocks 0 bs).flatMap f = [] := by
  induction bs with
  | nil => rfl
  | cons b bs ih =>
    simp only [takeBlocks, List.take_zero, List.flatMap_cons, hf, List.nil_append, Nat.zero_sub]
    exact ih

/-- a prefix that already holds `n` elements is all that `takeBlocks n` keeps -/
theorem takeBlocks_all (n : Nat) (bs : List (List α)) (h : bs.flatten.length ≤ n) : takeBlocks n bs = bs := by
  induction bs generalizing n with
  | nil => rfl
  | cons b bs ih =>
    simp only [List.flatten_cons, List.length_append] at h
    simp only [takeBlocks]
    rw [List.take_of_length_le (by omega), ih _ (by omega)]

theorem consumed_le_length (n : Nat) (bs : List (List α)) : consumed n bs ≤ bs.length := by
  induction bs generalizing n with
  | nil => cases n <;> simp [consumed]
  | cons b bs ih =>
    cases n with
    | zero => simp [consumed]
    | succ n =>
      simp only [consumed, List.length_cons]
      split
      · omega
      · have := ih (n + 1 - b.length); omega

/-- fewer than `n` elements in total: every block is consumed -/
theorem consumed_all (n : Nat) (bs : List (List α)) (h : bs.flatten.length < n) : consumed n bs = bs.length := by
  induction bs generalizing n with
  | nil => cases n <;> simp [consumed]
  | cons b bs ih =>
    simp only [List.flatten_cons, List.length_append] at h
    cases n with
    | zero => omega
    | succ n =>
      simp only [consumed, List.length_cons]
      have : ¬ b.length ≥ n + 1 := by omega
      simp only [this, if_false]
      rw [ih _ (by omega)]; omega

/-- **consumption bound**: the blocks before the last consumed one hold fewer than `n` elements — nothing is
consumed beyond the block that supplies the n-th element -/
theorem consumed_minimal (n : Nat) (bs : List (List α)) :
    ((bs.take (consumed n bs - 1)).flatten.length < n ∨ n = 0) := by
  induction bs generalizing n with
  | nil => cases n <;> simp [consumed]
  | cons b bs ih =>
    cases n with
    | zero => exact Or.inr rfl
    | succ n =>
      left
      simp only [consumed]
      split
      · simp
      · rename_i hlt
        have hpos : n + 1 - b.length ≠ 0 := by omega
        rcases ih (n + 1 - b.length) with h | h
        · -- 1 + c - 1 = c = (c - 1) + 1 when c ≥ 1; when c = 0 the prefix is empty
          cases hc : consumed (n + 1 - b.length) bs with
          | zero => simp
          | succ c =>
            rw [hc] at h
            simp only [Nat.add_sub_cancel] at h
            have : 1 + (c + 1) - 1 = c + 1 := by omega
            rw [this, List.take_succ_cons, List.flatten_cons, List.length_append]
            omega
        · exact absurd h hpos

/-- when the stream holds at least `n ≥ 1` elements, the consumed blocks hold at least `n` -/
theorem consumed_enough (n : Nat) (bs : List (List α)) (h : n ≤ bs.flatten.length) :
    n ≤ (bs.take (consumed n bs)).flatten.length := by
  induction bs generalizing n with
  | nil => simpa using h
  | cons b bs ih =>
    cases n with
    | zero => omega
    | succ n =>
      simp only [List.flatten_cons, List.length_append] at h
      simp only [consumed]
      split
      · simp; omega
      · have := ih (n + 1 - b.length) (by omega)
        have e : 1 + consumed (n + 1 - b.length) bs = consumed (n + 1 - b.length) bs + 1 := by omega
        rw [e, List.take_succ_cons, List.flatten_cons, List.length_append]
        omega

/-- **consumption bound, against any witness**: whenever the first `i` blocks already hold `n` elements, no
more than `i` blocks are consumed — in particular nothing beyond the block that supplies the n-th element -/
theorem consumed_le_of_enough (n i : Nat) (bs : List (List α)) (h : n ≤ (bs.take i).flatten.length) :
    consumed n bs ≤ i := by
  induction bs generalizing n i with
  | nil => cases n <;> simp [consumed]
  | cons b bs ih =>
    cases n with
    | zero => simp [consumed]
    | succ n =>
      cases i with
      | zero => simp at h
      | succ i =>
        simp only [List.take_succ_cons, List.flatten_cons, List.length_append] at h
        simp only [consumed]
        split
        · omega
        · have := ih (n + 1 - b.length) i (by omega)
          omega

/-! ### empty blocks (lines that contribute no row) are invisible -/

/-- the blocks that hold at least one row -/
def nonEmpty (bs : List (List α)) : List (List α) := bs.filter (fun b => !b.isEmpty)

@[simp] theorem nonEmpty_nil : nonEmpty ([] : List (List α)) = [] := rfl
@[simp] theorem nonEmpty_cons_nil (bs : List (List α)) : nonEmpty ([] :: bs) = nonEmpty bs := rfl
theorem nonEmpty_cons_ne (b : List α) (bs : List (List α)) (hb : b ≠ []) : nonEmpty (b :: bs) = b :: nonEmpty bs := by
  cases b with
  | nil => exact absurd rfl hb
  | cons x xs => rfl

theorem dedupBlocks_nonEmpty (same : α → α → Bool) (seen : List α) (bs : List (List α)) :
    nonEmpty (dedupBlocks same seen bs) = nonEmpty (dedupBlocks same seen (nonEmpty bs)) := by
  induction bs generalizing seen with
  | nil => rfl
  | cons b bs ih =>
    by_cases hb : b = []
    · subst hb
      simp only [dedupBlocks, dedupFrom_nil, List.reverse_nil, List.nil_append, nonEmpty_cons_nil]
      exact ih seen
    · rw [nonEmpty_cons_ne b bs hb]
      simp only [dedupBlocks]
      by_cases hk : dedupFrom same seen b = []
      · rw [hk]; simp only [nonEmpty_cons_nil]; exact ih _
      · rw [nonEmpty_cons_ne _ _ hk, nonEmpty_cons_ne _ _ hk, ih]

theorem takeBlocks_nonEmpty (n : Nat) (bs : List (List α)) :
    nonEmpty (takeBlocks n bs) = nonEmpty (takeBlocks n (nonEmpty bs)) := by
  induction bs generalizing n with
  | nil => rfl
  | cons b bs ih =>
    by_cases hb : b = []
    · subst hb
      simp only [takeBlocks, List.take_nil, nonEmpty_cons_nil, List.length_nil, Nat.sub_zero]
      exact ih n
    · rw [nonEmpty_cons_ne b bs hb]
      simp only [takeBlocks]
      by_cases hk : b.take n = []
      · rw [hk]; simp only [nonEmpty_cons_nil]; exact ih _
      · rw [nonEmpty_cons_ne _ _ hk, nonEmpty_cons_ne _ _ hk, ih]

theorem flatMap_nonEmpty {β : Type} (f : List α → List β) (hf : f [] = []) (bs : List (List α)) :
    (nonEmpty bs).flatMap f = bs.flatMap f := by
  induction bs with
  | nil => rfl
  | cons b bs ih =>
    by_cases hb : b = []
    · subst hb; simp only [nonEmpty_cons_nil, List.flatMap_cons, hf, List.nil_append]; exact ih
    · rw [nonEmpty_cons_ne b bs hb]; simp only [List.flatMap_cons, ih]

end Sqlgrep.Spec.Select
