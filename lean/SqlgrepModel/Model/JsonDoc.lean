import SqlgrepModel.Model.Json
import SqlgrepModel.Model.Extract
import SqlgrepModel.Model.Text
import SqlgrepModel.Model.DecFloat
import SqlgrepModel.Lemmas.JsonParser
/-
`serde_json::from_str::<serde_json::Value>(line)` computed in Lean, as sqlgrep uses it (serde_json 1.0.134 with
`preserve_order` and `float_roundtrip`, without `arbitrary_precision`):

  docOfLine : bytes of the line → Option Json        (`none` = `Err`: sqlgrep then extracts from `Value::Null`)

1. the bytes must be UTF-8 (`Utf8.decode`; `from_str` takes a `&str`);
2. the text must be one JSON document of RFC 8259: the parser `parseJsonL` is `Lemmas/JsonParser.parseJson` — proved
   sound and complete for the grammar of `Spec/JsonGrammar.lean` (`parseJson_iff`) — which additionally keeps the
   *lexeme* of every number (`parseJsonL_erase`: forgetting the lexemes gives exactly `parseJson`'s answer);
3. serde_json's own limits: nesting deeper than 127 containers is an error (`remaining_depth: 128`), and so is a
   number outside the REAL range;
4. numbers (`serdeNumber`): an integer literal that fits `u64` (`i64` when negative) is an integer; every other literal
   is the REAL nearest to the decimal number it denotes (`DecFloat.decToF64` of the grammar's `Dec`; serde_json's
   `float_roundtrip` reader, enabled in /repo 265d413 — before that the reader could be one unit in the last place off:
   finding D66);
5. objects: `Map::insert` with `preserve_order` — a repeated key keeps its first position and takes the last value;
6. strings and keys are the UTF-8 bytes of the characters the literal denotes.
-/
namespace Sqlgrep
namespace JsonDoc
open JsonGrammar

/-! ### the RFC 8259 parser, keeping number lexemes -/

inductive LVal where
  | null
  | bool (b : Bool)
  | num (lex : List Char)
  | str (s : List Char)
  | arr (xs : List LVal)
  | obj (ms : List (List Char × LVal))
  deriving Repr, Inhabited

mutual
/-- `JsonGrammar.parseVal` with `.num` carrying the number's text instead of its denotation -/
def parseValL : Nat → List Char → Option (LVal × List Char)
  | 0, _ => none
  | fuel + 1, cs =>
    match dropWs cs with
    | [] => none
    | c :: t =>
      if c = '"' then
        match parseChars t with
        | some (s, r) => some (.str s, dropWs r)
        | none => none
      else if c = '{' then
        match dropWs t with
        | [] => none
        | c2 :: t2 =>
          if c2 = '}' then some (.obj [], dropWs t2)
          else
            match parseMembersL fuel (c2 :: t2) with
            | some (ms, r) => some (.obj ms, r)
            | none => none
      else if c = '[' then
        match dropWs t with
        | [] => none
        | c2 :: t2 =>
          if c2 = ']' then some (.arr [], dropWs t2)
          else
            match parseElemsL fuel (c2 :: t2) with
            | some (xs, r) => some (.arr xs, r)
            | none => none
      else if c = 't' then
        match stripLit ['r', 'u', 'e'] t with
        | some r => some (.bool true, dropWs r)
        | none => none
      else if c = 'f' then
        match stripLit ['a', 'l', 's', 'e'] t with
        | some r => some (.bool false, dropWs r)
        | none => none
      else if c = 'n' then
        match stripLit ['u', 'l', 'l'] t with
        | some r => some (.null, dropWs r)
        | none => none
      else
        match numValue (spanNum (c :: t)).1 with
        | some _ => some (.num (spanNum (c :: t)).1, dropWs (spanNum (c :: t)).2)
        | none => none
def parseMembersL : Nat → List Char → Option (List (List Char × LVal) × List Char)
  | 0, _ => none
  | fuel + 1, cs =>
    match parseMemberL fuel cs with
    | none => none
    | some (m, r) =>
      match r with
      | [] => none
      | c :: t =>
        if c = '}' then some ([m], dropWs t)
        else if c = ',' then
          match parseMembersL fuel t with
          | some (ms, r') => some (m :: ms, r')
          | none => none
        else none
def parseMemberL : Nat → List Char → Option ((List Char × LVal) × List Char)
  | 0, _ => none
  | fuel + 1, cs =>
    match dropWs cs with
    | [] => none
    | c :: t =>
      if c = '"' then
        match parseChars t with
        | none => none
        | some (k, r) =>
          match dropWs r with
          | [] => none
          | c2 :: t2 =>
            if c2 = ':' then
              match parseValL fuel t2 with
              | some (x, r2) => some ((k, x), r2)
              | none => none
            else none
      else none
def parseElemsL : Nat → List Char → Option (List LVal × List Char)
  | 0, _ => none
  | fuel + 1, cs =>
    match parseValL fuel cs with
    | none => none
    | some (x, r) =>
      match r with
      | [] => none
      | c :: t =>
        if c = ']' then some ([x], dropWs t)
        else if c = ',' then
          match parseElemsL fuel t with
          | some (xs, r') => some (x :: xs, r')
          | none => none
        else none
end

/-- a whole text as `JSON-text = ws value ws`, numbers as lexemes -/
def parseJsonL (cs : List Char) : Option LVal :=
  match parseValL (cs.length + 1) cs with
  | some (x, []) => some x
  | _ => none

mutual
/-- forget the lexemes: every number by the value it denotes (`JsonGrammar.numValue`) -/
def LVal.erase : LVal → JVal
  | .null => .null
  | .bool b => .bool b
  | .num lex => .num ((numValue lex).getD default)
  | .str s => .str s
  | .arr xs => .arr (LVal.eraseList xs)
  | .obj ms => .obj (LVal.eraseMembers ms)
def LVal.eraseList : List LVal → List JVal
  | [] => []
  | x :: xs => x.erase :: LVal.eraseList xs
def LVal.eraseMembers : List (List Char × LVal) → List (List Char × JVal)
  | [] => []
  | (k, x) :: ms => (k, x.erase) :: LVal.eraseMembers ms
end

/-! ### serde_json's number reader (with `float_roundtrip`, without `arbitrary_precision`)

Since /repo 265d413 sqlgrep builds serde_json with `float_roundtrip`: a number that is not kept as an integer is
converted by `lexical::parse_concise_float` / `parse_truncated_float`, i.e. it is the REAL nearest to the decimal
number the literal denotes (ties to even) — the function `DecFloat.decToF64`, applied to the denotation `Dec` that
the RFC grammar (`JsonGrammar.numValue`, `NumD`) gives the literal. What remains serde_json's own:
* an integer literal (no fraction, no exponent) whose value fits `u64` stays an integer: `PosInt` when positive,
  `NegInt` when negative and `≥ i64::MIN`; `-0` is the float `-0.0`; a negative one below `i64::MIN` is
  `-(significand as f64)` (the same nearest REAL);
* an infinite result is the error `NumberOutOfRange` (also when the exponent does not fit an `i32`: then a non-zero
  number with a positive exponent is out of range and everything else is ±0 — exactly what the nearest REAL gives);
* the sign of a zero comes from the text (`-0.0`, `-0e5`): `Dec` has no negative zero. -/

def u64Max : Nat := 18446744073709551615

/-- does the literal start with `-` -/
def lexNeg (lex : List Char) : Bool :=
  match lex with
  | '-' :: _ => true
  | _ => false

/-- an integer literal: an optional `-` and digits only (no fraction, no exponent) -/
def isIntLiteral (lex : List Char) : Bool :=
  match lex with
  | '-' :: t => t.all (fun c => decide (Digit c))
  | t => t.all (fun c => decide (Digit c))

/-- the REAL nearest to the number a literal denotes, with the sign of the literal -/
def realOfDec (neg : Bool) (d : Dec) : Nat := DecFloat.decToF64 neg d.mant.natAbs d.exp

/-- serde_json's value of a number lexeme; `none` = not a number of the grammar, or `NumberOutOfRange` (the whole
text is then not a document) -/
def serdeNumber (lex : List Char) : Option JNum :=
  match numValue lex with
  | none => none
  | some d =>
    let neg := lexNeg lex
    let m := d.mant.natAbs
    let bits := realOfDec neg d
    if bits % 2 ^ 63 = DecFloat.infBits then none                          -- `NumberOutOfRange` (never an integer that fits `u64`)
    else if isIntLiteral lex ∧ m ≤ u64Max then
      -- `parse_number`: an integer literal that fits `u64`
      if !neg then some (.posInt m bits)
      else if m = 0 then some (.float bits)                                -- `-0` is the float -0.0
      else if m ≤ 9223372036854775808 then some (.negInt (-(m : Int)) bits)
      else some (.float bits)                                              -- below `i64::MIN`: `-(significand as f64)`
    else some (.float bits)

/-- reading a number text back as a REAL: the RFC 8259 denotation of the text, rounded to the nearest REAL, with the
sign of the text (`serdeNumber` read through `as_f64`, before the range check: `Lemmas/PrintReal.lean`
`readReal_serdeNumber`). Evaluated by the `print` driver and by `Drivers/FactCheck.lean` on the text shipped for every
finite REAL: the printed text must read back as the same REAL. -/
def readReal (lex : List Char) : Option Nat := (numValue lex).map (realOfDec (lexNeg lex))

/-! ### the document -/

/-- `Map::insert` with `preserve_order`: a repeated key keeps its position and takes the new value -/
def insertMember (m : List (List Nat × Json)) (k : List Nat) (v : Json) : List (List Nat × Json) :=
  match m with
  | [] => [(k, v)]
  | (k', v') :: rest => if k' = k then (k', v) :: rest else (k', v') :: insertMember rest k v

mutual
/-- nesting depth in containers -/
def LVal.depth : LVal → Nat
  | .arr xs => 1 + LVal.depthList xs
  | .obj ms => 1 + LVal.depthMembers ms
  | _ => 0
def LVal.depthList : List LVal → Nat
  | [] => 0
  | x :: xs => max x.depth (LVal.depthList xs)
def LVal.depthMembers : List (List Char × LVal) → Nat
  | [] => 0
  | (_, x) :: ms => max x.depth (LVal.depthMembers ms)
end

mutual
/-- the `serde_json::Value` of a parsed text; `none` = a number out of range -/
def toJson : LVal → Option Json
  | .null => some .null
  | .bool b => some (.bool b)
  | .num lex => (serdeNumber lex).map .num
  | .str s => some (.str (Utf8.encode s))
  | .arr xs => (toJsonList xs).map .arr
  | .obj ms => (toJsonMembers ms).map (fun kvs => .obj (kvs.foldl (fun m kv => insertMember m kv.1 kv.2) []))
def toJsonList : List LVal → Option (List Json)
  | [] => some []
  | x :: xs =>
    match toJson x, toJsonList xs with
    | some v, some vs => some (v :: vs)
    | _, _ => none
def toJsonMembers : List (List Char × LVal) → Option (List (List Nat × Json))
  | [] => some []
  | (k, x) :: ms =>
    match toJson x, toJsonMembers ms with
    | some v, some vs => some ((Utf8.encode k, v) :: vs)
    | _, _ => none
end

/-- serde_json's recursion limit: `remaining_depth` starts at 128 and must stay positive -/
def maxDepth : Nat := 127

/-- `serde_json::from_str::<Value>` of a text -/
def docOfChars (cs : List Char) : Option Json :=
  match parseJsonL cs with
  | some l => if l.depth ≤ maxDepth then toJson l else none
  | none => none

/-- `serde_json::from_str::<Value>(line).ok()` from the bytes of the line: invalid UTF-8 is not JSON -/
def docOfLine (line : List Nat) : Option Json :=
  match Utf8.decode line with
  | some cs => docOfChars cs
  | none => none

/-- the line oracle whose JSON document is *computed* from the bytes of the line (regex answers stay oracles) -/
def withDoc (lo : Extract.LineOracle) : Extract.LineOracle := { lo with json := docOfLine lo.line }

end JsonDoc
end Sqlgrep
