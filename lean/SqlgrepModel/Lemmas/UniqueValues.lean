import SqlgrepModel.Model.Eval
import SqlgrepModel.Lemmas.ValueOrder
/-
`array_unique`: `uniqueValues xs` (`BTreeSet::from_iter(xs).into_iter().collect()`) is the strictly ascending
list of the LAST occurrences of the order's equality classes of `xs` (an insert of a value equal to a member
replaces the member, as std's `BTreeSet::from_iter` keeps the later of two equal elements).
-/
namespace Sqlgrep
namespace Unique
open Value

/-- strictly ascending in the derived order -/
def Sorted (l : List Value) : Prop := l.Pairwise (fun a b => cmp a b = .lt)

theorem cmp_eq_symm {a b : Value} (h : cmp a b = .eq) : cmp b a = .eq := by
  rw [cmp_swap a b, h]; rfl

theorem cmp_eq_trans {a b c : Value} (h1 : cmp a b = .eq) (h2 : cmp b c = .eq) : cmp a c = .eq := by
  rw [(cmp_T a b c).2.1 h1]; exact h2

theorem cmp_lt_trans {a b c : Value} (h1 : cmp a b = .lt) (h2 : cmp b c = .lt) : cmp a c = .lt :=
  (cmp_T a b c).1 h1 h2

theorem mem_of_mem_insertUnique (v u : Value) : ∀ (l : List Value), u ∈ insertUnique v l → u = v ∨ u ∈ l
  | [], h => by simp [insertUnique] at h; exact Or.inl h
  | x :: xs, h => by
    unfold insertUnique at h
    cases hc : cmp v x <;> rw [hc] at h <;> simp only at h
    · rcases List.mem_cons.1 h with h | h
      · exact Or.inl h
      · exact Or.inr h
    · rcases List.mem_cons.1 h with h | h
      · exact Or.inl h
      · exact Or.inr (List.mem_cons_of_mem _ h)
    · rcases List.mem_cons.1 h with h | h
      · exact Or.inr (by rw [h]; exact List.mem_cons_self)
      · rcases mem_of_mem_insertUnique v u xs h with h | h
        · exact Or.inl h
        · exact Or.inr (List.mem_cons_of_mem _ h)

/-- the inserted value is always a member afterwards (it REPLACES an equal member) -/
theorem mem_insertUnique_self (v : Value) : ∀ (l : List Value), v ∈ insertUnique v l
  | [] => by simp [insertUnique]
  | x :: xs => by
    unfold insertUnique
    cases hc : cmp v x <;> simp only
    · exact List.mem_cons_self
    · exact List.mem_cons_self
    · exact List.mem_cons_of_mem _ (mem_insertUnique_self v xs)

theorem sorted_insertUnique (v : Value) : ∀ (l : List Value), Sorted l → Sorted (insertUnique v l)
  | [], _ => by simp [insertUnique, Sorted]
  | x :: xs, hs => by
    have hs' := List.pairwise_cons.1 hs
    unfold insertUnique
    cases hc : cmp v x <;> simp only
    · refine List.pairwise_cons.2 ⟨fun y hy => ?_, hs⟩
      rcases List.mem_cons.1 hy with hy | hy
      · rw [hy]; exact hc
      · exact cmp_lt_trans hc (hs'.1 y hy)
    · -- the equal member is replaced: `v` stands where `x` stood
      refine List.pairwise_cons.2 ⟨fun y hy => ?_, hs'.2⟩
      rw [(cmp_T v x y).2.1 hc]; exact hs'.1 y hy
    · refine List.pairwise_cons.2 ⟨fun y hy => ?_, sorted_insertUnique v xs hs'.2⟩
      rcases mem_of_mem_insertUnique v y xs hy with hy | hy
      · rw [hy, cmp_swap v x, hc]; rfl
      · exact hs'.1 y hy

/-- the members after an insert into a sorted set: the new value, and the old members not equal to it -/
theorem mem_insertUnique_iff (v u : Value) : ∀ (l : List Value), Sorted l →
    (u ∈ insertUnique v l ↔ u = v ∨ (u ∈ l ∧ cmp v u ≠ .eq))
  | [], _ => by simp [insertUnique]
  | x :: xs, hs => by
    have hs' := List.pairwise_cons.1 hs
    unfold insertUnique
    cases hc : cmp v x <;> simp only
    · -- v < x ≤ every member: nothing is equal to v
      have hlt : ∀ y ∈ x :: xs, cmp v y = .lt := by
        intro y hy
        rcases List.mem_cons.1 hy with hy | hy
        · rw [hy]; exact hc
        · exact cmp_lt_trans hc (hs'.1 y hy)
      constructor
      · intro h
        rcases List.mem_cons.1 h with h | h
        · exact Or.inl h
        · exact Or.inr ⟨h, by rw [hlt u h]; decide⟩
      · rintro (h | ⟨h, _⟩)
        · rw [h]; exact List.mem_cons_self
        · exact List.mem_cons_of_mem _ h
    · constructor
      · intro h
        rcases List.mem_cons.1 h with h | h
        · exact Or.inl h
        · refine Or.inr ⟨List.mem_cons_of_mem _ h, ?_⟩
          rw [(cmp_T v x u).2.1 hc, hs'.1 u h]; decide
      · rintro (h | ⟨h, hne⟩)
        · rw [h]; exact List.mem_cons_self
        · rcases List.mem_cons.1 h with h | h
          · rw [h] at hne; exact absurd hc hne
          · exact List.mem_cons_of_mem _ h
    · rw [List.mem_cons, mem_insertUnique_iff v u xs hs'.2]
      constructor
      · rintro (h | h | ⟨h, hne⟩)
        · exact Or.inr ⟨by rw [h]; exact List.mem_cons_self, by rw [h, hc]; decide⟩
        · exact Or.inl h
        · exact Or.inr ⟨List.mem_cons_of_mem _ h, hne⟩
      · rintro (h | ⟨h, hne⟩)
        · exact Or.inr (Or.inl h)
        · rcases List.mem_cons.1 h with h | h
          · exact Or.inl h
          · exact Or.inr (Or.inr ⟨h, hne⟩)

/-- the fold of `uniqueValues` started from any sorted set -/
def run (acc xs : List Value) : List Value := xs.foldl (fun acc v => insertUnique v acc) acc

theorem run_cons (acc : List Value) (x : Value) (xs : List Value) : run acc (x :: xs) = run (insertUnique x acc) xs := rfl

theorem sorted_run : ∀ (xs acc : List Value), Sorted acc → Sorted (run acc xs)
  | [], _, h => h
  | x :: xs, acc, h => by rw [run_cons]; exact sorted_run xs _ (sorted_insertUnique x acc h)

/-- `v` occurs in `xs` at a position after which no equal value occurs -/
def LastOcc (v : Value) (xs : List Value) : Prop :=
  ∃ pre post, xs = pre ++ v :: post ∧ ∀ u ∈ post, cmp u v ≠ .eq

theorem lastOcc_cons (v x : Value) (xs : List Value) :
    LastOcc v (x :: xs) ↔ (v = x ∧ ∀ u ∈ xs, cmp u v ≠ .eq) ∨ LastOcc v xs := by
  constructor
  · rintro ⟨pre, post, h, hp⟩
    cases pre with
    | nil =>
      simp only [List.nil_append, List.cons.injEq] at h
      obtain ⟨h1, h2⟩ := h
      subst h2
      exact Or.inl ⟨h1.symm, hp⟩
    | cons p pre =>
      simp only [List.cons_append, List.cons.injEq] at h
      exact Or.inr ⟨pre, post, h.2, hp⟩
  · rintro (⟨h, hp⟩ | ⟨pre, post, h, hp⟩)
    · exact ⟨[], xs, by rw [h]; rfl, hp⟩
    · exact ⟨x :: pre, post, by rw [h]; rfl, hp⟩

theorem mem_run_iff : ∀ (xs acc : List Value), Sorted acc → ∀ (v : Value),
    (v ∈ run acc xs ↔ LastOcc v xs ∨ (v ∈ acc ∧ ∀ u ∈ xs, cmp u v ≠ .eq))
  | [], acc, _, v => by
    simp only [run, List.foldl_nil, LastOcc]
    constructor
    · intro h; exact Or.inr ⟨h, by simp⟩
    · rintro (⟨pre, post, h, _⟩ | ⟨h, _⟩)
      · cases pre <;> simp at h
      · exact h
  | x :: xs, acc, hs, v => by
    rw [run_cons, mem_run_iff xs _ (sorted_insertUnique x acc hs) v, mem_insertUnique_iff x v acc hs, lastOcc_cons]
    constructor
    · rintro (h | ⟨h | ⟨h, hne⟩, hall⟩)
      · exact Or.inl (Or.inr h)
      · exact Or.inl (Or.inl ⟨h, hall⟩)
      · refine Or.inr ⟨h, fun u hu => ?_⟩
        rcases List.mem_cons.1 hu with hu | hu
        · rw [hu]; exact hne
        · exact hall u hu
    · rintro ((⟨h, hall⟩ | h) | ⟨h, hall⟩)
      · exact Or.inr ⟨Or.inl h, hall⟩
      · exact Or.inl h
      · exact Or.inr ⟨Or.inr ⟨h, hall x List.mem_cons_self⟩, fun u hu => hall u (List.mem_cons_of_mem _ hu)⟩

theorem uniqueValues_eq_run (xs : List Value) : uniqueValues xs = run [] xs := rfl

theorem sorted_uniqueValues (xs : List Value) : Sorted (uniqueValues xs) :=
  sorted_run xs [] List.Pairwise.nil

theorem mem_uniqueValues_iff (xs : List Value) (v : Value) : v ∈ uniqueValues xs ↔ LastOcc v xs := by
  rw [uniqueValues_eq_run, mem_run_iff xs [] List.Pairwise.nil v]
  simp

/-- every element has a last equal occurrence -/
theorem exists_lastOcc : ∀ (xs : List Value) (x : Value), x ∈ xs → ∃ u, cmp u x = .eq ∧ LastOcc u xs
  | [], _, h => by simp at h
  | y :: ys, x, h => by
    by_cases he : ∃ w ∈ ys, cmp w x = .eq
    · obtain ⟨w, hw, hwx⟩ := he
      obtain ⟨u, hu, hl⟩ := exists_lastOcc ys w hw
      exact ⟨u, cmp_eq_trans hu hwx, (lastOcc_cons u y ys).2 (Or.inr hl)⟩
    · have hxy : x = y := by
        rcases List.mem_cons.1 h with h | h
        · exact h
        · exact absurd ⟨x, h, cmp_refl x⟩ he
      subst hxy
      exact ⟨x, cmp_refl x, (lastOcc_cons x x ys).2 (Or.inl ⟨rfl, fun u hu hc => he ⟨u, hu, hc⟩⟩)⟩

theorem pairwise_mem {R : Value → Value → Prop} : ∀ {l : List Value}, l.Pairwise R → ∀ {a b : Value}, a ∈ l → b ∈ l →
    a = b ∨ R a b ∨ R b a
  | [], _, _, _, h, _ => by simp at h
  | x :: xs, hp, a, b, ha, hb => by
    have hp' := List.pairwise_cons.1 hp
    rcases List.mem_cons.1 ha with ha | ha <;> rcases List.mem_cons.1 hb with hb | hb
    · exact Or.inl (by rw [ha, hb])
    · exact Or.inr (Or.inl (by rw [ha]; exact hp'.1 b hb))
    · exact Or.inr (Or.inr (by rw [hb]; exact hp'.1 a ha))
    · exact pairwise_mem hp'.2 ha hb

end Unique
end Sqlgrep
