import SqlgrepModel.Model.Lower
import SqlgrepModel.Generated.LowerTables
/-
Table obligations of the lowering and of the column-definition syntax: the tables regenerated from the running code
on every run (`Generated/LowerTables.lean`, written by `harness tables`: `completion_words()`, one `parsing::parse` per
name / spelling / argument list, `ValueType::from_str`, one table definition per candidate word) equal what the Lean
model computes (`Lower.functionTable`, `Lower.aggregateNames`, `lowerCallAggregate`'s arities, `VType.ofIdent`,
`parseRegexMode`, `parseDefineColumn`). All by kernel evaluation: a new, renamed or removed function or aggregate, a
changed arity, type word, mode word or modifier word in /repo breaks one of these at build time, and the differing
row names the word.
-/
namespace Sqlgrep.Lower.Tables
open Sqlgrep Sqlgrep.Parse Sqlgrep.Lower

def tk (t : Tok) : PTok := ⟨⟨0, 0⟩, t⟩
def ident (s : String) : Tok := .ident s.toList

/-- the argument lists of the probes: `()`, `(x)`, `(x, 0.5)`, `(x, 'a')`, `(x, y)`, `(x, y, z)`, `(*)` -/
def argTokens : Nat → List Tok
  | 0 => []
  | 1 => [ident "x"]
  | 2 => [ident "x", .comma, .float 4602678819172646912]
  | 3 => [ident "x", .comma, .str ['a']]
  | 4 => [ident "x", .comma, ident "y"]
  | 5 => [ident "x", .comma, ident "y", .comma, ident "z"]
  | _ => [.op (.single '*')]

/-- `SELECT <name>(<args>) FROM t` -/
def probeTokens (name : List Char) (k : Nat) : List PTok :=
  (([.kw .select, .ident name, .lp] : List Tok) ++ argTokens k ++ ([.rp, .kw .from, ident "t", .eof] : List Tok)).map tk

def aggName : AggKind → String
  | .groupKey _ _ => "gkey" | .count _ _ => "count" | .min _ => "min" | .max _ => "max" | .sum _ => "sum" | .avg _ => "avg"
  | .stddev _ false => "stddev" | .stddev _ true => "variance" | .percentile _ _ => "percentile"
  | .boolAnd _ => "booland" | .boolOr _ => "boolor" | .arrayAgg _ => "arrayagg" | .stringAgg _ _ => "stringagg"

def cerrName : CErrKind → String
  | .undefinedOperator _ => "UndefinedOperator" | .expectedArgument => "ExpectedArgument"
  | .tooManyArguments => "TooManyArguments" | .expectedColumnAccess => "ExpectedColumnAccess"
  | .unexpectedTuple => "UnexpectedTuple" | .undefinedAggregate => "UndefinedAggregate"
  | .tooManyAggregates => "TooManyAggregates" | .undefinedStatement => "UndefinedStatement"
  | .undefinedExpression => "UndefinedExpression" | .undefinedFunction _ => "UndefinedFunction"
  | .invalidPattern => "InvalidPattern" | .havingClauseNotPossible => "HavingClauseNotPossible"
  | .invalidOnJoin => "InvalidOnJoin" | .invalidJoinerTable _ => "InvalidJoinerTable"
  | .expectedFloat => "ExpectedFloat" | .expectedString => "ExpectedString"

/-- what the model's parser + lowering answer for a token vector, in the words of `tables_lower.rs` -/
def outcome (toks : List PTok) : String :=
  match parseTokens PrecTables.code toks with
  | .tree t =>
    match lowerStatement (fun _ => true) t with
    | .ok (.select s _ _ _) =>
      match s.projections with
      | (_, .call f _) :: _ => "fn:" ++ funcName f
      | _ => "expr"
    | .ok (.aggregate a _ _ _) =>
      match a.items with
      | it :: _ => "agg:" ++ aggName it.kind
      | [] => "agg:"
    | .ok _ => "other"
    | .err e => cerrName e.kind
    | .panic _ => "panic"
  | .error _ => "perr"
  | _ => "panic"

def modelProbe (name : List Char) (k : Nat) : String := outcome (probeTokens name k)

/-- the function table of the model as (name, function) -/
def modelFunctions : List (List Char × String) := functionTable.map (fun p => (p.1.toList, funcName p.2))
def modelAggregates : List (List Char) := aggregateNames.map String.toList

def sameSet {α : Type} [DecidableEq α] (a b : List α) : Bool := a.all (· ∈ b) && b.all (· ∈ a)

/-- the lowering knows exactly the functions of the running code, each under its name(s) — `regex_matches` and
`regexp_matches` both — and maps them to the same function -/
theorem functions_eq : sameSet Generated.lowerFunctions modelFunctions = true := by decide +kernel

/-- … and exactly its aggregates -/
theorem aggregates_eq : sameSet Generated.lowerAggregates modelAggregates = true := by decide +kernel

/-- every completion word is a function or an aggregate, and nothing else is -/
theorem names_eq : sameSet Generated.lowerNames (modelFunctions.map (·.1) ++ modelAggregates) = true := by decide +kernel

/-- for every name, in lower and in upper case, and every probed argument list the model's parser + lowering give the
answer of the running code: function vs aggregate vs error, i.e. the accepted arities and argument kinds -/
theorem probes_eq :
    Generated.lowerProbes = Generated.lowerProbes.map (fun p => (p.1, (List.range 7).map (modelProbe p.1))) := by
  decide +kernel

/-- the near misses stay undefined -/
theorem unknown_eq : Generated.lowerUnknown = Generated.lowerUnknown.map (fun p => (p.1, modelProbe p.1 1)) := by
  decide +kernel

/-- `ValueType::from_str(base ++ "[]"^n)` = `arrayOf n <$> VType.ofIdent base` on every candidate spelling -/
theorem type_words_eq :
    Generated.typeWords = Generated.typeWords.map (fun p => (p.1, p.2.1, (VType.ofIdent p.1).map (arrayOf p.2.1))) := by
  decide +kernel

/-- `CREATE TABLE t(line = <word> 'a', line[1] => x TEXT);` -/
def modeTokens (w : List Char) : List PTok :=
  ([.kw .create, .kw .table, ident "t", .lp, ident "line", .op (.single '='), .ident w, .str ['a'], .comma,
   ident "line", .lsq, .int 1, .rsq, .rarrow, ident "x", ident "TEXT", .rp, .semi, .eof] : List Tok).map tk

/-- `CREATE TABLE t(line = 'a', line[1] => x TEXT <word>);` -/
def modifierTokens (w : List Char) : List PTok :=
  ([.kw .create, .kw .table, ident "t", .lp, ident "line", .op (.single '='), .str ['a'], .comma,
   ident "line", .lsq, .int 1, .rsq, .rarrow, ident "x", ident "TEXT", .ident w, .rp, .semi, .eof] : List Tok).map tk

def modelMode (w : List Char) : String :=
  match parseTokens PrecTables.code (modeTokens w) with
  | .tree t =>
    match lowerStatement (fun _ => true) t with
    | .ok (.createTable _ d _) =>
      match d.patterns with
      | p :: _ => (match p.mode with | .split => "split" | .captures => "captures")
      | [] => "nopattern"
    | .ok _ => "other"
    | .err _ => "reject"
    | .panic _ => "panic"
  | .error _ => "reject"
  | _ => "panic"

def modelModifier (w : List Char) : String :=
  match parseTokens PrecTables.code (modifierTokens w) with
  | .tree t =>
    match lowerStatement (fun _ => true) t with
    | .ok (.createTable _ d _) =>
      match d.columns with
      | c :: _ => if c.options.trim then "trim" else if c.options.convert then "convert"
                  else if c.options.microseconds then "microseconds" else "none"
      | [] => "nocolumn"
    | .ok _ => "other"
    | .err _ => "reject"
    | .panic _ => "panic"
  | .error _ => "reject"
  | _ => "panic"

/-- the pattern-mode words (any letter case of `split` / `match`, nothing else) -/
theorem regex_mode_words_eq : Generated.regexModeWords = Generated.regexModeWords.map (fun p => (p.1, modelMode p.1)) := by
  decide +kernel

/-- the modifier words that are identifiers (any letter case of `trim` / `convert` / `microseconds`, nothing else) -/
theorem modifier_words_eq : Generated.modifierWords = Generated.modifierWords.map (fun p => (p.1, modelModifier p.1)) := by
  decide +kernel

end Sqlgrep.Lower.Tables
