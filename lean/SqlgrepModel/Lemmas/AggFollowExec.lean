import SqlgrepModel.Lemmas.AggFollowSim
import SqlgrepModel.Model.ExecI
/-
The EXECUTED follow-mode loop (`runFollow` / `runFollowAll` of Model/ExecI.lean, driver kind `followi`) for an aggregate
statement without join and without LIMIT, in terms of the engine-level step `followStep` — the bridge between the
`followRun` of Lemmas/AggFollowRun.lean and what the driver runs — and the same for the failure direction of the executed
batch loop (`runBatch`), so that C11 can be stated with hypotheses and conclusion about executed functions only.
-/
set_option linter.unusedSimpArgs false
namespace Sqlgrep
open Value Spec.Agg

/-- the lines a follow iterator delivers, as the (readable) lines of one file of a batch run -/
def asFile (lines : List Line) : List FileLine := lines.map (fun l => { readable := true, line := l })

/-- the rows the admitted lines present to the statement (run without join) -/
def followEnvs (t : TableInfo) (lines : List Line) : List Env := envsOf t (asFile lines)

theorem followEnvs_cons (t : TableInfo) (l : Line) (rest : List Line) :
    followEnvs t (l :: rest) = if anyResult l.row then lineEnv t l :: followEnvs t rest else followEnvs t rest := by
  simp only [followEnvs, asFile, List.map_cons, envsOf_cons]

theorem followEnvs_append (t : TableInfo) (a b : List Line) : followEnvs t (a ++ b) = followEnvs t a ++ followEnvs t b := by
  simp only [followEnvs, asFile, List.map_append, envsOf_append]

theorem asFile_readable (lines : List Line) : ∀ fl ∈ asFile lines, fl.readable = true := by
  intro fl h
  simp only [asFile, List.mem_map] at h
  obtain ⟨l, _, rfl⟩ := h
  rfl

/-- `followRun` with the tables it shows on the way: one per row that WHERE admits -/
def followTables (O : Oracles) (q : AggStmt) : List Env → AggState → Outcome (AggState × List RowOut)
  | [], st => .ok (st, [])
  | env :: rest, st =>
    (followStep O q st env).bind (fun p => (followTables O q rest p.1).bind (fun r => .ok (r.1, p.2.toList ++ r.2)))

/-- the state component of `followTables` is `followRun` -/
theorem followTables_state (O : Oracles) (q : AggStmt) (envs : List Env) (st : AggState) :
    (followTables O q envs st).bind (fun p => .ok p.1) = followRun O q envs st := by
  induction envs generalizing st with
  | nil => rfl
  | cons env rest ih =>
    simp only [followTables, followRun]
    cases followStep O q st env with
    | ok p =>
      simp only [Outcome.bind]
      rw [← ih p.1]
      cases followTables O q rest p.1 <;> rfl
    | error k => rfl
    | panic k => rfl
    | oracleMissing k => rfl

theorem followRun_of_tables {O : Oracles} {q : AggStmt} {envs : List Env} {st st' : AggState} {ts : List RowOut}
    (h : followTables O q envs st = .ok (st', ts)) : followRun O q envs st = .ok st' := by
  rw [← followTables_state, h]; rfl

theorem followTables_append (O : Oracles) (q : AggStmt) (a b : List Env) (st : AggState) :
    followTables O q (a ++ b) st =
      (followTables O q a st).bind (fun p => (followTables O q b p.1).bind (fun r => .ok (r.1, p.2 ++ r.2))) := by
  induction a generalizing st with
  | nil =>
    simp only [List.nil_append, followTables, Outcome.bind]
    cases followTables O q b st with
    | ok r => simp [Outcome.bind]
    | error k => rfl
    | panic k => rfl
    | oracleMissing k => rfl
  | cons e es ih =>
    simp only [List.cons_append, followTables]
    cases followStep O q st e with
    | ok p =>
      simp only [Outcome.bind]
      rw [ih p.1]
      cases followTables O q es p.1 with
      | ok r =>
        simp only [Outcome.bind]
        cases followTables O q b r.1 with
        | ok r2 => simp [Outcome.bind, List.append_assoc]
        | error k => rfl
        | panic k => rfl
        | oracleMissing k => rfl
      | error k => rfl
      | panic k => rfl
      | oracleMissing k => rfl
    | error k => rfl
    | panic k => rfl
    | oracleMissing k => rfl

/-! ### the executed follow loop -/

/-- the loop state after `n` delivered lines whose rows were fed without failure, showing the tables `ts` -/
def afterFollow (ls : LoopState) (st : AggState) (ts : List RowOut) (n : Nat) : LoopState :=
  { ls with es := { ls.es with agg := st, numOut := ls.es.numOut + (ts.map (·.rows.length)).sum },
            consumed := ls.consumed + n,
            out := { ls.out with totalLines := ls.out.totalLines + n,
                                 printed := ls.out.printed ++ ts.flatMap (fun r => printResult r true) } }

theorem hasFailed_failWith {α : Type} (ro : RunOut) (o : Outcome α) (h : ∀ a, o ≠ .ok a) : hasFailed (failWith ro o) = true := by
  cases o with
  | ok a => exact absurd rfl (h a)
  | error k => simp [failWith, hasFailed]
  | panic k => simp [failWith, hasFailed]
  | oracleMissing w => simp [failWith, hasFailed]

/-- **bridge to the executed loop**: `runFollow` (what the driver's `followi` kind runs) over delivered lines, for an
aggregate statement without join and LIMIT whose steps do not fail, feeds exactly the admitted lines' rows to
`followStep` (update, and a result iff WHERE admitted the row), prints each shown table and counts every line -/
theorem runFollow_agg (O : Oracles) (qy : Query) (q : AggStmt) (hq : qy.stmt = .aggregate q) (hj : qy.join = none)
    (hlim : q.limit = none) (lines : List Line) (ls : LoopState) {st : AggState} {ts : List RowOut}
    (h : followTables O q (followEnvs qy.table lines) ls.es.agg = .ok (st, ts)) :
    runFollow O qy none lines ls = afterFollow ls st ts lines.length := by
  induction lines generalizing ls ts with
  | nil =>
    simp only [followEnvs, asFile, List.map_nil, envsOf, List.filter_nil, followTables, Outcome.ok.injEq, Prod.mk.injEq] at h
    obtain ⟨h1, h2⟩ := h
    subst h1; subst h2
    simp [runFollow, afterFollow]
  | cons l rest ih =>
    have hnone : (none == some ls.consumed) = false := rfl
    rw [followEnvs_cons] at h
    simp only [runFollow, hnone, Bool.false_eq_true, if_false]
    by_cases hadm : anyResult l.row = true
    · simp only [hadm, if_true, followTables] at h
      obtain ⟨⟨st1, r⟩, h1, h2⟩ := obind_ok h
      obtain ⟨⟨st2, ts2⟩, h3, h4⟩ := obind_ok h2
      simp only [Outcome.ok.injEq, Prod.mk.injEq] at h4
      obtain ⟨h4a, h4b⟩ := h4
      subst h4a; subst h4b
      rw [executeLine_follow_agg O qy q [] _ l hq hj hadm]
      simp only [h1, Outcome.bind, updateLimit, hlim]
      cases r with
      | none =>
        simp only []
        rw [ih _ (by simpa using h3)]
        simp only [afterFollow, List.length_cons, Option.toList, List.nil_append, Nat.add_zero]
        have e1 : ls.out.totalLines + 1 + rest.length = ls.out.totalLines + (rest.length + 1) := by omega
        have e2 : ls.consumed + 1 + rest.length = ls.consumed + (rest.length + 1) := by omega
        rw [e1, e2]
      | some out =>
        simp only [hq, Bool.false_eq_true, if_false]
        rw [ih _ (by simpa using h3)]
        simp only [afterFollow, List.length_cons, Option.toList, List.cons_append, List.nil_append, List.map_cons,
          List.sum_cons, List.flatMap_cons, List.append_assoc]
        have e1 : ls.out.totalLines + 1 + rest.length = ls.out.totalLines + (rest.length + 1) := by omega
        have e2 : ls.consumed + 1 + rest.length = ls.consumed + (rest.length + 1) := by omega
        have e3 : ls.es.numOut + out.rows.length + (ts2.map (·.rows.length)).sum =
            ls.es.numOut + (out.rows.length + (ts2.map (·.rows.length)).sum) := by omega
        rw [e1, e2, e3]
    · simp only [hadm, Bool.false_eq_true, if_false] at h
      have hex : executeLine O qy [] true
          { ls with consumed := ls.consumed + 1, out := { ls.out with totalLines := ls.out.totalLines + 1 } }.es l =
          .ok (ls.es, { result := none, reachedLimit := false }) := by
        simp only [executeLine, hq, hadm, Bool.not_false, if_true, updateLimit, hlim, Nat.add_zero]
      rw [hex]
      simp only []
      rw [ih _ (by simpa using h)]
      simp only [afterFollow, List.length_cons]
      have e1 : ls.out.totalLines + 1 + rest.length = ls.out.totalLines + (rest.length + 1) := by omega
      have e2 : ls.consumed + 1 + rest.length = ls.consumed + (rest.length + 1) := by omega
      rw [e1, e2]

/-- the same from the start of a follow run -/
theorem runFollowAll_agg (O : Oracles) (qy : Query) (q : AggStmt) (hq : qy.stmt = .aggregate q) (hj : qy.join = none)
    (hlim : q.limit = none) (lines : List Line) {st : AggState} {ts : List RowOut}
    (h : followTables O q (followEnvs qy.table lines) {} = .ok (st, ts)) :
    runFollowAll O qy none lines =
      { printed := ts.flatMap (fun r => printResult r true), totalLines := lines.length } := by
  have hl : reachedLimit qy {} = false := by simp [reachedLimit, hq]
  simp only [runFollowAll, hl, Bool.false_eq_true, if_false]
  rw [runFollow_agg O qy q hq hj hlim lines {} h]
  simp [afterFollow]

/-- failure direction: if some step fails, the executed follow run reports a failure -/
theorem runFollow_agg_fails (O : Oracles) (qy : Query) (q : AggStmt) (hq : qy.stmt = .aggregate q) (hj : qy.join = none)
    (hlim : q.limit = none) (lines : List Line) (ls : LoopState)
    (h : ∀ p, followTables O q (followEnvs qy.table lines) ls.es.agg ≠ .ok p) :
    hasFailed (runFollow O qy none lines ls).out = true := by
  induction lines generalizing ls with
  | nil => exact absurd rfl (h (ls.es.agg, []))
  | cons l rest ih =>
    have hnone : (none == some ls.consumed) = false := rfl
    rw [followEnvs_cons] at h
    simp only [runFollow, hnone, Bool.false_eq_true, if_false]
    by_cases hadm : anyResult l.row = true
    · simp only [hadm, if_true, followTables] at h
      rw [executeLine_follow_agg O qy q [] _ l hq hj hadm]
      cases h1 : followStep O q ls.es.agg (lineEnv qy.table l) with
      | ok p =>
        obtain ⟨st1, r⟩ := p
        have h1' : followStep O q ls.es.agg (lineEnv qy.table l) = .ok (st1, r) := h1
        simp only [h1', Outcome.bind] at h
        have hrest : ∀ p, followTables O q (followEnvs qy.table rest) st1 ≠ .ok p := by
          intro p hp
          exact h (p.1, r.toList ++ p.2) (by simp [hp, Outcome.bind])
        have h1'' : followStep O q
            { ls with consumed := ls.consumed + 1, out := { ls.out with totalLines := ls.out.totalLines + 1 } }.es.agg
            (lineEnv qy.table l) = .ok (st1, r) := h1
        simp only [h1'', Outcome.bind, updateLimit, hlim]
        cases r with
        | none => exact ih _ (by simpa using hrest)
        | some out =>
          simp only [Bool.false_eq_true, if_false]
          exact ih _ (by simpa using hrest)
      | error k =>
        have h1'' : followStep O q
            { ls with consumed := ls.consumed + 1, out := { ls.out with totalLines := ls.out.totalLines + 1 } }.es.agg
            (lineEnv qy.table l) = .error k := h1
        simp [h1'', Outcome.bind, failWith, hasFailed]
      | panic k =>
        have h1'' : followStep O q
            { ls with consumed := ls.consumed + 1, out := { ls.out with totalLines := ls.out.totalLines + 1 } }.es.agg
            (lineEnv qy.table l) = .panic k := h1
        simp [h1'', Outcome.bind, failWith, hasFailed]
      | oracleMissing k =>
        have h1'' : followStep O q
            { ls with consumed := ls.consumed + 1, out := { ls.out with totalLines := ls.out.totalLines + 1 } }.es.agg
            (lineEnv qy.table l) = .oracleMissing k := h1
        simp [h1'', Outcome.bind, failWith, hasFailed]
    · simp only [hadm, Bool.false_eq_true, if_false] at h
      have hex : executeLine O qy [] true
          { ls with consumed := ls.consumed + 1, out := { ls.out with totalLines := ls.out.totalLines + 1 } }.es l =
          .ok (ls.es, { result := none, reachedLimit := false }) := by
        simp only [executeLine, hq, hadm, Bool.not_false, if_true, updateLimit, hlim, Nat.add_zero]
      rw [hex]
      simp only []
      exact ih _ (by simpa using h)

/-- an executed follow run that reports no failure ran every step -/
theorem runFollowAll_agg_ok (O : Oracles) (qy : Query) (q : AggStmt) (hq : qy.stmt = .aggregate q) (hj : qy.join = none)
    (hlim : q.limit = none) (lines : List Line) (h : hasFailed (runFollowAll O qy none lines) = false) :
    ∃ st ts, followTables O q (followEnvs qy.table lines) {} = .ok (st, ts) := by
  cases hft : followTables O q (followEnvs qy.table lines) {} with
  | ok p => exact ⟨p.1, p.2, rfl⟩
  | error k =>
    have hl : reachedLimit qy {} = false := by simp [reachedLimit, hq]
    have := runFollow_agg_fails O qy q hq hj hlim lines {} (by intro p hp; rw [hft] at hp; cases hp)
    simp only [runFollowAll, hl, Bool.false_eq_true, if_false, this] at h
    cases h
  | panic k =>
    have hl : reachedLimit qy {} = false := by simp [reachedLimit, hq]
    have := runFollow_agg_fails O qy q hq hj hlim lines {} (by intro p hp; rw [hft] at hp; cases hp)
    simp only [runFollowAll, hl, Bool.false_eq_true, if_false, this] at h
    cases h
  | oracleMissing k =>
    have hl : reachedLimit qy {} = false := by simp [reachedLimit, hq]
    have := runFollow_agg_fails O qy q hq hj hlim lines {} (by intro p hp; rw [hft] at hp; cases hp)
    simp only [runFollowAll, hl, Bool.false_eq_true, if_false, this] at h
    cases h

/-! ### the executed batch loop: failure direction -/

/-- if an update fails, the batch loop over the file stops and reports a failure -/
theorem runFile_agg_fails (O : Oracles) (qy : Query) (q : AggStmt) (hq : qy.stmt = .aggregate q) (hj : qy.join = none)
    (lines : List FileLine) (hread : ∀ fl ∈ lines, fl.readable = true) (ls : LoopState)
    (h : ∀ st, aggRun O q (envsOf qy.table lines) ls.es.agg ≠ .ok st) :
    (runFile O qy [] false none lines ls).stop = true ∧ hasFailed (runFile O qy [] false none lines ls).out = true := by
  induction lines generalizing ls with
  | nil => exact absurd rfl (h ls.es.agg)
  | cons fl rest ih =>
    have hr : fl.readable = true := hread fl (by simp)
    have hrest : ∀ fl' ∈ rest, fl'.readable = true := fun fl' h => hread fl' (by simp [h])
    rw [envsOf_cons] at h
    have hnone : (none == some ls.consumed) = false := rfl
    simp only [runFile, hr, Bool.not_true, Bool.false_eq_true, if_false, hnone]
    by_cases hadm : anyResult fl.line.row = true
    · simp only [hadm, if_true, aggRun] at h
      rw [executeLine_batch_agg O qy q [] _ fl.line hq hj hadm]
      cases h1 : aggUpdateRow O q ls.es.agg (lineEnv qy.table fl.line) with
      | ok p =>
        have h1'' : aggUpdateRow O q
            { ls with consumed := ls.consumed + 1, out := { ls.out with totalLines := ls.out.totalLines + 1 } }.es.agg
            (lineEnv qy.table fl.line) = .ok p := h1
        simp only [h1, Outcome.bind] at h
        simp only [h1'', Outcome.bind, List.append_nil, Bool.false_eq_true, if_false]
        exact ih hrest _ (by simpa using h)
      | error k =>
        have h1'' : aggUpdateRow O q
            { ls with consumed := ls.consumed + 1, out := { ls.out with totalLines := ls.out.totalLines + 1 } }.es.agg
            (lineEnv qy.table fl.line) = .error k := h1
        simp [h1'', Outcome.bind, failWith, hasFailed]
      | panic k =>
        have h1'' : aggUpdateRow O q
            { ls with consumed := ls.consumed + 1, out := { ls.out with totalLines := ls.out.totalLines + 1 } }.es.agg
            (lineEnv qy.table fl.line) = .panic k := h1
        simp [h1'', Outcome.bind, failWith, hasFailed]
      | oracleMissing k =>
        have h1'' : aggUpdateRow O q
            { ls with consumed := ls.consumed + 1, out := { ls.out with totalLines := ls.out.totalLines + 1 } }.es.agg
            (lineEnv qy.table fl.line) = .oracleMissing k := h1
        simp [h1'', Outcome.bind, failWith, hasFailed]
    · simp only [hadm, Bool.false_eq_true, if_false] at h
      have hex : executeLine O qy [] false
          { ls with consumed := ls.consumed + 1, out := { ls.out with totalLines := ls.out.totalLines + 1 } }.es fl.line =
          .ok (ls.es, { result := none, reachedLimit := false }) := by
        simp only [executeLine, hq, hadm, Bool.not_false, if_true, Bool.false_eq_true, if_false]
      rw [hex]
      simp only [List.append_nil, Bool.false_eq_true, if_false]
      exact ih hrest _ (by simpa using h)

/-- an executed batch run over one file of readable lines that reports no failure ran every update and the final result -/
theorem runBatch_agg_ok (O : Oracles) (qy : Query) (q : AggStmt) (hq : qy.stmt = .aggregate q) (hj : qy.join = none)
    (joined : List FileLine) (lines : List FileLine) (hread : ∀ fl ∈ lines, fl.readable = true)
    (h : hasFailed (runBatch O qy joined [lines] none) = false) :
    ∃ st r, aggRun O q (envsOf qy.table lines) {} = .ok st ∧ finalResult O q { agg := st } = .ok r := by
  have hl : reachedLimit qy {} = false := by simp [reachedLimit, hq]
  cases hrun : aggRun O q (envsOf qy.table lines) {} with
  | ok st =>
    refine ⟨st, ?_⟩
    have hls := runFiles_agg O qy q hq hj [lines] (by simpa using hread) {} rfl (by simpa using hrun)
    simp only [runBatch, hj, hq, Bool.not_true] at h
    rw [hls] at h
    simp only [afterLines, hasFailed] at h
    cases hfin : finalResult O q { agg := st } with
    | ok r => exact ⟨r, rfl, rfl⟩
    | error k =>
      have : finalResult O q { seen := ([] : List (List Value)), agg := st, numOut := 0 } = .error k := hfin
      simp [this, failWith] at h
    | panic k =>
      have : finalResult O q { seen := ([] : List (List Value)), agg := st, numOut := 0 } = .panic k := hfin
      simp [this, failWith] at h
    | oracleMissing k =>
      have : finalResult O q { seen := ([] : List (List Value)), agg := st, numOut := 0 } = .oracleMissing k := hfin
      simp [this, failWith] at h
  | error k =>
    obtain ⟨hs, hf⟩ := runFile_agg_fails O qy q hq hj lines hread {} (by intro st hst; rw [hrun] at hst; cases hst)
    simp only [runBatch, hj, hq, Bool.not_true, runFiles, hl, Bool.or_self, Bool.false_eq_true, if_false, hs, if_true, hf] at h
    cases h
  | panic k =>
    obtain ⟨hs, hf⟩ := runFile_agg_fails O qy q hq hj lines hread {} (by intro st hst; rw [hrun] at hst; cases hst)
    simp only [runBatch, hj, hq, Bool.not_true, runFiles, hl, Bool.or_self, Bool.false_eq_true, if_false, hs, if_true, hf] at h
    cases h
  | oracleMissing k =>
    obtain ⟨hs, hf⟩ := runFile_agg_fails O qy q hq hj lines hread {} (by intro st hst; rw [hrun] at hst; cases hst)
    simp only [runBatch, hj, hq, Bool.not_true, runFiles, hl, Bool.or_self, Bool.false_eq_true, if_false, hs, if_true, hf] at h
    cases h

/-! ### the k-th line, engine level with the shown tables -/

theorem followTables_snoc {O : Oracles} {q : AggStmt} {a : List Env} {env : Env} {st st2 : AggState} {ts : List RowOut}
    (h : followTables O q (a ++ [env]) st = .ok (st2, ts)) :
    ∃ sf ts0 r, followTables O q a st = .ok (sf, ts0) ∧ followStep O q sf env = .ok (st2, r) ∧ ts = ts0 ++ r.toList := by
  rw [followTables_append] at h
  obtain ⟨⟨sf, ts0⟩, h1, h2⟩ := obind_ok h
  obtain ⟨⟨s3, t3⟩, h3, h4⟩ := obind_ok h2
  simp only [followTables] at h3
  obtain ⟨⟨s5, r⟩, h5, h6⟩ := obind_ok h3
  simp only [Outcome.bind, Outcome.ok.injEq, Prod.mk.injEq, List.append_nil] at h6 h4
  obtain ⟨h6a, h6b⟩ := h6
  obtain ⟨h4a, h4b⟩ := h4
  subst h6a; subst h6b; subst h4a; subst h4b
  exact ⟨sf, ts0, r, h1, h5, rfl⟩

theorem followStep_cases {O : Oracles} {q : AggStmt} {sf st2 : AggState} {env : Env} {r : Option RowOut}
    (h : followStep O q sf env = .ok (st2, r)) :
    (passes O q env = some false ∧ st2 = sf ∧ r = none) ∨
    (passes O q env = some true ∧ ∃ sf1 out, aggUpdateRow O q sf env = .ok (sf1, true) ∧
      aggResult O q sf1 = .ok (st2, out) ∧ r = some out) := by
  unfold followStep at h
  obtain ⟨⟨sf1, u⟩, h1, h2⟩ := obind_ok h
  obtain ⟨hpass, hfalse, _⟩ := aggUpdateRow_eq h1
  cases u with
  | false =>
    simp only [Bool.false_eq_true, if_false, Outcome.ok.injEq, Prod.mk.injEq] at h2
    exact Or.inl ⟨hpass, by rw [← h2.1]; exact hfalse rfl, h2.2.symm⟩
  | true =>
    simp only [if_true] at h2
    obtain ⟨⟨s3, out⟩, h3, h4⟩ := obind_ok h2
    simp only [Outcome.ok.injEq, Prod.mk.injEq] at h4
    refine Or.inr ⟨hpass, sf1, out, h1, ?_, h4.2.symm⟩
    rw [h3, h4.1]

/-- **the k-th row, both cases.** Rows `pre` fed one at a time (update + result), then `env`; a batch run (update only)
over `pre ++ [env]` with final table `r`. Either WHERE admits `env` and the tables shown are those shown for `pre`
followed by exactly `r`; or WHERE rejects `env`, nothing more is shown, and the batch run over `pre` alone already
ends in the same state (so its table is `r` too). -/
theorem followTables_snoc_batch {O : Oracles} {q : AggStmt} (hlim : q.limit = none) (pre : List Env) (env : Env)
    {st2 sb : AggState} {ts : List RowOut} {r : RowOut}
    (hf : followTables O q (pre ++ [env]) {} = .ok (st2, ts)) (hb : aggRun O q (pre ++ [env]) {} = .ok sb)
    (hr : finalResult O q { agg := sb } = .ok r) (hex : KeysExact (groupKeysOf O q (pre ++ [env]))) :
    ∃ sf ts0, followTables O q pre {} = .ok (sf, ts0) ∧
      ((passes O q env = some true ∧ ts = ts0 ++ [r]) ∨
       (passes O q env = some false ∧ ts = ts0 ∧ aggRun O q pre {} = .ok sb)) := by
  obtain ⟨sf, ts0, ro, h1, h2, h3⟩ := followTables_snoc hf
  refine ⟨sf, ts0, h1, ?_⟩
  rcases followStep_cases h2 with ⟨hp, _, hro⟩ | ⟨hp, sf1, out, hu, hres, hro⟩
  · right
    subst hro
    refine ⟨hp, by simpa using h3, ?_⟩
    rw [aggRun_append] at hb
    obtain ⟨sbp, hbp, hbl⟩ := obind_ok hb
    simp only [aggRun] at hbl
    obtain ⟨⟨sb', u'⟩, hbu, hbe⟩ := obind_ok hbl
    simp only [Outcome.ok.injEq] at hbe
    subst hbe
    obtain ⟨hp', hfalse, _⟩ := aggUpdateRow_eq hbu
    rw [hp] at hp'
    have hu' : u' = false := by simpa using hp'.symm
    rw [hbp, hfalse hu']
  · left
    subst hro
    have := follow_table_eq_batch_direct hlim pre env (followRun_of_tables h1) hu hres hb hex
    rw [hr] at this
    simp only [Outcome.ok.injEq] at this
    subst this
    exact ⟨hp, by simpa using h3⟩

/-- the last table shown is the batch table; or nothing was shown because WHERE rejected every row -/
theorem followTables_last {O : Oracles} {q : AggStmt} (hlim : q.limit = none) :
    ∀ (n : Nat) (envs : List Env), envs.length = n → ∀ {sf sb : AggState} {ts : List RowOut} {r : RowOut},
      followTables O q envs {} = .ok (sf, ts) → aggRun O q envs {} = .ok sb → finalResult O q { agg := sb } = .ok r →
      KeysExact (groupKeysOf O q envs) →
      (∃ ts0, ts = ts0 ++ [r]) ∨ (ts = [] ∧ ∀ env ∈ envs, passes O q env = some false) := by
  intro n
  induction n with
  | zero =>
    intro envs hn sf sb ts r hf _ _ _
    have : envs = [] := List.eq_nil_of_length_eq_zero hn
    subst this
    simp only [followTables, Outcome.ok.injEq, Prod.mk.injEq] at hf
    exact Or.inr ⟨hf.2.symm, by simp⟩
  | succ n ih =>
    intro envs hn sf sb ts r hf hb hr hex
    have hne : envs ≠ [] := by intro h; subst h; simp at hn
    have hsplit : envs.dropLast ++ [envs.getLast hne] = envs := List.dropLast_concat_getLast hne
    rw [← hsplit] at hf hb hex
    obtain ⟨sf0, ts0, hpre, hcase⟩ := followTables_snoc_batch hlim _ _ hf hb hr hex
    rcases hcase with ⟨_, hts⟩ | ⟨hp, hts, hbp⟩
    · exact Or.inl ⟨ts0, hts⟩
    · have hex' : KeysExact (groupKeysOf O q envs.dropLast) := by
        intro a ha b hb' hab
        exact hex a (by simp only [groupKeysOf, List.filterMap_append, List.mem_append]; exact Or.inl ha)
          b (by simp only [groupKeysOf, List.filterMap_append, List.mem_append]; exact Or.inl hb') hab
      rcases ih envs.dropLast (by simp [List.length_dropLast, hn]) hpre hbp hr hex' with ⟨t, ht⟩ | ⟨ht, hall⟩
      · exact Or.inl ⟨t, by rw [hts, ht]⟩
      · refine Or.inr ⟨by rw [hts, ht], ?_⟩
        intro env henv
        rw [← hsplit] at henv
        simp only [List.mem_append, List.mem_singleton] at henv
        rcases henv with h | h
        · exact hall env h
        · rw [h]; exact hp

/-- WHERE admits the row of an admitted line: the line for which follow mode shows a table -/
def lineShown (O : Oracles) (qy : Query) (q : AggStmt) (l : Line) : Prop :=
  anyResult l.row = true ∧ passes O q (lineEnv qy.table l) = some true

theorem mem_followEnvs (t : TableInfo) (l : Line) (lines : List Line) (hadm : anyResult l.row = true) (hl : l ∈ lines) :
    lineEnv t l ∈ followEnvs t lines := by
  induction lines with
  | nil => simp at hl
  | cons x rest ih =>
    rw [followEnvs_cons]
    simp only [List.mem_cons] at hl
    rcases hl with h | h
    · subst h; simp [hadm]
    · by_cases hx : anyResult x.row = true
      · simp only [hx, if_true, List.mem_cons]; exact Or.inr (ih h)
      · simp only [hx, Bool.false_eq_true, if_false]; exact ih h

/-- a row WHERE rejects leaves any state as it is (the filter is evaluated before anything is touched) -/
theorem aggUpdateRow_of_rejected {O : Oracles} {q : AggStmt} {env : Env} (h : passes O q env = some false) (st : AggState) :
    aggUpdateRow O q st env = .ok (st, false) := by
  unfold passes at h
  unfold aggUpdateRow
  cases hf : q.filter with
  | none => simp [hf] at h
  | some f =>
    simp only [hf] at h
    cases he : eval O env f with
    | ok v =>
      simp only [he, okOf, Option.bind_some] at h
      cases hc : condHolds v with
      | ok b =>
        simp only [hc, Option.some.injEq] at h
        subst h
        simp [he, bind, Outcome.bind, pure, hc]
      | error k => simp [hc] at h
      | panic k => simp [hc] at h
      | oracleMissing k => simp [hc] at h
    | error k => simp [he, okOf] at h
    | panic k => simp [he, okOf] at h
    | oracleMissing k => simp [he, okOf] at h

/-- the k-th row rejected by WHERE: follow mode shows nothing and keeps its state, and the batch run over the first k
rows is the batch run over the first k−1 -/
theorem rejected_row_changes_nothing {O : Oracles} {q : AggStmt} (pre : List Env) (env : Env) (sf : AggState)
    (h : passes O q env = some false) :
    followStep O q sf env = .ok (sf, none) ∧ aggRun O q (pre ++ [env]) {} = aggRun O q pre {} := by
  constructor
  · simp [followStep, aggUpdateRow_of_rejected h, Outcome.bind]
  · rw [aggRun_append]
    cases aggRun O q pre {} with
    | ok sb => simp [Outcome.bind, aggRun, aggUpdateRow_of_rejected h]
    | error k => rfl
    | panic k => rfl
    | oracleMissing k => rfl

/-! ### C11 for aggregates over the executed loops -/

/-- **the k-th line, executed level** (`runFollowAll` = the follow-mode executor, `runBatch` = the batch executor, both as
the driver runs them). Neither run over the first k lines reports a failure, the group keys seen are exact. Then the
follow run over the first k−1 lines did not fail either, and
* if the k-th line is shown (admitted, and WHERE admits its row), the follow run prints, after everything it printed for
  the first k−1 lines, exactly what the batch run over the first k lines prints;
* otherwise it prints nothing for the k-th line, and the batch run over the first k lines prints what the batch run over
  the first k−1 lines prints (which does not fail either). -/
theorem follow_exec_step (O : Oracles) (qy : Query) (q : AggStmt) (hq : qy.stmt = .aggregate q) (hj : qy.join = none)
    (hlim : q.limit = none) (joined : List FileLine) (pre : List Line) (l : Line)
    (hf : hasFailed (runFollowAll O qy none (pre ++ [l])) = false)
    (hb : hasFailed (runBatch O qy joined [asFile (pre ++ [l])] none) = false)
    (hex : KeysExact (groupKeysOf O q (followEnvs qy.table (pre ++ [l])))) :
    hasFailed (runFollowAll O qy none pre) = false ∧
    (lineShown O qy q l →
      (runFollowAll O qy none (pre ++ [l])).printed =
        (runFollowAll O qy none pre).printed ++ (runBatch O qy joined [asFile (pre ++ [l])] none).printed) ∧
    (¬ lineShown O qy q l →
      (runFollowAll O qy none (pre ++ [l])).printed = (runFollowAll O qy none pre).printed ∧
      (runBatch O qy joined [asFile (pre ++ [l])] none).printed = (runBatch O qy joined [asFile pre] none).printed ∧
      hasFailed (runBatch O qy joined [asFile pre] none) = false) := by
  obtain ⟨st2, ts, hft⟩ := runFollowAll_agg_ok O qy q hq hj hlim _ hf
  obtain ⟨sb, r, hrun, hfin⟩ := runBatch_agg_ok O qy q hq hj joined _ (asFile_readable _) hb
  have hF := runFollowAll_agg O qy q hq hj hlim _ hft
  have hB := runBatch_agg O qy q hq hj joined [asFile (pre ++ [l])] (by simpa using asFile_readable _)
    (by simpa using hrun) hfin
  have hrun' : aggRun O q (followEnvs qy.table (pre ++ [l])) {} = .ok sb := hrun
  by_cases hadm : anyResult l.row = true
  · have he : followEnvs qy.table (pre ++ [l]) = followEnvs qy.table pre ++ [lineEnv qy.table l] := by
      rw [followEnvs_append, followEnvs_cons]
      simp [hadm, followEnvs, asFile, envsOf]
    rw [he] at hft hex hrun'
    obtain ⟨sf, ts0, hpre, hcase⟩ := followTables_snoc_batch hlim _ _ hft hrun' hfin hex
    have hFp := runFollowAll_agg O qy q hq hj hlim pre hpre
    refine ⟨by rw [hFp]; rfl, ?_, ?_⟩
    · intro hs
      rcases hcase with ⟨_, hts⟩ | ⟨hp, _, _⟩
      · rw [hF, hFp, hB, hts]
        simp [List.flatMap_append]
      · rw [hs.2] at hp; cases hp
    · intro hns
      rcases hcase with ⟨hp, _⟩ | ⟨_, hts, hbp⟩
      · exact absurd ⟨hadm, hp⟩ hns
      · have hBp := runBatch_agg O qy q hq hj joined [asFile pre] (by simpa using asFile_readable _)
          (by simpa [followEnvs] using hbp) hfin
        rw [hF, hFp, hB, hBp, hts]
        exact ⟨rfl, rfl, rfl⟩
  · have he : followEnvs qy.table (pre ++ [l]) = followEnvs qy.table pre := by
      rw [followEnvs_append, followEnvs_cons]
      simp [hadm, followEnvs, asFile, envsOf]
    rw [he] at hft hrun'
    have hFp := runFollowAll_agg O qy q hq hj hlim pre hft
    have hBp := runBatch_agg O qy q hq hj joined [asFile pre] (by simpa using asFile_readable _)
      (by simpa [followEnvs] using hrun') hfin
    refine ⟨by rw [hFp]; rfl, fun hs => absurd hs.1 hadm, fun _ => ?_⟩
    rw [hF, hFp, hB, hBp]
    exact ⟨rfl, rfl, rfl⟩

/-- **what follow mode has shown last** after any number of lines: its output ends with exactly what a batch run over
the same lines prints — or it has printed nothing at all, because no line so far was shown. -/
theorem follow_exec_last (O : Oracles) (qy : Query) (q : AggStmt) (hq : qy.stmt = .aggregate q) (hj : qy.join = none)
    (hlim : q.limit = none) (joined : List FileLine) (lines : List Line)
    (hf : hasFailed (runFollowAll O qy none lines) = false)
    (hb : hasFailed (runBatch O qy joined [asFile lines] none) = false)
    (hex : KeysExact (groupKeysOf O q (followEnvs qy.table lines))) :
    (∃ earlier, (runFollowAll O qy none lines).printed = earlier ++ (runBatch O qy joined [asFile lines] none).printed) ∨
    ((runFollowAll O qy none lines).printed = [] ∧ ∀ l ∈ lines, ¬ lineShown O qy q l) := by
  obtain ⟨st2, ts, hft⟩ := runFollowAll_agg_ok O qy q hq hj hlim _ hf
  obtain ⟨sb, r, hrun, hfin⟩ := runBatch_agg_ok O qy q hq hj joined _ (asFile_readable _) hb
  have hF := runFollowAll_agg O qy q hq hj hlim _ hft
  have hB := runBatch_agg O qy q hq hj joined [asFile lines] (by simpa using asFile_readable _) (by simpa using hrun) hfin
  have hrun' : aggRun O q (followEnvs qy.table lines) {} = .ok sb := hrun
  rcases followTables_last hlim _ _ rfl hft hrun' hfin hex with ⟨ts0, hts⟩ | ⟨hts, hall⟩
  · left
    refine ⟨ts0.flatMap (fun r => printResult r true), ?_⟩
    rw [hF, hB, hts]
    simp [List.flatMap_append]
  · right
    refine ⟨by rw [hF, hts]; rfl, ?_⟩
    intro l hl hs
    have := hall _ (mem_followEnvs qy.table l lines hs.1 hl)
    rw [hs.2] at this
    cases this

end Sqlgrep
