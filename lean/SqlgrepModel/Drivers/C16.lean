import SqlgrepModel.Codec
/- Driver handler for C16 cases: `cmp3 a b c` → model answers for the pair/triple. -/
namespace Sqlgrep.Drivers.C16
open Sqlgrep

def handle (args : List Sexp) : String :=
  match args.mapM Value.ofSexp with
  | some [a, b, c] =>
    let o (x y : Value) := showOrdering (Value.cmp x y)
    let e (x y : Value) := if Value.beq x y then "1" else "0"
    let h (x y : Value) := if Value.hashRepr x == Value.hashRepr y then "1" else "0"
    s!"cmp {o a b} {o b c} {o a c} {o b a} eq {e a b} {e b c} {e a c} {e a a} hash {h a b} {h b c} {h a c}"
  | _ => "bad-case"

end Sqlgrep.Drivers.C16
