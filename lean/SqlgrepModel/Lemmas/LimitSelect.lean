import SqlgrepModel.Lemmas.SelectRun
/-
Varying LIMIT / DISTINCT of a non-aggregate statement: the candidate rows of the lines do not depend on them,
and a run without LIMIT that does not fail is one that the specification decides.
-/
namespace Sqlgrep
open Sqlgrep.Spec.Select

/-- the same query with another non-aggregate statement -/
def Query.withSelect (qy : Query) (q : SelectStmt) : Query := { qy with stmt := .select q }

def SelectStmt.withLimit (q : SelectStmt) (lim : Option Nat) : SelectStmt := { q with limit := lim }
def SelectStmt.withDistinct (q : SelectStmt) (d : Bool) : SelectStmt := { q with distinct := d }
@[simp] theorem SelectStmt.withLimit_limit (q : SelectStmt) (lim : Option Nat) : (q.withLimit lim).limit = lim := rfl
@[simp] theorem SelectStmt.withLimit_distinct (q : SelectStmt) (lim : Option Nat) :
    (q.withLimit lim).distinct = q.distinct := rfl
@[simp] theorem SelectStmt.withDistinct_distinct (q : SelectStmt) (d : Bool) : (q.withDistinct d).distinct = d := rfl
@[simp] theorem SelectStmt.withDistinct_limit (q : SelectStmt) (d : Bool) : (q.withDistinct d).limit = q.limit := rfl

/-- two statements that differ at most in LIMIT and DISTINCT -/
def SameRows (q q' : SelectStmt) : Prop :=
  q'.projections = q.projections ∧ q'.wildcard = q.wildcard ∧ q'.filter = q.filter

theorem sameRows_limit (q : SelectStmt) (lim : Option Nat) : SameRows q (q.withLimit lim) := ⟨rfl, rfl, rfl⟩
theorem sameRows_distinct (q : SelectStmt) (d : Bool) : SameRows q (q.withDistinct d) := ⟨rfl, rfl, rfl⟩
theorem sameRows_both (q : SelectStmt) (lim : Option Nat) (d : Bool) :
    SameRows q ((q.withDistinct d).withLimit lim) := ⟨rfl, rfl, rfl⟩

theorem envRow_same (O : Oracles) (q q' : SelectStmt) (h : SameRows q q') (env : Env) (keys : List String) :
    envRow O q' env keys = envRow O q env keys := by
  obtain ⟨h1, h2, h3⟩ := h
  simp only [envRow, outExprs, h1, h2, h3]

theorem envsRows_same (O : Oracles) (q q' : SelectStmt) (h : SameRows q q') (envs : List (Env × List String)) :
    envsRows O q' envs = envsRows O q envs := by
  induction envs with
  | nil => rfl
  | cons p rest ih =>
    obtain ⟨env, keys⟩ := p
    simp only [envsRows, envRow_same O q q' h, ih]

theorem lineRows_same (O : Oracles) (qy : Query) (q q' : SelectStmt) (h : SameRows q q') (idx : JoinIndex) (l : Line) :
    lineRows O (qy.withSelect q') q' idx l = lineRows O qy q idx l := by
  have e : ∀ ao, lineEnvs (qy.withSelect q') idx ao l = lineEnvs qy idx ao l := fun _ => rfl
  simp only [lineRows, e, envsRows_same O q q' h]

theorem linesRows_same (O : Oracles) (qy : Query) (q q' : SelectStmt) (h : SameRows q q') (idx : JoinIndex)
    (ls : List Line) : linesRows O (qy.withSelect q') q' idx ls = linesRows O qy q idx ls := by
  induction ls with
  | nil => rfl
  | cons l ls ih => simp only [linesRows, lineRows_same O qy q q' h, ih]

theorem batchBlocks_same (O : Oracles) (qy : Query) (q q' : SelectStmt) (h : SameRows q q') (joined : List FileLine)
    (files : List (List FileLine)) :
    batchBlocks O (qy.withSelect q') q' joined files = batchBlocks O qy q joined files := by
  have e : joinIndexOf (qy.withSelect q') joined = joinIndexOf qy joined := rfl
  simp only [batchBlocks, e, linesRows_same O qy q q' h]

theorem columnsOf_same (qy : Query) (q q' : SelectStmt) (h : SameRows q q') :
    columnsOf (qy.withSelect q') q' = columnsOf qy q := by
  obtain ⟨h1, h2, _⟩ := h
  have e : queryKeys (qy.withSelect q') = queryKeys qy := rfl
  simp only [columnsOf, outNames, e, h1, h2]

/-! ### a run without LIMIT that does not fail is decided by the specification -/

theorem hasFailed_error (ro : RunOut) (k : ErrKind) : hasFailed { ro with error := some k } = true := by
  simp [hasFailed]

theorem hasFailed_failWith {α : Type} (ro : RunOut) (o : Outcome α) (h : ∀ a, o ≠ .ok a) :
    hasFailed (failWith ro o) = true := by
  cases o with
  | ok a => exact absurd rfl (h a)
  | error k => simp [failWith, hasFailed]
  | panic s => simp [failWith, hasFailed]
  | oracleMissing s => simp [failWith, hasFailed]

theorem runFile_unlimited_ok (O : Oracles) (qy : Query) (q : SelectStmt) (hq : qy.stmt = .select q)
    (hl : q.limit = none) (idx : JoinIndex) (w : Bool) (fls : List FileLine) (ls : LoopState)
    (h : hasFailed (runFile O qy idx w none fls ls).out = false) :
    (∀ fl ∈ fls, fl.readable = true) ∧ ∃ blocks, linesRows O qy q idx (fls.map (·.line)) = .ok blocks := by
  induction fls generalizing ls with
  | nil =>
    refine ⟨?_, [], rfl⟩
    intro fl hfl
    cases hfl
  | cons fl rest ih =>
    have hn : ((none : Option Nat) == some ls.consumed) = false := rfl
    by_cases hr : fl.readable = true
    · have hx := executeLine_select O qy q hq idx w ls.es fl.line
      cases hb : lineRows O qy q idx fl.line with
      | ok b =>
        rw [hb] at hx
        simp only [Outcome.bind] at hx
        obtain ⟨_, _, h3⟩ := updateLimit_tableOf q.limit
          { ls.es with seen := seenAfter q.distinct ls.es.seen (keepRows q.distinct ls.es.seen b) }
          (columnsOf qy q) (keepRows q.distinct ls.es.seen b)
        generalize updateLimit true q.limit { ls.es with seen := seenAfter q.distinct ls.es.seen (keepRows q.distinct ls.es.seen b) }
          (tableOf (columnsOf qy q) (keepRows q.distinct ls.es.seen b)) = U at hx h3
        obtain ⟨es1, lo⟩ := U
        rw [runFile_cons_ok O qy idx w fl rest ls es1 lo hr hx] at h
        simp only [hl, reachedAt] at h3
        simp only [h3, Bool.false_eq_true, if_false] at h
        obtain ⟨h1, bs, h2⟩ := ih _ h
        refine ⟨?_, b :: bs, ?_⟩
        · intro x hx
          rcases List.mem_cons.1 hx with rfl | hx
          · exact hr
          · exact h1 x hx
        · simp only [List.map_cons, linesRows, hb, h2, bind, Outcome.bind, pure]
      | error k =>
        rw [hb] at hx
        simp only [runFile, hn, hr, hx, Outcome.bind] at h
        simp [failWith, hasFailed] at h
      | panic s =>
        rw [hb] at hx
        simp only [runFile, hn, hr, hx, Outcome.bind] at h
        simp [failWith, hasFailed] at h
      | oracleMissing s =>
        rw [hb] at hx
        simp only [runFile, hn, hr, hx, Outcome.bind] at h
        simp [failWith, hasFailed] at h
    · simp only [runFile, hn, hr] at h
      simp [hasFailed] at h

/-- a batch run without LIMIT that does not fail: the join was set up, every line was readable and every
expression had a value on every admitted line — the specification decides it -/
theorem batchBlocks_of_unlimited_ok (O : Oracles) (qy : Query) (q : SelectStmt) (hq : qy.stmt = .select q)
    (hl : q.limit = none) (joined : List FileLine) (files : List (List FileLine))
    (h : hasFailed (runBatch O qy joined files none) = false) :
    ∃ blocks, batchBlocks O qy q joined files = some blocks := by
  cases hj : joinIndexOf qy joined with
  | ok idx =>
    rw [runBatch_select_out O qy q hq joined files idx hj] at h
    have h0 : reachedLimit qy ({} : LoopState).es = false := by simp [reachedLimit, hq, hl]
    rw [runFiles_select_flatten O qy q hq idx true files {} rfl h0] at h
    obtain ⟨h1, blocks, h2⟩ := runFile_unlimited_ok O qy q hq hl idx true files.flatten {} h
    refine ⟨blocks, ?_⟩
    have hall : files.flatten.all (·.readable) = true := List.all_eq_true.2 (fun x hx => by simpa using h1 x hx)
    simp only [batchBlocks, hj, hall, if_true, h2]
  | error k =>
    rw [runBatch_join_failed O qy joined files (by intro idx; rw [hj]; intro e; cases e)] at h; cases h
  | panic s =>
    rw [runBatch_join_failed O qy joined files (by intro idx; rw [hj]; intro e; cases e)] at h; cases h
  | oracleMissing s =>
    rw [runBatch_join_failed O qy joined files (by intro idx; rw [hj]; intro e; cases e)] at h; cases h

end Sqlgrep
