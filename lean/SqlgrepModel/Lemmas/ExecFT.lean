import SqlgrepModel.Lemmas.ExecT
import SqlgrepModel.Lemmas.FollowBridge
import SqlgrepModel.Lemmas.InterruptFollow
import SqlgrepModel.Lemmas.PipelineAligned
import SqlgrepModel.Lemmas.NoPanicEngine
import SqlgrepModel.Lemmas.NoiseRun
/-
The traced follow loop (`Model/ExecT.lean` `runFollowT` / `runFollowAllT`: what `Pipeline.followText` executes, with the
calls of `OutputPrinter::print` kept as data) is the follow loop of `Model/ExecI.lean`; its recorded calls are the
result tables of the engine's line-at-a-time answers (`feedLines`), so the statements about those answers (C06, C11)
and about interrupts (C19) are statements about what reaches the printer in any format.
-/
namespace Sqlgrep
open Sqlgrep.Spec.Select

theorem isUpdated_eq (qy : Query) : isUpdated qy = followSingleResult qy := by
  unfold isUpdated followSingleResult
  cases qy.stmt <;> rfl

theorem isUpdated_eq' (qy : Query) : isUpdated qy = followSingle qy := by
  unfold isUpdated followSingle
  cases qy.stmt <;> rfl

/-! ### the traced loop is the loop -/

theorem runFollowT_ls (O : Oracles) (qy : Query) (sa : Option Nat) (lines : List Line) (s : TraceState) :
    (runFollowT O qy sa lines s).ls = runFollow O qy sa lines s.ls := by
  induction lines generalizing s with
  | nil => rfl
  | cons l rest ih =>
    rw [runFollowT, runFollow]
    by_cases hs : (sa == some s.ls.consumed) = true
    · simp only [hs, if_true]
    · simp only [hs, Bool.false_eq_true, if_false]
      cases hx : executeLine O qy [] true s.ls.es l with
      | ok p =>
        obtain ⟨es, res, lim⟩ := p
        cases res with
        | none => simp only; rw [ih]
        | some r =>
          cases lim with
          | true => simp only [if_true]; cases hq : qy.stmt <;> simp [isUpdated, hq]
          | false =>
            simp only [Bool.false_eq_true, if_false]
            rw [ih]
            cases hq : qy.stmt <;> simp [isUpdated, hq]
      | error k => rfl
      | panic k => rfl
      | oracleMissing k => rfl

theorem runFollowT_printed (O : Oracles) (qy : Query) (sa : Option Nat) (lines : List Line) (s : TraceState)
    (h : s.ls.out.printed = renderCalls s.calls) :
    (runFollowT O qy sa lines s).ls.out.printed = renderCalls (runFollowT O qy sa lines s).calls := by
  induction lines generalizing s with
  | nil => exact h
  | cons l rest ih =>
    rw [runFollowT]
    by_cases hs : (sa == some s.ls.consumed) = true
    · simp only [hs, if_true]; exact h
    · simp only [hs, Bool.false_eq_true, if_false]
      cases hx : executeLine O qy [] true s.ls.es l with
      | ok p =>
        obtain ⟨es, res, lim⟩ := p
        cases res with
        | none => simp only; exact ih _ h
        | some r =>
          have hp : s.ls.out.printed ++ printResult r (isUpdated qy) =
              renderCalls (s.calls ++ [{ result := r, final := isUpdated qy }]) := by
            rw [renderCalls_append, h]; simp [renderCalls, PrintCall.text]
          cases lim with
          | true => simp only [if_true]; exact hp
          | false => simp only [Bool.false_eq_true, if_false]; exact ih _ hp
      | error k => simpa [failWith] using h
      | panic k => simpa [failWith] using h
      | oracleMissing k => simpa [failWith] using h

/-- **the traced follow run is the follow run** -/
theorem runFollowAllT_out (O : Oracles) (qy : Query) (sa : Option Nat) (lines : List Line) :
    (runFollowAllT O qy sa lines).out = runFollowAll O qy sa lines := by
  unfold runFollowAllT runFollowAll
  split
  · rfl
  · simp only [runFollowT_ls]

theorem runFollowAllT_printed (O : Oracles) (qy : Query) (sa : Option Nat) (lines : List Line) :
    (runFollowAllT O qy sa lines).out.printed = renderCalls (runFollowAllT O qy sa lines).calls := by
  unfold runFollowAllT
  split
  · rfl
  · exact runFollowT_printed O qy sa lines {} rfl

/-! ### the recorded calls are the result tables of the engine's answers -/

/-- the loop of `FollowFileExecutor::execute` over the engine's answers, as print calls (cf. `followPrinted`) -/
def followCalls (single : Bool) : List LineOut → List PrintCall
  | [] => []
  | lo :: rest =>
    match lo.result with
    | some r => { result := r, final := single } :: (if lo.reachedLimit then [] else followCalls single rest)
    | none => followCalls single rest

theorem followCalls_withResult (single : Bool) (los : List LineOut) :
    followCalls single (withResult los) = followCalls single los := by
  induction los with
  | nil => rfl
  | cons lo rest ih =>
    unfold withResult at ih ⊢
    cases hr : lo.result with
    | none => simp only [List.filter_cons, hr, Option.isSome_none, Bool.false_eq_true, if_false, followCalls]; exact ih
    | some r => simp only [List.filter_cons, hr, Option.isSome_some, if_true, followCalls, ih]

theorem runFollowT_calls (O : Oracles) (qy : Query) (lines : List Line) (s : TraceState) :
    (runFollowT O qy none lines s).calls = s.calls ++ followCalls (isUpdated qy) (feedLines O qy [] true lines s.ls.es).1 := by
  induction lines generalizing s with
  | nil => simp [runFollowT, feedLines, followCalls]
  | cons l rest ih =>
    rw [runFollowT]
    have hn : ((none : Option Nat) == some s.ls.consumed) = false := rfl
    simp only [hn, Bool.false_eq_true, if_false, feedLines]
    cases hx : executeLine O qy [] true s.ls.es l with
    | ok p =>
      obtain ⟨es, res, lim⟩ := p
      cases res with
      | none => simp only [followCalls]; rw [ih]
      | some r =>
        cases lim with
        | true => simp only [if_true, followCalls]
        | false =>
          simp only [Bool.false_eq_true, if_false, followCalls]
          rw [ih]
          simp
    | error k => simp [followCalls]
    | panic k => simp [followCalls]
    | oracleMissing k => simp [followCalls]

theorem runFollowAllT_calls (O : Oracles) (qy : Query) (lines : List Line) :
    (runFollowAllT O qy none lines).calls =
      if reachedLimit qy {} then [] else followCalls (isUpdated qy) (feedLines O qy [] true lines {}).1 := by
  unfold runFollowAllT
  split
  · rfl
  · simp only [runFollowT_calls]; rfl

/-! ### an interrupt -/

theorem runFollowT_stop_eq_take (O : Oracles) (qy : Query) (k : Nat) (lines : List Line) (s : TraceState)
    (h : s.ls.consumed ≤ k) :
    runFollowT O qy (some k) lines s = runFollowT O qy none (lines.take (k - s.ls.consumed)) s := by
  induction lines generalizing s with
  | nil => simp [runFollowT]
  | cons l rest ih =>
    by_cases hk : k = s.ls.consumed
    · simp [runFollowT, hk]
    · have hpos : k - s.ls.consumed = (k - (s.ls.consumed + 1)) + 1 := by omega
      rw [hpos, List.take_succ_cons]
      simp only [runFollowT]
      have h1 : (some k == some s.ls.consumed) = false := by simpa using hk
      have h2 : ((none : Option Nat) == some s.ls.consumed) = false := by simp
      simp only [h1, h2, Bool.false_eq_true, if_false]
      cases hx : executeLine O qy [] true s.ls.es l with
      | ok p =>
        obtain ⟨es1, lo1⟩ := p
        simp only
        cases hres : lo1.result with
        | none =>
          simp only
          exact ih _ (by simp only; omega)
        | some r =>
          simp only
          by_cases hl : lo1.reachedLimit = true
          · simp only [hl, if_true]
          · simp only [hl, Bool.false_eq_true, if_false]
            exact ih _ (by simp only; omega)
      | error e => rfl
      | panic s => rfl
      | oracleMissing s => rfl

/-- **an interrupted follow run is the uninterrupted run over the lines delivered before** — print calls included -/
theorem runFollowAllT_stopAt (O : Oracles) (qy : Query) (k : Nat) (lines : List Line) :
    runFollowAllT O qy (some k) lines = runFollowAllT O qy none (lines.take k) := by
  unfold runFollowAllT
  split
  · rfl
  · rw [runFollowT_stop_eq_take O qy k lines {} (Nat.zero_le _)]
    rfl

theorem runFollowT_calls_extends (O : Oracles) (qy : Query) (sa : Option Nat) (lines : List Line) (s : TraceState) :
    s.calls <+: (runFollowT O qy sa lines s).calls := by
  induction lines generalizing s with
  | nil => exact List.prefix_refl _
  | cons l rest ih =>
    rw [runFollowT]
    split
    · exact List.prefix_refl _
    · simp only
      cases hx : executeLine O qy [] true s.ls.es l with
      | ok p =>
        obtain ⟨es, res, lim⟩ := p
        cases res with
        | none =>
          simp only
          refine List.IsPrefix.trans ?_ (ih _)
          exact List.prefix_refl _
        | some r =>
          cases lim with
          | true => simp only [if_true]; exact List.prefix_append _ _
          | false =>
            simp only [Bool.false_eq_true, if_false]
            refine List.IsPrefix.trans ?_ (ih _)
            exact List.prefix_append _ _
      | error k => exact List.prefix_refl _
      | panic k => exact List.prefix_refl _
      | oracleMissing k => exact List.prefix_refl _

/-- the calls recorded over a prefix of the lines are a prefix of the calls recorded over all lines -/
theorem runFollowT_calls_prefix (O : Oracles) (qy : Query) (k : Nat) (lines : List Line) (s : TraceState) :
    (runFollowT O qy none (lines.take k) s).calls <+: (runFollowT O qy none lines s).calls := by
  induction lines generalizing k s with
  | nil => simp
  | cons l rest ih =>
    cases k with
    | zero =>
      rw [List.take_zero]
      show s.calls <+: _
      exact runFollowT_calls_extends O qy none _ s
    | succ k =>
      rw [List.take_succ_cons, runFollowT, runFollowT]
      have hn : ((none : Option Nat) == some s.ls.consumed) = false := rfl
      simp only [hn, Bool.false_eq_true, if_false]
      cases hx : executeLine O qy [] true s.ls.es l with
      | ok p =>
        obtain ⟨es, res, lim⟩ := p
        cases res with
        | none => simp only; exact ih k _
        | some r =>
          cases lim with
          | true => exact List.prefix_refl _
          | false => simp only [Bool.false_eq_true, if_false]; exact ih k _
      | error e => exact List.prefix_refl _
      | panic e => exact List.prefix_refl _
      | oracleMissing e => exact List.prefix_refl _

theorem runFollowAllT_calls_prefix (O : Oracles) (qy : Query) (k : Nat) (lines : List Line) :
    (runFollowAllT O qy (some k) lines).calls <+: (runFollowAllT O qy none lines).calls := by
  rw [runFollowAllT_stopAt]
  unfold runFollowAllT
  split
  · exact List.prefix_refl _
  · exact runFollowT_calls_prefix O qy k lines {}

/-- a run over a prefix of the lines that failed is the run over all lines: the loop ended at the failing line -/
theorem runFollowT_take_failed (O : Oracles) (qy : Query) (k : Nat) (lines : List Line) (s : TraceState)
    (h0 : hasFailed s.ls.out = false) (h : hasFailed (runFollowT O qy none (lines.take k) s).ls.out = true) :
    runFollowT O qy none (lines.take k) s = runFollowT O qy none lines s := by
  induction lines generalizing k s with
  | nil => simp
  | cons l rest ih =>
    cases k with
    | zero => simp only [List.take_zero, runFollowT] at h; rw [h0] at h; cases h
    | succ k =>
      rw [List.take_succ_cons] at h ⊢
      rw [runFollowT] at h ⊢
      rw [runFollowT]
      have hn : ((none : Option Nat) == some s.ls.consumed) = false := rfl
      simp only [hn, Bool.false_eq_true, if_false] at h ⊢
      cases hx : executeLine O qy [] true s.ls.es l with
      | ok p =>
        obtain ⟨es, res, lim⟩ := p
        rw [hx] at h
        cases res with
        | none =>
          simp only at h ⊢
          exact ih k _ (by simpa [hasFailed] using h0) h
        | some r =>
          cases lim with
          | true => rfl
          | false =>
            simp only [Bool.false_eq_true, if_false] at h ⊢
            exact ih k _ (by simpa [hasFailed] using h0) h
      | error e => rfl
      | panic e => rfl
      | oracleMissing e => rfl

theorem runFollowAllT_take_failed (O : Oracles) (qy : Query) (k : Nat) (lines : List Line)
    (h : hasFailed (runFollowAllT O qy none (lines.take k)).out = true) :
    runFollowAllT O qy none (lines.take k) = runFollowAllT O qy none lines := by
  unfold runFollowAllT at h ⊢
  split
  · rfl
  · rename_i hl
    simp only [hl, Bool.false_eq_true, if_false] at h
    rw [runFollowT_take_failed O qy k lines {} rfl h]

/-! ### noise lines -/

/-- **lines that yield no row are invisible to the traced follow run**: the same print calls, the same way of ending -/
theorem runFollowAllT_noise (O : Oracles) (qy : Query) (lines : List Line) :
    (runFollowAllT O qy none (lines.filter (fun l => anyResult l.row))).calls = (runFollowAllT O qy none lines).calls ∧
    SameOut (runFollowAllT O qy none (lines.filter (fun l => anyResult l.row))).out (runFollowAllT O qy none lines).out := by
  constructor
  · rw [runFollowAllT_calls, runFollowAllT_calls]
    split
    · rfl
    · rw [← followCalls_withResult, (feedLines_noise O qy [] true lines {}).1, followCalls_withResult]
  · rw [runFollowAllT_out, runFollowAllT_out]
    obtain ⟨h1, h2⟩ := runFollowAll_noise O qy lines
    simp only [endStatus, Prod.mk.injEq] at h2
    exact ⟨h1, h2.1, h2.2.1, h2.2.2⟩

/-! ### never a panic; aligned tables -/

theorem runFollow_no_panic (O : Oracles) (qy : Query) (sa : Option Nat) (lines : List Line) (ls : LoopState)
    (hinv : NoPanicEngine.EInv qy ls.es) (h0 : ls.out.panicked = false) :
    (runFollow O qy sa lines ls).out.panicked = false := by
  induction lines generalizing ls with
  | nil => exact h0
  | cons l rest ih =>
    rw [runFollow]
    split
    · exact h0
    · simp only
      have hnp := NoPanicEngine.NP_executeLine O qy [] true ls.es l hinv
      cases hx : executeLine O qy [] true ls.es l with
      | ok p =>
        obtain ⟨es, res, lim⟩ := p
        have hinv' := NoPanicEngine.executeLine_inv hx hinv
        cases res with
        | none => exact ih _ hinv' h0
        | some r =>
          cases lim with
          | true => exact h0
          | false => exact ih _ hinv' h0
      | error k => exact h0
      | panic s => rw [hx] at hnp; simp [NP, Outcome.isPanic] at hnp
      | oracleMissing w => exact h0

theorem runFollowAllT_no_panic (O : Oracles) (qy : Query) (sa : Option Nat) (lines : List Line) :
    (runFollowAllT O qy sa lines).out.panicked = false := by
  rw [runFollowAllT_out]
  unfold runFollowAll
  split
  · rfl
  · exact runFollow_no_panic O qy sa lines {} (NoPanicEngine.EInv.init qy) rfl

/-- the per-line result of the follow loop (`ExecutionConfig::default()`: update and result) is aligned -/
theorem executeLine_follow_aligned {O : Oracles} {qy : Query} {idx : JoinIndex} {es es' : EngineState} {l : Line} {lo : LineOut}
    (h : executeLine O qy idx true es l = .ok (es', lo)) : OptAligned lo.result := by
  cases hq : qy.stmt with
  | select q => exact executeLine_select_aligned hq h
  | aggregate q =>
    unfold executeLine at h
    simp only [hq, if_true] at h
    split at h
    · simp only [Outcome.ok.injEq] at h
      have : lo = (updateLimit false q.limit es none).2 := by rw [h]
      rw [this]
      exact updateLimit_aligned _ _ _ _ True.intro
    · simp only [bind] at h
      cases he : lineEnvs qy idx false l with
      | ok envs =>
        rw [he] at h
        simp only [Outcome.bind] at h
        cases ha : aggEnvs O q envs es.agg false with
        | ok p =>
          obtain ⟨st, u⟩ := p
          rw [ha] at h
          simp only [Outcome.bind] at h
          cases u with
          | false =>
            simp only [Bool.false_eq_true, if_false, pure, Outcome.ok.injEq] at h
            have : lo = (updateLimit false q.limit { es with agg := st } none).2 := by rw [h]
            rw [this]
            exact updateLimit_aligned _ _ _ _ True.intro
          | true =>
            simp only [if_true] at h
            cases hr : aggResult O q st with
            | ok p2 =>
              obtain ⟨st', out⟩ := p2
              rw [hr] at h
              simp only [Outcome.bind, pure, Outcome.ok.injEq] at h
              have : lo = (updateLimit false q.limit { es with agg := st' } (some out)).2 := by rw [h]
              rw [this]
              exact updateLimit_aligned _ _ _ _ (aggResult_aligned hr)
            | error k => rw [hr] at h; cases h
            | panic s => rw [hr] at h; cases h
            | oracleMissing w => rw [hr] at h; cases h
        | error k => rw [ha] at h; cases h
        | panic s => rw [ha] at h; cases h
        | oracleMissing w => rw [ha] at h; cases h
      | error k => rw [he] at h; cases h
      | panic s => rw [he] at h; cases h
      | oracleMissing w => rw [he] at h; cases h

theorem runFollowT_aligned (O : Oracles) (qy : Query) (sa : Option Nat) (lines : List Line) (s : TraceState)
    (h : CallsAligned s.calls) : CallsAligned (runFollowT O qy sa lines s).calls := by
  induction lines generalizing s with
  | nil => exact h
  | cons l rest ih =>
    rw [runFollowT]
    split
    · exact h
    · simp only
      cases hx : executeLine O qy [] true s.ls.es l with
      | ok p =>
        obtain ⟨es, res, lim⟩ := p
        have ha := executeLine_follow_aligned hx
        cases res with
        | none => exact ih _ h
        | some r =>
          have hc : CallsAligned (s.calls ++ [{ result := r, final := isUpdated qy }]) := by
            apply CallsAligned.append h
            intro c hc
            simp only [List.mem_singleton] at hc
            subst hc
            exact ha
          cases lim with
          | true => exact hc
          | false => exact ih _ hc
      | error k => exact h
      | panic k => exact h
      | oracleMissing k => exact h

theorem runFollowAllT_aligned (O : Oracles) (qy : Query) (sa : Option Nat) (lines : List Line) :
    CallsAligned (runFollowAllT O qy sa lines).calls := by
  unfold runFollowAllT
  split
  · intro c hc; cases hc
  · exact runFollowT_aligned O qy sa lines {} (by intro c hc; cases hc)

end Sqlgrep
