import SqlgrepModel.Lemmas.AggPerm
import SqlgrepModel.Lemmas.FloatArith
/-
`RealAddLaws` discharged. `Lemmas/AggPerm.lean` derives "a REAL sum does not depend on the order" and "the sum of a
concatenation is the sum of the parts' sums" from three laws of the addition on the values at hand (`AddLaws`). Until
`Model/FloatArith.lean` the addition was the opaque hardware `Float` and the laws were an assumption. Now `F64.add` is exact
integer arithmetic with correct rounding, and the laws are PROVED for every list of addends all of whose sub-multiset sums
are REALs (`ExactSums`, the property's "sums exactly representable" as a decidable predicate): IEEE addition returns the exact
sum when it is a REAL (`F64.addX_exact`), and exact addition is associative and commutative.
-/
namespace Sqlgrep
open Value Spec.Agg

/-! ### the sums of the sub-multisets of a list of integers -/

def isum : List Int → Int
  | [] => 0
  | x :: xs => x + isum xs

theorem isum_append (a b : List Int) : isum (a ++ b) = isum a + isum b := by
  induction a with
  | nil => simp [isum]
  | cons x xs ih => simp only [List.cons_append, isum, ih]; omega

/-- every sum of some of the elements (each used at most as often as it occurs) -/
def subsetSums : List Int → List Int
  | [] => [0]
  | x :: xs => subsetSums xs ++ (subsetSums xs).map (· + x)

theorem mem_subsetSums_cons {t x : Int} {xs : List Int} :
    t ∈ subsetSums (x :: xs) ↔ t ∈ subsetSums xs ∨ ∃ s ∈ subsetSums xs, s + x = t := by
  simp [subsetSums, List.mem_append, List.mem_map]

theorem zero_mem_subsetSums (us : List Int) : (0 : Int) ∈ subsetSums us := by
  induction us with
  | nil => simp [subsetSums]
  | cons x xs ih => exact mem_subsetSums_cons.2 (Or.inl ih)

theorem subsetSums_perm {us vs : List Int} (h : us.Perm vs) : ∀ t, t ∈ subsetSums us ↔ t ∈ subsetSums vs := by
  induction h with
  | nil => intro t; exact Iff.rfl
  | cons x _ ih =>
    intro t
    rw [mem_subsetSums_cons, mem_subsetSums_cons, ih t]
    constructor
    · rintro (h | ⟨s, hs, e⟩)
      · exact Or.inl h
      · exact Or.inr ⟨s, (ih s).1 hs, e⟩
    · rintro (h | ⟨s, hs, e⟩)
      · exact Or.inl h
      · exact Or.inr ⟨s, (ih s).2 hs, e⟩
  | swap x y l =>
    intro t
    simp only [mem_subsetSums_cons]
    constructor
    · rintro ((h | ⟨s, hs, e⟩) | ⟨s, (hs | ⟨s', hs', e'⟩), e⟩)
      · exact Or.inl (Or.inl h)
      · exact Or.inr ⟨s, Or.inl hs, e⟩
      · exact Or.inl (Or.inr ⟨s, hs, e⟩)
      · exact Or.inr ⟨s' + y, Or.inr ⟨s', hs', rfl⟩, by omega⟩
    · rintro ((h | ⟨s, hs, e⟩) | ⟨s, (hs | ⟨s', hs', e'⟩), e⟩)
      · exact Or.inl (Or.inl h)
      · exact Or.inr ⟨s, Or.inl hs, e⟩
      · exact Or.inl (Or.inr ⟨s, hs, e⟩)
      · exact Or.inr ⟨s' + x, Or.inr ⟨s', hs', rfl⟩, by omega⟩
  | trans _ _ ih1 ih2 => intro t; exact (ih1 t).trans (ih2 t)

/-- the sum of a list that uses each element of `us` at most as often as it occurs is one of the `subsetSums` -/
theorem isum_mem_subsetSums : ∀ (l rest us : List Int), (l ++ rest).Perm us → isum l ∈ subsetSums us
  | [], _, us, _ => zero_mem_subsetSums us
  | x :: l, rest, us, h => by
    have hx : x ∈ us := h.mem_iff.1 (by simp)
    have hp : us.Perm (x :: us.erase x) := List.perm_cons_erase hx
    have h' : (l ++ rest).Perm (us.erase x) := (List.Perm.cons_inv (h.trans hp))
    have ih := isum_mem_subsetSums l rest (us.erase x) h'
    rw [subsetSums_perm hp, mem_subsetSums_cons]
    exact Or.inr ⟨isum l, ih, by simp only [isum]; omega⟩

/-! ### `ExactSums` -/

/-- is `u` units of 2^-1074 the value of a finite REAL? (round it and look) -/
def reprB (u : Int) : Bool :=
  let r := F64.withSign (decide (u < 0)) (DecFloat.magBits u.natAbs F64.unitScale)
  F64.isFinite r && F64.units r == u

theorem repr_of_reprB {u : Int} (h : reprB u = true) : F64.Repr u := by
  unfold reprB at h
  simp only [Bool.and_eq_true, beq_iff_eq] at h
  exact ⟨_, h.1, h.2⟩

/-- **the sums are exactly representable**: every addend is a finite REAL other than `-0.0`, and the exact sum of every
sub-multiset of the addends is a REAL -/
def ExactSums (rs : List Nat) : Prop :=
  (∀ y ∈ rs, F64.Nice y) ∧ ∀ u ∈ subsetSums (rs.map F64.units), reprB u = true

instance (rs : List Nat) : Decidable (ExactSums rs) := by unfold ExactSums; infer_instance

theorem ExactSums.repr {rs : List Nat} (h : ExactSums rs) {l : List Nat} (hs : SubMulti l rs) :
    F64.Repr (isum (l.map F64.units)) := by
  obtain ⟨rest, hr⟩ := hs
  apply repr_of_reprB
  apply h.2
  apply isum_mem_subsetSums (l.map F64.units) (rest.map F64.units)
  rw [← List.map_append]
  exact hr.map _

/-- the partial sums: adding up (from a nice start that stands for the exact sum of `pre`) the list `l`, where `pre ++ l` uses
the addends at most as often as they occur, stays nice and exact -/
theorem foldl_add_exact {rs : List Nat} (h : ExactSums rs) : ∀ (l pre : List Nat) (acc : Nat), SubMulti (pre ++ l) rs →
    F64.Nice acc → F64.units acc = isum (pre.map F64.units) →
    F64.Nice (l.foldl F64.add acc) ∧ F64.units (l.foldl F64.add acc) = isum ((pre ++ l).map F64.units)
  | [], pre, acc, _, hn, hu => by simpa using ⟨hn, hu⟩
  | x :: l, pre, acc, hs, hn, hu => by
    have hs' : SubMulti ((pre ++ [x]) ++ l) rs := by simpa using hs
    have hx : F64.Nice x := h.1 x (hs.mem (by simp))
    have hsum : F64.units acc + F64.units x = isum ((pre ++ [x]).map F64.units) := by
      rw [List.map_append, isum_append, hu]; simp [isum]
    have hr : F64.Repr (F64.units acc + F64.units x) := by rw [hsum]; exact h.repr hs'.left
    have hstep := F64.addX_nice hn hx hr
    have := foldl_add_exact h l (pre ++ [x]) (F64.add acc x) hs' hstep.1 (by rw [← hsum]; exact hstep.2)
    simpa using this

theorem fsum_exact {rs : List Nat} (h : ExactSums rs) {l : List Nat} (hs : SubMulti l rs) :
    F64.Nice (fsum F64.add F64.zero l) ∧ F64.units (fsum F64.add F64.zero l) = isum (l.map F64.units) := by
  have := foldl_add_exact h l [] F64.zero (by simpa using hs) (by decide) (by decide)
  simpa [fsum] using this

/-- **`RealAddLaws` holds for addends whose sums are exactly representable** -/
theorem realAddLaws_of_exactSums {rs : List Nat} (h : ExactSums rs) : RealAddLaws rs where
  zeroAdd := fun y hy => F64.addX_zero_left (h.1 y hy)
  comm := fun x _ y _ => F64.addX_comm x y
  assoc := by
    intro a b c _ _ hs
    have hab : SubMulti (a ++ b) rs := hs.left
    have hbc : SubMulti (b ++ c) rs := by rw [List.append_assoc] at hs; exact hs.right
    have A := fsum_exact h hab.left
    have B := fsum_exact h hab.right
    have C := fsum_exact h hs.right
    have rAB : F64.Repr (F64.units (fsum F64.add F64.zero a) + F64.units (fsum F64.add F64.zero b)) := by
      rw [A.2, B.2, ← isum_append, ← List.map_append]; exact h.repr hab
    have AB := F64.addX_nice A.1 B.1 rAB
    have rABC : F64.Repr (F64.units (F64.addX (fsum F64.add F64.zero a) (fsum F64.add F64.zero b)) + F64.units (fsum F64.add F64.zero c)) := by
      rw [AB.2, A.2, B.2, C.2, ← isum_append, ← isum_append, ← List.map_append, ← List.map_append]; exact h.repr hs
    have ABC := F64.addX_nice AB.1 C.1 rABC
    have rBC : F64.Repr (F64.units (fsum F64.add F64.zero b) + F64.units (fsum F64.add F64.zero c)) := by
      rw [B.2, C.2, ← isum_append, ← List.map_append]; exact h.repr hbc
    have BC := F64.addX_nice B.1 C.1 rBC
    have rA_BC : F64.Repr (F64.units (fsum F64.add F64.zero a) + F64.units (F64.addX (fsum F64.add F64.zero b) (fsum F64.add F64.zero c))) := by
      rw [BC.2, A.2, B.2, C.2, ← Int.add_assoc, ← isum_append, ← isum_append, ← List.map_append, ← List.map_append]; exact h.repr hs
    have A_BC := F64.addX_nice A.1 BC.1 rA_BC
    apply F64.eq_of_units_eq ABC.1 A_BC.1
    rw [ABC.2, A_BC.2, AB.2, BC.2]; omega

end Sqlgrep
