import SqlgrepModel.Spec.Grammar
import Lean
/-
Parsing does not depend on token locations: running the expression parser on the token vector with every location
replaced by the default one gives the same answer with every location erased (tree, error, remaining state).
Proved for the six mutually recursive functions at once by induction on the fuel.
-/
namespace Sqlgrep.Parse

def _root_.Sqlgrep.PTok.strip (t : PTok) : PTok := ⟨default, t.tok⟩
def _root_.Sqlgrep.PSt.strip (s : PSt) : PSt := ⟨s.cur.strip, s.rest.map PTok.strip⟩
def _root_.Sqlgrep.PErr.strip (e : PErr) : PErr := ⟨default, e.kind⟩
def _root_.Sqlgrep.PRes.strip {α : Type} (f : α → α) : PRes α → PRes α
  | .ok a s => .ok (f a) s.strip
  | .err e s => .err e.strip s.strip
  | .fuel => .fuel

def stripExc : Except PErr PExpr → Except PErr PExpr
  | .ok t => .ok t.eraseLoc
  | .error e => .error e.strip

theorem strip_ok {α} (f : α → α) (a : α) (s : PSt) : (PRes.ok a s).strip f = .ok (f a) s.strip := rfl
theorem strip_err {α} (f : α → α) (e : PErr) (s : PSt) : (PRes.err e s : PRes α).strip f = .err e.strip s.strip := rfl
theorem strip_fuel {α} (f : α → α) : (PRes.fuel : PRes α).strip f = .fuel := rfl
theorem stripExc_ok (t : PExpr) : stripExc (.ok t) = .ok t.eraseLoc := rfl
theorem stripExc_error (e : PErr) : stripExc (.error e) = .error e.strip := rfl

@[simp] theorem strip_cur_tok (s : PSt) : s.strip.cur.tok = s.cur.tok := rfl
@[simp] theorem strip_cur_loc (s : PSt) : s.strip.cur.loc = default := rfl

theorem next_strip (s : PSt) : next s.strip = (next s).strip id := by
  unfold next
  cases h : s.rest with
  | nil => simp [PSt.strip, h, mkErr, PRes.strip, PErr.strip, PTok.strip]
  | cons t r => simp [PSt.strip, h, PRes.strip, PTok.strip]

theorem mkErr_strip {α} (s : PSt) (k : PErrKind) (f : α → α) : (mkErr s.strip k : PRes α) = (mkErr s k).strip f := rfl

theorem tokenPrecedence_strip (T : PrecTables) (s : PSt) : tokenPrecedence T s.strip = (tokenPrecedence T s).strip id := by
  unfold tokenPrecedence
  simp only [strip_cur_tok]
  split
  · split <;> rfl
  · rfl

theorem expectConsume_strip (t : Tok) (k : PErrKind) (s : PSt) : expectConsume t k s.strip = (expectConsume t k s).strip id := by
  unfold expectConsume
  simp only [strip_cur_tok]
  by_cases h : s.cur.tok = t
  · simp only [h, if_true]; exact next_strip s
  · simp only [h, if_false]; rfl

theorem consumeIdentifier_strip (s : PSt) : consumeIdentifier s.strip = (consumeIdentifier s).strip id := by
  unfold consumeIdentifier
  simp only [strip_cur_tok]
  split
  · rw [next_strip]; cases next s <;> rfl
  · rfl


theorem eraseLocs_append (a b : List PExpr) :
    PExpr.eraseLoc.eraseLocs (a ++ b) = PExpr.eraseLoc.eraseLocs a ++ PExpr.eraseLoc.eraseLocs b := by
  induction a with
  | nil => rfl
  | cons x xs ih => simp [PExpr.eraseLoc.eraseLocs, ih]

theorem eraseLocClauses_append (a b : List (PExpr × PExpr)) :
    PExpr.eraseLoc.eraseLocClauses (a ++ b) = PExpr.eraseLoc.eraseLocClauses a ++ PExpr.eraseLoc.eraseLocClauses b := by
  induction a with
  | nil => rfl
  | cons x xs ih => obtain ⟨c, r⟩ := x; simp [PExpr.eraseLoc.eraseLocClauses, ih]

theorem combine_strip (loc : Loc) (op : Tok) (l r : PExpr) :
    combine default op l.eraseLoc r.eraseLoc = stripExc (combine loc op l r) := by
  unfold combine
  split
  · cases l <;> cases r <;> rfl
  · cases r <;> simp only [PExpr.eraseLoc, stripExc] <;> try rfl
    split <;> rfl
  all_goals rfl

open Lean Elab Tactic Meta in
/-- goal `_ = PRes.strip f (match d with …)` with `d : PRes _` not a constructor application: `cases d` -/
elab "strip_cases" : tactic => withMainContext do
  let g ← getMainGoal
  let t ← instantiateMVars (← g.getType)
  unless t.isAppOf ``Eq && t.getAppArgs.size == 3 do throwError "not an equation"
  let rhs := t.getAppArgs[2]!
  unless rhs.isAppOf ``PRes.strip && rhs.getAppArgs.size == 3 do throwError "right side is not a strip"
  let inner := rhs.getAppArgs[2]!
  unless inner.getAppFn.isConst do throwError "not a match"
  let some info ← getMatcherInfo? inner.getAppFn.constName! | throwError "not a match"
  let discr := inner.getAppArgs[info.getFirstDiscrPos]!
  if discr.isAppOf ``ite then
    let c ← Term.exprToSyntax discr.getAppArgs[1]!
    evalTactic (← `(tactic| by_cases hc : $c <;> simp only [hc, if_true, if_false, and_self]))
    return
  let dty ← whnfR (← inferType discr)
  unless dty.isAppOf ``PRes || dty.isAppOf ``Except do throwError "scrutinee is not a result"
  if discr.getAppFn.isConstOf ``PRes.ok || discr.getAppFn.isConstOf ``PRes.err || discr.getAppFn.isConstOf ``PRes.fuel then
    throwError "scrutinee is a constructor"
  if discr.isAppOf ``combine && discr.getAppArgs.size == 4 then
    let a0 ← Term.exprToSyntax discr.getAppArgs[0]!
    let a1 ← Term.exprToSyntax discr.getAppArgs[1]!
    let a2 ← Term.exprToSyntax discr.getAppArgs[2]!
    let a3 ← Term.exprToSyntax discr.getAppArgs[3]!
    evalTactic (← `(tactic| (have hcs := combine_strip $a0 $a1 $a2 $a3; simp only [hcs]; clear hcs)))
  let d ← Term.exprToSyntax discr
  evalTactic (← `(tactic| (cases hd : $d <;> try simp only [hd])))

variable (T : PrecTables)


set_option hygiene false in
macro "strip_simp" : tactic => `(tactic| simp only [strip_ok, strip_err, strip_fuel, stripExc_ok, stripExc_error, PRes.bind, id, strip_cur_tok, strip_cur_loc, next_strip,
  tokenPrecedence_strip, expectConsume_strip, consumeIdentifier_strip, combine_strip, mkErr_strip,
  ihE, ihU, ihP, ihR, ihL, ihL0, ihL1, eraseLocs_append, eraseLocClauses_append, PExpr.eraseLoc, PExpr.eraseLoc.eraseLocs,
  PExpr.eraseLoc.eraseLocClauses])

set_option hygiene false in
macro "strip_one" : tactic => `(tactic| (first
   | rfl
   | (rw [← ihR]; strip_simp; done)
   | (rw [← ihL]; strip_simp; done)
   | (rw [← ihC]; strip_simp; done)
   | (rw [← ihP]; done)
   | dsimp +instances only [strip_cur_tok, strip_cur_loc]
   | strip_simp
   | strip_cases
   | split))

set_option hygiene false in
macro "strip_auto" : tactic => `(tactic| repeat' (first
   | rfl
   | (rw [← ihR]; strip_simp; done)
   | (rw [← ihL]; strip_simp; done)
   | (rw [← ihC]; strip_simp; done)
   | (rw [← ihP]; done)
   | dsimp +instances only [strip_cur_tok, strip_cur_loc]
   | strip_simp
   | strip_cases
   | split))

theorem strip_all (n : Nat) :
    (∀ s, parseExpr T n s.strip = (parseExpr T n s).strip PExpr.eraseLoc) ∧
    (∀ p l s, parseRhs T n p l.eraseLoc s.strip = (parseRhs T n p l s).strip PExpr.eraseLoc) ∧
    (∀ s, parseUnary T n s.strip = (parseUnary T n s).strip PExpr.eraseLoc) ∧
    (∀ s, parsePrimary T n s.strip = (parsePrimary T n s).strip PExpr.eraseLoc) ∧
    (∀ loc cl s, parseCase T n default (PExpr.eraseLoc.eraseLocClauses cl) s.strip =
      (parseCase T n loc cl s).strip PExpr.eraseLoc) ∧
    (∀ c acc s, parseList T n c (PExpr.eraseLoc.eraseLocs acc) s.strip =
      (parseList T n c acc s).strip PExpr.eraseLoc.eraseLocs) := by
  induction n with
  | zero =>
    refine ⟨?_, ?_, ?_, ?_, ?_, ?_⟩ <;> intros
    · rw [parseExpr, parseExpr]; rfl
    · rw [parseRhs, parseRhs]; rfl
    · rw [parseUnary, parseUnary]; rfl
    · rw [parsePrimary, parsePrimary]; rfl
    · rw [parseCase, parseCase]; rfl
    · rw [parseList, parseList]; rfl
  | succ n ih =>
    obtain ⟨ihE, ihR, ihU, ihP, ihC, ihL⟩ := ih
    have ihL0 : ∀ c s, parseList T n c [] s.strip = (parseList T n c [] s).strip PExpr.eraseLoc.eraseLocs :=
      fun c s => ihL c [] s
    have ihL1 : ∀ c e s, parseList T n c [PExpr.eraseLoc e] s.strip = (parseList T n c [e] s).strip PExpr.eraseLoc.eraseLocs :=
      fun c e s => ihL c [e] s
    refine ⟨?_, ?_, ?_, ?_, ?_, ?_⟩
    · intro s; rw [parseExpr, parseExpr]; strip_auto
    · intro p l s; rw [parseRhs, parseRhs]; dsimp only; strip_auto
    · intro s; rw [parseUnary, parseUnary]; dsimp only; strip_auto
    · intro s; rw [parsePrimary, parsePrimary]; dsimp only; strip_auto
    · intro loc cl s; rw [parseCase, parseCase]; dsimp only; strip_auto
    · intro c acc s; rw [parseList, parseList]; dsimp only; strip_auto


/-- the expression parser commutes with erasing locations -/
theorem parseExpr_strip (n : Nat) (s : PSt) :
    parseExpr T n s.strip = (parseExpr T n s).strip PExpr.eraseLoc := (strip_all T n).1 s

end Sqlgrep.Parse
