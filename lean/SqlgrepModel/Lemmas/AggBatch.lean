import SqlgrepModel.Lemmas.AggTotal
/-
The batch loop of `FileExecutor::execute` (`runFile`, `runFiles`, `runBatch` of Model/Exec.lean) around the
aggregation engine, and the refinement at the level of what the driver executes and `./check` compares.
-/
set_option linter.unusedSimpArgs false
namespace Sqlgrep
open Value Spec.Agg

/-! ### the batch loop of `FileExecutor::execute` around the engine -/

theorem aggRun_append (O : Oracles) (q : AggStmt) (a b : List Env) (st : AggState) :
    aggRun O q (a ++ b) st = (aggRun O q a st).bind (aggRun O q b) := by
  induction a generalizing st with
  | nil => rfl
  | cons e es ih =>
    simp only [List.cons_append, aggRun]
    cases aggUpdateRow O q st e with
    | ok p => simp only [Outcome.bind]; exact ih p.1
    | error k => rfl
    | panic k => rfl
    | oracleMissing k => rfl

theorem envsOf_cons (t : TableInfo) (fl : FileLine) (rest : List FileLine) :
    envsOf t (fl :: rest) = if anyResult fl.line.row then lineEnv t fl.line :: envsOf t rest else envsOf t rest := by
  unfold envsOf
  by_cases h : anyResult fl.line.row = true
  · simp [List.filter_cons, h, lineEnv]
  · simp [List.filter_cons, h]

/-- the state of the batch loop after a file whose lines were all read and updated without failure -/
def afterLines (ls : LoopState) (st : AggState) (n : Nat) : LoopState :=
  { ls with es := { ls.es with agg := st }, consumed := ls.consumed + n,
            out := { ls.out with totalLines := ls.out.totalLines + n } }

/-- one file of a batch run of an aggregate statement (no join, every line readable, updates succeed): the loop
feeds exactly the admitted lines' rows to `execute_update`, in order, prints nothing and counts every line -/
theorem runFile_agg (O : Oracles) (qy : Query) (q : AggStmt) (hq : qy.stmt = .aggregate q) (hj : qy.join = none)
    (lines : List FileLine) (hread : ∀ fl ∈ lines, fl.readable = true) (ls : LoopState) {st : AggState}
    (hrun : aggRun O q (envsOf qy.table lines) ls.es.agg = .ok st) :
    runFile O qy [] false none lines ls = afterLines ls st lines.length := by
  induction lines generalizing ls with
  | nil =>
    simp only [envsOf, List.filter_nil, List.map_nil, aggRun, Outcome.ok.injEq] at hrun
    subst hrun
    simp [runFile, afterLines]
  | cons fl rest ih =>
    have hr : fl.readable = true := hread fl (by simp)
    have hrest : ∀ fl' ∈ rest, fl'.readable = true := fun fl' h => hread fl' (by simp [h])
    rw [envsOf_cons] at hrun
    simp only [runFile, hr, Bool.not_true, Bool.false_eq_true, if_false]
    have hnone : (none == some ls.consumed) = false := rfl
    simp only [hnone, Bool.false_eq_true, if_false]
    by_cases hadm : anyResult fl.line.row = true
    · simp only [hadm, if_true, aggRun] at hrun
      obtain ⟨⟨st1, u⟩, h1, h2⟩ := obind_ok hrun
      rw [executeLine_batch_agg O qy q [] _ fl.line hq hj hadm]
      simp only [h1, Outcome.bind, List.append_nil, Bool.false_eq_true, if_false]
      rw [ih hrest _ (by simpa using h2)]
      simp only [afterLines, List.length_cons]
      have e1 : ls.out.totalLines + 1 + rest.length = ls.out.totalLines + (rest.length + 1) := by omega
      have e2 : ls.consumed + 1 + rest.length = ls.consumed + (rest.length + 1) := by omega
      rw [e1, e2]
    · simp only [hadm, Bool.false_eq_true, if_false] at hrun
      have hex : executeLine O qy [] false
          { ls with consumed := ls.consumed + 1, out := { ls.out with totalLines := ls.out.totalLines + 1 } }.es fl.line =
          .ok (ls.es, { result := none, reachedLimit := false }) := by
        simp only [executeLine, hq, hadm, Bool.not_false, if_true, Bool.false_eq_true, if_false]
      rw [hex]
      simp only [List.append_nil, Bool.false_eq_true, if_false]
      rw [ih hrest _ (by simpa using hrun)]
      simp only [afterLines, List.length_cons]
      have e1 : ls.out.totalLines + 1 + rest.length = ls.out.totalLines + (rest.length + 1) := by omega
      have e2 : ls.consumed + 1 + rest.length = ls.consumed + (rest.length + 1) := by omega
      rw [e1, e2]

theorem envsOf_append (t : TableInfo) (a b : List FileLine) : envsOf t (a ++ b) = envsOf t a ++ envsOf t b := by
  simp [envsOf, List.filter_append]

theorem afterLines_afterLines (ls : LoopState) (s1 s2 : AggState) (n m : Nat) :
    afterLines (afterLines ls s1 n) s2 m = afterLines ls s2 (n + m) := by
  simp only [afterLines]
  have e1 : ls.out.totalLines + n + m = ls.out.totalLines + (n + m) := by omega
  have e2 : ls.consumed + n + m = ls.consumed + (n + m) := by omega
  rw [e1, e2]

theorem runFiles_agg (O : Oracles) (qy : Query) (q : AggStmt) (hq : qy.stmt = .aggregate q) (hj : qy.join = none)
    (files : List (List FileLine)) (hread : ∀ fl ∈ files.flatten, fl.readable = true) (ls : LoopState) (hstop : ls.stop = false)
    {st : AggState} (hrun : aggRun O q (envsOf qy.table files.flatten) ls.es.agg = .ok st) :
    runFiles O qy [] false none files ls = afterLines ls st files.flatten.length := by
  induction files generalizing ls with
  | nil =>
    simp only [List.flatten_nil, envsOf, List.filter_nil, List.map_nil, aggRun, Outcome.ok.injEq] at hrun
    subst hrun
    simp [runFiles, afterLines]
  | cons f rest ih =>
    have hlim : reachedLimit qy ls.es = false := by simp [reachedLimit, hq]
    simp only [List.flatten_cons, envsOf_append, aggRun_append] at hrun
    obtain ⟨st1, h1, h2⟩ := obind_ok hrun
    have hf : ∀ fl ∈ f, fl.readable = true := fun fl h => hread fl (by simp [h])
    have hr : ∀ fl ∈ rest.flatten, fl.readable = true := fun fl h => hread fl (by simp only [List.flatten_cons, List.mem_append]; exact Or.inr h)
    simp only [runFiles, hstop, hlim, Bool.or_self, Bool.false_eq_true, if_false]
    rw [runFile_agg O qy q hq hj f hf ls h1]
    have hs1 : (afterLines ls st1 f.length).stop = false := hstop
    simp only [hs1, Bool.false_eq_true, if_false]
    rw [ih hr (afterLines ls st1 f.length) hs1 h2, afterLines_afterLines]
    simp [List.length_append]

/-- a batch run of an aggregate statement (no join, every line readable) whose updates and final result succeed:
it prints the final table once and counts every line -/
theorem runBatch_agg (O : Oracles) (qy : Query) (q : AggStmt) (hq : qy.stmt = .aggregate q) (hj : qy.join = none)
    (joined : List FileLine) (files : List (List FileLine)) (hread : ∀ fl ∈ files.flatten, fl.readable = true)
    {st : AggState} (hrun : aggRun O q (envsOf qy.table files.flatten) {} = .ok st)
    {r : RowOut} (hfin : finalResult O q { agg := st } = .ok r) :
    runBatch O qy joined files none = { printed := printResult r true, totalLines := files.flatten.length } := by
  have hls := runFiles_agg O qy q hq hj files hread {} rfl hrun
  simp only [runBatch, hj, hq, Bool.not_true]
  rw [hls]
  simp only [afterLines, hasFailed]
  have : finalResult O q { seen := ([] : List (List Value)), agg := st, numOut := 0 } = .ok r := hfin
  simp [this]

/-- refinement at driver level, statements without JOIN -/
theorem batch_refines_spec_nojoin {O : Oracles} {qy : Query} {q : AggStmt} (hq : qy.stmt = .aggregate q) (hwf : StmtWF q)
    (hj : qy.join = none) (joined : List FileLine) (files : List (List FileLine)) {ro : RunOut}
    (h : Spec.Agg.batch O qy q joined files = some (ro, "")) : runBatch O qy joined files none = ro := by
  unfold Spec.Agg.batch at h
  simp only [hj] at h
  split at h
  · simp at h
  · rename_i hany
    simp only [Bool.not_eq_true] at hany
    have hread : ∀ fl ∈ files.flatten, fl.readable = true := by
      intro fl hfl
      have := List.any_eq_false.mp hany fl hfl
      simpa using this
    unfold Spec.Agg.batchOver at h
    cases ht : table O q (envsOf qy.table files.flatten) with
    | none => simp [ht] at h
    | some t =>
      simp only [ht, Option.some.injEq, Prod.mk.injEq] at h
      obtain ⟨hro, hclass⟩ := h
      have htot := engine_refines_spec_total hwf _ ht hclass
      obtain ⟨st, hst, hfin⟩ := obind_ok htot
      rw [runBatch_agg O qy q hq hj joined files hread hst hfin, ← hro]

/-! ### SUM: the overflow case -/

theorem foldV_error (k : AggKind) (vs : List Value) (c : Cell) (err : ErrKind) (v : Value)
    (h : stepV k v c = .error err) : foldV k (v :: vs) c = .error err := by
  simp only [foldV, h, Outcome.bind]

theorem foldV_sum_overflow {α : Type} {inj : α → Value} {plus : α → α → α} {okp : α → Bool} {zero : α}
    (N : NumLike inj plus okp zero) (e : Expr) (vs : List Value) (s : α) (ys : List α)
    (hys : nonNull vs = ys.map inj) (hov : psOk plus okp s ys = false) :
    foldV (.sum e) vs (sumCell (inj s)) = .error .undefinedOperation := by
  induction vs generalizing s ys with
  | nil => simp [nonNull] at hys; cases ys <;> simp at hys; simp [psOk] at hov
  | cons v vs ih =>
    cases hv : v.isNull
    · rw [nonNull_cons_of_not_null hv] at hys
      obtain ⟨y, ys', rfl, rfl, hys'⟩ := map_cons_inv hys
      simp only [psOk, Bool.and_eq_false_iff] at hov
      by_cases hok : okp (plus s y) = true
      · have hov' : psOk plus okp (plus s y) ys' = false := by
          rcases hov with h | h
          · rw [hok] at h; simp at h
          · exact h
        simp only [foldV, stepV, sumCell, Option.getD, hv, Bool.not_false, if_true, aggUpdate_sum, N.add, hok, bind,
          Outcome.bind, pure]
        exact ih (plus s y) ys' hys' hov'
      · simp only [foldV, stepV, sumCell, Option.getD, hv, Bool.not_false, if_true, aggUpdate_sum, N.add, hok, bind,
          Outcome.bind, pure, Bool.false_eq_true, if_false]
    · have := isNull_eq_true hv; subst this
      rw [nonNull_cons_null] at hys
      simp only [foldV, stepV, sumCell, Option.getD, isNull_null, Bool.not_true, Bool.false_eq_true, if_false, aggIsNull, N.notNull,
        Outcome.bind]
      exact ih s ys hys hov

/-- **SUM, the overflow case**: if the INT values of a group (each an i64) have a partial sum outside the 64-bit
range, folding the engine's SUM step over them reports `UndefinedOperation` — it neither wraps nor panics -/
theorem sum_int_overflow_is_error (e : Expr) (v : Value) (vs : List Value) (is : List Int)
    (h : nonNull (v :: vs) = is.map Value.int) (hrange : ∀ i ∈ is, inI64 i = true)
    (hov : partialSumsOk inI64 0 is = false) :
    foldV (.sum e) (v :: vs) {} = .error .undefinedOperation := by
  rw [foldV_sum_init]
  cases hv : v.isNull
  · have h' := h
    rw [nonNull_cons_of_not_null hv] at h'
    obtain ⟨y, ys', rfl, rfl, _⟩ := map_cons_inv h'
    rw [numLike_int.dflt]
    exact foldV_sum_overflow numLike_int e _ 0 _ h (by rw [psOk_int]; exact hov)
  · have := isNull_eq_true hv; subst this
    simp only [defaultOf]
    -- from the NULL start the first addend is adopted: the running sum is then `y`
    rw [nonNull_cons_null] at h
    clear hv
    induction vs generalizing is with
    | nil => simp [nonNull] at h; cases is <;> simp at h; simp [partialSumsOk] at hov
    | cons w ws ih =>
      cases hw : w.isNull
      · rw [nonNull_cons_of_not_null hw] at h
        obtain ⟨y, ys', rfl, rfl, hys'⟩ := map_cons_inv h
        have hy : inI64 y = true := hrange y (by simp)
        simp only [partialSumsOk, Int.zero_add, hy, Bool.true_and] at hov
        have h1 : foldV (.sum e) (Value.null :: Value.int y :: ws) (sumCell .null) =
            foldV (.sum e) ws (sumCell (.int y)) := by
          simp only [foldV, stepV, sumCell, Option.getD, isNull_null, Bool.not_true, Bool.false_eq_true, if_false, aggIsNull,
            if_true, Outcome.bind, isNull, Bool.not_false, aggUpdate_sum, numLike_int.addNull, bind, pure]
        rw [h1]
        exact foldV_sum_overflow numLike_int e ws y ys' hys' (by rw [psOk_int]; exact hov)
      · have := isNull_eq_true hw; subst this
        rw [nonNull_cons_null] at h
        have h1 : foldV (.sum e) (Value.null :: Value.null :: ws) (sumCell .null) =
            foldV (.sum e) (Value.null :: ws) (sumCell .null) := by
          simp only [foldV, stepV, sumCell, Option.getD, isNull_null, Bool.not_true, Bool.false_eq_true, if_false, aggIsNull,
            if_true, Outcome.bind]
        rw [h1]
        exact ih is hrange hov h

/-! ### columns stay aligned -/

theorem collect_length {α : Type} {l : List (Option α)} {r : List α} (h : collect l = some r) : r.length = l.length := by
  induction l generalizing r with
  | nil => simp [collect] at h; subst h; rfl
  | cons x xs ih =>
    cases x with
    | none => simp [collect] at h
    | some a =>
      obtain ⟨r', hr', hr⟩ := collect_eq_some_cons h
      subst hr
      simp [ih hr']

theorem firstRows_sub (rs : List (List Value)) : ∀ r ∈ firstRows rs, r ∈ rs := by
  induction rs with
  | nil => intro r h; simp [firstRows] at h
  | cons x xs ih =>
    intro r h
    simp only [firstRows, List.mem_cons] at h
    rcases h with h | h
    · simp [h]
    · exact List.mem_cons_of_mem _ (ih r (List.mem_filter.mp h).1)

/-- every row of the specification's table has one cell per select-list item -/
theorem table_rows_aligned {O : Oracles} {q : AggStmt} {envs : List Env} {t : List (List Value)}
    (h : table O q envs = some t) : ∀ r ∈ t, r.length = q.items.length := by
  cases hr : keyedRows O q envs with
  | none => simp [table, hr] at h
  | some rows =>
    obtain ⟨htab, _⟩ := table_of_keyed hr h
    rw [tableOfGroups_eq] at htab
    cases hall : collect ((groups rows).map (perGroup O q)) with
    | none => simp [hall] at htab
    | some all =>
      simp only [hall, Option.some.injEq] at htab
      -- every kept row is the row of some group
      have hkept : ∀ r ∈ keptRows all, r.length = q.items.length := by
        intro r hrm
        simp only [keptRows, List.mem_map, List.mem_filter] at hrm
        obtain ⟨ra, ⟨hra, _⟩, hre⟩ := hrm
        -- `ra` is the answer for one of the groups
        have : ∀ (gs : List (List Value × List Env)) (all : List (List Value × Bool)),
            collect (gs.map (perGroup O q)) = some all → ∀ ra ∈ all, ra.1.length = q.items.length := by
          intro gs
          induction gs with
          | nil => intro all h ra hm; simp [collect] at h; subst h; simp at hm
          | cons g gs ih =>
            intro all h ra hm
            simp only [List.map_cons] at h
            cases hp : perGroup O q g with
            | none => simp [hp, collect] at h
            | some x =>
              rw [hp] at h
              obtain ⟨all', hall', he⟩ := collect_eq_some_cons h
              subst he
              rcases List.mem_cons.mp hm with hm | hm
              · subst hm
                simp only [perGroup] at hp
                cases hrow : row O q g.1 g.2 with
                | none => simp [hrow] at hp
                | some r' =>
                  simp only [hrow, Option.bind_some] at hp
                  cases hacc : accept O q g.1 g.2 with
                  | none => simp [hacc] at hp
                  | some a =>
                    simp only [hacc, Option.map_some, Option.some.injEq] at hp
                    rw [← hp]
                    have := collect_length hrow
                    simpa using this
              · exact ih all' hall' ra hm
        rw [← hre]
        exact this _ _ hall ra hra
      intro r hrt
      rw [← htab] at hrt
      have hsub : r ∈ keptRows all := by
        cases hl : q.limit <;> cases hd : q.distinct <;> simp only [hl, hd, Bool.false_eq_true, if_false, if_true] at hrt
        · exact hrt
        · exact firstRows_sub _ r hrt
        · exact List.mem_of_mem_take hrt
        · exact firstRows_sub _ r (List.mem_of_mem_take hrt)
      exact hkept r hsub

end Sqlgrep
