import SqlgrepModel.Props.C09
import SqlgrepModel.Props.Pipeline
import SqlgrepModel.Lemmas.NoSkipPipeline
import SqlgrepModel.Lemmas.RowIndexPipeline
/-
C09 carried to the end-to-end model (`Model/Pipeline.lean`: the function the compiled driver executes for every `e2e`
case), in two respects.

1. **Results or an error message — never a crash, never skipped** (`runLowered_total_factFree`, `runLowered_records`,
   `runText_records`): `Props/Pipeline.lean` `runText_never_panics` already says the answer is never `panic`, but it may
   be `skip`. Here: for a query that calls none of `upper` / `lower` / `regexp_matches` / `now` (`queryFactFree`,
   decidable on the lowered statement) the only skips left are the two that concern facts about the INPUT
   (`"line facts"`: what `regex` says about an input line was not shipped; `"REAL rendering"`: the text of a REAL that
   gets printed was not shipped); with those facts present the answer is `.records error totalLines lines`:
   the records, with `Ok` or a reported error kind.

2. **`row[index]` sites, composed** (`engine_rows_and_indices_in_range`): `Props/C09.lean` `row_index_sites_in_range`
   is a statement about `extractRow` and the names `lowerCreate` produces. Here it is tied to the engine: the rows the
   engine model is handed by `Pipeline.runStatement` ARE `extractRow` outputs of the table whose names the engine
   indexes them by, so every admitted row has exactly `columns.length` cells, every index the engine computes from a
   column name (the join key indices `ki` of `lineEnvs` and `loadJoin`, the cells `columnsMapping` / `joinedMapping`
   pair with the names) is smaller than that, and the model's `getD … NULL` defaults are never taken. The engine model
   addresses projections and WHERE operands by NAME through the environment built from those pairs (as the Rust engine
   does through `create_columns_mapping`), so there is no further index.
-/
namespace Sqlgrep.Props.C09Pipeline
open Sqlgrep Sqlgrep.Pipeline Sqlgrep.Spec.Pipeline

/-! ### 1. never skipped for an evaluator fact, end to end -/

/-- the lowered query text needs no evaluator fact: its statement calls none of `upper`, `lower`, `regexp_matches`,
`now` (`Stmt.factFree`); a text that is not a query has nothing to evaluate -/
def queryFactFree (query : LStmt) : Bool :=
  match stmtOf query with
  | some (stmt, _, _) => stmt.factFree
  | none => true

/-- **the engine part of the end-to-end run is never skipped** for a fact-free statement: whatever tables and files
exist, whatever the facts hold -/
theorem runStatement_not_skipped (F : Facts) (tables : List Table) (stmt : Stmt) (fromTable : String)
    (join : Option LJoin) (files : List (List Nat)) (t : TraceOut) (hq : stmt.factFree = true)
    (h : runStatement F tables stmt fromTable join files = some t) : t.out.skipped = none :=
  Pipeline.runStatement_not_skipped F factFreeFunc (NM_callFunction_factFree F.eval) tables stmt fromTable join files t hq h

/-- **totality of the lowered run, for a fact-free query**: the answer is printed records (with `Ok` or a reported
error kind), "not a CREATE TABLE", "not a query", or one of the two skips that concern facts about the input — never
`panic`, never a skip for an evaluator fact -/
theorem runLowered_total_factFree (F : Facts) (defs query : LStmt) (fmt : Print.Format) (single : Bool)
    (files : List (List Nat)) (hq : queryFactFree query = true) :
    (∃ e n ls, runLowered F defs query fmt single files = .records e n ls) ∨
    runLowered F defs query fmt single files = .notCreateTable ∨
    runLowered F defs query fmt single files = .notAQuery ∨
    runLowered F defs query fmt single files = .skip "line facts" ∨
    runLowered F defs query fmt single files = .skip "REAL rendering" := by
  cases ht : addTables defs with
  | none => right; left; unfold runLowered; rw [ht]
  | some tables =>
    cases hs : stmtOf query with
    | none => right; right; left; unfold runLowered; rw [ht]; simp only; rw [hs]
    | some p =>
      obtain ⟨stmt, fromTable, join⟩ := p
      have hff : stmt.factFree = true := by
        unfold queryFactFree at hq; rw [hs] at hq; exact hq
      cases hr : runStatement F tables stmt fromTable join files with
      | none => right; right; right; left; unfold runLowered; rw [ht]; simp only; rw [hs]; simp only; rw [hr]
      | some t =>
        rw [runLowered_eq F defs query fmt single files tables stmt fromTable join t ht hs hr,
          answerOf_of_not_skipped F fmt single t (runStatement_no_panic F tables stmt fromTable join files t hr)
            (runStatement_aligned F tables stmt fromTable join files t hr)
            (runStatement_not_skipped F tables stmt fromTable join files t hff hr)]
        cases realsCover F t.calls with
        | true => left; exact ⟨_, _, _, rfl⟩
        | false => right; right; right; right; rfl

/-- **results or an error message**: a fact-free query over defined tables, with the facts about the input lines
present (`runStatement … = some t`) and the rendering of every printed REAL present (`realsCover`), ends in
`.records`: the printed lines of the run `t`, its line count, and `t.out.error` — `none` for `Ok`, `some kind` for a
reported error -/
theorem runLowered_records (F : Facts) (defs query : LStmt) (fmt : Print.Format) (single : Bool) (files : List (List Nat))
    (tables : List Table) (stmt : Stmt) (fromTable : String) (join : Option LJoin) (t : TraceOut)
    (ht : addTables defs = some tables) (hs : stmtOf query = some (stmt, fromTable, join))
    (hff : stmt.factFree = true)
    (hr : runStatement F tables stmt fromTable join files = some t) (hc : realsCover F t.calls = true) :
    runLowered F defs query fmt single files =
      .records t.out.error t.out.totalLines
        ((Print.printAll (realOracle F) fmt true (printCalls single t.calls)).map Print.Line.bytes) := by
  rw [runLowered_eq F defs query fmt single files tables stmt fromTable join t ht hs hr]
  exact answerOf_records F fmt single t (runStatement_no_panic F tables stmt fromTable join files t hr)
    (runStatement_aligned F tables stmt fromTable join files t hr)
    (runStatement_not_skipped F tables stmt fromTable join files t hff hr) hc

/-- the same from the two TEXTS (`hc`, `hp`: the facts about the texts were shipped — character classes, `Regex::new`
of the patterns) -/
theorem runText_records (F : Facts) (defsText queryText : List Char) (fmt : Print.Format) (single : Bool)
    (files : List (List Nat)) (defs query : LStmt) (tables : List Table) (stmt : Stmt) (fromTable : String)
    (join : Option LJoin) (t : TraceOut)
    (hc : classesCover F defsText = true ∧ classesCover F queryText = true)
    (hd : parseText (lexOracles F) (regexValidFn F) defsText = .stmt defs)
    (hp : (createPatterns defs).all (fun re => ((Utf8.decode re).bind (regexValidOf F)).isSome) = true)
    (hq : parseText (lexOracles F) (regexValidFn F) queryText = .stmt query)
    (ht : addTables defs = some tables) (hs : stmtOf query = some (stmt, fromTable, join))
    (hff : stmt.factFree = true)
    (hr : runStatement F tables stmt fromTable join files = some t) (hreal : realsCover F t.calls = true) :
    runText F defsText queryText fmt single files =
      .records t.out.error t.out.totalLines
        ((Print.printAll (realOracle F) fmt true (printCalls single t.calls)).map Print.Line.bytes) := by
  rw [runText_eq_runLowered F defsText queryText fmt single files defs query hc hd hp hq]
  exact runLowered_records F defs query fmt single files tables stmt fromTable join t ht hs hff hr hreal

/-! ### 1′. the same for EVERY query, over total oracle functions (third review, M6)

`queryFactFree` is a syntactic sub-class; the skip it excludes is an artefact of the finite evaluator tables the driver
works with. With total functions behind those tables (`F.eval.Total`: `upperF`, `lowerF`, `regexF`, `nowF` —
`Model/Eval.lean` `TotalOracles`) the engine part of the end-to-end run is never skipped, whatever the statement calls. -/

/-- the engine part of the end-to-end run is never skipped under a total evaluator oracle — every statement -/
theorem runStatement_not_skipped_total (F : Facts) (hT : F.eval.Total) (tables : List Table) (stmt : Stmt)
    (fromTable : String) (join : Option LJoin) (files : List (List Nat)) (t : TraceOut)
    (h : runStatement F tables stmt fromTable join files = some t) : t.out.skipped = none :=
  Pipeline.runStatement_not_skipped F anyFunc (fun f _ => NM_callFunction_total F.eval hT f) tables stmt fromTable join
    files t (Stmt.allFuncs_any stmt) h

/-- **totality of the lowered run, for every query, over total oracle functions**: the answer is printed records (with
`Ok` or a reported error kind), "not a CREATE TABLE", "not a query", or one of the two skips that concern facts about
the INPUT (what `regex` says about an input line / the text of a printed REAL was not shipped) — never `panic`, never a
skip for an evaluator fact, whether or not the query calls `upper`, `lower`, `regexp_matches`, `now` -/
theorem runLowered_total_of_total_oracles (F : Facts) (hT : F.eval.Total) (defs query : LStmt) (fmt : Print.Format)
    (single : Bool) (files : List (List Nat)) :
    (∃ e n ls, runLowered F defs query fmt single files = .records e n ls) ∨
    runLowered F defs query fmt single files = .notCreateTable ∨
    runLowered F defs query fmt single files = .notAQuery ∨
    runLowered F defs query fmt single files = .skip "line facts" ∨
    runLowered F defs query fmt single files = .skip "REAL rendering" := by
  cases ht : addTables defs with
  | none => right; left; unfold runLowered; rw [ht]
  | some tables =>
    cases hs : stmtOf query with
    | none => right; right; left; unfold runLowered; rw [ht]; simp only; rw [hs]
    | some p =>
      obtain ⟨stmt, fromTable, join⟩ := p
      cases hr : runStatement F tables stmt fromTable join files with
      | none => right; right; right; left; unfold runLowered; rw [ht]; simp only; rw [hs]; simp only; rw [hr]
      | some t =>
        rw [runLowered_eq F defs query fmt single files tables stmt fromTable join t ht hs hr,
          answerOf_of_not_skipped F fmt single t (runStatement_no_panic F tables stmt fromTable join files t hr)
            (runStatement_aligned F tables stmt fromTable join files t hr)
            (runStatement_not_skipped_total F hT tables stmt fromTable join files t hr)]
        cases realsCover F t.calls with
        | true => left; exact ⟨_, _, _, rfl⟩
        | false => right; right; right; right; rfl

/-- **results or an error message, every query**: over defined tables, with the facts about the input lines present and
the rendering of every printed REAL present, the run under a total evaluator oracle ends in `.records`: the printed
lines, the line count, and `t.out.error` — `none` for `Ok`, `some kind` for a reported error -/
theorem runLowered_records_total (F : Facts) (hT : F.eval.Total) (defs query : LStmt) (fmt : Print.Format) (single : Bool)
    (files : List (List Nat)) (tables : List Table) (stmt : Stmt) (fromTable : String) (join : Option LJoin) (t : TraceOut)
    (ht : addTables defs = some tables) (hs : stmtOf query = some (stmt, fromTable, join))
    (hr : runStatement F tables stmt fromTable join files = some t) (hc : realsCover F t.calls = true) :
    runLowered F defs query fmt single files =
      .records t.out.error t.out.totalLines
        ((Print.printAll (realOracle F) fmt true (printCalls single t.calls)).map Print.Line.bytes) := by
  rw [runLowered_eq F defs query fmt single files tables stmt fromTable join t ht hs hr]
  exact answerOf_records F fmt single t (runStatement_no_panic F tables stmt fromTable join files t hr)
    (runStatement_aligned F tables stmt fromTable join files t hr)
    (runStatement_not_skipped_total F hT tables stmt fromTable join files t hr) hc

/-- **an aggregate statement that a TEXT lowers to has at least one select-list item** — `result_rows_by_column[0]`
(aggregate_execution.rs:276) is in range for every accepted statement (`Props/C09.aggregate_statement_has_items`, from
the first stage of `runText`) -/
theorem parseText_aggregate_has_items (lo : Lex.Oracles) (rv : List Char → Bool) (text : List Char) (a : AggStmt)
    (t : String) (f : Option String) (j : Option LJoin) (h : parseText lo rv text = .stmt (.aggregate a t f j)) :
    a.items ≠ [] := by
  unfold parseText at h
  split at h
  · rename_i ts _
    unfold parseToks at h
    split at h
    · rename_i op hp
      unfold lowerTree at h
      split at h
      · rename_i st hl
        cases h
        exact Props.C09.aggregate_statement_has_items PrecTables.code _ ts op rv a t f j hp hl
      · cases h
      · cases h
    · cases h
    · cases h
    · cases h
  · cases h
  · cases h

/-! ### 2. every `row[index]` site of the engines is in range on the rows the end-to-end model hands to the engine -/

/-- **engine rows and indices are in range.** Let the definitions text lower to `defs` (so the tables are what
`lowerCreate` produced) and let the run be prepared (`prepare`: the FROM table, and with a JOIN the joined table and the
joined file, exist, and the facts about the lines were shipped — in every other branch of `runStatement` the engine is
handed no line at all: the input is empty or the join set-up reports its error before the first line). Then the engine
run of the end-to-end model is `runBatchT … p.qy (some p.joined) p.files`, and

* every admitted row (`anyResult`: the only rows `executeLine` / `loadJoin` look at, `not_admitted_row_is_not_indexed`)
  of every input file has exactly `p.qy.table.columns.length` cells, so every index of a column name of the queried
  table — in particular the join key index `ki` of `lineEnvs` — is a position of the row and `getD ki NULL` is the cell;
* every admitted row of the joined file has exactly `j.joined.columns.length` cells, so the joined key index `ki` of
  `loadJoin` is a position of the row;
* every partner row `lineEnvs` finds in the join index has `j.joined.columns.length` cells (it is an admitted row of
  the joined file), so `joinedMapping` pairs every joined column with its cell.
`lineEnv_binds_every_column` / `columns_zip_full` (Lemmas/RowIndexPipeline.lean) draw the consequence for
`columnsMapping`: with such a row the zip of names and cells drops nothing and every column name is bound. -/
theorem engine_rows_and_indices_in_range (lo : Lex.Oracles) (rv : List Char → Bool) (defsText : List Char) (defs : LStmt)
    (tables : List Table) (F : Facts) (stmt : Stmt) (fromTable : String) (join : Option LJoin) (files : List (List Nat))
    (p : Prepared)
    (hd : parseText lo rv defsText = .stmt defs) (ht : addTables defs = some tables)
    (hp : prepare F tables stmt fromTable join files = some p) :
    runStatement F tables stmt fromTable join files = some (runBatchT F.eval p.qy (some p.joined) p.files) ∧
    (∀ f ∈ p.files, ∀ fl ∈ f, anyResult fl.line.row = true →
      fl.line.row.length = p.qy.table.columns.length ∧
      ∀ name i, indexOf? p.qy.table.columns name = some i →
        i < fl.line.row.length ∧ ∃ v, fl.line.row[i]? = some v ∧ fl.line.row.getD i .null = v) ∧
    (∀ j, p.qy.join = some j → ∀ fl ∈ p.joined, anyResult fl.line.row = true →
      fl.line.row.length = j.joined.columns.length ∧
      ∀ name i, indexOf? j.joined.columns name = some i →
        i < fl.line.row.length ∧ ∃ v, fl.line.row[i]? = some v ∧ fl.line.row.getD i .null = v) ∧
    (∀ j idx, p.qy.join = some j → loadJoin j (p.joined.map (·.line)) = .ok idx →
      ∀ key partners, joinIndexGet idx key = some partners → ∀ r ∈ partners, r.length = j.joined.columns.length) := by
  have hal := parseText_tables_aligned lo rv defsText defs tables hd ht
  obtain ⟨hfiles, hjoined⟩ := prepare_rows_full F tables stmt fromTable join files p hal hp
  have inRange : ∀ (names : List String) (row : List Value), row.length = names.length → ∀ name i,
      indexOf? names name = some i → i < row.length ∧ ∃ v, row[i]? = some v ∧ row.getD i .null = v := by
    intro names row hlen name i hi
    obtain ⟨v, hv, hg⟩ := row_index_in_range names row hlen name i hi
    refine ⟨?_, v, hv, hg⟩
    have := List.getElem?_eq_some_iff.1 hv
    exact this.1
  refine ⟨(runStatement_of_prepare F tables stmt fromTable join files p hp).1, ?_, ?_, ?_⟩
  · intro f hf fl hfl ha
    have hlen := hfiles f hf fl hfl ha
    exact ⟨hlen, inRange _ _ hlen⟩
  · intro j hj fl hfl ha
    have hlen := hjoined j hj fl hfl ha
    exact ⟨hlen, inRange _ _ hlen⟩
  · intro j idx hj hl key partners hget
    refine join_partners_full j _ idx ?_ hl key partners hget
    intro l hl' ha
    obtain ⟨fl, hfl, e⟩ := List.mem_map.1 hl'
    subst e
    exact hjoined j hj fl hfl ha

/-- … hence the evaluator environment of every admitted input line binds every column of the queried table: a column
reference that names a column of the table is never `ColumnNotFound` for want of a cell -/
theorem engine_env_binds_every_column (lo : Lex.Oracles) (rv : List Char → Bool) (defsText : List Char) (defs : LStmt)
    (tables : List Table) (F : Facts) (stmt : Stmt) (fromTable : String) (join : Option LJoin) (files : List (List Nat))
    (p : Prepared)
    (hd : parseText lo rv defsText = .stmt defs) (ht : addTables defs = some tables)
    (hp : prepare F tables stmt fromTable join files = some p) :
    ∀ f ∈ p.files, ∀ fl ∈ f, anyResult fl.line.row = true → ∀ name i, indexOf? p.qy.table.columns name = some i →
      ∃ v, (envOfInsertions (columnsMapping p.qy.table fl.line.row fl.line.text)).get .table name = some v := by
  intro f hf fl hfl ha name i hi
  have h := (engine_rows_and_indices_in_range lo rv defsText defs tables F stmt fromTable join files p hd ht hp).2.1 f hf fl hfl ha
  exact lineEnv_binds_every_column p.qy.table fl.line.row fl.line.text h.1 name i hi

/-! ### non-vacuity: a real CREATE TABLE text and a real SELECT text through every stage (kernel-evaluated) -/

/-- what the `regex` crate says about the four input lines under the table's pattern -/
def exFacts : Facts :=
  { regexValid := [("^([0-9]+);([a-z]+)$".toList, true)]
    lines := [(strBytes "1;x", { captures := [(strBytes "^([0-9]+);([a-z]+)$", some [some (strBytes "1;x"), some (strBytes "1"), some (strBytes "x")])] }),
              (strBytes "2;y", { captures := [(strBytes "^([0-9]+);([a-z]+)$", some [some (strBytes "2;y"), some (strBytes "2"), some (strBytes "y")])] }),
              (strBytes "3;z", { captures := [(strBytes "^([0-9]+);([a-z]+)$", some [some (strBytes "3;z"), some (strBytes "3"), some (strBytes "z")])] }),
              (strBytes "???", { captures := [(strBytes "^([0-9]+);([a-z]+)$", none)] })] }

def exDefs : List Char := "CREATE TABLE t (line = '^([0-9]+);([a-z]+)$', line[1] => a INT, line[2] => b TEXT);".toList
def exQuery : List Char := "SELECT b FROM t WHERE a > 1".toList
def exFile : List Nat := strBytes "1;x\n2;y\n???\n3;z\n"

/-- all hypotheses of `runText_records` and of `engine_rows_and_indices_in_range` hold together on the example: both
texts lower, the query is fact-free, the table exists, the line facts are there (`prepare` answers), no REAL is
printed -/
def exHyps (F : Facts) (defsText queryText : List Char) (files : List (List Nat)) : Bool :=
  classesCover F defsText && classesCover F queryText &&
  match parseText (lexOracles F) (regexValidFn F) defsText, parseText (lexOracles F) (regexValidFn F) queryText with
  | .stmt defs, .stmt query =>
    (createPatterns defs).all (fun re => ((Utf8.decode re).bind (regexValidOf F)).isSome) && queryFactFree query &&
    match addTables defs, stmtOf query with
    | some tables, some (stmt, fromTable, join) =>
      stmt.factFree && (prepare F tables stmt fromTable join files).isSome &&
      (match runStatement F tables stmt fromTable join files with
        | some t => realsCover F t.calls
        | none => false)
    | _, _ => false
  | _, _ => false

example : exHyps exFacts exDefs exQuery [exFile] = true := by decide +kernel

/-- the conclusion of `runText_records` on it: `Ok`, four lines consumed, two records -/
example : Props.Pipeline.recordsOf (runText exFacts exDefs exQuery .text false [exFile]) =
    some (none, 4, [strBytes "b: 'y'", strBytes "b: 'z'"]) := by decide +kernel

/-- the rows the engine is handed for the example (with `any_result` of each), and the column names it indexes them by -/
def exEngineInput (F : Facts) (defsText queryText : List Char) (files : List (List Nat)) :
    Option (List String × List (List String × Bool)) :=
  match parseText (lexOracles F) (regexValidFn F) defsText, parseText (lexOracles F) (regexValidFn F) queryText with
  | .stmt defs, .stmt query =>
    match addTables defs, stmtOf query with
    | some tables, some (stmt, fromTable, join) =>
      (prepare F tables stmt fromTable join files).map (fun p => (p.qy.table.columns, p.files.flatten.map (fun fl => (fl.line.row.map display, anyResult fl.line.row))))
    | _, _ => none
  | _, _ => none

/-- the conclusion of `engine_rows_and_indices_in_range` on it: columns `a`, `b`; three admitted rows with two cells
each (cells shown as `Display` prints them); the line that does not match gives a row that is not admitted (all NULL) -/
example : exEngineInput exFacts exDefs exQuery [exFile] =
    some (["a", "b"], [(["1", "'x'"], true), (["2", "'y'"], true), (["NULL", "NULL"], false), (["3", "'z'"], true)]) := by
  decide +kernel

/-- a query that is NOT fact-free: `now()` makes the run of the model a skip, whatever was shipped -/
example : (match runText exFacts exDefs "SELECT now() FROM t".toList .text false [exFile] with
    | .skip w => some w
    | _ => none) = some "now" := by decide +kernel

/-- … but under a total evaluator oracle (`runLowered_total_of_total_oracles`) the same text ends with records: four
lines consumed, one record per admitted row -/
def exFactsTotal : Facts := { exFacts with eval := Props.C09.exTotal.oracles }
example : exFactsTotal.eval.Total := ⟨Props.C09.exTotal, rfl⟩
example : (match runText exFactsTotal exDefs "SELECT now() FROM t".toList .text false [exFile] with
    | .records e n ls => some (e, n, ls.length)
    | _ => none) = some (none, 4, 3) := by decide +kernel

/-- `parseText_aggregate_has_items` is not vacuous: an aggregate text lowers to an aggregate statement (two items) -/
example : (match parseText (lexOracles exFacts) (regexValidFn exFacts) "SELECT b, COUNT(*) FROM t GROUP BY b".toList with
    | .stmt (.aggregate a _ _ _) => some a.items.length
    | _ => none) = some 2 := by decide +kernel

/-! … and with a JOIN: two CREATE TABLE statements in the definitions text, the joined file `j.log` -/

def capFact (l a b : String) : Text × LineFacts :=
  (strBytes l, { captures := [(strBytes "^([0-9]+);([a-z]+)$", some [some (strBytes l), some (strBytes a), some (strBytes b)])] })

def exFactsJ : Facts :=
  { exFacts with lines := exFacts.lines ++ [capFact "2;q" "2" "q", capFact "3;r" "3" "r", capFact "3;s" "3" "s"]
                 fs := [("j.log", strBytes "2;q\n3;r\n3;s\n")] }

def exDefsJ : List Char :=
  ("CREATE TABLE t (line = '^([0-9]+);([a-z]+)$', line[1] => a INT, line[2] => b TEXT); " ++
   "CREATE TABLE u (line = '^([0-9]+);([a-z]+)$', line[1] => c INT, line[2] => d TEXT);").toList

def exQueryJ : List Char := "SELECT b, d FROM t INNER JOIN u::'j.log' ON t.a = u.c".toList

example : exHyps exFactsJ exDefsJ exQueryJ [exFile] = true := by decide +kernel

example : Props.Pipeline.recordsOf (runText exFactsJ exDefsJ exQueryJ .text false [exFile]) =
    some (none, 4, [strBytes "b: 'y', d: 'q'", strBytes "b: 'z', d: 'r'", strBytes "b: 'z', d: 's'", []]) := by decide +kernel

/-- the joined rows the engine is handed, with the joined table's column names and the two key columns -/
def exJoinedInput (F : Facts) (defsText queryText : List Char) (files : List (List Nat)) :
    Option ((String × String) × List String × List (List String × Bool)) :=
  match parseText (lexOracles F) (regexValidFn F) defsText, parseText (lexOracles F) (regexValidFn F) queryText with
  | .stmt defs, .stmt query =>
    match addTables defs, stmtOf query with
    | some tables, some (stmt, fromTable, join) =>
      (prepare F tables stmt fromTable join files).bind (fun p => p.qy.join.map (fun j =>
        ((j.joinerColumn, j.joinedColumn), j.joined.columns,
          p.joined.map (fun fl => (fl.line.row.map display, anyResult fl.line.row)))))
    | _, _ => none
  | _, _ => none

example : exJoinedInput exFactsJ exDefsJ exQueryJ [exFile] =
    some (("a", "c"), ["c", "d"], [(["2", "'q'"], true), (["3", "'r'"], true), (["3", "'s'"], true)]) := by
  decide +kernel

end Sqlgrep.Props.C09Pipeline
