import SqlgrepModel.Lemmas.ParseRename
import SqlgrepModel.Model.ParseStmt
import Lean
/-
`parse_select` — DISTINCT, the projection loop with AS, FROM, `::'file'`, the clause loop with JOIN / WHERE / GROUP BY /
HAVING / LIMIT — and `Parser::parse` on a token vector that starts with SELECT are equivariant under respelling
identifiers (`Lemmas/ParseRename.lean` for the expression parser): on the vector with every identifier `n` replaced by
`ρ n` the answer is the tree with every name respelled (`POp.renAll`: column, call, alias, table and join names).
-/
set_option linter.unusedSimpArgs false
namespace Sqlgrep

def PJoin.renAll (ρ : List Char → List Char) (j : PJoin) : PJoin :=
  { j with joinerTable := ρ j.joinerTable, leftTable := ρ j.leftTable, leftColumn := ρ j.leftColumn,
           rightTable := ρ j.rightTable, rightColumn := ρ j.rightColumn }

def renProj (ρ : List Char → List Char) (ps : List (Option (List Char) × PExpr)) : List (Option (List Char) × PExpr) :=
  ps.map (fun p => (p.1.map ρ, p.2.renAll ρ))

def Clauses.renAll (ρ : List Char → List Char) (c : Clauses) : Clauses :=
  { filter := c.filter.map (PExpr.renAll ρ), groupBy := c.groupBy.map (PExpr.renAllList ρ),
    having := c.having.map (PExpr.renAll ρ), join := c.join.map (PJoin.renAll ρ), limit := c.limit }

def PSelect.renAll (ρ : List Char → List Char) (q : PSelect) : PSelect :=
  { q with projections := renProj ρ q.projections, fromTable := ρ q.fromTable,
           filter := q.filter.map (PExpr.renAll ρ), groupBy := q.groupBy.map (PExpr.renAllList ρ),
           having := q.having.map (PExpr.renAll ρ), join := q.join.map (PJoin.renAll ρ) }

/-- respell every name of a SELECT tree (CREATE TABLE trees are left alone: the theorems below are about SELECT) -/
def POp.renAll (ρ : List Char → List Char) : POp → POp
  | .select q => .select (q.renAll ρ)
  | t => t

def ParseOutcome.ren (ρ : List Char → List Char) : ParseOutcome → ParseOutcome
  | .tree t => .tree (t.renAll ρ)
  | .error e => .error (e.ren ρ)
  | .fuel => .fuel
  | .panic => .panic

namespace Parse

variable {ρ : List Char → List Char}

theorem parseExpr_ren (hρ : NameMap ρ) {T : PrecTables} (hT : NoIdentOps T) (n : Nat) (s : PSt) :
    parseExpr T n (s.ren ρ) = (parseExpr T n s).ren ρ (PExpr.renAll ρ) := (ren_all T hρ hT n).1 s

theorem consumeString_ren (s : PSt) : consumeString (s.ren ρ) = (consumeString s).ren ρ id := by
  unfold consumeString
  simp only [ren_cur_tok]
  cases h : s.cur.tok <;> simp only [Tok.ren] <;>
    first
      | (rw [next_ren]; cases next s <;> rfl)
      | exact mkErr_ren ρ s _ _ rfl

theorem consumeInt_ren (s : PSt) : consumeInt (s.ren ρ) = (consumeInt s).ren ρ id := by
  unfold consumeInt
  simp only [ren_cur_tok]
  cases h : s.cur.tok <;> simp only [Tok.ren] <;>
    first
      | (rw [next_ren]; cases next s <;> rfl)
      | exact mkErr_ren ρ s _ _ rfl

theorem renProj_append (a b : List (Option (List Char) × PExpr)) : renProj ρ (a ++ b) = renProj ρ a ++ renProj ρ b := by
  simp [renProj]
theorem renProj_single (a : Option (List Char)) (e : PExpr) : renProj ρ [(a, e)] = [(a.map ρ, e.renAll ρ)] := rfl
theorem renProj_nil : renProj ρ [] = [] := rfl

theorem ren_ite {α : Type} (f : α → α) (c : Prop) [Decidable c] (a b : PRes α) :
    PRes.ren ρ f (if c then a else b) = if c then PRes.ren ρ f a else PRes.ren ρ f b := by
  split <;> rfl

theorem ren_rest_isEmpty (s : PSt) : (s.ren ρ).rest.isEmpty = s.rest.isEmpty := by
  cases h : s.rest <;> simp [PSt.ren, h]

theorem expectConsumeOp_ren (o : Operator) (s : PSt) : expectConsumeOp o (s.ren ρ) = (expectConsumeOp o s).ren ρ id :=
  expectConsume_ren ρ _ _ s (by simp) rfl

theorem mkErr_ren' {α} (s : PSt) (k : PErrKind) (hk : k.ren ρ = k) (f : α → α) :
    (mkErr (s.ren ρ) k : PRes α) = (mkErr s k).ren ρ f := mkErr_ren ρ s k f hk

/-- one step of a lock-step proof `F … (s.ren ρ) = (F … s).ren ρ f`: rewrite with the known commutation lemmas, case on
the next scrutinee of the right-hand side, split what is left -/
macro "sren" "[" ls:Lean.Parser.Tactic.simpLemma,* "]" : tactic => `(tactic| repeat' (first
   | rfl
   | dsimp +instances only [ren_cur_tok, ren_cur_loc]
   | simp only [ren_ok, ren_err, ren_fuel, id, ren_cur_tok, ren_cur_loc, next_ren, expectConsumeOp_ren,
       consumeIdentifier_ren, consumeString_ren, consumeInt_ren, renProj_append, renProj_single, renAllList_append, PExpr.renAll,
       PExpr.renAllList, ren_ite, tok_ren_eq_kw, tok_ren_eq_op, tok_ren_eq_comma, tok_ren_eq_semi, tok_ren_eq_dcolon,
       tok_ren_eq_eof, perr_ren_mk, PErrKind.ren, List.map_cons, List.map_nil, Option.isSome_map, Option.map_some,
       Option.map_none, $ls,*]
   | ren_cases
   | split))

theorem parseJoin_ren (b : Bool) (s : PSt) : parseJoin b (s.ren ρ) = (parseJoin b s).ren ρ (PJoin.renAll ρ) := by
  have h1 : ∀ s, expectConsume (.kw .join) (.expectedKeyword .join) (s.ren ρ) = (expectConsume (.kw .join) (.expectedKeyword .join) s).ren ρ id :=
    fun s => expectConsume_ren ρ _ _ s (by simp) rfl
  have h2 : ∀ s, expectConsume .dcolon .expectedDoubleColon (s.ren ρ) = (expectConsume .dcolon .expectedDoubleColon s).ren ρ id :=
    fun s => expectConsume_ren ρ _ _ s (by simp) rfl
  have h3 : ∀ s, expectConsume (.kw .on) (.expectedKeyword .on) (s.ren ρ) = (expectConsume (.kw .on) (.expectedKeyword .on) s).ren ρ id :=
    fun s => expectConsume_ren ρ _ _ s (by simp) rfl
  unfold parseJoin
  sren [h1, h2, h3, PJoin.renAll]

theorem optAlias_ren (s : PSt) : optAlias (s.ren ρ) = (optAlias s).ren ρ (Option.map ρ) := by
  unfold optAlias
  sren []

theorem optDistinct_ren (s : PSt) : optDistinct (s.ren ρ) = (optDistinct s).ren ρ id := by
  unfold optDistinct
  sren []

theorem optFile_ren (s : PSt) : optFile (s.ren ρ) = (optFile s).ren ρ id := by
  unfold optFile
  sren []

theorem optSemi_ren (s : PSt) : optSemi (s.ren ρ) = (optSemi s).ren ρ id := by
  unfold optSemi
  sren []

section stmt
variable (hρ : NameMap ρ) {T : PrecTables} (hT : NoIdentOps T)
include hρ hT

theorem projLoop_ren : ∀ (n : Nat) (acc : List (Option (List Char) × PExpr)) (s : PSt),
    projLoop T n (renProj ρ acc) (s.ren ρ) = (projLoop T n acc s).ren ρ (renProj ρ) := by
  intro n
  induction n with
  | zero => intro acc s; rw [projLoop, projLoop]; rfl
  | succ n ih =>
    intro acc s
    have he := parseExpr_ren hρ hT n
    have hmk : ∀ (s : PSt) (f : List (Option (List Char) × PExpr) → List (Option (List Char) × PExpr)),
        (mkErr (s.ren ρ) .expectedProjectionContinuation : PRes _) = (mkErr s .expectedProjectionContinuation).ren ρ f :=
      fun s f => mkErr_ren ρ s _ f rfl
    rw [projLoop, projLoop]
    sren [he, optAlias_ren, hmk, ← ih]

theorem groupKeysLoop_ren : ∀ (n : Nat) (acc : List PExpr) (s : PSt),
    groupKeysLoop T n (PExpr.renAllList ρ acc) (s.ren ρ) = (groupKeysLoop T n acc s).ren ρ (PExpr.renAllList ρ) := by
  intro n
  induction n with
  | zero => intro acc s; rw [groupKeysLoop, groupKeysLoop]; rfl
  | succ n ih =>
    intro acc s
    have he := parseExpr_ren hρ hT n
    rw [groupKeysLoop, groupKeysLoop]
    sren [he, ← ih]

theorem clauseTurn_ren (n : Nat) (c : Clauses) (s : PSt) :
    clauseTurn T n (c.renAll ρ) (s.ren ρ) = (clauseTurn T n c s).ren ρ (fun r => (r.1.renAll ρ, r.2)) := by
  have he := parseExpr_ren hρ hT n
  have hg : ∀ k s, groupKeysLoop T n [PExpr.renAll ρ k] (s.ren ρ) = (groupKeysLoop T n [k] s).ren ρ (PExpr.renAllList ρ) :=
    fun k s => groupKeysLoop_ren hρ hT n [k] s
  have hby : ∀ s, expectConsume (.kw .by) (.expectedKeyword .by) (s.ren ρ) = (expectConsume (.kw .by) (.expectedKeyword .by) s).ren ρ id :=
    fun s => expectConsume_ren ρ _ _ s (by simp) rfl
  have hmk : ∀ (s : PSt) (k : PErrKind) (hk : k.ren ρ = k) (f : Clauses × Bool → Clauses × Bool),
      (mkErr (s.ren ρ) k : PRes _) = (mkErr s k).ren ρ f := fun s k hk f => mkErr_ren ρ s k f hk
  unfold clauseTurn
  sren [he, parseJoin_ren, hg, hby, hmk, Clauses.renAll]

theorem clauseLoop_ren : ∀ (n : Nat) (c : Clauses) (s : PSt),
    clauseLoop T n (c.renAll ρ) (s.ren ρ) = (clauseLoop T n c s).ren ρ (Clauses.renAll ρ) := by
  intro n
  induction n with
  | zero => intro c s; rw [clauseLoop, clauseLoop]; rfl
  | succ n ih =>
    intro c s
    have ht := clauseTurn_ren hρ hT n
    rw [clauseLoop, clauseLoop]
    sren [ht, ← ih]

theorem clauses_ren (n : Nat) (s : PSt) : clauses T n (s.ren ρ) = (clauses T n s).ren ρ (Clauses.renAll ρ) := by
  have h := clauseLoop_ren hρ hT n {} s
  have h0 : ({} : Clauses).renAll ρ = {} := rfl
  rw [h0] at h
  unfold clauses
  sren [h, ne_eq]

theorem parseSelect_ren (n : Nat) (s : PSt) : parseSelect T n (s.ren ρ) = (parseSelect T n s).ren ρ (POp.renAll ρ) := by
  have hp : ∀ s, projLoop T n [] (s.ren ρ) = (projLoop T n [] s).ren ρ (renProj ρ) := fun s => projLoop_ren hρ hT n [] s
  have hc := clauses_ren hρ hT n
  unfold parseSelect
  sren [optDistinct_ren, hp, optFile_ren, hc, POp.renAll, PSelect.renAll, Clauses.renAll]

/-- `Parser::parse` on a token vector that starts with SELECT -/
theorem parseOp_select_ren (n : Nat) (s : PSt) (hs : s.cur.tok = .kw .select) :
    parseOp T n (s.ren ρ) = (parseOp T n s).ren ρ (POp.renAll ρ) := by
  have hsel := parseSelect_ren hρ hT n s
  have hs' : (s.ren ρ).cur.tok = .kw .select := by rw [ren_cur_tok, hs]; rfl
  have hmk : ∀ (s : PSt), (mkErr (s.ren ρ) .tooManyTokens : PRes POp) = (mkErr s .tooManyTokens).ren ρ (POp.renAll ρ) :=
    fun s => mkErr_ren ρ s _ _ rfl
  unfold parseOp parseStatement
  simp only [hs, hs', ne_eq, not_true_eq_false, false_and, if_false, if_true, hsel]
  sren [optSemi_ren, ren_rest_isEmpty, hmk]

/-- **`Parser::parse` is equivariant under respelling identifiers** (token vectors that start with SELECT) -/
theorem parseTokens_select_ren (toks : List PTok) (hs : toks.head?.map (·.tok) = some (.kw .select)) :
    parseTokens T (toks.map (PTok.ren ρ)) = (parseTokens T toks).ren ρ := by
  cases toks with
  | nil => simp at hs
  | cons t ts =>
    have ht : t.tok = .kw .select := by simpa using hs
    unfold parseTokens parseTokensFuel
    simp only [List.map_cons, List.length_cons, List.length_map]
    have h := parseOp_select_ren hρ hT (fuelBound (ts.length + 1)) ⟨t, ts⟩ ht
    have e : ({ cur := t.ren ρ, rest := ts.map (PTok.ren ρ) } : PSt) = PSt.ren ρ ⟨t, ts⟩ := rfl
    rw [e, h]
    cases parseOp T (fuelBound (ts.length + 1)) ⟨t, ts⟩ <;> rfl

end stmt

end Parse
end Sqlgrep
