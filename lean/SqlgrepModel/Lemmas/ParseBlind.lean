import SqlgrepModel.Model.Pipeline
import SqlgrepModel.Lemmas.LowerStrip
/-
`parsing::parse` after the tokenizer reads only the tokens, not their locations: two token vectors with the same
tokens give the same statement, or errors of the same kind (`Pipeline.parseToks`: parser + lowering).
-/
namespace Sqlgrep.Pipeline
open Sqlgrep Sqlgrep.Parse Sqlgrep.Lower

/-- an answer of `parseToks` with the locations of its errors erased -/
def Parsed.stripLoc : Parsed → Parsed
  | .stmt s => .stmt s
  | .lexError _ e => .lexError default e
  | .parseError e => .parseError e.strip
  | .convertError e => .convertError e.strip
  | p => p

theorem strip_of_toks {ts₁ ts₂ : List PTok} (h : ts₁.map (·.tok) = ts₂.map (·.tok)) :
    ts₁.map PTok.strip = ts₂.map PTok.strip := by
  induction ts₁ generalizing ts₂ with
  | nil => cases ts₂ <;> simp_all
  | cons t ts ih =>
    cases ts₂ with
    | nil => simp at h
    | cons u us =>
      simp only [List.map_cons, List.cons.injEq] at h ⊢
      exact ⟨by simp [PTok.strip, h.1], ih h.2⟩

theorem lowerTree_erase (rv : List Char → Bool) (t : POp) : (lowerTree rv t.eraseLoc).stripLoc = (lowerTree rv t).stripLoc := by
  unfold lowerTree
  rw [lowerStatement_erase]
  cases lowerStatement rv t <;> rfl

/-- `parseToks` on the token vector with all locations reset -/
theorem parseToks_strip (rv : List Char → Bool) (ts : List PTok) :
    (parseToks rv (ts.map PTok.strip)).stripLoc = (parseToks rv ts).stripLoc := by
  unfold parseToks
  rw [parseTokens_strip]
  cases parseTokens PrecTables.code ts with
  | tree t => exact lowerTree_erase rv t
  | error e => rfl
  | fuel => rfl
  | panic => rfl

/-- **parser and lowering are location-blind**: the same tokens at other locations give the same statement, or a
parser / conversion error of the same kind -/
theorem parseToks_locations_irrelevant (rv : List Char → Bool) (ts₁ ts₂ : List PTok)
    (h : ts₁.map (·.tok) = ts₂.map (·.tok)) : (parseToks rv ts₁).stripLoc = (parseToks rv ts₂).stripLoc := by
  rw [← parseToks_strip rv ts₁, ← parseToks_strip rv ts₂, strip_of_toks h]

theorem parseToks_stmt_of_same_tokens (rv : List Char → Bool) (ts₁ ts₂ : List PTok)
    (h : ts₁.map (·.tok) = ts₂.map (·.tok)) (s : LStmt) (h₁ : parseToks rv ts₁ = .stmt s) : parseToks rv ts₂ = .stmt s := by
  have := parseToks_locations_irrelevant rv ts₁ ts₂ h
  rw [h₁] at this
  cases h₂ : parseToks rv ts₂ <;> rw [h₂] at this <;> simp [Parsed.stripLoc] at this
  rw [this]

end Sqlgrep.Pipeline
