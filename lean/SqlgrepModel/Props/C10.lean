import SqlgrepModel.Lemmas.ReaderUtf8
/-
C10 — follow mode delivers every completed line exactly once, in order.

Model (`Model/Reader.lean`): `Follow` = the followed file (append-only), the descriptor offset, `BufReader`'s
unconsumed buffer and capacity, `FollowFileIterator.line` (`acc`), the items returned so far, the start
offset chosen by `FollowFileExecutor::new` (`0` with `--head`, else the file length at start-up).
Operations: `append bs` (the writer) and `poll k` (one round of `read_until`'s loop: `fill_buf`, which reads
from the file only when the buffer is empty and may return fewer bytes than the capacity — `k+1` — then
take through the first `\n` or everything; on return `next` either pops the `\n` and hands the line out or,
at EOF without a complete line, retries keeping `line`).
All theorems quantify over every file content, every start mode, every capacity and *every finite sequence
of operations* — i.e. every chunking of the writer's appends (down to single bytes, inside multi-byte
characters, right before the newline), every placement of polls between appends, every short read.
Spec vocabulary (`Lemmas/ReaderSpec.lean`): `splitNl` (the unique split at `\n`), `completeLines` (all pieces
but the last), `tailOf` (the last piece), `wire` (lines written out with their newlines).
Assumed about the OS: the file only grows, a `read` returns a prefix of the unread bytes, reads do not fail.
Only this file states property theorems; helper lemmas live in `Lemmas/`.
-/
namespace Sqlgrep.Props.C10
open Sqlgrep Sqlgrep.Reader

/-- the state reached from start-up on `file` after the operations `ops` -/
def reached (file : List Nat) (head : Bool) (cap : Nat) (ops : List Op) : Follow :=
  run (Follow.init file head cap) ops

/-- the start offset: first byte of the file with `--head`, else the first byte appended after start-up -/
theorem start_offset (file : List Nat) (head : Bool) (cap : Nat) (ops : List Op) :
    (reached file head cap ops).start = if head then 0 else file.length := by
  unfold reached
  have : ∀ (s : Follow) (ops : List Op), (run s ops).start = s.start := by
    intro s ops
    unfold run
    induction ops generalizing s with
    | nil => rfl
    | cons op ops ih =>
      simp only [List.foldl_cons]
      rw [ih]
      cases op with
      | append bs => rfl
      | poll k => exact (poll_frame s k).2.1
  rw [this]
  cases head <;> rfl

/-- the file is only changed by the writer: it is the initial content followed by the appends, in order -/
theorem file_is_appends (file : List Nat) (head : Bool) (cap : Nat) (ops : List Op) :
    (reached file head cap ops).file =
      file ++ (ops.flatMap (fun op => match op with | .append bs => bs | .poll _ => [])) := by
  unfold reached
  have : ∀ (s : Follow) (ops : List Op), (run s ops).file =
      s.file ++ (ops.flatMap (fun op => match op with | .append bs => bs | .poll _ => [])) := by
    intro s ops
    unfold run
    induction ops generalizing s with
    | nil => simp
    | cons op ops ih =>
      simp only [List.foldl_cons, List.flatMap_cons]
      rw [ih]
      cases op with
      | append bs => simp [step]
      | poll k => rw [(poll_frame s k).1]; simp
  rw [this]
  cases head <;> rfl

/-- **Invariant.** At start-up, and after every operation, hence after every operation sequence:
the delivered lines (each followed by its newline), then the pending partial line, then the bytes in
`BufReader`'s buffer, then the unread rest of the file are exactly the file content from the start offset;
the pending line contains no newline, nor does any delivered line. -/
theorem follow_invariant (file : List Nat) (head : Bool) (cap : Nat) (ops : List Op) :
    let s := reached file head cap ops
    wire s.delivered ++ s.acc ++ s.buf ++ s.file.drop s.pos = s.file.drop s.start
    ∧ nl ∉ s.acc ∧ (∀ l ∈ s.delivered, nl ∉ l) := by
  have h := run_inv _ ops (init_inv file head cap)
  exact ⟨h.1, h.2.1, h.2.2.1⟩

/-- the invariant is inductive: it holds initially and every single operation preserves it -/
theorem follow_invariant_init (file : List Nat) (head : Bool) (cap : Nat) : Inv (Follow.init file head cap) :=
  init_inv file head cap
theorem follow_invariant_step (s : Follow) (op : Op) (h : Inv s) : Inv (step s op) := step_inv s op h

/-- **Exactly once, in order, byte for byte.** At every reachable state the delivered sequence is a prefix of
the complete (newline-terminated) lines of the content from the start offset, each without its newline. -/
theorem follow_exactly_once_in_order (file : List Nat) (head : Bool) (cap : Nat) (ops : List Op) :
    let s := reached file head cap ops
    s.delivered <+: completeLines (s.file.drop s.start) := by
  exact inv_delivered_prefix _ (run_inv _ ops (init_inv file head cap))

/-- **Character for character.** The item handed out is `String::from_utf8_lossy(line)`; when the content from
the start offset is valid UTF-8, every delivered line is valid UTF-8 by itself — wherever the appends were
cut — so that conversion is the identity and the `String` has exactly the bytes of the line. -/
theorem follow_lines_valid_utf8 (file : List Nat) (head : Bool) (cap : Nat) (ops : List Op) :
    let s := reached file head cap ops
    validUtf8 (s.file.drop s.start) = true → ∀ l ∈ s.delivered, validUtf8 l = true := by
  intro s hv
  exact inv_delivered_valid s (run_inv _ ops (init_inv file head cap)) hv

/-- delivery is append-only: further operations never retract, reorder or change what was delivered
(together with the previous theorem: no duplicates — the i-th item is the i-th complete line, forever) -/
theorem follow_delivered_stable (file : List Nat) (head : Bool) (cap : Nat) (ops more : List Op) :
    (reached file head cap ops).delivered <+: (reached file head cap (ops ++ more)).delivered := by
  unfold reached run
  rw [List.foldl_append]
  exact run_delivered_prefix _ more

/-- **No tail.** However the content from the start offset decomposes into newline-terminated lines `ls`
and an unterminated tail `t`, only lines of `ls` are ever delivered (as a prefix of `ls`): the tail is never
delivered, split, or merged with a neighbour — even when it equals an earlier line. -/
theorem follow_no_tail (file : List Nat) (head : Bool) (cap : Nat) (ops : List Op)
    (ls : List (List Nat)) (t : List Nat) (hls : ∀ l ∈ ls, nl ∉ l) (ht : nl ∉ t) :
    let s := reached file head cap ops
    s.file.drop s.start = wire ls ++ t → s.delivered <+: ls ∧ s.delivered.length ≤ ls.length := by
  intro s hdec
  have h := follow_exactly_once_in_order file head cap ops
  simp only at h
  rw [show (reached file head cap ops) = s from rfl, hdec, (completeLines_unique ls t hls ht).1] at h
  exact ⟨h, h.length_le⟩

/-- **Progress.** From any reachable state, if the writer pauses and the reader keeps polling (any read
sizes, capacity ≥ 1), then after as many polls as there are fetched-or-fetchable bytes every complete line of
the content has been delivered, and the pending line is exactly the unterminated tail. -/
theorem follow_progress (file : List Nat) (head : Bool) (cap : Nat) (hc : 1 ≤ cap) (ops : List Op) (ks : List Nat)
    (hn : pending (reached file head cap ops) ≤ ks.length) :
    let s := reached file head cap (ops ++ ks.map .poll)
    s.delivered = completeLines (s.file.drop s.start) ∧ s.acc = tailOf (s.file.drop s.start) := by
  intro s
  have hs : s = run (reached file head cap ops) (ks.map .poll) := by
    simp only [s, reached, run, List.foldl_append]
  have hinv : Inv s := run_inv _ _ (init_inv file head cap)
  have hcap : 1 ≤ (reached file head cap ops).cap := by
    have : ∀ (s : Follow) (ops : List Op), (run s ops).cap = s.cap := by
      intro s ops
      unfold run
      induction ops generalizing s with
      | nil => rfl
      | cons op ops ih =>
        simp only [List.foldl_cons]
        rw [ih]
        cases op with
        | append bs => rfl
        | poll k => exact (poll_frame s k).2.2
    unfold reached
    rw [this]
    cases head <;> exact hc
  have hp : pending s = 0 := by
    have := run_polls_pending (reached file head cap ops) ks hcap
    rw [← hs] at this
    omega
  exact delivered_of_pending_zero s hinv hp

/-- the schedules of the correspondence check (`drive`: poll with full reads until the retry point, there
append the next chunk or stop) are operation sequences, so every theorem above applies to them -/
theorem drive_covered (file : List Nat) (head : Bool) (cap fuel : Nat) (chunks : List (List Nat)) :
    ∃ ops, drive fuel (Follow.init file head cap) chunks = reached file head cap ops :=
  drive_is_run fuel _ chunks

/-! Non-vacuity and concrete behaviour (97 = 'a', 98 = 'b', 195 169 = 'é', 10 = LF, 13 = CR). -/

-- an append that ends inside `é`, a poll (retry), the rest: the line is delivered whole, once
example : (reached [] true 2 [.append [97, 195], .poll 1, .poll 1, .append [169, 10, 98], .poll 1, .poll 1, .poll 1]).delivered
    = [[97, 195, 169]] := by decide
-- the unterminated tail `b` stays pending
example : (reached [] true 2 [.append [97, 195], .poll 1, .poll 1, .append [169, 10, 98], .poll 1, .poll 1, .poll 1]).acc
    = [98] := by decide
-- without --head the existing content (also its unterminated tail `old`) is skipped
example : (reached [111, 108, 100] false 8 [.append [101, 114, 10, 110, 10], .poll 7, .poll 7, .poll 7]).delivered
    = [[101, 114], [110]] := by decide
-- CR is content in follow mode (only the LF is removed); empty lines are delivered
example : (reached [] true 1 [.append [97, 13, 10, 10], .poll 0, .poll 0, .poll 0, .poll 0]).delivered
    = [[97, 13], []] := by decide
-- the hypotheses of `follow_no_tail` are satisfiable with a tail equal to an earlier line
example : ([97, 10, 97] : List Nat) = wire [[97]] ++ [97] ∧ nl ∉ ([97] : List Nat) := by decide
-- `follow_progress`: 4 pending bytes, 4 polls
example : pending (reached [] true 3 [.append [97, 10, 98, 10]]) = 4 := by decide
example : completeLines [97, 10, 10, 98] = [[97], []] ∧ tailOf [97, 10, 10, 98] = [98] := by decide

end Sqlgrep.Props.C10
