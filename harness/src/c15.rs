// C15: order-insensitive aggregates ignore line order and how the input is split.
use sqlgrep::model::Value;

use crate::c04::{gen_typed_input, join_lines, C04_DEF};
use crate::engine_run::*;
use crate::run::{Params, Run};
use crate::runq::{run_engine_batch, RowsOutcome};
use crate::util::Rng;

/// every order-insensitive aggregate over every argument type it accepts (INT, REAL, INTERVAL sums; any comparable type
/// for MIN/MAX/PERCENTILE/COUNT DISTINCT; BOOLEAN column and predicates for BOOL_AND/OR)
fn agg(rng: &mut Rng) -> String {
    match rng.below(14) {
        0 => "COUNT(*)".to_owned(),
        1 => format!("COUNT({})", rng.pick(&["v", "w", "k", "r", "iv", "ts", "b"])),
        2 | 3 => format!("COUNT(DISTINCT {})", rng.pick(&["v", "w", "k", "iv", "ts", "s", "v", "b"])),
        // `t2 - ts`: sub-second intervals of either sign (column iv: whole seconds of either sign), see c04::C04_DEF
        4 | 5 => format!("SUM({})", rng.pick(&["v", "w", "r", "v * 2", "v + w", "iv", "iv", "t2 - ts"])),
        6 => format!("MIN({})", rng.pick(&["v", "w", "k", "s", "r", "iv", "ts", "b", "t2 - ts", "t2"])),
        7 => format!("MAX({})", rng.pick(&["v", "w", "k", "s", "r", "iv", "ts", "b", "t2 - ts", "t2"])),
        8 => format!("AVG({})", rng.pick(&["v", "w", "r", "iv", "t2 - ts", "t2 - ts"])),
        9 => format!("{}({})", rng.pick(&["STDDEV", "VARIANCE"]), rng.pick(&["v", "w", "r"])),
        10 => format!("PERCENTILE({}, {})", rng.pick(&["v", "w", "k", "iv", "ts", "s", "t2 - ts"]), rng.pick(&["0.0", "0.5", "0.9", "1.0"])),
        // the last two arguments have no value on a row with w = 0: whether that row comes before or after the row that
        // decides the aggregate must not matter (an error in every order)
        11 => format!("BOOL_AND({})", rng.pick(&["v > 0", "w = 1", "k = 'a'", "b", "10 / w > 1", "v / w < 5"])),
        12 => format!("BOOL_OR({})", rng.pick(&["v > 30", "w = 1", "k = 'a'", "b", "10 / w > 1", "v / w < 5"])),
        _ => "COUNT(*) + 1".to_owned(),
    }
}

pub(crate) fn query(rng: &mut Rng) -> String {
    let group: Vec<&str> = match rng.below(4) { 0 => vec![], 1 => vec!["k"], 2 => vec!["w"], _ => vec!["k", "w"] };
    let mut items: Vec<String> = group.iter().map(|g| (*g).to_owned()).collect();
    for _ in 0..rng.below(4) + 1 { items.push(agg(rng)); }
    rng.shuffle(&mut items);
    let mut q = format!("SELECT {} FROM t", items.join(", "));
    if rng.chance(1, 3) { q.push_str(&format!(" WHERE {}", rng.pick(&["v > 0", "w != 0", "k != 'c'", "r > 1.0"]))); }
    if !group.is_empty() { q.push_str(&format!(" GROUP BY {}", group.join(", "))); }
    if rng.chance(1, 3) {
        // boolean combinations, with the same aggregate used more than once (range conditions, alternatives)
        let aggs = ["COUNT(*)", "SUM(v)", "MAX(w)", "MIN(v)", "COUNT(v)", "COUNT(DISTINCT k)"];
        let a = *rng.pick(&aggs);
        let b = *rng.pick(&aggs);
        let cmp = |rng: &mut Rng, x: &str| format!("{} {} {}", x, rng.pick(&[">", ">=", "<", "<=", "="]), rng.pick(&["0", "1", "2", "3", "5"]));
        let h = match rng.below(6) {
            0 | 1 => cmp(rng, a),
            2 => { let lo = rng.below(3); format!("{} >= {} AND {} <= {}", a, lo, a, lo + 1 + rng.below(3)) }
            3 => format!("{} AND {}", cmp(rng, a), cmp(rng, b)),
            4 => format!("{} OR {}", cmp(rng, a), cmp(rng, a)),
            _ => format!("NOT ({}) AND {}", cmp(rng, a), cmp(rng, b)),
        };
        q.push_str(&format!(" HAVING {}", h));
    }
    q
}

pub fn run(p: &Params) -> Run {
    let mut run = Run::new("C15");
    let mut rng = Rng::new(p.seed ^ 0x15);
    let n = p.n(1500, 60_000);
    for _ in 0..n {
        let q = query(&mut rng);
        let prepared = match prepare(C04_DEF, &q) { Ok(p) => p, Err(_) => { run.count("rejected"); continue; } };
        // small inputs over several groups, or (1 in 5) 40-150 lines concentrated in one or two groups with arguments from
        // pools of 17-65 distinct values (many repetitions; small-buffer sizes 8 / 16 / 32 / 64 in mind)
        let large = rng.chance(1, 5);
        let lines: Vec<String> = gen_typed_input(&mut rng, large);
        let base = run_files(&prepared, &[join_lines(&lines)]);
        let desc = format!("query={} input={:?}", q, lines);
        if let Some(case) = batch_case(&prepared, b"", &[join_lines(&lines)], None) {
            run.case_with_desc(case, base.wire(), format!("perm:{}:g{}:h{}:r{}", base.status, q.contains("GROUP BY") as u8, q.contains("HAVING") as u8, base.records().len().min(4)), desc.clone());
        }
        // permutations of the lines: sorted, reversed, shuffled
        for round in 0..4 {
            run.oracle_checks += 1;
            let mut perm = lines.clone();
            match round {
                0 => perm.sort(),
                1 => { perm.sort(); perm.reverse(); }
                _ => rng.shuffle(&mut perm),
            }
            let other = run_files(&prepared, &[join_lines(&perm)]);
            if other.status != base.status || other.records() != base.records() {
                run.fail(format!("{} permuted={:?}", desc, perm), "permutation-changes-result", format!("{:?} vs {:?}", base.records(), other.records()));
                break;
            }
        }
    }
    // INT arguments at the 64-bit extremes: the exact sum may fit while a partial sum in SOME order does not. The code adds
    // with `checked_add` in arrival order, so such an input errors in one order and answers in another (finding D71) — known
    // only in exactly that form, decided from the VALUES: the i128 partial sums say which order must overflow; the class is
    // assigned when exactly one of the two orders overflows, that order reports exactly the overflow error kind
    // (`err:UndefinedOperation`, nothing printed) and the other prints one record whose SUM cell PARSES to the exact sum
    // (its COUNT(*) cell to the number of lines, its key to 'a'). Every other difference between the two orders — another
    // error kind, an error in an order whose partial sums all fit, a wrong sum next to an error — is a violation. Both
    // orders also go to the Lean model (`batch` cases: `addToSum` reports `undefinedOperation` at the same partial sum).
    for _ in 0..p.n(120, 3000) {
        let pool: &[i64] = &[i64::MAX, i64::MAX - 1, 1, -1, 2, -2, i64::MIN, i64::MIN + 1, 0, 4611686018427387904, -4611686018427387904];
        let vals: Vec<i64> = (0..2 + rng.below(4)).map(|_| *rng.pick(pool)).collect();
        let exact: i128 = vals.iter().map(|v| *v as i128).sum();
        let q = *rng.pick(&["SELECT SUM(v) FROM t", "SELECT k, SUM(v) FROM t GROUP BY k", "SELECT COUNT(*), SUM(v) FROM t"]);
        let prepared = match prepare(C04_DEF, q) { Ok(p) => p, Err(_) => continue };
        let mut pvals = vals.clone();
        pvals.reverse();
        if rng.chance(1, 2) { rng.shuffle(&mut pvals); }
        let to_lines = |vs: &[i64]| -> Vec<String> { vs.iter().map(|v| format!("a;{};1;;;;;", v)).collect() };
        let (lines, perm) = (to_lines(&vals), to_lines(&pvals));
        // does SOME partial sum of this order leave the 64-bit range? (the running sum starts at 0)
        let overflows = |vs: &[i64]| -> bool { let mut acc = 0i128; vs.iter().any(|v| { acc += *v as i128; acc < i64::MIN as i128 || acc > i64::MAX as i128 }) };
        let (ov_a, ov_b) = (overflows(&vals), overflows(&pvals));
        let a = run_files(&prepared, &[join_lines(&lines)]);
        let b = run_files(&prepared, &[join_lines(&perm)]);
        run.oracle_checks += 1;
        run.count("extreme-int-sums");
        let desc = format!("query={} input={:?} permuted={:?}", q, lines, perm);
        for (r, ls, ov) in [(&a, &lines, ov_a), (&b, &perm, ov_b)] {
            if let Some(case) = batch_case(&prepared, b"", &[join_lines(ls)], None) {
                run.case_with_desc(case, r.wire(), format!("extreme-sum:{}:overflows{}:{}", r.status, ov as u8, q.len()), format!("query={} input={:?}", q, ls));
            }
        }
        if a.status == "panic" || b.status == "panic" { run.fail(desc, "panic:extreme-sum", "panicked".to_owned()); continue; }
        // the one record of an answering run, parsed: (key, COUNT(*), SUM) as far as the statement has them
        let parsed = |r: &crate::engine_run::BatchResult| -> Option<(Option<String>, Option<i128>, Option<i128>)> {
            let recs = r.records();
            if r.status != "ok" || recs.len() != 1 { return None; }
            let (mut key, mut count, mut sum) = (None, None, None);
            for part in recs[0].split(", ") {
                let (name, value) = part.split_once(": ")?;
                if name == "k" { key = Some(value.to_owned()); }
                else if name.starts_with("count") { count = Some(value.parse::<i128>().ok()?); }
                else if name.starts_with("sum") { sum = Some(value.parse::<i128>().ok()?); }
                else { return None; }
            }
            Some((key, count, sum))
        };
        // what an order whose partial sums all fit must print: the exact sum (and the line count, the key 'a')
        let answers_exactly = |r: &crate::engine_run::BatchResult| -> bool {
            match parsed(r) {
                Some((key, count, Some(sum))) => sum == exact && key.map_or(!q.contains("GROUP BY"), |k| q.contains("GROUP BY") && k == "'a'") && count.map_or(!q.contains("COUNT"), |c| q.contains("COUNT") && c == vals.len() as i128),
                _ => false,
            }
        };
        const OVERFLOW: &str = "err:UndefinedOperation";
        let reports_overflow = |r: &crate::engine_run::BatchResult| r.status == OVERFLOW && r.records().is_empty();
        let show = format!("{} {:?} (some partial sum overflows: {}) vs {} {:?} (overflows: {}); exact sum {}", a.status, a.records(), ov_a, b.status, b.records(), ov_b, exact);
        match (ov_a, ov_b) {
            // no partial sum overflows in either order: both must print the exact sum
            (false, false) => if !(answers_exactly(&a) && answers_exactly(&b)) {
                run.fail(desc, if a.status == b.status && a.records() == b.records() { "sum-not-exact" } else { "permutation-changes-result" }, show);
            },
            // both orders pass through an overflowing partial sum: the same outcome in both is all the property asks
            (true, true) => if a.status != b.status || a.records() != b.records() { run.fail(desc, "permutation-changes-result", show); },
            // exactly one order overflows: the outcomes may only differ as finding D71 documents; equal outcomes must be right
            _ => {
                let (answering, erroring) = if ov_a { (&b, &a) } else { (&a, &b) };
                if a.status == b.status && a.records() == b.records() {
                    if !answers_exactly(answering) { run.fail(desc, "sum-not-exact", show); }
                } else {
                    let d71 = reports_overflow(erroring) && answers_exactly(answering);
                    run.fail(desc, if d71 { "D71:int-sum-order-dependent-overflow" } else { "permutation-changes-result" }, show);
                }
            }
        }
    }
    // split: the result over a concatenation is the key-wise combination of the results over the parts
    let m = p.n(800, 30_000);
    for _ in 0..m {
        let with_key = rng.chance(3, 4);
        let wher = if rng.chance(1, 3) { " WHERE v > 0" } else { "" };
        let q = if with_key { format!("SELECT k, COUNT(*), COUNT(v), SUM(v), MIN(v), MAX(w), SUM(r), MIN(k), MAX(s), SUM(iv), MIN(ts), MAX(iv), COUNT(iv) FROM t{} GROUP BY k", wher) } else { format!("SELECT COUNT(*), COUNT(v), SUM(v), MIN(v), MAX(w), SUM(r), MIN(k), MAX(s), SUM(iv), MIN(ts), MAX(iv), COUNT(iv) FROM t{}", wher) };
        let large_split = rng.chance(1, 8);
        let lines: Vec<String> = gen_typed_input(&mut rng, large_split);
        let cut = rng.below(lines.len() + 1);
        let whole = run_engine_batch(C04_DEF, &q, &lines);
        let a = run_engine_batch(C04_DEF, &q, &lines[..cut].to_vec());
        let b = run_engine_batch(C04_DEF, &q, &lines[cut..].to_vec());
        run.oracle_checks += 1;
        let desc = format!("query={} input={:?} cut={}", q, lines, cut);
        match (whole, a, b) {
            (RowsOutcome::Rows { rows: w, .. }, RowsOutcome::Rows { rows: ra, .. }, RowsOutcome::Rows { rows: rb, .. }) => {
                let merged = merge(with_key, &ra, &rb);
                if merged != w {
                    run.fail(desc, "split-merge-differs", format!("whole={:?} merged={:?}", w, merged));
                }
                run.count("split-checked");
            }
            (RowsOutcome::Panic(m), _, _) | (_, RowsOutcome::Panic(m), _) | (_, _, RowsOutcome::Panic(m)) => run.fail(desc, "panic:split", m),
            _ => run.count("split-error"),
        }
    }
    // split, every aggregate the property names and HAVING — through the program: the input as ONE file and the same lines cut into
    // TWO files at any line must give the same answer (status, records, line count). The statements are the general ones of this
    // check (AVG, STDDEV / VARIANCE, COUNT(DISTINCT), PERCENTILE, BOOL_AND / BOOL_OR, WHERE, HAVING with hidden aggregates); what a
    // part has to hand over are its per-group SUMMARIES, not its printed table (with HAVING the printed tables of the parts do not
    // determine the whole: Props/PipelineLines.lean `having_parts_do_not_determine_the_whole`). The two-file run also goes to the
    // Lean model.
    for _ in 0..p.n(500, 20_000) {
        let q = if rng.chance(1, 4) {
            format!("SELECT k, AVG(v), VARIANCE(w), COUNT(DISTINCT v), PERCENTILE(v, {}), COUNT(*) FROM t{} GROUP BY k HAVING {}",
                rng.pick(&["0.5", "0.9", "0.0"]), if rng.chance(1, 3) { " WHERE v > 0" } else { "" },
                rng.pick(&["COUNT(*) > 1", "COUNT(*) > 1 AND AVG(v) >= 0", "COUNT(DISTINCT w) >= 2", "SUM(v) > 5 OR COUNT(v) = 1", "AVG(t2 - ts) >= '00:00:00'::interval"]))
        } else { query(&mut rng) };
        let prepared = match prepare(C04_DEF, &q) { Ok(p) => p, Err(_) => { run.count("rejected"); continue; } };
        let large = rng.chance(1, 8);
        let lines: Vec<String> = gen_typed_input(&mut rng, large);
        let cut = rng.below(lines.len() + 1);
        let one = run_files(&prepared, &[join_lines(&lines)]);
        let two_files = vec![join_lines(&lines[..cut]), join_lines(&lines[cut..])];
        let two = run_files(&prepared, &two_files);
        run.oracle_checks += 1;
        let desc = format!("query={} input={:?} cut={}", q, lines, cut);
        if one.status == "panic" || two.status == "panic" { run.fail(desc.clone(), "panic:split", "panicked".to_owned()); }
        else if one != two {
            run.fail(desc.clone(), "split-into-files-changes-result", format!("one file: {} {:?} ({} lines); cut into two files: {} {:?} ({} lines)", one.status, one.records(), one.total_lines, two.status, two.records(), two.total_lines));
        }
        run.count(&format!("split-files:{}", one.status.split(':').next().unwrap_or("")));
        if let Some(case) = batch_case(&prepared, b"", &two_files, None) {
            run.case_with_desc(case, two.wire(), format!("split-files:{}:h{}:r{}", two.status, q.contains("HAVING") as u8, two.records().len().min(3)), desc);
        }
    }
    // split with HAVING, from the parts' SUMMARIES: the parts are asked for what a part has to remember (per group: COUNT(v), SUM(v),
    // SUM(v * v), MIN(v), MAX(w), COUNT(*) — no HAVING), the whole for AVG, VARIANCE, SUM, MIN, MAX, COUNT(*) under HAVING COUNT(*) > h;
    // expected: per key of either part n = n₁ + n₂, kept iff n > h; AVG = (S₁ + S₂) / (c₁ + c₂) truncated, VARIANCE = the rounded
    // quotient of the exact c·Q − S² and c² (bitwise; C04), SUM / MIN / MAX combined, NULL neutral. COUNT(*) is present, so no group is
    // without a value entry (D10) in any part: every cut is covered.
    for _ in 0..p.n(300, 10_000) {
        let with_key = rng.chance(3, 4);
        let wher = if rng.chance(1, 3) { " WHERE v > 0" } else { "" };
        let h = rng.below(3) as i64;
        let (sel, grp) = if with_key { ("k, ", " GROUP BY k") } else { ("", "") };
        let qpart = format!("SELECT {}COUNT(v), SUM(v), SUM(v * v), MIN(v), MAX(w), COUNT(*) FROM t{}{}", sel, wher, grp);
        let qwhole = format!("SELECT {}AVG(v), VARIANCE(v), SUM(v), MIN(v), MAX(w), COUNT(*) FROM t{}{} HAVING COUNT(*) > {}", sel, wher, grp, h);
        let large_split = rng.chance(1, 8);
        let lines: Vec<String> = gen_typed_input(&mut rng, large_split);
        let cut = rng.below(lines.len() + 1);
        run.oracle_checks += 1;
        let desc = format!("query={} (parts: {}) input={:?} cut={}", qwhole, qpart, lines, cut);
        match (run_engine_batch(C04_DEF, &qwhole, &lines), run_engine_batch(C04_DEF, &qpart, &lines[..cut].to_vec()), run_engine_batch(C04_DEF, &qpart, &lines[cut..].to_vec())) {
            (RowsOutcome::Rows { rows: w, .. }, RowsOutcome::Rows { rows: ra, .. }, RowsOutcome::Rows { rows: rb, .. }) => {
                let expected = merge_summaries(with_key, h, &ra, &rb);
                let same = w.len() == expected.len() && w.iter().zip(expected.iter()).all(|(x, y)| x.len() == y.len() && x.iter().zip(y.iter()).all(|(a, b)| match (a, b) {
                    (Value::Float(a), Value::Float(b)) => a.0.to_bits() == b.0.to_bits(),
                    _ => a == b,
                }));
                if !same { run.fail(desc, "split-merge-of-summaries-differs", format!("whole={:?} from the parts' summaries={:?}", w, expected)); }
                run.count("split-summaries-checked");
            }
            (RowsOutcome::Panic(m), _, _) | (_, RowsOutcome::Panic(m), _) | (_, _, RowsOutcome::Panic(m)) => run.fail(desc, "panic:split", m),
            _ => run.count("split-error"),
        }
    }
    // the whole program: statement from raw text, every output format, lines spread over 1-3 files
    let mut erng = Rng::new(p.seed ^ 0x15e2e);
    crate::e2e::perm_relation(&mut run, &mut erng, p.n(400, 4000), C04_DEF, &query, &|rng: &mut Rng| gen_typed_input(rng, false));
    run.notes.push("table with TEXT/INT/REAL/BOOLEAN/INTERVAL/TIMESTAMP columns; small INT arguments and REAL arguments whose sums/squares are exact; -0.0 and NaN excluded (they are equal to 0.0 / incomparable but print differently); 1 in 5 inputs has 40-150 lines in one or two groups with 17-65 distinct argument values; permutations: sorted, reversed, 2 shuffles; HAVING as boolean combinations with repeated aggregates".to_owned());
    run
}

fn add(a: &Value, b: &Value) -> Value {
    match (a, b) {
        (Value::Null, x) | (x, Value::Null) => x.clone(),
        (Value::Int(x), Value::Int(y)) => Value::Int(x + y),
        (Value::Float(x), Value::Float(y)) => Value::Float(sqlgrep::model::Float(x.0 + y.0)),
        (Value::Interval(x), Value::Interval(y)) => Value::Interval(*x + *y),
        (x, _) => x.clone(),
    }
}
fn least(a: &Value, b: &Value) -> Value { match (a, b) { (Value::Null, x) | (x, Value::Null) => x.clone(), (x, y) => if y < x { y.clone() } else { x.clone() } } }
fn greatest(a: &Value, b: &Value) -> Value { match (a, b) { (Value::Null, x) | (x, Value::Null) => x.clone(), (x, y) => if y > x { y.clone() } else { x.clone() } } }

/// key-wise combination: counts and sums add, minima and maxima combine, the set of groups is the union (ascending key order)
fn merge(with_key: bool, a: &[Vec<Value>], b: &[Vec<Value>]) -> Vec<Vec<Value>> {
    let off = if with_key { 1 } else { 0 };
    let combine = |x: &Vec<Value>, y: &Vec<Value>| -> Vec<Value> {
        let mut r = Vec::new();
        if with_key { r.push(x[0].clone()); }
        r.push(add(&x[off], &y[off]));
        r.push(add(&x[off + 1], &y[off + 1]));
        r.push(add(&x[off + 2], &y[off + 2]));
        r.push(least(&x[off + 3], &y[off + 3]));
        r.push(greatest(&x[off + 4], &y[off + 4]));
        r.push(add(&x[off + 5], &y[off + 5]));
        r.push(least(&x[off + 6], &y[off + 6]));
        r.push(greatest(&x[off + 7], &y[off + 7]));
        r.push(add(&x[off + 8], &y[off + 8]));
        r.push(least(&x[off + 9], &y[off + 9]));
        r.push(greatest(&x[off + 10], &y[off + 10]));
        r.push(add(&x[off + 11], &y[off + 11]));
        r
    };
    if !with_key {
        return match (a.first(), b.first()) {
            (Some(x), Some(y)) => vec![combine(x, y)],
            (Some(x), None) => vec![x.clone()],
            (None, Some(y)) => vec![y.clone()],
            (None, None) => vec![],
        };
    }
    let mut keys: Vec<Value> = a.iter().chain(b.iter()).map(|r| r[0].clone()).collect();
    keys.sort();
    keys.dedup();
    keys.iter().map(|k| {
        let x = a.iter().find(|r| &r[0] == k);
        let y = b.iter().find(|r| &r[0] == k);
        match (x, y) { (Some(x), Some(y)) => combine(x, y), (Some(x), None) => x.clone(), (None, Some(y)) => y.clone(), (None, None) => unreachable!() }
    }).collect()
}

/// the table of `SELECT [k,] AVG(v), VARIANCE(v), SUM(v), MIN(v), MAX(w), COUNT(*) … HAVING COUNT(*) > h` from the two parts' summary
/// tables `[k,] COUNT(v), SUM(v), SUM(v * v), MIN(v), MAX(w), COUNT(*)`: groups = the union of the parts' groups (ascending), summaries
/// combined (counts and sums add, extremes combine, NULL neutral), THEN HAVING, then the finished cells
fn merge_summaries(with_key: bool, h: i64, a: &[Vec<Value>], b: &[Vec<Value>]) -> Vec<Vec<Value>> {
    let off = if with_key { 1 } else { 0 };
    let int = |v: &Value| -> Option<i128> { if let Value::Int(x) = v { Some(*x as i128) } else { None } };
    let finish = |key: Option<&Value>, x: Option<&Vec<Value>>, y: Option<&Vec<Value>>| -> Option<Vec<Value>> {
        let cell = |i: usize, f: &dyn Fn(&Value, &Value) -> Value| -> Value { match (x, y) { (Some(x), Some(y)) => f(&x[off + i], &y[off + i]), (Some(x), None) => x[off + i].clone(), (None, Some(y)) => y[off + i].clone(), (None, None) => Value::Null } };
        let (cv, s, q, mn, mx, n) = (cell(0, &add), cell(1, &add), cell(2, &add), cell(3, &least), cell(4, &greatest), cell(5, &add));
        if !(int(&n)? > h as i128) { return None; }
        let c = int(&cv)?;
        let (avg, var) = match (int(&s), int(&q)) {
            (Some(s), Some(q)) if c > 0 => (Value::Int((s / c) as i64), Value::Float(sqlgrep::model::Float((c * q - s * s) as f64 / (c * c) as f64))),
            _ => (Value::Null, Value::Null),
        };
        let mut r = Vec::new();
        if let Some(k) = key { r.push(k.clone()); }
        r.extend(vec![avg, var, s, mn, mx, n]);
        Some(r)
    };
    if !with_key { return finish(None, a.first(), b.first()).into_iter().filter(|_| !(a.is_empty() && b.is_empty())).collect(); }
    let mut keys: Vec<Value> = a.iter().chain(b.iter()).map(|r| r[0].clone()).collect();
    keys.sort();
    keys.dedup();
    keys.iter().filter_map(|k| finish(Some(k), a.iter().find(|r| &r[0] == k), b.iter().find(|r| &r[0] == k))).collect()
}
