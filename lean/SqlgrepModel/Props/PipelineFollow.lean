import SqlgrepModel.Lemmas.PipelineFollow
import SqlgrepModel.Props.Pipeline
/-
END-TO-END theorems, part three: FOLLOW MODE. `Pipeline.followText` (`Model/PipelineFollow.lean`) is the whole program
`sqlgrep -d <definitions> -c <query> --format <fmt> --follow [--head] <file>`: definition TEXT, query TEXT, output
format, the content of the file at start-up and a schedule — the writer's appends (byte chunks), the reader's polls
(with short reads) and an interrupt, in any interleaving — in; what is written to the terminal (erase-display
sequences and printed lines) and how `FollowFileExecutor::execute` ends out. It is the function the compiled driver
executes for every `e2ef` case (`harness/src/e2ef.rs`: the real `FollowFileExecutor` on a real growing file). Like the
other `Props/Pipeline*.lean` files this one has no property id of its own; each theorem names the property it carries:

* `followText_never_panics`                                   C09 / C14 / C17 for follow mode: no panic on any texts,
  any bytes, any schedule, any oracle tables.
* C10 at program level — `statement_is_given_the_complete_lines`, `quiescent_schedule_delivers_every_complete_line`,
  `chunking_and_polls_are_irrelevant`: what the statement is given are exactly the complete lines of the content from
  the start offset (`--head`: of the whole file), each once, in order, whatever the chunking and the interleaving.
* C11 at program level — `follow_select_prints_batch_output` (non-aggregate statement, WHERE / DISTINCT / LIMIT
  included: everything follow mode writes is what the batch program prints over the same lines, same status),
  `follow_screen_is_batch_output` (aggregate statement without LIMIT and join, every format: the k-th delivered
  line either refreshes the screen with exactly the output of the batch program over the first k lines, or — WHERE or
  the admission rule rejects it — leaves everything as it is and the batch output over k lines is the one over k−1;
  `shown_line_screen_is_batch_output`: the last screen after a shown line IS that batch output;
  `follow_screens_are_batch_outputs`: every screen ever shown is the batch output over a prefix;
  `quiescent_followText_is_run_over_complete_lines`: these are statements about `followText` on caught-up schedules;
  `follow_table_failure_is_batch_table_failure_partial`: `execute_result` fails for the k-th line iff the batch program
  over k lines fails, with the same error — given the updates succeed in both modes; `exScreenHyps`: all hypotheses
  at once, by the kernel).
  Side conditions, exactly (`PlainLine`): the batch reader must read the delivered lines as the same texts — valid
  UTF-8 (follow mode does NOT end on an invalid line and reports nothing: the line's text is `from_utf8_lossy`, an
  external fact; batch mode ends with `FailReadFile`) and no `\r` before the `\n` (follow mode keeps it as content).
  In CSV format every refreshed table has its header (the printer is told `start_table()` after each clear): D65,
  repaired in /repo e80a2b6; regression witness `d65_repaired_csv_header_on_every_screen`.
* C19 at program level — `interrupt_is_run_over_lines_delivered_before`, `interrupted_output_is_a_prefix`: an
  interrupt anywhere in the schedule leaves what was written a prefix of what the uninterrupted schedule writes (for an
  aggregate statement: a prefix of its sequence of screens) and adds no error.
* C06 at program level — `follow_noise_lines_invisible`, `noise_in_followed_bytes_invisible`: complete lines that
  yield no row, inserted into what is delivered / into the followed bytes at line boundaries, change nothing that is
  written and not the status.

Helper lemmas: `Lemmas/ExecFT.lean`, `Lemmas/ExecFTBatch.lean`, `Lemmas/PipelineFollow.lean`.
-/
namespace Sqlgrep.Props.PipelineFollow
open Sqlgrep Sqlgrep.Pipeline Sqlgrep.Spec.Pipeline Sqlgrep.Reader Sqlgrep.Extract Sqlgrep.Spec.Agg
open Sqlgrep.Props.Pipeline (exFacts exDefs)

/-- **Follow mode never panics** (C09, C14, C17): for every definition text, query text, format, `--head` or not, every
content at start-up and every schedule of appends, polls and interrupts, and ALL oracle tables — also wrong or
incomplete ones — the end-to-end model never answers `panic`. -/
theorem followText_never_panics (F : Facts) (defsText queryText : List Char) (fmt : Print.Format) (head : Bool)
    (initial : List Nat) (ops : List FollowOp) : ∀ site, followText F defsText queryText fmt head initial ops ≠ .panic site :=
  followLines_no_panic F defsText queryText fmt _ _

/-! ### C10: every complete line, once, in order -/

/-- **What the statement is given** (C10 at program level). The program's answer is a function of the lines the
iterator has delivered and of the number delivered when the flag was cleared (`followText` = `followLines` of them, by
definition), and — whatever the chunking of the writer's appends, the placement of the polls and the sizes of the reads
— the delivered lines are a prefix of the complete (newline-terminated) lines of the content from the start offset:
the first byte of the file with `--head`, the first byte appended after start-up otherwise. Each line once, in order,
byte for byte; an unterminated tail is never among them. -/
theorem statement_is_given_the_complete_lines (F : Facts) (defsText queryText : List Char) (fmt : Print.Format) (head : Bool)
    (initial : List Nat) (ops : List FollowOp) :
    followText F defsText queryText fmt head initial ops =
      followLines F defsText queryText fmt (deliveredBy head initial ops) (interruptPoint head initial ops) ∧
    deliveredBy head initial ops <+: completeLines (followedContent head initial ops) :=
  ⟨rfl, deliveredBy_prefix head initial ops⟩

/-- **… all of them, once the reader has caught up**: a schedule that ends with as many polls as there were bytes
pending has delivered EVERY complete line of the followed content -/
theorem quiescent_schedule_delivers_every_complete_line (head : Bool) (initial : List Nat) (ops : List FollowOp) (ks : List Nat)
    (hi : FollowOp.interrupt ∉ ops)
    (hn : pending (Props.C10.reached initial head followCap (readerOps ops)) ≤ ks.length) :
    deliveredBy head initial (ops ++ ks.map .poll) = completeLines (followedContent head initial ops) :=
  deliveredBy_quiescent head initial ops ks hi hn

/-- **Chunking and polls are irrelevant** (C10): two uninterrupted schedules over the same start-up content that append
the same bytes — cut into appends anywhere, polled anyhow — and both end caught up give the same answer: the same
screens / records, the same status -/
theorem chunking_and_polls_are_irrelevant (F : Facts) (defsText queryText : List Char) (fmt : Print.Format) (head : Bool)
    (initial : List Nat) (ops₁ ops₂ : List FollowOp) (ks₁ ks₂ : List Nat)
    (hsame : appendedBytes ops₁ = appendedBytes ops₂)
    (hi₁ : FollowOp.interrupt ∉ ops₁) (hi₂ : FollowOp.interrupt ∉ ops₂)
    (hn₁ : pending (Props.C10.reached initial head followCap (readerOps ops₁)) ≤ ks₁.length)
    (hn₂ : pending (Props.C10.reached initial head followCap (readerOps ops₂)) ≤ ks₂.length) :
    followText F defsText queryText fmt head initial (ops₁ ++ ks₁.map .poll) =
      followText F defsText queryText fmt head initial (ops₂ ++ ks₂.map .poll) := by
  have n₁ : FollowOp.interrupt ∉ ops₁ ++ ks₁.map FollowOp.poll := by simp [hi₁]
  have n₂ : FollowOp.interrupt ∉ ops₂ ++ ks₂.map FollowOp.poll := by simp [hi₂]
  unfold followText
  rw [deliveredBy_quiescent head initial ops₁ ks₁ hi₁ hn₁, deliveredBy_quiescent head initial ops₂ ks₂ hi₂ hn₂,
    interruptPoint_none _ _ _ n₁, interruptPoint_none _ _ _ n₂]
  unfold followedContent
  rw [hsame]

/-! ### C11: follow mode shows what batch mode prints over the same prefix -/

/-- the statement of the query text is a non-aggregate statement without join -/
def QuerySelectNoJoin (F : Facts) (queryText : List Char) : Prop :=
  ∀ query stmt fromTable join, parseText (lexOracles F) (regexValidFn F) queryText = .stmt query →
    stmtOf query = some (stmt, fromTable, join) → (∃ s, stmt = .select s) ∧ join = none

/-- **A non-aggregate statement in follow mode prints the batch output** (C11 at program level; WHERE, DISTINCT and
LIMIT included). For every definition text, every non-aggregate query text without join, every format and every list
of delivered lines that the batch reader reads as the same texts (`PlainLine`): what follow mode writes — it never
clears the screen — and how it ends is exactly what the batch program prints and how it ends over the one file
holding those lines; rejected texts, an undefined table, missing facts answer alike in both modes. Taken for every
prefix of the delivered lines: the records written for the k-th line are those by which the batch output over k lines
extends the one over k−1. -/
theorem follow_select_prints_batch_output (F : Facts) (defsText queryText : List Char) (fmt : Print.Format)
    (ls : List (List Nat)) (hplain : ∀ l ∈ ls, PlainLine l) (hsel : QuerySelectNoJoin F queryText) :
    followLines F defsText queryText fmt ls none = batchAsFollow (runText F defsText queryText fmt false [wire ls]) := by
  apply followLines_runText_rel (fun a b => a = batchAsFollow b) (fun _ => rfl) (fun _ => rfl) (fun _ _ => rfl) rfl rfl
  intro defs query tables stmt fromTable join _ hq _ hs
  obtain ⟨⟨s, rfl⟩, rfl⟩ := hsel query stmt fromTable join hq hs
  cases hg : getTable tables fromTable with
  | none =>
    have hlines : [wire ls].flatMap Reader.lines = ls.map .ok := by simp [lines_wire_plain ls hplain]
    have e1 : followStatement F tables (.select s) fromTable none ls none =
        some (.ran (followNoTable (.select s) fromTable ls.length none)) := by
      unfold followStatement; rw [hg]
    have e2 : runStatement F tables (.select s) fromTable none [wire ls] =
        some (runNoTable F.eval (.select s) fromTable [wire ls]) := by
      unfold runStatement; rw [hg]
    rw [e1, e2]
    have key : followNoTable (.select s) fromTable ls.length none = runNoTable F.eval (.select s) fromTable [wire ls] := by
      unfold followNoTable runNoTable
      rw [hlines]
      simp only
      split
      · rfl
      · cases ls with
        | nil => rfl
        | cons l rest => rfl
    rw [key]
    apply followAnswerOf_no_clear
    unfold runNoTable
    rw [hlines]
    simp only
    split
    · intro c hc; cases hc
    · cases ls with
      | nil => intro c hc; cases hc
      | cons l rest => intro c hc; cases hc
  | some t =>
    rw [followStatement_plain F tables _ fromTable t hg ls (fun l hl => (hplain l hl).2.1),
      runStatement_wire F tables _ fromTable t hg ls hplain]
    split
    · rw [runFollowAllT_select_eq_runBatchT F.eval _ s rfl rfl none]
      apply followAnswerOf_no_clear
      rw [← runFollowAllT_select_eq_runBatchT F.eval _ s rfl rfl none]
      exact runFollowAllT_calls_final F.eval _ _
    · rfl

/-- **The k-th delivered line and the screen** (C11 at program level, aggregate statements). Definition text and
aggregate query text without join and without LIMIT, any output format (text, JSON, CSV); `pre ++ [l]` the lines delivered so far, all
read as the same texts by the batch reader; follow mode over them ends `Ok` having written `w`; the batch program over
the one file holding them ends `Ok` having printed `ls`; the GROUP BY keys seen are exact (else D60). Then follow mode
over the first k−1 lines ended `Ok` too, having written `w₀`, and
* if the k-th line is shown (admitted, and WHERE admits its row): `w` is `w₀`, a clear of the screen, and exactly the
  lines `ls` — the screen after the k-th line is the batch output over the first k lines;
* otherwise nothing was written for it, and the batch output over the first k−1 lines is `ls` already.
Applied to every prefix: every screen follow mode ever shows is the batch output over the lines consumed up to it, and
the last screen is the batch output over all delivered lines up to the last one that is shown. -/
theorem follow_screen_is_batch_output (F : Facts) (defsText queryText : List Char) (fmt : Print.Format) (single : Bool)
    (pre : List (List Nat)) (l : List Nat) (hplain : ∀ x ∈ pre ++ [l], PlainLine x)
    (defs : LStmt) (tables : List Table) (a : AggStmt) (fromTable : String) (file : Option String) (t : Table)
    (hc : classesCover F defsText = true ∧ classesCover F queryText = true)
    (hd : parseText (lexOracles F) (regexValidFn F) defsText = .stmt defs)
    (hp : (createPatterns defs).all (fun re => ((Utf8.decode re).bind (regexValidOf F)).isSome) = true)
    (hq : parseText (lexOracles F) (regexValidFn F) queryText = .stmt (.aggregate a fromTable file none))
    (ht : addTables defs = some tables) (hg : getTable tables fromTable = some t) (hlim : a.limit = none)
    (hex : KeysExact (groupKeysOf F.eval a (followEnvs t.info ((pre ++ [l]).map (extractedLine F t.defn)))))
    (w : List TermItem) (hf : followLines F defsText queryText fmt (pre ++ [l]) none = .ran none w)
    (n : Nat) (ls : List Print.Bytes)
    (hb : runText F defsText queryText fmt single [wire (pre ++ [l])] = .records none n ls) :
    ∃ w₀, followLines F defsText queryText fmt pre none = .ran none w₀ ∧
      (lineShown F.eval { stmt := .aggregate a, table := t.info, join := none } a (extractedLine F t.defn l) →
        w = w₀ ++ TermItem.clear :: ls.map TermItem.line) ∧
      (¬ lineShown F.eval { stmt := .aggregate a, table := t.info, join := none } a (extractedLine F t.defn l) →
        w = w₀ ∧ ∃ n', runText F defsText queryText fmt single [wire pre] = .records none n' ls) := by
  have hplain' : ∀ x ∈ pre, PlainLine x := fun x hx => hplain x (by simp [hx])
  have hwf := Props.Pipeline.lowered_aggregate_is_wellformed _ _ _ a fromTable file none hq
  -- both runs in closed form
  rw [followLines_eq F defsText queryText fmt _ none defs _ tables (.aggregate a) fromTable none hc hd hp hq ht rfl,
    followStatement_plain F tables _ fromTable t hg _ (fun x hx => (hplain x hx).2.1)] at hf
  rw [runText_eq_runLowered F defsText queryText fmt single _ defs _ hc hd hp hq,
    runLowered_eq_opt F defs _ fmt single _ tables (.aggregate a) fromTable none ht rfl,
    runStatement_wire F tables _ fromTable t hg _ hplain] at hb
  by_cases hcov : (pre ++ [l]).all (factsCover F t.defn) = true
  · rw [if_pos hcov] at hf hb
    have hcov' : pre.all (factsCover F t.defn) = true := by
      rw [List.all_append, Bool.and_eq_true] at hcov; exact hcov.1
    obtain ⟨tf, htf, hfs, hfr, hfe, hfw⟩ := followAnswerOf_eq_ran F fmt _ none w hf
    simp only [Option.some.injEq, FollowRun.ran.injEq] at htf
    subst htf
    simp only [answerOfOpt] at hb
    obtain ⟨hbs, hbr, hbe, _, hbl⟩ := answerOf_eq_records F fmt single _ none n ls hb
    have hfnp := runFollowAllT_no_panic F.eval { stmt := .aggregate a, table := t.info, join := none } none
      ((pre ++ [l]).map (extractedLine F t.defn))
    have hbnp := runBatchT_no_panic F.eval { stmt := .aggregate a, table := t.info, join := none } none
      [readableFile ((pre ++ [l]).map (extractedLine F t.defn))]
    have hff : hasFailed (runFollowAllT F.eval { stmt := .aggregate a, table := t.info, join := none } none
        ((pre ++ [l]).map (extractedLine F t.defn))).out = false := by
      rw [hasFailed, ← hfe, hfnp, hfs]; rfl
    have hbf : hasFailed (runBatchT F.eval { stmt := .aggregate a, table := t.info, join := none } none
        [readableFile ((pre ++ [l]).map (extractedLine F t.defn))]).out = false := by
      rw [hasFailed, ← hbe, hbnp, hbs]; rfl
    rw [List.map_append, List.map_cons, List.map_nil] at hff hbf hex hfw hbl hfr hbr
    obtain ⟨hpf, r, hbc, hshown, hnot⟩ := followT_agg_step F.eval _ a rfl rfl hlim none
      (pre.map (extractedLine F t.defn)) (extractedLine F t.defn l) hff hbf hex
    -- the batch output is the rendering of the one call
    have hls : ls = ((Print.printResult (realOracle F) fmt true (toResultRow r) true).1).map Print.Line.bytes := by
      rw [hbl]
      have : (runBatchT F.eval { stmt := .aggregate a, table := t.info, join := none } none
          [readableFile (pre.map (extractedLine F t.defn) ++ [extractedLine F t.defn l])]).calls =
          [{ result := r, final := true }] := hbc
      rw [this]
      simp [printCalls, Print.printAll]
    -- the follow run over the first k-1 lines
    have hpre_eq : followLines F defsText queryText fmt pre none =
        followAnswerOf F fmt (some (.ran (runFollowAllT F.eval { stmt := .aggregate a, table := t.info, join := none } none
          (pre.map (extractedLine F t.defn))))) := by
      rw [followLines_eq F defsText queryText fmt _ none defs _ tables (.aggregate a) fromTable none hc hd hp hq ht rfl,
        followStatement_plain F tables _ fromTable t hg _ (fun x hx => (hplain' x hx).2.1), if_pos hcov']
    have hpre_ok : ∀ (hcalls : (runFollowAllT F.eval { stmt := .aggregate a, table := t.info, join := none } none
          (pre.map (extractedLine F t.defn))).calls <+:
        (runFollowAllT F.eval { stmt := .aggregate a, table := t.info, join := none } none
          (pre.map (extractedLine F t.defn) ++ [extractedLine F t.defn l])).calls),
        followLines F defsText queryText fmt pre none = .ran none
          (termItems (realOracle F) fmt true (runFollowAllT F.eval { stmt := .aggregate a, table := t.info, join := none } none
            (pre.map (extractedLine F t.defn))).calls) := by
      intro hcalls
      simp only [hasFailed, Bool.or_eq_false_iff] at hpf
      have he : (runFollowAllT F.eval { stmt := .aggregate a, table := t.info, join := none } none
          (pre.map (extractedLine F t.defn))).out.error = none := by
        cases hx : (runFollowAllT F.eval { stmt := .aggregate a, table := t.info, join := none } none
          (pre.map (extractedLine F t.defn))).out.error with
        | none => rfl
        | some k => rw [hx] at hpf; simp at hpf
      have hsk : (runFollowAllT F.eval { stmt := .aggregate a, table := t.info, join := none } none
          (pre.map (extractedLine F t.defn))).out.skipped = none := by
        cases hx : (runFollowAllT F.eval { stmt := .aggregate a, table := t.info, join := none } none
          (pre.map (extractedLine F t.defn))).out.skipped with
        | none => rfl
        | some k => rw [hx] at hpf; simp at hpf
      rw [hpre_eq, followAnswerOf_ran F fmt _ (runFollowAllT_no_panic _ _ _ _) (runFollowAllT_aligned _ _ _ _) hsk
        (realsCover_prefix F hcalls hfr), he]
    by_cases hs : lineShown F.eval { stmt := .aggregate a, table := t.info, join := none } a (extractedLine F t.defn l)
    · have hcalls := hshown hs
      refine ⟨_, hpre_ok (by rw [hcalls]; exact List.prefix_append _ _), fun _ => ?_, fun hns => absurd hs hns⟩
      rw [hfw, hcalls, termItems_append]
      congr 1
      simp only [termItems, if_true, List.append_nil, List.singleton_append, Bool.true_or]
      rw [hls, List.map_map]
      rfl
    · obtain ⟨hcalls, hbc', hbf'⟩ := hnot hs
      refine ⟨_, hpre_ok (by rw [hcalls]; exact List.prefix_refl _), fun hs' => absurd hs' hs, fun _ => ⟨by rw [hfw, hcalls], ?_⟩⟩
      refine ⟨(runBatchT F.eval { stmt := .aggregate a, table := t.info, join := none } none
          [readableFile (pre.map (extractedLine F t.defn))]).out.totalLines, ?_⟩
      rw [runText_eq_runLowered F defsText queryText fmt single _ defs _ hc hd hp hq,
        runLowered_eq_opt F defs _ fmt single _ tables (.aggregate a) fromTable none ht rfl,
        runStatement_wire F tables _ fromTable t hg _ hplain', if_pos hcov']
      simp only [answerOfOpt]
      have hbf'' : hasFailed (runBatchT F.eval { stmt := .aggregate a, table := t.info, join := none } none
          [readableFile (pre.map (extractedLine F t.defn))]).out = false := hbf'
      have hbf' := hbf''
      simp only [hasFailed, Bool.or_eq_false_iff] at hbf'
      have he : (runBatchT F.eval { stmt := .aggregate a, table := t.info, join := none } none
          [readableFile (pre.map (extractedLine F t.defn))]).out.error = none := by
        cases hx : (runBatchT F.eval { stmt := .aggregate a, table := t.info, join := none } none
          [readableFile (pre.map (extractedLine F t.defn))]).out.error with
        | none => rfl
        | some k => have := hbf'.1.1; rw [hx] at this; simp at this
      have hsk : (runBatchT F.eval { stmt := .aggregate a, table := t.info, join := none } none
          [readableFile (pre.map (extractedLine F t.defn))]).out.skipped = none := by
        cases hx : (runBatchT F.eval { stmt := .aggregate a, table := t.info, join := none } none
          [readableFile (pre.map (extractedLine F t.defn))]).out.skipped with
        | none => rfl
        | some k => have := hbf'.2; rw [hx] at this; simp at this
      have hbc'' : (runBatchT F.eval { stmt := .aggregate a, table := t.info, join := none } none
          [readableFile (pre.map (extractedLine F t.defn))]).calls = [{ result := r, final := true }] := hbc'
      have hrc : realsCover F (runBatchT F.eval { stmt := .aggregate a, table := t.info, join := none } none
          [readableFile (pre.map (extractedLine F t.defn))]).calls = true := by
        rw [hbc'']
        have : (runBatchT F.eval { stmt := .aggregate a, table := t.info, join := none } none
            [readableFile (pre.map (extractedLine F t.defn) ++ [extractedLine F t.defn l])]).calls =
            [{ result := r, final := true }] := hbc
        rw [this] at hbr
        exact hbr
      rw [answerOf_records F fmt single _ (runBatchT_no_panic _ _ _ _) (runBatchT_aligned _ _ _ _) hsk hrc, he, hbc'', hls]
      simp [printCalls, Print.printAll]
  · rw [if_neg hcov] at hf
    simp [followAnswerOf] at hf

/-- **… in the words of the sentence**: when the k-th delivered line is shown, the screen follow mode shows after it — the
last screen of what it has written — is exactly the output of the batch program over the first k lines; in particular
the final screen of a follow run whose last delivered line is shown is the batch output over all delivered lines -/
theorem shown_line_screen_is_batch_output (F : Facts) (defsText queryText : List Char) (fmt : Print.Format) (single : Bool)
    (pre : List (List Nat)) (l : List Nat) (hplain : ∀ x ∈ pre ++ [l], PlainLine x)
    (defs : LStmt) (tables : List Table) (a : AggStmt) (fromTable : String) (file : Option String) (t : Table)
    (hc : classesCover F defsText = true ∧ classesCover F queryText = true)
    (hd : parseText (lexOracles F) (regexValidFn F) defsText = .stmt defs)
    (hp : (createPatterns defs).all (fun re => ((Utf8.decode re).bind (regexValidOf F)).isSome) = true)
    (hq : parseText (lexOracles F) (regexValidFn F) queryText = .stmt (.aggregate a fromTable file none))
    (ht : addTables defs = some tables) (hg : getTable tables fromTable = some t) (hlim : a.limit = none)
    (hex : KeysExact (groupKeysOf F.eval a (followEnvs t.info ((pre ++ [l]).map (extractedLine F t.defn)))))
    (w : List TermItem) (hf : followLines F defsText queryText fmt (pre ++ [l]) none = .ran none w)
    (n : Nat) (ls : List Print.Bytes)
    (hb : runText F defsText queryText fmt single [wire (pre ++ [l])] = .records none n ls)
    (hs : lineShown F.eval { stmt := .aggregate a, table := t.info, join := none } a (extractedLine F t.defn l)) :
    (screens w).getLast? = some ls := by
  obtain ⟨w₀, _, h1, _⟩ := follow_screen_is_batch_output F defsText queryText fmt single pre l hplain defs tables a fromTable
    file t hc hd hp hq ht hg hlim hex w hf n ls hb
  rw [h1 hs]
  exact (screens_last_after_clear w₀ ls).1

/-- **Every screen is a batch output** (C11 at program level, all prefixes at once). Aggregate query text without join and
LIMIT, any format; `ls` the delivered lines, all read as the same texts by the batch reader; follow mode over them ends
`Ok` having written `w`; for every k from 1 to the number of lines the batch program over the file holding the first k
lines ends `Ok` and prints `B k`; exact GROUP BY keys. Then nothing is written before the first clear, and EVERY screen
follow mode has shown is `B k` for some k — the output of the batch program over the prefix of lines consumed when the
screen was drawn. -/
theorem follow_screens_are_batch_outputs (F : Facts) (defsText queryText : List Char) (fmt : Print.Format) (single : Bool)
    (ls : List (List Nat)) (hplain : ∀ x ∈ ls, PlainLine x)
    (defs : LStmt) (tables : List Table) (a : AggStmt) (fromTable : String) (file : Option String) (t : Table)
    (hc : classesCover F defsText = true ∧ classesCover F queryText = true)
    (hd : parseText (lexOracles F) (regexValidFn F) defsText = .stmt defs)
    (hp : (createPatterns defs).all (fun re => ((Utf8.decode re).bind (regexValidOf F)).isSome) = true)
    (hq : parseText (lexOracles F) (regexValidFn F) queryText = .stmt (.aggregate a fromTable file none))
    (ht : addTables defs = some tables) (hg : getTable tables fromTable = some t) (hlim : a.limit = none)
    (hex : KeysExact (groupKeysOf F.eval a (followEnvs t.info (ls.map (extractedLine F t.defn)))))
    (B : Nat → List Print.Bytes)
    (hb : ∀ k, 1 ≤ k → k ≤ ls.length → ∃ n, runText F defsText queryText fmt single [wire (ls.take k)] = .records none n (B k))
    (w : List TermItem) (hf : followLines F defsText queryText fmt ls none = .ran none w) :
    (screens w).head? = some [] ∧ ∀ s ∈ (screens w).tail, ∃ k, 1 ≤ k ∧ k ≤ ls.length ∧ s = B k := by
  -- by induction on the prefix length, downwards from the whole list
  have key : ∀ m, m ≤ ls.length → ∀ w, followLines F defsText queryText fmt (ls.take m) none = .ran none w →
      (screens w).head? = some [] ∧ ∀ s ∈ (screens w).tail, ∃ k, 1 ≤ k ∧ k ≤ m ∧ s = B k := by
    intro m
    induction m with
    | zero =>
      intro _ w hw
      rw [List.take_zero, followLines_eq F defsText queryText fmt _ none defs _ tables (.aggregate a) fromTable none hc hd hp hq ht rfl,
        followStatement_plain F tables _ fromTable t hg _ (fun x hx => by cases hx)] at hw
      simp only [List.all_nil, if_true, List.map_nil] at hw
      obtain ⟨tf, htf, _, _, _, hfw⟩ := followAnswerOf_eq_ran F fmt _ none w hw
      simp only [Option.some.injEq, FollowRun.ran.injEq] at htf
      subst htf
      have : (runFollowAllT F.eval { stmt := .aggregate a, table := t.info, join := none } none []).calls = [] := by
        unfold runFollowAllT; split <;> rfl
      rw [hfw, this]
      exact ⟨rfl, fun s hs => by cases hs⟩
    | succ m ih =>
      intro hm w hw
      have hlt : m < ls.length := hm
      have htake : ls.take (m + 1) = ls.take m ++ [ls[m]] := by
        rw [List.take_succ, List.getElem?_eq_getElem hlt]; rfl
      rw [htake] at hw
      obtain ⟨n, hbm⟩ := hb (m + 1) (by omega) hm
      rw [htake] at hbm
      have hpl : ∀ x ∈ ls.take m ++ [ls[m]], PlainLine x := by
        intro x hx; rw [← htake] at hx; exact hplain x (List.mem_of_mem_take hx)
      have hexm : KeysExact (groupKeysOf F.eval a (followEnvs t.info ((ls.take m ++ [ls[m]]).map (extractedLine F t.defn)))) := by
        refine keysExact_subset ?_ hex
        intro k hk
        rw [← htake] at hk
        simp only [groupKeysOf, followEnvs, asFile, envsOf, List.mem_filterMap, List.mem_map, List.mem_filter] at hk ⊢
        obtain ⟨env, ⟨fl, ⟨⟨ln, ⟨x, hx, rfl⟩, rfl⟩, hadm⟩, rfl⟩, hkey⟩ := hk
        exact ⟨_, ⟨_, ⟨⟨_, ⟨x, List.mem_of_mem_take hx, rfl⟩, rfl⟩, hadm⟩, rfl⟩, hkey⟩
      obtain ⟨w₀, hw₀, hshown, hnot⟩ := follow_screen_is_batch_output F defsText queryText fmt single (ls.take m) ls[m] hpl
        defs tables a fromTable file t hc hd hp hq ht hg hlim hexm w hw n (B (m + 1)) hbm
      obtain ⟨ih1, ih2⟩ := ih (by omega) w₀ hw₀
      by_cases hs : lineShown F.eval { stmt := .aggregate a, table := t.info, join := none } a (extractedLine F t.defn ls[m])
      · rw [hshown hs, screens_append_clear]
        constructor
        · cases hsc : screens w₀ with
          | nil => exact absurd hsc (screens_ne_nil _)
          | cons x xs => rw [hsc] at ih1; simpa using ih1
        · intro s hs'
          cases hsc : screens w₀ with
          | nil => exact absurd hsc (screens_ne_nil _)
          | cons x xs =>
            rw [hsc] at hs' ih2
            simp only [List.cons_append, List.tail_cons, List.mem_append, List.mem_singleton] at hs' ih2
            rcases hs' with h1 | h1
            · obtain ⟨k, hk1, hk2, hk3⟩ := ih2 s h1
              exact ⟨k, hk1, by omega, hk3⟩
            · exact ⟨m + 1, by omega, by omega, h1⟩
      · rw [(hnot hs).1]
        refine ⟨ih1, fun s hs' => ?_⟩
        obtain ⟨k, hk1, hk2, hk3⟩ := ih2 s hs'
        exact ⟨k, hk1, by omega, hk3⟩
  have := key ls.length (Nat.le_refl _) w (by rw [List.take_length]; exact hf)
  exact this

/-- **… over `followText`**: an uninterrupted schedule that ends caught up (any chunking, any polls) is the run over all
complete lines of the followed content — so `follow_screen_is_batch_output`, `follow_screens_are_batch_outputs` and
`follow_select_prints_batch_output` speak about `followText` with `ls` = those lines -/
theorem quiescent_followText_is_run_over_complete_lines (F : Facts) (defsText queryText : List Char) (fmt : Print.Format)
    (head : Bool) (initial : List Nat) (ops : List FollowOp) (ks : List Nat) (hi : FollowOp.interrupt ∉ ops)
    (hn : pending (Props.C10.reached initial head followCap (readerOps ops)) ≤ ks.length) :
    followText F defsText queryText fmt head initial (ops ++ ks.map .poll) =
      followLines F defsText queryText fmt (completeLines (followedContent head initial ops)) none := by
  have n₁ : FollowOp.interrupt ∉ ops ++ ks.map FollowOp.poll := by simp [hi]
  unfold followText
  rw [deliveredBy_quiescent head initial ops ks hi hn, interruptPoint_none _ _ _ n₁]

/-- **Failure agreement at the k-th line — the result step** (C11 at program level; partial). The first k−1 delivered
lines were fed without failure (follow mode over them ended `Ok`, having written `w₀`), the k-th line is admitted and
`execute_update` accepts it in follow mode, and `execute_update` succeeds on all k lines in batch mode. Then
`execute_result` fails for the k-th line in follow mode iff the final result of the batch program over the first k lines
fails, with the SAME error — follow mode then has written `w₀` and nothing more, the batch program prints nothing.
FULL statement wanted: "follow mode reports an error at line k iff the batch program over the first k lines does", with
no hypothesis on the updates (`hupd`, `hB`). Missing: the UPDATE step — that `execute_update` fails on the follow-mode
state iff it fails on the batch-mode state. The two states differ in published PERCENTILE values only (`Sim2`,
`Lemmas/AggFollowSim.lean`); `cellStep_sim` gives the direction follow ⇒ batch for one cell, the lift through
`updateAggregates` / `havingUpdates` and the converse direction are not proved. -/
theorem follow_table_failure_is_batch_table_failure_partial (F : Facts) (defsText queryText : List Char) (fmt : Print.Format)
    (single : Bool) (pre : List (List Nat)) (l : List Nat) (hplain : ∀ x ∈ pre ++ [l], PlainLine x)
    (defs : LStmt) (tables : List Table) (a : AggStmt) (fromTable : String) (file : Option String) (t : Table)
    (hc : classesCover F defsText = true ∧ classesCover F queryText = true)
    (hd : parseText (lexOracles F) (regexValidFn F) defsText = .stmt defs)
    (hp : (createPatterns defs).all (fun re => ((Utf8.decode re).bind (regexValidOf F)).isSome) = true)
    (hq : parseText (lexOracles F) (regexValidFn F) queryText = .stmt (.aggregate a fromTable file none))
    (ht : addTables defs = some tables) (hg : getTable tables fromTable = some t) (hlim : a.limit = none)
    (hcov : (pre ++ [l]).all (factsCover F t.defn) = true)
    (hadm : Sqlgrep.anyResult (extractedLine F t.defn l).row = true)
    {sf sf1 sb : AggState} {ts0 : List RowOut}
    (hF : followTables F.eval a (followEnvs t.info (pre.map (extractedLine F t.defn))) {} = .ok (sf, ts0))
    (hupd : aggUpdateRow F.eval a sf (lineEnv t.info (extractedLine F t.defn l)) = .ok (sf1, true))
    (hB : aggRun F.eval a (followEnvs t.info ((pre ++ [l]).map (extractedLine F t.defn))) {} = .ok sb)
    (hex : KeysExact (groupKeysOf F.eval a (followEnvs t.info ((pre ++ [l]).map (extractedLine F t.defn)))))
    (w₀ : List TermItem) (hw₀ : followLines F defsText queryText fmt pre none = .ran none w₀) (e : ErrKind) :
    followLines F defsText queryText fmt (pre ++ [l]) none = .ran (some e) w₀ ↔
      ∃ n, runText F defsText queryText fmt single [wire (pre ++ [l])] = .records (some e) n [] := by
  have hplain' : ∀ x ∈ pre, PlainLine x := fun x hx => hplain x (by simp [hx])
  have hcov' : pre.all (factsCover F t.defn) = true := by
    rw [List.all_append, Bool.and_eq_true] at hcov; exact hcov.1
  -- the run over the first k-1 lines: its calls are the tables shown, with all renderings shipped
  rw [followLines_eq F defsText queryText fmt _ none defs _ tables (.aggregate a) fromTable none hc hd hp hq ht rfl,
    followStatement_plain F tables _ fromTable t hg _ (fun x hx => (hplain' x hx).2.1), if_pos hcov'] at hw₀
  obtain ⟨tp, htp, _, hrp, _, hwp⟩ := followAnswerOf_eq_ran F fmt _ none w₀ hw₀
  simp only [Option.some.injEq, FollowRun.ran.injEq] at htp
  subst htp
  rw [runFollowAllT_agg F.eval { stmt := .aggregate a, table := t.info, join := none } a rfl rfl hlim
    (pre.map (extractedLine F t.defn)) hF] at hrp hwp
  simp only at hrp hwp
  -- both runs over the k lines in closed form
  rw [followLines_eq F defsText queryText fmt _ none defs _ tables (.aggregate a) fromTable none hc hd hp hq ht rfl,
    followStatement_plain F tables _ fromTable t hg _ (fun x hx => (hplain x hx).2.1), if_pos hcov,
    runText_eq_runLowered F defsText queryText fmt single _ defs _ hc hd hp hq,
    runLowered_eq_opt F defs _ fmt single _ tables (.aggregate a) fromTable none ht rfl,
    runStatement_wire F tables _ fromTable t hg _ hplain, if_pos hcov]
  simp only [answerOfOpt, List.map_append, List.map_cons, List.map_nil]
  rw [List.map_append, List.map_cons, List.map_nil] at hB hex
  obtain ⟨hcalls, hstat⟩ := followT_agg_snoc_trace F.eval { stmt := .aggregate a, table := t.info, join := none } a rfl rfl hlim
    (pre.map (extractedLine F t.defn)) (extractedLine F t.defn l) hadm hF
  have hagree := followT_agg_step_status F.eval { stmt := .aggregate a, table := t.info, join := none } a rfl rfl hlim none
    (pre.map (extractedLine F t.defn)) (extractedLine F t.defn l) hadm hF hupd hB hex
  have hfnp := runFollowAllT_no_panic F.eval { stmt := .aggregate a, table := t.info, join := none } none
    (pre.map (extractedLine F t.defn) ++ [extractedLine F t.defn l])
  have hbnp := runBatchT_no_panic F.eval { stmt := .aggregate a, table := t.info, join := none } none
    [readableFile (pre.map (extractedLine F t.defn) ++ [extractedLine F t.defn l])]
  have easf : asFile (pre.map (extractedLine F t.defn) ++ [extractedLine F t.defn l]) =
      readableFile (pre.map (extractedLine F t.defn) ++ [extractedLine F t.defn l]) := rfl
  rw [easf] at hagree
  simp only [endStatus, Prod.mk.injEq] at hagree hstat
  -- when the follow run carries an error the step for the k-th line failed: nothing more was handed to the printer
  have hfail_calls : ∀ k, (runFollowAllT F.eval { stmt := .aggregate a, table := t.info, join := none } none
        (pre.map (extractedLine F t.defn) ++ [extractedLine F t.defn l])).out.error = some k →
      (runFollowAllT F.eval { stmt := .aggregate a, table := t.info, join := none } none
        (pre.map (extractedLine F t.defn) ++ [extractedLine F t.defn l])).calls =
        ts0.map (fun r => { result := r, final := true }) := by
    intro k hk
    rw [hcalls]
    cases hs : followStep F.eval a sf (lineEnv t.info (extractedLine F t.defn l)) with
    | ok p =>
      rw [hs] at hstat
      rw [hstat.1] at hk
      cases hk
    | error k' => simp
    | panic k' => simp
    | oracleMissing k' => simp
  constructor
  · intro h
    obtain ⟨tf, htf, hfs, _, hfe, _⟩ := followAnswerOf_eq_ran F fmt _ (some e) w₀ h
    simp only [Option.some.injEq, FollowRun.ran.injEq] at htf
    subst htf
    have hbe : (runBatchT F.eval { stmt := .aggregate a, table := t.info, join := none } none
        [readableFile (pre.map (extractedLine F t.defn) ++ [extractedLine F t.defn l])]).out.error = some e := by
      rw [← hagree.1]; exact hfe.symm
    have hbs : (runBatchT F.eval { stmt := .aggregate a, table := t.info, join := none } none
        [readableFile (pre.map (extractedLine F t.defn) ++ [extractedLine F t.defn l])]).out.skipped = none := by
      rw [← hagree.2.2]; exact hfs
    have hbc := runBatchT_agg_failed_calls F.eval { stmt := .aggregate a, table := t.info, join := none } a rfl rfl none
      [readableFile (pre.map (extractedLine F t.defn) ++ [extractedLine F t.defn l])] (by simp [hasFailed, hbe])
    refine ⟨(runBatchT F.eval { stmt := .aggregate a, table := t.info, join := none } none
      [readableFile (pre.map (extractedLine F t.defn) ++ [extractedLine F t.defn l])]).out.totalLines, ?_⟩
    rw [answerOf_records F fmt single _ hbnp (runBatchT_aligned _ _ _ _) hbs (by rw [hbc]; rfl), hbe, hbc]
    rfl
  · rintro ⟨n, h⟩
    obtain ⟨hbs, _, hbe, _, _⟩ := answerOf_eq_records F fmt single _ (some e) n [] h
    have hfe : (runFollowAllT F.eval { stmt := .aggregate a, table := t.info, join := none } none
        (pre.map (extractedLine F t.defn) ++ [extractedLine F t.defn l])).out.error = some e := by
      rw [hagree.1]; exact hbe.symm
    have hfs : (runFollowAllT F.eval { stmt := .aggregate a, table := t.info, join := none } none
        (pre.map (extractedLine F t.defn) ++ [extractedLine F t.defn l])).out.skipped = none := by
      rw [hagree.2.2]; exact hbs
    have hc' := hfail_calls e hfe
    rw [followAnswerOf_ran F fmt _ hfnp (runFollowAllT_aligned _ _ _ _) hfs (by rw [hc']; exact hrp), hfe, hc', hwp]

/-! ### C19: an interrupt -/

/-- **An interrupted follow run is the run over the lines delivered before the interrupt** (C19, on delivered lines):
the loop finds the flag cleared when it is handed the next line, so no further line is executed (nor are facts about
later lines needed); the answer is the answer of the uninterrupted program over exactly the first `k` delivered lines -/
theorem interrupt_is_run_over_lines_delivered_before (F : Facts) (defsText queryText : List Char) (fmt : Print.Format)
    (dl : List (List Nat)) (k : Nat) :
    followLines F defsText queryText fmt dl (some k) = followLines F defsText queryText fmt (dl.take k) none := by
  apply followLines_rel (fun x y => x = y) (fun _ => rfl)
  intro defs query tables stmt fromTable join _ _ _ _
  cases join with
  | some j => rfl
  | none =>
    cases hg : getTable tables fromTable with
    | none =>
      unfold followStatement
      rw [hg]
      simp only [followNoTable, List.length_take]
      congr 3
      split
      · rfl
      · cases k with
        | zero => simp
        | succ k =>
          cases dl with
          | nil => simp
          | cons x rest => simp
    | some t =>
      rw [followStatement_defined F tables stmt fromTable dl _ t hg, followStatement_defined F tables stmt fromTable _ _ t hg]
      simp only [handedLines]
      cases hm : (dl.take k).mapM (mkFollowLine F t.defn) with
      | none => rfl
      | some ls =>
        simp only [Option.map_some]
        rw [runFollowAllT_stopAt]
        have hlen : ls.length ≤ k := by
          have h1 := mapM_length _ _ _ hm
          rw [h1, List.length_take]
          exact Nat.min_le_left _ _
        rw [List.take_of_length_le hlen]

/-- **What an interrupted run has written is a prefix of what the uninterrupted run writes, and the interrupt adds no
error** (C19, on delivered lines): with `.ran e w` the answer when the flag is found cleared after `k` delivered lines
and `.ran e' w'` the answer without interrupt, `w` is a prefix of `w'` — for an aggregate statement a prefix of the
sequence of screens, each complete — and either the interrupted run ended `Ok`, or it had already ended on its own
with the very error (and output) of the uninterrupted run. -/
theorem interrupted_output_is_a_prefix (F : Facts) (defsText queryText : List Char) (fmt : Print.Format)
    (dl : List (List Nat)) (k : Nat) (e e' : Option ErrKind) (w w' : List TermItem)
    (hi : followLines F defsText queryText fmt dl (some k) = .ran e w)
    (hu : followLines F defsText queryText fmt dl none = .ran e' w') :
    w <+: w' ∧ (e = none ∨ (e = e' ∧ w = w')) := by
  revert e e' w w' hi hu
  apply followLines_rel (fun x y => ∀ e e' w w', x = .ran e w → y = .ran e' w' → w <+: w' ∧ (e = none ∨ (e = e' ∧ w = w')))
  · intro a e e' w w' h1 h2
    rw [h1] at h2
    simp only [FollowAnswer.ran.injEq] at h2
    exact ⟨by rw [h2.2]; exact List.prefix_refl _, .inr ⟨h2.1, h2.2⟩⟩
  intro defs query tables stmt fromTable join _ _ _ _ e e' w w' h1 h2
  obtain ⟨t1, ht1, _, _, he1, hw1⟩ := followAnswerOf_eq_ran F fmt _ e w h1
  obtain ⟨t2, ht2, _, _, he2, hw2⟩ := followAnswerOf_eq_ran F fmt _ e' w' h2
  cases join with
  | some j => simp [followStatement] at ht1
  | none =>
    cases hg : getTable tables fromTable with
    | none =>
      unfold followStatement at ht1 ht2
      rw [hg] at ht1 ht2
      simp only [Option.some.injEq, FollowRun.ran.injEq] at ht1 ht2
      subst ht1; subst ht2
      have hc1 : (followNoTable stmt fromTable dl.length (some k)).calls = [] := by
        unfold followNoTable; simp only; split; rfl; split <;> rfl
      have hc2 : (followNoTable stmt fromTable dl.length none).calls = [] := by
        unfold followNoTable; simp only; split; rfl; split <;> rfl
      rw [hw1, hw2, hc1, hc2]
      refine ⟨List.prefix_refl _, ?_⟩
      rw [he1, he2]
      unfold followNoTable
      simp only
      split
      · left; rfl
      · split
        · left; rfl
        · split
          · rename_i h3 h4
            simp at h3 h4
            simp [h4] at h3
          · right; constructor <;> first | rfl | trivial
    | some t =>
      rw [followStatement_defined F tables stmt fromTable dl _ t hg] at ht1 ht2
      simp only [handedLines] at ht1 ht2
      cases hm : dl.mapM (mkFollowLine F t.defn) with
      | none => rw [hm] at ht2; cases ht2
      | some ls =>
        rw [hm] at ht2
        rw [mapM_take _ dl ls k hm] at ht1
        simp only [Option.map_some, Option.some.injEq, FollowRun.ran.injEq] at ht1 ht2
        subst ht1; subst ht2
        rw [hw1, hw2, he1, he2]
        have hst : runFollowAllT F.eval { stmt := stmt, table := t.info, join := none } (some k) (ls.take k) =
            runFollowAllT F.eval { stmt := stmt, table := t.info, join := none } none (ls.take k) := by
          rw [runFollowAllT_stopAt, List.take_take, Nat.min_self]
        rw [hst]
        have hpre : (runFollowAllT F.eval { stmt := stmt, table := t.info, join := none } none (ls.take k)).calls <+:
            (runFollowAllT F.eval { stmt := stmt, table := t.info, join := none } none ls).calls := by
          have := runFollowAllT_calls_prefix F.eval { stmt := stmt, table := t.info, join := none } k ls
          rw [runFollowAllT_stopAt] at this
          exact this
        refine ⟨termItems_prefix _ _ _ hpre, ?_⟩
        cases hx : (runFollowAllT F.eval { stmt := stmt, table := t.info, join := none } none (ls.take k)).out.error with
        | none => left; rfl
        | some kind =>
          right
          have := runFollowAllT_take_failed F.eval { stmt := stmt, table := t.info, join := none } k ls
            (by simp [hasFailed, hx])
          rw [this] at hx ⊢
          exact ⟨hx.symm ▸ rfl, rfl⟩

/-- **The interrupt of a schedule** (C19 over `followText`). `pre` is a schedule without interrupt; then the user
interrupts; `rest` is whatever happens afterwards (appends, polls, further interrupts). What had been delivered stays
delivered, the flag is found cleared after exactly the lines `pre` had delivered, and the answer of the program is the
answer of the program over the schedule `pre` alone: no further input line is executed, everything written is what had
been written when the interrupt came, no error is added. -/
theorem interrupted_follow_run_is_the_run_so_far (F : Facts) (defsText queryText : List Char) (fmt : Print.Format) (head : Bool)
    (initial : List Nat) (pre rest : List FollowOp) (hi : FollowOp.interrupt ∉ pre) :
    deliveredBy head initial pre <+: deliveredBy head initial (pre ++ FollowOp.interrupt :: rest) ∧
    interruptPoint head initial (pre ++ FollowOp.interrupt :: rest) = some (deliveredBy head initial pre).length ∧
    followText F defsText queryText fmt head initial (pre ++ FollowOp.interrupt :: rest) =
      followText F defsText queryText fmt head initial pre := by
  have hp := deliveredBy_stable head initial pre (FollowOp.interrupt :: rest) hi
  have hk := interruptPoint_split head initial pre rest hi
  refine ⟨hp, hk, ?_⟩
  unfold followText
  rw [hk, interruptPoint_none head initial pre hi, interrupt_is_run_over_lines_delivered_before,
    ← List.prefix_iff_eq_take.1 hp]

/-- **… against the uninterrupted schedule** (C19 over `followText`): with `.ran e w` the answer of the interrupted
schedule `pre ++ interrupt :: rest` and `.ran e' w'` the answer of the same schedule without the interrupt,
`pre ++ rest`: `w` is a prefix of `w'` (for an aggregate statement: a prefix of its sequence of complete screens) and the
interrupted run ended `Ok` — or had already ended on its own, with the error and the output of the uninterrupted run. -/
theorem interrupted_follow_output_is_a_prefix (F : Facts) (defsText queryText : List Char) (fmt : Print.Format) (head : Bool)
    (initial : List Nat) (pre rest : List FollowOp) (hi : FollowOp.interrupt ∉ pre) (hr : FollowOp.interrupt ∉ rest)
    (e e' : Option ErrKind) (w w' : List TermItem)
    (h1 : followText F defsText queryText fmt head initial (pre ++ FollowOp.interrupt :: rest) = .ran e w)
    (h2 : followText F defsText queryText fmt head initial (pre ++ rest) = .ran e' w') :
    w <+: w' ∧ (e = none ∨ (e = e' ∧ w = w')) := by
  rw [(interrupted_follow_run_is_the_run_so_far F defsText queryText fmt head initial pre rest hi).2.2] at h1
  have hp := deliveredBy_stable head initial pre rest hi
  have hn : FollowOp.interrupt ∉ pre ++ rest := by simp [hi, hr]
  unfold followText at h1 h2
  rw [interruptPoint_none head initial pre hi] at h1
  rw [interruptPoint_none head initial _ hn] at h2
  rw [List.prefix_iff_eq_take.1 hp, ← interrupt_is_run_over_lines_delivered_before] at h1
  exact interrupted_output_is_a_prefix F defsText queryText fmt _ _ e e' w w' h1 h2

/-- **An interrupted follow run returns** (C19 "stops promptly", in the model; /repo caa9e23 = the repair of D70). After
the interrupt the iterator looks at the flag whenever it finds no complete line: if the schedule goes on with more polls
than there were bytes pending — the file may stay idle for ever —, `next()` has returned `None`, `execute` has returned
`Ok`, and the answer is the one of `interrupted_follow_run_is_the_run_so_far`. (The schedule model has no time: "promptly"
is "within the polls that drain what is pending, plus one"; before caa9e23 the iterator never looked at the flag and
`iteratorEnded` would be false on every idle continuation.) -/
theorem interrupted_follow_run_returns (F : Facts) (defsText queryText : List Char) (fmt : Print.Format) (head : Bool)
    (initial : List Nat) (pre : List FollowOp) (ks : List Nat) (hi : FollowOp.interrupt ∉ pre)
    (hn : pending (Props.C10.reached initial head followCap (readerOps pre)) < ks.length) :
    iteratorEnded head initial (pre ++ FollowOp.interrupt :: ks.map FollowOp.poll) = true ∧
    interruptedRunReturned head initial (pre ++ FollowOp.interrupt :: ks.map FollowOp.poll) = true ∧
    followText F defsText queryText fmt head initial (pre ++ FollowOp.interrupt :: ks.map FollowOp.poll) =
      followText F defsText queryText fmt head initial pre := by
  have h := iteratorEnded_after_interrupt head initial pre ks hi hn
  refine ⟨h, ?_, (interrupted_follow_run_is_the_run_so_far F defsText queryText fmt head initial pre _ hi).2.2⟩
  unfold interruptedRunReturned
  rw [h]
  rfl

/-! ### C06: lines that yield no row -/

/-- **Delivered lines that yield no row are invisible** (C06 at program level, follow mode). `ns` are delivered lines
whose text is known, whose facts are shipped and for which `Extract.admitted` is false for the FROM table `t`
(`noRowFollow`); inserted anywhere into what is delivered they change nothing: the same screens / records in every
format, the same status. (The table must be defined: see `Props/PipelineLines.lean`.) -/
theorem follow_noise_lines_invisible (F : Facts) (defsText queryText : List Char) (fmt : Print.Format)
    (a ns b : List (List Nat)) (t : Table) (ht : queriedTable F defsText queryText = some t)
    (hnoise : ∀ l ∈ ns, noRowFollow F t.defn l = true) :
    followLines F defsText queryText fmt (a ++ ns ++ b) none = followLines F defsText queryText fmt (a ++ b) none := by
  apply followLines_rel (fun x y => x = y) (fun _ => rfl)
  intro defs query tables stmt fromTable join hd hq hta hs
  rw [queriedTable_eq F defsText queryText defs query tables stmt fromTable join hd hq hta hs] at ht
  cases join with
  | some j => rfl
  | none =>
    rw [followStatement_defined F tables stmt fromTable _ _ t ht, followStatement_defined F tables stmt fromTable _ _ t ht]
    simp only [handedLines]
    rcases mapM_noise F t.defn a ns b hnoise with ⟨h1, h2⟩ | ⟨x, y, h1, h2, h3⟩
    · rw [h1, h2]
    · rw [h1, h2]
      simp only [Option.map_some]
      obtain ⟨c1, o1⟩ := runFollowAllT_noise F.eval { stmt := stmt, table := t.info, join := none } x
      obtain ⟨c2, o2⟩ := runFollowAllT_noise F.eval { stmt := stmt, table := t.info, join := none } y
      rw [h3] at c1 o1
      have hc := c1.symm.trans c2
      have ho := o1.symm.trans o2
      unfold followAnswerOf
      simp only [hc, ho.error, ho.panicked, ho.skipped]

/-- **… stated on the followed bytes**: two uninterrupted, caught-up schedules (any chunking, any polls) whose followed
contents are `wire a ++ wire ns ++ rest` and `wire a ++ rest` — whole lines `ns` that yield no row inserted at a line
boundary of what is followed — give the same answer -/
theorem noise_in_followed_bytes_invisible (F : Facts) (defsText queryText : List Char) (fmt : Print.Format) (head : Bool)
    (initial₁ initial₂ : List Nat) (ops₁ ops₂ : List FollowOp) (a ns : List (List Nat)) (rest : List Nat) (t : Table)
    (ht : queriedTable F defsText queryText = some t) (hnoise : ∀ l ∈ ns, noRowFollow F t.defn l = true)
    (ha : ∀ l ∈ a, nl ∉ l) (hns : ∀ l ∈ ns, nl ∉ l)
    (hc₁ : followedContent head initial₁ ops₁ = wire a ++ wire ns ++ rest)
    (hc₂ : followedContent head initial₂ ops₂ = wire a ++ rest)
    (hd₁ : deliveredBy head initial₁ ops₁ = completeLines (followedContent head initial₁ ops₁))
    (hd₂ : deliveredBy head initial₂ ops₂ = completeLines (followedContent head initial₂ ops₂))
    (hi₁ : FollowOp.interrupt ∉ ops₁) (hi₂ : FollowOp.interrupt ∉ ops₂) :
    followText F defsText queryText fmt head initial₁ ops₁ = followText F defsText queryText fmt head initial₂ ops₂ := by
  unfold followText
  rw [hd₁, hd₂, hc₁, hc₂, interruptPoint_none _ _ _ hi₁, interruptPoint_none _ _ _ hi₂,
    List.append_assoc, completeLines_wire_append a _ ha, completeLines_wire_append ns _ hns, completeLines_wire_append a _ ha,
    ← List.append_assoc]
  exact follow_noise_lines_invisible F defsText queryText fmt a ns (completeLines rest) t ht hnoise

/-! ### non-vacuity and concrete behaviour (kernel-evaluated; `exFacts` / `exDefs` of `Props/Pipeline.lean`) -/

/-- the observable part of a follow-mode answer -/
def ranOf : FollowAnswer → Option (Option ErrKind × List TermItem)
  | .ran e w => some (e, w)
  | _ => none

/-- a line split over three appends with polls in between, then a second line and an unterminated tail: two refreshes,
each the batch output (`n: 1`, `n: 2`); the tail `zz` is never delivered -/
example : ranOf (followText exFacts exDefs "select count(*) as n from t".toList .text true []
    [.append (strBytes "a"), .poll 8191, .poll 8191, .append (strBytes ";"), .poll 8191, .append (strBytes "1\nb;2\nzz"),
     .poll 8191, .poll 8191, .poll 8191, .poll 8191]) =
    some (none, [.clear, .line (strBytes "n: 1"), .clear, .line (strBytes "n: 2")]) := by decide +kernel

/-- the same bytes in one append: the same answer (`chunking_and_polls_are_irrelevant`) -/
example : ranOf (followText exFacts exDefs "select count(*) as n from t".toList .text true []
    [.append (strBytes "a;1\nb;2\nzz"), .poll 8191, .poll 8191, .poll 8191]) =
    some (none, [.clear, .line (strBytes "n: 1"), .clear, .line (strBytes "n: 2")]) := by decide +kernel

/-- facts for a line with a two-byte character -/
def exFactsMb : Facts :=
  { exFacts with lines := (strBytes "é;7", { captures := [(strBytes "^([a-z]+);([0-9]+)$", none)] }) :: exFacts.lines }

/-- a multi-byte character split between two appends: the line is delivered whole; it matches nothing (`é` is not in
`[a-z]`), is not admitted, so nothing is shown for it; `select input` would print it — here `k` of the next line -/
example : ranOf (followText exFactsMb exDefs "select k from t".toList .json true []
    [.append [195], .poll 8191, .append ([169] ++ strBytes ";7\na;1\n"), .poll 8191, .poll 8191, .poll 8191]) =
    some (none, [.line (strBytes "{\"k\":\"a\"}")]) := by decide +kernel

/-- without `--head` the content at start-up — also its unterminated tail — is skipped: the first line delivered is
what completes it (`;1` after `old a`? no: the bytes after the start offset only), here `b;2` -/
example : deliveredBy false (strBytes "a;1\nxx") [.append (strBytes "\nb;2\n"), .poll 8191, .poll 8191, .poll 8191] =
    [[], strBytes "b;2"] := by decide +kernel

/-- a HAVING that empties the table: the second refresh leaves an EMPTY screen (not the previous table), the third
shows the table again — each screen the batch output over the prefix -/
example : ranOf (followText exFacts exDefs "select k, count(*) from t group by k having count(*) < 2".toList .text true
    (strBytes "a;1\na;1\nb;2\n") [.poll 8191, .poll 8191, .poll 8191, .poll 8191]) =
    some (none, [.clear, .line (strBytes "k: 'a', count1: 1"), .clear, .clear, .line (strBytes "k: 'b', count1: 1")]) := by
  decide +kernel

/-- an interrupt after the first line was delivered: the second line is not executed; a prefix, no error -/
example : ranOf (followText exFacts exDefs "select count(*) as n from t".toList .text true []
    [.append (strBytes "a;1\n"), .poll 8191, .poll 8191, .interrupt, .append (strBytes "b;2\n"), .poll 8191, .poll 8191]) =
    some (none, [.clear, .line (strBytes "n: 1")]) := by decide +kernel

/-- a statement with a join is refused before anything is read; an undefined table is asked for by the first line -/
example : (match followText exFacts exDefs "select t.k from t inner join u::'f' on t.k = u.k".toList .text true (strBytes "a;1\n") [.poll 8191] with
    | .joinNotSupported => true
    | _ => false) = true := by decide +kernel
example : ranOf (followText exFacts exDefs "select k from nosuch".toList .text true (strBytes "a;1\n") [.poll 8191, .poll 8191]) =
    some (some .tableNotFound, []) := by decide +kernel

/-- a table that admits every line (`(.*)`), `SELECT input`, without `--head`: the start-up content — also its unterminated
tail `ta` — is skipped; the printed records are exactly the complete lines appended after the start offset (`il` completes
nothing: it IS the first line), each once, in order, the empty line included, the tail `rest` never -/
def exAllFacts : Facts :=
  { regexValid := [("(.*)".toList, true)]
    lines := [(strBytes "il", { captures := [(strBytes "(.*)", some [some (strBytes "il"), some (strBytes "il")])] }),
              (strBytes "ab", { captures := [(strBytes "(.*)", some [some (strBytes "ab"), some (strBytes "ab")])] }),
              (strBytes "", { captures := [(strBytes "(.*)", some [some (strBytes ""), some (strBytes "")])] }),
              (strBytes "c d", { captures := [(strBytes "(.*)", some [some (strBytes "c d"), some (strBytes "c d")])] })] }
example : ranOf (followText exAllFacts "CREATE TABLE t(line = '(.*)', line[1] => x TEXT);".toList "select input from t".toList .text false
    (strBytes "old\nta") [.append (strBytes "il\nab\n"), .poll 8191, .append (strBytes "\nc d\nrest"), .poll 8191, .poll 8191,
      .poll 8191, .poll 8191, .poll 8191]) =
    some (none, [.line (strBytes "'il'"), .line (strBytes "'ab'"), .line (strBytes "''"), .line (strBytes "'c d'")]) := by
  decide +kernel

/-- hypotheses of `follow_select_prints_batch_output` / `follow_screen_is_batch_output`: plain lines -/
example : ∀ l ∈ [strBytes "a;1", strBytes "zzz", strBytes "b;2"], PlainLine l := by
  intro l hl
  simp only [List.mem_cons, List.mem_nil_iff, or_false] at hl
  rcases hl with rfl | rfl | rfl <;> exact ⟨by decide +kernel, by decide +kernel, by decide +kernel⟩

/-- ALL hypotheses of `follow_screen_is_batch_output` (and, with `pre ++ [l]` for `ls`, of `follow_screens_are_batch_outputs`
for its last prefix) as one decidable check: both texts lower, the patterns are valid by the facts, the statement is an
aggregate statement without join and LIMIT, the FROM table is defined, the lines are plain, the GROUP BY keys seen are
exact (every key value NULL, INT, TEXT, BOOLEAN …: `keysExact_of_simple`), follow mode over the lines ends `Ok`, the
batch program over the file holding them ends `Ok` -/
def exScreenHyps (F : Facts) (defsText queryText : List Char) (fmt : Print.Format) (single : Bool) (pre : List (List Nat))
    (l : List Nat) : Bool :=
  classesCover F defsText && classesCover F queryText && decide (∀ x ∈ pre ++ [l], PlainLine x) &&
  match parseText (lexOracles F) (regexValidFn F) defsText, parseText (lexOracles F) (regexValidFn F) queryText with
  | .stmt defs, .stmt (.aggregate a fromTable _ none) =>
    (createPatterns defs).all (fun re => ((Utf8.decode re).bind (regexValidOf F)).isSome) && a.limit.isNone &&
    match addTables defs with
    | some tables =>
      match getTable tables fromTable with
      | some t =>
        (groupKeysOf F.eval a (followEnvs t.info ((pre ++ [l]).map (extractedLine F t.defn)))).all (fun k => k.all Spec.Agg.simpleValue) &&
        (match followLines F defsText queryText fmt (pre ++ [l]) none with
          | .ran none _ => true
          | _ => false) &&
        (match runText F defsText queryText fmt single [wire (pre ++ [l])] with
          | .records none _ _ => true
          | _ => false)
      | none => false
    | none => false
  | _, _ => false

/-- … discharged by the kernel on a GROUP BY statement with HAVING in the CSV format, two lines delivered, a third (shown)
arriving; and what the theorem then says, evaluated: the screens written for two lines, a clear, the batch output over
three lines -/
example : exScreenHyps exFacts exDefs "select k, count(*), max(v) from t group by k having count(*) > 0".toList (.csv [59]) false
    [strBytes "a;1", strBytes "zzz"] (strBytes "b;2") = true := by decide +kernel
example :
    ranOf (followLines exFacts exDefs "select k, count(*), max(v) from t group by k having count(*) > 0".toList (.csv [59])
      [strBytes "a;1", strBytes "zzz", strBytes "b;2"] none) =
      some (none, [.clear, .line (strBytes "k;count1;max2"), .line (strBytes "'a';1;1"),
                   .clear, .line (strBytes "k;count1;max2"), .line (strBytes "'a';1;1"), .line (strBytes "'b';1;2")]) ∧
    Props.Pipeline.recordsOf (runText exFacts exDefs "select k, count(*), max(v) from t group by k having count(*) > 0".toList (.csv [59]) false
      [wire [strBytes "a;1", strBytes "zzz", strBytes "b;2"]]) =
      some (none, 3, [strBytes "k;count1;max2", strBytes "'a';1;1", strBytes "'b';1;2"]) := by decide +kernel

/-- a noise line among the delivered lines (hypothesis of `follow_noise_lines_invisible`), and the two answers -/
example : ((queriedTable exFacts exDefs "select k from t".toList).map (fun t => noRowFollow exFacts t.defn (strBytes "zzz"))) = some true := by
  decide +kernel
example : ranOf (followLines exFacts exDefs "select k from t".toList .text [strBytes "a;1", strBytes "zzz", strBytes "b;2"] none) =
    ranOf (followLines exFacts exDefs "select k from t".toList .text [strBytes "a;1", strBytes "b;2"] none) := by decide +kernel

/-- **D65, repaired** (regression witness; /repo e80a2b6): follow mode, CSV format, aggregate statement. After every clear
of the screen the one `OutputPrinter` is told to start a new table, so EVERY refresh shows header and rows — the second
screen is the batch program's output over the first two lines. (Before the repair the printer kept `first_line = false`
across the clears and the second screen was the row `2` alone.) -/
theorem d65_repaired_csv_header_on_every_screen :
    ranOf (followText exFacts exDefs "select count(*) as n from t".toList (.csv [59]) true (strBytes "a;1\nb;2\n")
      [.poll 8191, .poll 8191, .poll 8191]) =
      some (none, [.clear, .line (strBytes "n"), .line (strBytes "1"), .clear, .line (strBytes "n"), .line (strBytes "2")]) ∧
    Props.Pipeline.recordsOf (runText exFacts exDefs "select count(*) as n from t".toList (.csv [59]) false [strBytes "a;1\nb;2\n"]) =
      some (none, 2, [strBytes "n", strBytes "2"]) := by decide +kernel

end Sqlgrep.Props.PipelineFollow
