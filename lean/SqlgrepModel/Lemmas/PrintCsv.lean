import SqlgrepModel.Spec.CsvGrammar
import SqlgrepModel.Lemmas.PrintChars
import SqlgrepModel.Lemmas.PrintLines
/- The CSV printer of `Model/Print.lean` against the record grammar of `Spec/CsvGrammar.lean`. -/
namespace Sqlgrep.Print
open Sqlgrep.CsvGrammar

theorem field_not_mem {d : Nat} {f : Bytes} (h : Field d f) : d ∉ f := fun hm => (h d hm).1 rfl

/-- a record has exactly one list of fields: the pieces between the delimiters -/
theorem record_splitOn {d : Nat} {l : Bytes} {fs : List Bytes} (h : Record d l fs) : splitOn d l = fs := by
  induction h with
  | last hf => exact splitOn_free d _ (field_not_mem hf)
  | cons hf _ ih => rw [splitOn_append d _ _ (field_not_mem hf), ih]

theorem record_unique {d : Nat} {l : Bytes} {fs fs' : List Bytes} (h : Record d l fs) (h' : Record d l fs') :
    fs = fs' := by rw [← record_splitOn h, ← record_splitOn h']

/-- joining non-empty list of fields with the delimiter gives a record with exactly these fields -/
theorem joinWith_record (d : Nat) (cells : List Bytes) (hne : cells ≠ []) (h : ∀ c ∈ cells, Field d c) :
    Record d (joinWith [d] cells) cells := by
  induction cells with
  | nil => exact absurd rfl hne
  | cons x rest ih =>
    cases rest with
    | nil => simp only [joinWith]; exact .last (h x (by simp))
    | cons y ys =>
      have := ih (by simp) (fun c hc => h c (by simp [hc]))
      simp only [joinWith, List.append_assoc, List.cons_append, List.nil_append]
      exact .cons (h x (by simp)) this

/-- the bytes the CSV guard excludes: the delimiter, `"`, CR, LF -/
def CsvSafe (d : Nat) (s : Bytes) : Prop := ∀ c ∈ s, TextData d c

instance (d : Nat) : DecidablePred (CsvSafe d) := fun s => by unfold CsvSafe; infer_instance

/-- a rendered cell is a `field`: `Display` writes none of the delimiter (`;`, tab, `|`, ...), `"`, CR, LF
by itself, so it suffices that the TEXT payloads (and the `{:.2}` oracle text) are free of them -/
theorem displayValue_field (o : RealOracle) (d : Nat) (v : Value) (hd : ¬ Structural d)
    (ht : ∀ s ∈ allTexts v, CsvSafe d s) (ho : ∀ b, CsvSafe d (o.fixed2 b)) : Field d (displayValue o v) := by
  intro c hc
  rcases mem_displayValue o v c hc with (h | ⟨s, hs, hcs⟩ | ⟨b, hb⟩)
  · refine ⟨?_, ?_, ?_, ?_⟩
    · intro e; subst e; exact hd h
    · intro e; subst e; revert h; decide
    · intro e; subst e; revert h; decide
    · intro e; subst e; revert h; decide
  · exact ht s hs c hcs
  · exact ho b c hb

theorem renderRecord_csv (o : RealOracle) (d : Bytes) (cols : List Bytes) (row : List Value)
    (hl : cols.length = row.length) :
    renderRecord o (.csv d) cols row = joinWith d (row.map (displayValue o)) := by
  simp only [renderRecord, loneInput_csv, Bool.false_eq_true, if_false]
  rw [zip_map_snd_take cols row (displayValue o) (Nat.le_of_eq hl), hl, List.take_length]

/-! ### every line of a CSV printer -/

theorem mem_printRows_csv (o : RealOracle) (d : Bytes) (cols : List Bytes) (l : Line) :
    ∀ (first : Bool) (rows : List (List Value)), l ∈ printRows o (.csv d) cols first rows →
      (l = .header (joinWith d cols) ∧ rows ≠ []) ∨ ∃ row ∈ rows, l = .record (renderRecord o (.csv d) cols row)
  | _, [], h => by simp [printRows] at h
  | first, row :: rest, h => by
    simp only [printRows, printRow, headerLines, List.mem_append, List.mem_singleton] at h
    rcases h with (h | h) | h
    · split at h
      · simp only [List.mem_singleton] at h; exact Or.inl ⟨h, by simp⟩
      · cases h
    · exact Or.inr ⟨row, List.mem_cons_self .., h⟩
    · cases mem_printRows_csv o d cols l false rest h with
      | inl h => exact Or.inl ⟨h.1, by simp⟩
      | inr h =>
        obtain ⟨r, hr, hl⟩ := h
        exact Or.inr ⟨r, List.mem_cons_of_mem _ hr, hl⟩

/-- a line printed in CSV format is the blank separator, the header of a result that has rows, or the
record of one of the rows -/
theorem mem_printAll_csv (o : RealOracle) (d : Bytes) (l : Line) :
    ∀ (first : Bool) (seq : List (ResultRow × Bool)), l ∈ printAll o (.csv d) first seq →
      l = .separator ∨ ∃ cr ∈ allRows seq, l = .header (joinWith d cr.1) ∨ l = .record (renderRecord o (.csv d) cr.1 cr.2)
  | _, [], h => by simp [printAll] at h
  | first, (r, single) :: rest, h => by
    simp only [printAll, printResult, List.mem_append] at h
    rcases h with (h | h) | h
    · cases mem_printRows_csv o d r.columns l first r.rows h with
      | inl h =>
        cases hr : r.rows with
        | nil => exact absurd hr h.2
        | cons row more =>
          exact Or.inr ⟨(r.columns, row), by simp [allRows, hr], Or.inl h.1⟩
      | inr h =>
        obtain ⟨row, hr, hl⟩ := h
        exact Or.inr ⟨(r.columns, row),
          by simp only [allRows, List.mem_append, List.mem_map]; exact Or.inl ⟨row, hr, rfl⟩, Or.inr hl⟩
    · unfold separatorLines at h
      split at h
      · simp only [List.mem_singleton] at h; exact Or.inl h
      · cases h
    · cases mem_printAll_csv o d l _ rest h with
      | inl h => exact Or.inl h
      | inr h =>
        obtain ⟨cr, hcr, hl⟩ := h
        exact Or.inr ⟨cr, by simp only [allRows, List.mem_append]; exact Or.inr hcr, hl⟩

end Sqlgrep.Print
