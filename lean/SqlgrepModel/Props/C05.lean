import SqlgrepModel.Lemmas.JoinRefine
import SqlgrepModel.Lemmas.JoinNames
import SqlgrepModel.Lemmas.JoinBatch
import SqlgrepModel.Model.JoinClause
/-
C05 — JOIN pairs exactly the rows with equal join keys.

Model (`Model/Engine.lean`, `Model/Exec.lean`): `loadJoin` (the joined file goes through `SELECT *`; every admitted
row is put into the bucket of its key by `joinIndexAdd`; bucket equality `keySame` = equal hash stream ∧ `==`),
`lineEnvs` (`execute_join`: lookup of the queried row's key, one environment per partner in bucket order, the
NULL-padded one for OUTER JOIN when allowed), `joinedMapping` (`create_joined_column_mapping`), `setupJoin` /
`loadJoinFile` / `runBatch` (`execute_joined_table` + `FileExecutor::execute`).
Specification (`Spec/Join.lean`): the nested loop `specJoin` — no index, no hashing.
Bucket equality is related to value equality through C16 (`hashRepr_eq_of_beq`: equal values feed equal hash
streams, for every value incl. ±0.0 and NaN after the REAL repair), so no hash-consistency hypothesis is left.
A missing joined *file* is a runtime fact (`File::open`); the executed model has the branch (`loadJoinFileI … none`,
Model/ExecI.lean) and `missing_file_is_error` states it; that the real `File::open` behaves so is covered by the
correspondence and the oracle of `harness/src/c05.rs`.
Only this file states property theorems; helper lemmas live in `Lemmas/Join*.lean`.
-/
namespace Sqlgrep.Props.C05
open Sqlgrep Sqlgrep.Spec.Join

/-- **Refinement, per input row.** For a query with a join whose join columns exist, the environments the
engine presents to the statement for the input row `r` — through the hash index loaded from the joined lines —
are exactly the nested loop's: one per admitted joined row whose key equals `r`'s non-NULL key, in the joined
file's order (plus the NULL-padded row for OUTER JOIN without partner when `allowOuter`). -/
theorem join_refines_nested_loop (qy : Query) (j : JoinInfo) (joinedLines : List Line) (idx : JoinIndex)
    (allowOuter : Bool) (r : Line)
    (hj : qy.join = some j) (hcol : (indexOf? qy.table.columns j.joinerColumn).isSome = true)
    (hl : loadJoin j joinedLines = .ok idx) :
    lineEnvs qy idx allowOuter r = .ok (rowsOf qy j (admittedRows joinedLines) allowOuter r) := by
  obtain ⟨ki, hki⟩ := Option.isSome_iff_exists.1 hcol
  exact lineEnvs_eq_rowsOf qy j joinedLines idx allowOuter r ki hj hki hl

/-- **Refinement, whole input.** Over all admitted input rows in input order the engine's environments are
`specJoin`: the pairs ordered by `r`'s position, then `s`'s position. (Non-admitted lines never reach
`lineEnvs`: `executeLine` returns before — C06.) -/
theorem join_rows_are_specJoin (qy : Query) (j : JoinInfo) (joinedLines : List Line) (idx : JoinIndex)
    (allowOuter : Bool) (lines : List Line)
    (hj : qy.join = some j) (hcol : (indexOf? qy.table.columns j.joinerColumn).isSome = true)
    (hl : loadJoin j joinedLines = .ok idx) :
    (lines.filter admitted).map (lineEnvs qy idx allowOuter) =
        (lines.filter admitted).map (fun r => .ok (rowsOf qy j (admittedRows joinedLines) allowOuter r)) ∧
    specJoin qy j joinedLines allowOuter lines =
        (lines.filter admitted).flatMap (rowsOf qy j (admittedRows joinedLines) allowOuter) := by
  refine ⟨?_, rfl⟩
  apply List.map_congr_left
  intro r _
  exact join_refines_nested_loop qy j joinedLines idx allowOuter r hj hcol hl

/-- the partners of `r` are exactly the admitted joined rows with an equal non-NULL key, in file order: each
such row once (no partner lost, duplicated or reordered: `filter` keeps multiplicity and order) -/
theorem partners_exact (qy : Query) (j : JoinInfo) (joinedLines : List Line) (r : Line) (s : List Value) :
    s ∈ partners qy j (admittedRows joinedLines) r ↔
      s ∈ admittedRows joinedLines ∧
      keysMatch (keyOf qy.table.columns j.joinerColumn r.row) (keyOf j.joined.columns j.joinedColumn s) = true := by
  unfold partners
  exact List.mem_filter

/-- **NULL keys never pair** (specification side): a matching pair has two non-NULL, equal keys -/
theorem null_keys_never_pair (a b : Value) (h : keysMatch a b = true) :
    a.isNull = false ∧ b.isNull = false ∧ Value.beq a b = true := by
  unfold keysMatch at h
  simpa [and_assoc] using h

/-- **NULL keys never pair** (model side, input row): an input row whose join column is NULL finds no partner
in the loaded index — INNER JOIN shows nothing for it, OUTER JOIN exactly the NULL-padded row -/
theorem null_joiner_key_has_no_partner (qy : Query) (j : JoinInfo) (joinedLines : List Line) (idx : JoinIndex)
    (allowOuter : Bool) (r : Line)
    (hj : qy.join = some j) (hcol : (indexOf? qy.table.columns j.joinerColumn).isSome = true)
    (hl : loadJoin j joinedLines = .ok idx)
    (hnull : (keyOf qy.table.columns j.joinerColumn r.row).isNull = true) :
    lineEnvs qy idx allowOuter r =
      .ok (if j.isOuter && allowOuter then [pairRow qy.table j r (List.replicate j.joined.columns.length .null)] else []) := by
  rw [join_refines_nested_loop qy j joinedLines idx allowOuter r hj hcol hl]
  have hp : partners qy j (admittedRows joinedLines) r = [] := by
    unfold partners keysMatch
    simp [hnull]
  unfold rowsOf
  simp only [hp, List.isEmpty_nil, Bool.true_and, List.map_nil]

/-- **NULL keys never pair** (model side, joined row): a joined row whose join column is NULL is never a
partner, whatever the input row's key -/
theorem null_joined_key_is_no_partner (qy : Query) (j : JoinInfo) (joined : List (List Value)) (r : Line)
    (s : List Value) (hnull : (keyOf j.joined.columns j.joinedColumn s).isNull = true) :
    s ∉ partners qy j joined r := by
  unfold partners keysMatch
  simp [hnull]

/-- **OUTER adds exactly one NULL row**: in a non-aggregate query (`allowOuter`) an input row without partner
yields exactly one row, in which every joined-side column is NULL -/
theorem outer_adds_exactly_one_null_row (qy : Query) (j : JoinInfo) (joinedLines : List Line) (idx : JoinIndex) (r : Line)
    (hj : qy.join = some j) (hcol : (indexOf? qy.table.columns j.joinerColumn).isSome = true)
    (hl : loadJoin j joinedLines = .ok idx) (ho : j.isOuter = true)
    (hnone : partners qy j (admittedRows joinedLines) r = []) :
    lineEnvs qy idx true r = .ok [pairRow qy.table j r (List.replicate j.joined.columns.length .null)] := by
  rw [join_refines_nested_loop qy j joinedLines idx true r hj hcol hl]
  unfold rowsOf
  simp [hnone, ho]

/-- … and none when the row has partners: then the rows are the pairs and nothing else -/
theorem outer_adds_nothing_when_partners_exist (qy : Query) (j : JoinInfo) (joinedLines : List Line) (idx : JoinIndex)
    (allowOuter : Bool) (r : Line)
    (hj : qy.join = some j) (hcol : (indexOf? qy.table.columns j.joinerColumn).isSome = true)
    (hl : loadJoin j joinedLines = .ok idx)
    (hsome : partners qy j (admittedRows joinedLines) r ≠ []) :
    lineEnvs qy idx allowOuter r =
      .ok ((partners qy j (admittedRows joinedLines) r).map (pairRow qy.table j r)) := by
  rw [join_refines_nested_loop qy j joinedLines idx allowOuter r hj hcol hl]
  unfold rowsOf
  have : (partners qy j (admittedRows joinedLines) r).isEmpty = false := by
    cases h : partners qy j (admittedRows joinedLines) r with
    | nil => exact absurd h hsome
    | cons _ _ => rfl
  simp [this]

/-- INNER JOIN, and OUTER JOIN where it is not allowed, add no row for an input row without partner -/
theorem no_null_row_unless_outer_allowed (qy : Query) (j : JoinInfo) (joinedLines : List Line) (idx : JoinIndex)
    (allowOuter : Bool) (r : Line)
    (hj : qy.join = some j) (hcol : (indexOf? qy.table.columns j.joinerColumn).isSome = true)
    (hl : loadJoin j joinedLines = .ok idx) (hno : (j.isOuter && allowOuter) = false)
    (hnone : partners qy j (admittedRows joinedLines) r = []) :
    lineEnvs qy idx allowOuter r = .ok [] := by
  rw [join_refines_nested_loop qy j joinedLines idx allowOuter r hj hcol hl]
  unfold rowsOf
  simp [hnone, hno]

/-- an aggregate statement never sees the NULL-padded row: for it OUTER JOIN behaves as INNER JOIN
(the engine calls the join with `allow_outer = false`) -/
theorem aggregate_outer_is_inner (O : Oracles) (qy : Query) (j : JoinInfo) (q : AggStmt) (idx : JoinIndex)
    (w : Bool) (es : EngineState) (l : Line) (hq : qy.stmt = .aggregate q) (hj : qy.join = some j) :
    executeLine O qy idx w es l = executeLine O { qy with join := some { j with isOuter := false } } idx w es l := by
  obtain ⟨stmt, table, join⟩ := qy
  simp only at hq hj
  subst hq hj
  have : lineEnvs ⟨.aggregate q, table, some j⟩ idx false l =
      lineEnvs ⟨.aggregate q, table, some { j with isOuter := false }⟩ idx false l := by
    unfold lineEnvs
    simp [joinedMapping]
  unfold executeLine
  simp only
  rw [this]

/-- **Refinement, whole batch run.** Whenever the executable specification (`Spec.Join.batch`: the statement's
engine — WHERE, projections, DISTINCT, aggregation — fed with the nested loop's rows, line by line) answers a
batch run of a statement with a join, the model's `runBatch` over the hash index gives exactly that answer:
same records in the same order, same line count. (The specification declines — `none` — only where C05 does
not fix the outcome: LIMIT, unreadable lines, evaluation errors.) This is the theorem behind the driver's
`MODEL ## SPEC` pair. -/
theorem batch_run_is_nested_loop_run (O : Oracles) (qy : Query) (joined : List FileLine) (files : List (List FileLine))
    (ro : RunOut) (cls : String) (h : Spec.Join.batch O qy joined files = some (ro, cls)) :
    runBatch O qy joined files none = ro :=
  batch_spec_eq_runBatch O qy joined files ro cls h

/-! ### names -/

/-- **both sides addressable**: in a joined row every column of the queried table is addressable by its plain
and by its table-qualified name, and `input` is the line -/
theorem join_names_queried (qy : Query) (j : JoinInfo) (r : Line) (s : List Value) (h : NamesOk qy.table j)
    (n : String) (v : Value) (hm : (n, v) ∈ qy.table.columns.zip r.row) :
    (pairRow qy.table j r s).1.get .table n = some v ∧
    (pairRow qy.table j r s).1.get .table (qy.table.name ++ "." ++ n) = some v ∧
    (pairRow qy.table j r s).1.get .table "input" = some (.text r.text) := by
  have := lastGet_queried qy.table r.row r.text j s h n v hm
  exact ⟨this.1, this.2, lastGet_input qy.table r.row r.text j s h⟩

/-- every column of the joined table is addressable by its table-qualified name, and by its plain name when
that is not also a column of the queried table -/
theorem join_names_joined (qy : Query) (j : JoinInfo) (r : Line) (s : List Value) (h : NamesOk qy.table j)
    (n : String) (v : Value) (hm : (n, v) ∈ j.joined.columns.zip s) :
    (pairRow qy.table j r s).1.get .table (j.joined.name ++ "." ++ n) = some v ∧
    (n ∉ qy.table.columns → (pairRow qy.table j r s).1.get .table n = some v) :=
  ⟨lastGet_joined_qualified qy.table r.row r.text j s h n v hm,
   lastGet_joined_plain qy.table r.row r.text j s h n v hm⟩

/-- **clash ⇒ only the qualified name**: a joined column whose name is also a column of the queried table is
reached by its qualified name only; the plain name addresses the queried table's column -/
theorem join_names_clash (qy : Query) (j : JoinInfo) (r : Line) (s : List Value) (h : NamesOk qy.table j)
    (n : String) (v w : Value) (hs : (n, v) ∈ j.joined.columns.zip s) (hr : (n, w) ∈ qy.table.columns.zip r.row) :
    (pairRow qy.table j r s).1.get .table n = some w ∧
    (pairRow qy.table j r s).1.get .table (j.joined.name ++ "." ++ n) = some v :=
  ⟨(lastGet_queried qy.table r.row r.text j s h n w hr).1, lastGet_joined_qualified qy.table r.row r.text j s h n v hs⟩

/-- **`*`** lists the queried table's columns followed by the joined table's (a clashing joined column under
its qualified name), and their values are the queried row's followed by the joined row's -/
theorem join_names_star (qy : Query) (j : JoinInfo) (r : Line) (s : List Value) (h : NamesOk qy.table j)
    (hr : qy.table.columns.length = r.row.length) (hs : j.joined.columns.length = s.length) :
    (pairRow qy.table j r s).2 = qy.table.columns ++ j.joined.columns.map (starKey qy.table j) ∧
    (pairRow qy.table j r s).2.map ((pairRow qy.table j r s).1.get .table) = (r.row ++ s).map some :=
  ⟨rfl, star_values qy.table r.row r.text j s h hr hs⟩

/-- **self-join** (the joined table is the queried table itself, read from a second file: same name, same columns;
`NamesOk` cannot hold there): every table-qualified name addresses the JOINED row, every plain name — and `input` —
the QUERIED row, so both sides stay addressable -/
theorem join_names_self (qy : Query) (j : JoinInfo) (r : Line) (s : List Value) (h : SelfOk qy.table)
    (hname : j.joined.name = qy.table.name) (hcols : j.joined.columns = qy.table.columns)
    (hr : qy.table.columns.length = r.row.length) :
    (∀ n v, (n, v) ∈ qy.table.columns.zip s →
      (pairRow qy.table j r s).1.get .table (qy.table.name ++ "." ++ n) = some v) ∧
    (∀ n w, (n, w) ∈ qy.table.columns.zip r.row → (pairRow qy.table j r s).1.get .table n = some w) ∧
    (pairRow qy.table j r s).1.get .table "input" = some (.text r.text) :=
  ⟨fun n v hm => lastGet_self_qualified qy.table r.row r.text j s h hname hcols hr n v hm,
   (lastGet_self_plain qy.table r.row r.text j s h hname hcols hr).1,
   (lastGet_self_plain qy.table r.row r.text j s h hname hcols hr).2⟩

/-- self-join: `*` lists the queried table's columns under their plain names followed by the joined side's under
the qualified names, with the queried row's values followed by the joined row's -/
theorem join_names_star_self (qy : Query) (j : JoinInfo) (r : Line) (s : List Value) (h : SelfOk qy.table)
    (hname : j.joined.name = qy.table.name) (hcols : j.joined.columns = qy.table.columns)
    (hr : qy.table.columns.length = r.row.length) (hs : qy.table.columns.length = s.length) :
    (pairRow qy.table j r s).2 = qy.table.columns ++ qy.table.columns.map (fun n => qy.table.name ++ "." ++ n) ∧
    (pairRow qy.table j r s).2.map ((pairRow qy.table j r s).1.get .table) = (r.row ++ s).map some :=
  star_values_self qy.table r.row r.text j s h hname hcols hr hs

/-- **the side of `ON` is irrelevant**: `ON a.x = b.y` and `ON b.y = a.x` lower to the same join (`resolveJoin` =
`transform_join`), whenever the joined table is not the queried table itself -/
theorem join_side_irrelevant (fromTable : String) (on : OnClause) (hne : on.joinerTable ≠ fromTable) :
    resolveJoin fromTable on.swap = resolveJoin fromTable on := by
  unfold resolveJoin OnClause.swap
  simp only
  by_cases h1 : on.leftTable = fromTable <;> by_cases h2 : on.rightTable = fromTable <;>
    by_cases h3 : on.rightTable = on.joinerTable <;> by_cases h4 : on.leftTable = on.joinerTable <;>
    simp_all

/-- the joiner column is the one written with the queried table, the joined column the one written with the joined
table — on whichever side they stand -/
theorem join_sides_resolved (fromTable joined x y : String) (hne : joined ≠ fromTable) :
    resolveJoin fromTable ⟨joined, fromTable, x, joined, y⟩ = .ok (x, y) ∧
    resolveJoin fromTable ⟨joined, joined, y, fromTable, x⟩ = .ok (x, y) := by
  unfold resolveJoin
  simp [hne]

/-! ### missing column / missing file -/

/-- **a missing join column is an error**, never an empty result: whatever the files and wherever an interrupt
falls, the run ends with `ColumnNotFound`, nothing printed, no line consumed -/
theorem missing_column_is_error (O : Oracles) (qy : Query) (j : JoinInfo) (joined : List FileLine)
    (files : List (List FileLine)) (stopAt : Option Nat) (hj : qy.join = some j)
    (hmiss : indexOf? qy.table.columns j.joinerColumn = none ∨ indexOf? j.joined.columns j.joinedColumn = none) :
    runBatch O qy joined files stopAt = { error := some .columnNotFound } := by
  unfold runBatch setupJoin loadJoinFile
  simp only [hj]
  rcases hmiss with h | h
  · simp [h, failWith]
  · cases h' : indexOf? qy.table.columns j.joinerColumn <;> simp [h, failWith]

/-- **a missing joined file is an error**, never an empty result: when the joined file cannot be opened (and both
join columns exist — otherwise `ColumnNotFound` comes first, `missing_column_is_error`) the run of
`FileExecutor::execute` (`runBatchI`, the joined file being `none`) ends with `FailOpenFile`, nothing printed, no
line consumed — for every statement, every input, every interrupt point -/
theorem missing_file_is_error (O : Oracles) (qy : Query) (j : JoinInfo) (files : List (List FileLine))
    (clearAt stopAt : Option Nat) (hj : qy.join = some j)
    (h1 : (indexOf? qy.table.columns j.joinerColumn).isSome = true)
    (h2 : (indexOf? j.joined.columns j.joinedColumn).isSome = true) :
    (runBatchI O qy none files clearAt stopAt).1 = { error := some .failOpenFile } := by
  obtain ⟨ki, hki⟩ := Option.isSome_iff_exists.1 h1
  obtain ⟨kj, hkj⟩ := Option.isSome_iff_exists.1 h2
  cases clearAt <;>
    simp [runBatchI, hj, setupJoin, loadJoinFileI, hki, hkj, Outcome.bind, runWithIndex, failWith]

/-! ### non-vacuity -/

def exT : TableInfo := { name := "t", columns := ["k", "v", "w"] }
def exJ : JoinInfo := { joined := { name := "u", columns := ["k", "v", "y"] }, joinerColumn := "k", joinedColumn := "k", isOuter := true }
def exQ : Query := { stmt := .select { projections := [], wildcard := true, filter := none, limit := none, distinct := false }, table := exT, join := some exJ }
def exJoined : List Line :=
  [⟨[], [.text [97], .int 1, .text [120]]⟩, ⟨[], [.null, .int 2, .text [121]]⟩, ⟨[], [.null, .null, .null]⟩,
   ⟨[], [.text [97], .int 3, .null]⟩, ⟨[], [.text [98], .null, .null]⟩]

example : NamesOk exT exJ := by decide
example : SelfOk exT := by decide
-- hypotheses of `missing_file_is_error` on the example query, and its conclusion evaluated
example : (indexOf? exQ.table.columns exJ.joinerColumn).isSome = true ∧ (indexOf? exJ.joined.columns exJ.joinedColumn).isSome = true := by decide
example : (runBatchI default exQ none [[⟨true, ⟨[], [.text [97], .int 7, .null]⟩⟩]] none none).1.error = some .failOpenFile := by decide
example : (indexOf? exQ.table.columns exJ.joinerColumn).isSome = true := by decide
example : ∃ idx, loadJoin exJ exJoined = .ok idx := ⟨_, rfl⟩
-- duplicates on the joined side, a NULL key and a non-admitted line: two partners, in file order
example : (partners exQ exJ (admittedRows exJoined) ⟨[], [.text [97], .int 7, .null]⟩).map
    (fun s => match s.getD 1 .null with
      | .int i => i
      | _ => 0) = [1, 3] := by decide
-- a NULL key on the queried side has no partner although the joined file has a NULL key
example : (partners exQ exJ (admittedRows exJoined) ⟨[], [.null, .int 7, .null]⟩).length = 0 := by decide
example : keysMatch (.text [97]) (.text [97]) = true ∧ keysMatch .null .null = false := by decide
-- the specification does answer a non-trivial run (OUTER JOIN, fan-out 2, one padded row)
example : (Spec.Join.batch default exQ (exJoined.map (fun l => ⟨true, l⟩))
    [[⟨true, ⟨[], [.text [97], .int 7, .null]⟩⟩, ⟨true, ⟨[], [.text [122], .int 8, .null]⟩⟩]]).isSome = true := by decide

/-- **finding D45, seen through the join**: "equal join keys" is the derived equality of values — an INT key and a REAL
key holding the same number are NOT paired, although `WHERE t.v = u.r` holds for them (`compareValues` is numeric:
`Props/C16.lean` `numbers_compare_by_value`). The specification, the model and the code agree on this; the sentence of C16
("any two values … joined are equal … an INT and a REAL of equal value are not ordered by their type") does not. Kept as
the open finding D45 (class `D45:join-int-real` in the C05 check). -/
theorem d45_join_int_real_not_paired :
    keysMatch (.int 3) (.real 0x4008000000000000) = false ∧ compareValues (.int 3) (.real 0x4008000000000000) = .eq := by
  decide

end Sqlgrep.Props.C05
