import SqlgrepModel.CodecExpr
import SqlgrepModel.Drivers.F64Arith
/- `eval ORACLES ENV EXPR` → outcome of the model evaluator. -/
namespace Sqlgrep.Drivers.Eval
open Sqlgrep

def handle (args : List Sexp) : String :=
  match args with
  | [o, env, e] =>
    match Oracles.ofSexp o, Env.ofSexp env, Expr.ofSexp e with
    | some o, some env, some e =>
      -- every REAL arithmetic node is also computed by the hardware (Drivers/F64Arith.lean)
      match Drivers.F64Arith.crossCheckEval o env e with
      | some mismatch => mismatch
      | none => Outcome.toWire (eval o env e)
    | none, _, _ => "bad-oracles"
    | _, none, _ => "bad-env"
    | _, _, none => "bad-expr"
  | _ => "bad-case"

end Sqlgrep.Drivers.Eval
