#!/usr/bin/env python3
"""Confirm a sub-agent's faulty change in a scratch worktree of /repo and keep it under seeded/<ID>-mutN/.

  tools/import_mutation.py <ID> <N>      reads /tmp/mut-out/<ID>/{mutN.diff,demo_mutN.rs,README.md} (or /tmp/mut-<ID>/out/)
Confirms: (1) the demonstration passes on the unchanged tree, (2) with the change the existing suite still
passes (229 tests), (3) with the change the demonstration fails.
"""
import json, os, re, shutil, subprocess, sys
pid, n = sys.argv[1], sys.argv[2]
root = os.path.dirname(os.path.dirname(os.path.abspath(__file__)))
src = sys.argv[3] if len(sys.argv) > 3 else (f"/tmp/mut-out/{pid}" if os.path.exists(f"/tmp/mut-out/{pid}") else f"/tmp/mut-{pid}/out")
dest_n = sys.argv[4] if len(sys.argv) > 4 else n
wt = "/tmp/mutverify"
env = dict(os.environ, CARGO_TARGET_DIR="/tmp/mutverify-target", CARGO_NET_OFFLINE="true", TZ="UTC")
def sh(cmd, cwd=wt):
    p = subprocess.run(cmd, cwd=cwd, env=env, capture_output=True, text=True)
    return p.returncode, p.stdout + p.stderr
if not os.path.exists(wt):
    subprocess.run(["git", "-C", "/repo", "worktree", "add", "--detach", wt, "HEAD"], check=True, capture_output=True)
sh(["git", "checkout", "--detach", subprocess.run(["git", "-C", "/repo", "rev-parse", "HEAD"], capture_output=True, text=True).stdout.strip()])
sh(["git", "checkout", "--", "."]); shutil.rmtree(os.path.join(wt, "tests"), ignore_errors=True)
os.makedirs(os.path.join(wt, "tests"))
demo = f"demo_mut{n}"
shutil.copy(f"{src}/{demo}.rs", os.path.join(wt, "tests", f"{demo}.rs"))
rc1, out1 = sh(["cargo", "test", "--offline", "--test", demo])
clean_pass = rc1 == 0
rc, out = sh(["git", "apply", f"{src}/mut{n}.diff"])
if rc != 0:
    print("patch does not apply to current /repo HEAD:", out); sys.exit(1)
rc2, out2 = sh(["cargo", "test", "--offline", "--lib"])
m = re.search(r"test result: (\w+)\. (\d+) passed; (\d+) failed", out2)
suite_ok = rc2 == 0 and m and m.group(2) == "229"
rc3, out3 = sh(["cargo", "test", "--offline", "--test", demo])
demo_fails = rc3 != 0 and "test result: FAILED" in out3
sh(["git", "checkout", "--", "."])
print(f"{pid} mut{n}: demo passes on clean tree: {clean_pass}; suite with change: {m.group(0) if m else 'no result'}; demo fails with change: {demo_fails}")
if not (clean_pass and suite_ok and demo_fails):
    print(out1[-800:] if not clean_pass else "", out2[-800:] if not suite_ok else "", out3[-800:] if not demo_fails else "")
    sys.exit(1)
dst = os.path.join(root, "seeded", f"{pid}-mut{dest_n}")
os.makedirs(dst, exist_ok=True)
shutil.copy(f"{src}/mut{n}.diff", os.path.join(dst, "patch.diff"))
shutil.copy(f"{src}/{demo}.rs", os.path.join(dst, "demo.rs"))
readme = open(f"{src}/README.md").read()
open(os.path.join(dst, "agent_README.md"), "w").write(readme)
head = subprocess.run(["git", "-C", "/repo", "rev-parse", "--short", "HEAD"], capture_output=True, text=True).stdout.strip()
json.dump({"property": pid, "mutation": int(dest_n), "repo_head_when_confirmed": head,
           "needs_to_manifest": "see agent_README.md",
           "confirmed": {"demo_passes_on_unchanged_tree": clean_pass, "suite_with_change": m.group(0), "demo_fails_with_change": demo_fails,
                         "commands": [f"cargo test --offline --test {demo}  (clean: pass)", "git apply patch.diff", "cargo test --offline --lib  (229 passed)", f"cargo test --offline --test {demo}  (FAILED)"]},
           "detected_by": {}}, open(os.path.join(dst, "meta.json"), "w"), indent=1)
print("kept as", dst)
