// Running definitions + queries through the real public entry points of sqlgrep.
use std::fs::File;
use std::io::Write;
use std::path::PathBuf;
use std::sync::atomic::{AtomicBool, AtomicUsize, Ordering};
use std::sync::Arc;

use sqlgrep::data_model::Tables;
use sqlgrep::execution::execution_engine::{ExecutionConfig, ExecutionEngine};
use sqlgrep::executor::{DisplayOptions, FileExecutor, OutputFormat, Printer};
use sqlgrep::model::Value;
use sqlgrep::Statement;

use crate::util::{catch, Caught};

static TMP_COUNTER: AtomicUsize = AtomicUsize::new(0);

pub fn tmp_dir() -> PathBuf {
    let base = std::env::var("VERIF_TMP").unwrap_or_else(|_| "/verif/build/tmp".to_owned());
    let dir = PathBuf::from(base).join(format!("h{}", std::process::id()));
    std::fs::create_dir_all(&dir).unwrap();
    dir
}

pub fn tmp_file(content: &[u8]) -> PathBuf {
    let n = TMP_COUNTER.fetch_add(1, Ordering::SeqCst);
    let path = tmp_dir().join(format!("f{}.txt", n));
    let mut f = File::create(&path).unwrap();
    f.write_all(content).unwrap();
    path
}

pub fn cleanup_tmp() {
    let _ = std::fs::remove_dir_all(tmp_dir());
}

pub struct CapturePrinter {
    pub lines: Vec<String>,
    pub on_print: Option<Box<dyn FnMut(usize)>>,
}

impl CapturePrinter {
    pub fn new() -> CapturePrinter {
        CapturePrinter { lines: Vec::new(), on_print: None }
    }
}

impl Printer for CapturePrinter {
    fn println(&mut self, line: &str) {
        self.lines.push(line.to_owned());
        let n = self.lines.len();
        if let Some(f) = self.on_print.as_mut() {
            f(n);
        }
    }
}

#[derive(Debug, Clone, PartialEq)]
pub enum Outcome {
    Lines(Vec<String>),
    Error(String),
    Panic(String),
}

impl Outcome {
    pub fn lines(&self) -> Option<&Vec<String>> {
        match self {
            Outcome::Lines(l) => Some(l),
            _ => None,
        }
    }

    pub fn show(&self) -> String {
        match self {
            Outcome::Lines(l) => format!("lines{:?}", l),
            Outcome::Error(e) => format!("error({})", e),
            Outcome::Panic(e) => format!("PANIC({})", e),
        }
    }
}

pub fn parse_tables(defs: &str) -> Result<Tables, String> {
    let mut tables = Tables::new();
    if defs.trim().is_empty() {
        return Ok(tables);
    }
    let stmt = sqlgrep::parsing::parse(defs).map_err(|e| format!("defs: {}", e))?;
    if !tables.add_tables(stmt) {
        return Err("defs: not a create table".to_owned());
    }
    Ok(tables)
}

pub struct RunOpts {
    pub format: OutputFormat,
    pub single_result: bool,
}

impl Default for RunOpts {
    fn default() -> Self {
        RunOpts { format: OutputFormat::Text, single_result: false }
    }
}

pub struct RunResult {
    pub outcome: Outcome,
    pub total_lines: u64,
}

/// Batch run like `sqlgrep -d defs -c query files...` through FileExecutor with a capturing printer.
pub fn run_batch_full(defs: &str, query: &str, files: &[Vec<u8>], opts: &RunOpts) -> RunResult {
    let paths: Vec<PathBuf> = files.iter().map(|c| tmp_file(c)).collect();
    let r = run_batch_paths(defs, query, &paths, opts);
    for p in paths {
        let _ = std::fs::remove_file(p);
    }
    r
}

pub fn run_batch_paths(defs: &str, query: &str, paths: &[PathBuf], opts: &RunOpts) -> RunResult {
    let mut total_lines = 0u64;
    let res = catch(|| -> Result<Vec<String>, String> {
        let tables = parse_tables(defs)?;
        let statement = sqlgrep::parsing::parse(query).map_err(|e| format!("parse: {}", e))?;
        match statement {
            Statement::Select(_) | Statement::Aggregate(_) => {}
            _ => return Err("not a query".to_owned()),
        }
        let mut fs = Vec::new();
        for p in paths {
            fs.push(File::open(p).map_err(|e| format!("open: {}", e))?);
        }
        let running = Arc::new(AtomicBool::new(true));
        let display = DisplayOptions { output_format: opts.format.clone(), single_result: opts.single_result, print_result: true };
        let engine = ExecutionEngine::new(&tables, &statement);
        let mut executor = FileExecutor::with_output_printer(running, fs, display, CapturePrinter::new(), engine)
            .map_err(|e| format!("io: {}", e))?;
        let r = executor.execute();
        total_lines = executor.statistics().total_lines;
        let lines = executor.output_printer().printer().lines.clone();
        match r {
            Ok(()) => Ok(lines),
            Err(e) => Err(format!("exec: {} after {:?}", e, lines)),
        }
    });
    let outcome = match res {
        Caught::Done(Ok(lines)) => Outcome::Lines(lines),
        Caught::Done(Err(e)) => Outcome::Error(e),
        Caught::Panic(m) => Outcome::Panic(m),
    };
    RunResult { outcome, total_lines }
}

pub fn run_batch(defs: &str, query: &str, input: &str) -> Outcome {
    run_batch_full(defs, query, &[input.as_bytes().to_vec()], &RunOpts::default()).outcome
}

pub fn run_batch_fmt(defs: &str, query: &str, input: &str, format: OutputFormat) -> Outcome {
    run_batch_full(defs, query, &[input.as_bytes().to_vec()], &RunOpts { format, single_result: false }).outcome
}

pub fn run_batch_files(defs: &str, query: &str, files: &[&str]) -> Outcome {
    let fs: Vec<Vec<u8>> = files.iter().map(|f| f.as_bytes().to_vec()).collect();
    run_batch_full(defs, query, &fs, &RunOpts::default()).outcome
}

#[derive(Debug, Clone, PartialEq)]
pub enum RowsOutcome {
    Rows { columns: Vec<String>, rows: Vec<Vec<Value>> },
    Error(String),
    Panic(String),
}

/// Feed lines one at a time with the default (update+result) config; returns, per line, the result rows (if any).
pub fn run_incremental(defs: &str, query: &str, lines: &[String]) -> Result<Vec<Option<(Vec<String>, Vec<Vec<Value>>)>>, Outcome> {
    let res = catch(|| -> Result<Vec<Option<(Vec<String>, Vec<Vec<Value>>)>>, String> {
        let tables = parse_tables(defs)?;
        let statement = sqlgrep::parsing::parse(query).map_err(|e| format!("parse: {}", e))?;
        let mut engine = ExecutionEngine::new(&tables, &statement);
        let mut out = Vec::new();
        for line in lines {
            let o = engine.execute(line.clone(), &ExecutionConfig::default()).map_err(|e| format!("exec: {}", e))?;
            out.push(o.result_row.map(|r| (r.columns, r.data.into_iter().map(|x| x.columns).collect())));
        }
        Ok(out)
    });
    match res {
        Caught::Done(Ok(v)) => Ok(v),
        Caught::Done(Err(e)) => Err(Outcome::Error(e)),
        Caught::Panic(m) => Err(Outcome::Panic(m)),
    }
}

/// Batch semantics at engine level: update-only per line, then one result. Returns the table.
pub fn run_engine_batch(defs: &str, query: &str, lines: &[String]) -> RowsOutcome {
    let res = catch(|| -> Result<(Vec<String>, Vec<Vec<Value>>), String> {
        let tables = parse_tables(defs)?;
        let statement = sqlgrep::parsing::parse(query).map_err(|e| format!("parse: {}", e))?;
        let mut engine = ExecutionEngine::new(&tables, &statement);
        let config = engine.execution_config();
        let mut columns = Vec::new();
        let mut rows = Vec::new();
        for line in lines {
            let o = engine.execute(line.clone(), &config).map_err(|e| format!("exec: {}", e))?;
            if let Some(r) = o.result_row {
                columns = r.columns;
                rows.extend(r.data.into_iter().map(|x| x.columns));
            }
            if o.reached_limit {
                break;
            }
        }
        if engine.is_aggregate() {
            let o = engine.execute(String::new(), &ExecutionConfig::aggregate_result()).map_err(|e| format!("exec: {}", e))?;
            if let Some(r) = o.result_row {
                columns = r.columns;
                rows = r.data.into_iter().map(|x| x.columns).collect();
            }
        }
        Ok((columns, rows))
    });
    match res {
        Caught::Done(Ok((columns, rows))) => RowsOutcome::Rows { columns, rows },
        Caught::Done(Err(e)) => RowsOutcome::Error(e),
        Caught::Panic(m) => RowsOutcome::Panic(m),
    }
}
