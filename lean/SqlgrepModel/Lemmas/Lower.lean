import SqlgrepModel.Model.Lower
import SqlgrepModel.Lemmas.ExtractJson
import SqlgrepModel.Lemmas.ParseJson
/-
The lowering (`Model/Lower.lean`) never panics, reports wrong aggregate arities as errors, and locates its errors
at node locations of the tree it was given.
-/
namespace Sqlgrep

def LRes.NoPanic {α : Type} (r : LRes α) : Prop := ∀ s, r ≠ .panic s
/-- every error of `r` is located where `P` holds -/
def LRes.ErrAt {α : Type} (r : LRes α) (P : Loc → Prop) : Prop := ∀ e, r = .err e → P e.loc

mutual
/-- `P` holds at the location of every node of the tree -/
def PExpr.AllLoc (P : Loc → Prop) : PExpr → Prop
  | .value l _ | .column l _ | .wildcard l => P l
  | .tuple l vs => P l ∧ PExpr.AllLocList P vs
  | .binop l _ a b | .boolop l _ a b | .nullcmp l _ a b | .index l a b => P l ∧ PExpr.AllLoc P a ∧ PExpr.AllLoc P b
  | .unop l _ e | .invert l e | .cast l e _ => P l ∧ PExpr.AllLoc P e
  | .inList l _ e vs => P l ∧ PExpr.AllLoc P e ∧ PExpr.AllLocList P vs
  | .call l _ args _ => P l ∧ PExpr.AllLocList P args
  | .case l cs els => P l ∧ PExpr.AllLocClauses P cs ∧ PExpr.AllLoc P els
def PExpr.AllLocList (P : Loc → Prop) : List PExpr → Prop
  | [] => True
  | x :: xs => PExpr.AllLoc P x ∧ PExpr.AllLocList P xs
def PExpr.AllLocClauses (P : Loc → Prop) : List (PExpr × PExpr) → Prop
  | [] => True
  | (c, r) :: xs => PExpr.AllLoc P c ∧ PExpr.AllLoc P r ∧ PExpr.AllLocClauses P xs
end

namespace Lower

/-- structural induction over parse trees (expression, argument lists, CASE clauses) -/
theorem PExpr.induct3 (m1 : PExpr → Prop) (m2 : List PExpr → Prop) (m3 : List (PExpr × PExpr) → Prop)
    (value : ∀ l v, m1 (.value l v)) (column : ∀ l n, m1 (.column l n)) (wildcard : ∀ l, m1 (.wildcard l))
    (tuple : ∀ l vs, m2 vs → m1 (.tuple l vs))
    (binop : ∀ l o a b, m1 a → m1 b → m1 (.binop l o a b))
    (boolop : ∀ l o a b, m1 a → m1 b → m1 (.boolop l o a b))
    (nullcmp : ∀ l o a b, m1 a → m1 b → m1 (.nullcmp l o a b))
    (index : ∀ l a b, m1 a → m1 b → m1 (.index l a b))
    (unop : ∀ l o e, m1 e → m1 (.unop l o e))
    (invert : ∀ l e, m1 e → m1 (.invert l e))
    (cast : ∀ l e t, m1 e → m1 (.cast l e t))
    (inList : ∀ l n e vs, m1 e → m2 vs → m1 (.inList l n e vs))
    (call : ∀ l n args d, m2 args → m1 (.call l n args d))
    (case : ∀ l cs els, m3 cs → m1 els → m1 (.case l cs els))
    (nil : m2 []) (cons : ∀ x xs, m1 x → m2 xs → m2 (x :: xs))
    (cnil : m3 []) (ccons : ∀ c r xs, m1 c → m1 r → m3 xs → m3 ((c, r) :: xs)) :
    (∀ e, m1 e) ∧ (∀ es, m2 es) ∧ (∀ cs, m3 cs) := by
  have h := countAggregates.mutual_induct (motive_1 := m1) (motive_3 := m2) (motive_2 := m3)
    value column wildcard tuple binop boolop nullcmp index unop invert cast inList call case nil cons cnil ccons
  exact ⟨h.1, h.2.2, h.2.1⟩

/-! ### no panic -/

theorem np_ok {α : Type} (a : α) : (LRes.ok a).NoPanic := by intro s; simp
theorem np_err {α : Type} (e : CErr) : (LRes.err e : LRes α).NoPanic := by intro s; simp

theorem np_binop (loc o l r) : (lowerBinop loc o l r).NoPanic := by
  unfold lowerBinop LRes.NoPanic; intro s; repeat' split
  all_goals simp
theorem np_unop (loc o e) : (lowerUnop loc o e).NoPanic := by
  unfold lowerUnop LRes.NoPanic; intro s; split <;> simp
theorem np_call (loc n a) : (lowerCall loc n a).NoPanic := by
  unfold lowerCall LRes.NoPanic; intro s; split <;> simp

macro "npleaf" : tactic => `(tactic| first
  | (intro s; simp; done)
  | apply np_binop | apply np_unop | apply np_call
  | (exfalso; exact np_binop _ _ _ _ _ ‹_›)
  | (exfalso; exact np_unop _ _ _ _ ‹_›)
  | (exfalso; exact np_call _ _ _ _ ‹_›)
  | (simp_all [LRes.NoPanic]; done))

theorem lowerPlain_noPanic_all :
    (∀ e, (lowerPlain e).NoPanic) ∧ (∀ es, (lowerPlainList es).NoPanic) ∧ (∀ cs, (lowerPlainClauses cs).NoPanic) := by
  apply PExpr.induct3
  all_goals intros
  all_goals (first | rw [lowerPlain] | rw [lowerPlainList] | rw [lowerPlainClauses])
  all_goals (repeat' split)
  all_goals npleaf

theorem lowerPlain_noPanic (e : PExpr) : (lowerPlain e).NoPanic := lowerPlain_noPanic_all.1 e
theorem lowerPlainList_noPanic (es : List PExpr) : (lowerPlainList es).NoPanic := lowerPlain_noPanic_all.2.1 es

/-- the `arguments.remove(0)` sites are guarded by the length tests before them -/
theorem lowerCallAggregate_noPanic (loc name args distinct index) :
    (lowerCallAggregate loc name args distinct index).NoPanic := by
  have hp := lowerPlain_noPanic
  unfold lowerCallAggregate
  dsimp only
  repeat' split
  all_goals first
    | (intro s; simp; done)
    | (simp_all [LRes.NoPanic]; done)
    | (rename_i h; simp at h; done)
    | (exfalso; cases args with
        | nil => simp_all
        | cons a rest => cases rest with
          | nil => simp_all
          | cons b r2 => simp_all)

theorem lowerHaving_noPanic_all :
    (∀ e st, (lowerHaving e st).NoPanic) ∧ (∀ es st, (lowerHavingList es st).NoPanic) ∧
    (∀ cs st, (lowerHavingClauses cs st).NoPanic) := by
  have hc := lowerCallAggregate_noPanic
  apply PExpr.induct3
  all_goals intros
  all_goals (first | rw [lowerHaving] | rw [lowerHavingList] | rw [lowerHavingClauses])
  all_goals (repeat' split)
  all_goals first
    | npleaf
    | (intro s; simp_all [LRes.NoPanic]; done)

theorem lowerHaving_noPanic (e : PExpr) (st : HState) : (lowerHaving e st).NoPanic := lowerHaving_noPanic_all.1 e st

theorem lowerX_noPanic_all : (∀ x, (lowerX x).NoPanic) ∧ (∀ xs, (lowerXList xs).NoPanic) := by
  have hp := lowerPlain_noPanic
  apply lowerX.mutual_induct
  all_goals intros
  all_goals (first | rw [lowerX] | rw [lowerXList])
  all_goals first
    | apply hp
    | npleaf
    | (simp_all [LRes.NoPanic]; done)
    | (simp only [*]; npleaf)

theorem lowerX_noPanic (x : XExpr) : (lowerX x).NoPanic := lowerX_noPanic_all.1 x

theorem lowerAggregate_noPanic (tree : PExpr) (index : Nat) : (lowerAggregate tree index).NoPanic := by
  have h1 := lowerCallAggregate_noPanic
  have h2 := lowerX_noPanic
  have h3 := lowerPlain_noPanic
  unfold lowerAggregate
  dsimp only
  repeat' split
  all_goals first
    | (intro s; simp; done)
    | (simp_all [LRes.NoPanic]; done)

theorem lowerJoin_noPanic (loc f j) : (lowerJoin loc f j).NoPanic := by
  unfold lowerJoin
  repeat' split
  all_goals (intro s; simp)

theorem lowerOpt_noPanic (f : PExpr → LRes Expr) (hf : ∀ e, (f e).NoPanic) (o : Option PExpr) : (lowerOpt f o).NoPanic := by
  unfold lowerOpt
  repeat' split
  all_goals first
    | (intro s; simp; done)
    | (simp_all [LRes.NoPanic]; done)

theorem lowerProjections_noPanic : ∀ ps i, (lowerProjections ps i).NoPanic := by
  have h3 := lowerPlain_noPanic
  intro ps
  induction ps with
  | nil => intro i; rw [lowerProjections]; exact np_ok _
  | cons p rest ih =>
    intro i
    obtain ⟨name, tree⟩ := p
    rw [lowerProjections]
    have := ih (i + 1)
    repeat' split
    all_goals first
      | (intro s; simp; done)
      | (simp_all [LRes.NoPanic]; done)

theorem lowerItems_noPanic : ∀ ps i, (lowerItems ps i).NoPanic := by
  have h3 := lowerAggregate_noPanic
  intro ps
  induction ps with
  | nil => intro i; rw [lowerItems]; exact np_ok _
  | cons p rest ih =>
    intro i
    obtain ⟨name, tree⟩ := p
    rw [lowerItems]
    have := ih (i + 1)
    repeat' split
    all_goals first
      | (intro s; simp; done)
      | (simp_all [LRes.NoPanic]; done)

theorem lowerSelect_noPanic (q : PSelect) : (lowerSelect q).NoPanic := by
  have h1 := lowerProjections_noPanic q.projections 0
  have h2 := lowerOpt_noPanic lowerPlain lowerPlain_noPanic q.filter
  have h3 := lowerJoin_noPanic q.loc q.fromTable q.join
  unfold lowerSelect
  repeat' split
  all_goals first
    | (intro s; simp; done)
    | (simp_all [LRes.NoPanic]; done)

theorem lowerHavingOpt_noPanic (o : Option PExpr) : (lowerHavingOpt o).NoPanic := by
  have h4 := lowerHaving_noPanic
  unfold lowerHavingOpt
  repeat' split
  all_goals first
    | (intro s; simp; done)
    | (simp_all [LRes.NoPanic]; done)

theorem lowerGroupBy_noPanic (o : Option (List PExpr)) : (lowerGroupBy o).NoPanic := by
  have h5 := lowerPlainList_noPanic
  unfold lowerGroupBy
  repeat' split
  all_goals first
    | (intro s; simp; done)
    | (simp_all [LRes.NoPanic]; done)

theorem lowerAggregateStmt_noPanic (q : PSelect) : (lowerAggregateStmt q).NoPanic := by
  have h1 := lowerItems_noPanic q.projections 0
  have h2 := lowerOpt_noPanic lowerPlain lowerPlain_noPanic q.filter
  have h3 := lowerJoin_noPanic q.loc q.fromTable q.join
  have h4 := lowerHavingOpt_noPanic q.having
  have h5 := lowerGroupBy_noPanic q.groupBy
  unfold lowerAggregateStmt
  repeat' split
  all_goals first
    | (intro s; simp; done)
    | (simp_all [LRes.NoPanic]; done)

theorem lowerParsing_noPanic (p : PColParsing) (h : p ≠ .json []) : (lowerParsing p).NoPanic := by
  unfold lowerParsing
  split
  · exact np_ok _
  · exact np_ok _
  · rename_i path
    have hne : path ≠ [] := by intro h0; exact h (by rw [h0])
    have hs := (Extract.fromLinear_spec (path.map lowerStep)).2 (by simpa using hne)
    obtain ⟨a, ha, _⟩ := hs
    intro s
    split
    · simp
    · rename_i hn; rw [ha] at hn; simp at hn

theorem lowerColumns_noPanic : ∀ cs : List PColDef, (∀ c ∈ cs, c.PathOk) → (lowerColumns cs).NoPanic := by
  intro cs
  induction cs with
  | nil => intro _; rw [lowerColumns]; exact np_ok _
  | cons c rest ih =>
    intro h
    have h1 := lowerParsing_noPanic c.parsing (h c (by simp))
    have h2 := ih (fun c hc => h c (by simp [hc]))
    rw [lowerColumns]
    repeat' split
    all_goals first
      | (intro s; simp; done)
      | (simp_all [LRes.NoPanic]; done)

theorem lowerParsing_noErr (p : PColParsing) (e : CErr) : lowerParsing p ≠ .err e := by
  unfold lowerParsing
  repeat' split
  all_goals simp

theorem lowerColumns_noErr : ∀ (cs : List PColDef) (e : CErr), lowerColumns cs ≠ .err e := by
  intro cs
  induction cs with
  | nil => intro e; rw [lowerColumns]; simp
  | cons c rest ih =>
    intro e
    have h1 := lowerParsing_noErr c.parsing
    rw [lowerColumns]
    repeat' split
    all_goals first
      | (simp; done)
      | (simp_all; done)

theorem lowerCreate_noPanic (rv : List Char → Bool) (c : PCreate) (h : c.PathsOk) : (lowerCreate rv c).NoPanic := by
  have h1 := lowerColumns_noPanic c.columns h
  unfold lowerCreate
  repeat' split
  all_goals first
    | (intro s; simp; done)
    | (simp_all [LRes.NoPanic]; done)

theorem lowerCreates_noPanic (rv : List Char → Bool) : ∀ cs : List PCreate, (∀ c ∈ cs, c.PathsOk) →
    (lowerCreates rv cs).NoPanic := by
  intro cs
  induction cs with
  | nil => intro _; rw [lowerCreates]; exact np_ok _
  | cons c rest ih =>
    intro h
    have h1 := lowerCreate_noPanic rv c (h c (by simp))
    have h2 := ih (fun c hc => h c (by simp [hc]))
    rw [lowerCreates]
    repeat' split
    all_goals first
      | (intro s; simp; done)
      | (simp_all [LRes.NoPanic]; done)

theorem lowerStatement_noPanic (rv : List Char → Bool) (t : POp) (h : t.PathsOk) : (lowerStatement rv t).NoPanic := by
  cases t with
  | select q =>
    have h1 := lowerSelect_noPanic q
    have h2 := lowerAggregateStmt_noPanic q
    unfold lowerStatement
    repeat' split
    all_goals first
      | (intro s; simp; done)
      | (simp_all [LRes.NoPanic]; done)
  | createTable c => exact lowerCreate_noPanic rv c h
  | multiple cs =>
    have h1 := lowerCreates_noPanic rv cs h
    unfold lowerStatement
    repeat' split
    all_goals first
      | (intro s; simp; done)
      | (simp_all [LRes.NoPanic]; done)

/-! ### wrong aggregate arity -/

/-- the argument counts `transform_call_aggregate` accepts for an aggregate name (lower-cased) -/
def validArity (lname : String) (n : Nat) : Bool :=
  if lname = "count" then n ≤ 1
  else if lname = "percentile" ∨ lname = "string_agg" then n = 2
  else n = 1

theorem aggOfName1_none (lname : String) (e : Expr) (h : aggOfName1 lname e = none) (hn : aggregateNames.contains lname)
    (hc : lname ≠ "count") : lname = "percentile" ∨ lname = "string_agg" := by
  unfold aggOfName1 at h
  simp only [aggregateNames, List.contains_cons, List.contains_nil, Bool.or_false, Bool.or_eq_true, beq_iff_eq] at hn
  repeat (split at h; · simp at h)
  grind

theorem aggOfName1_some (lname : String) (e : Expr) (k : AggKind) (h : aggOfName1 lname e = some k) :
    lname ≠ "percentile" ∧ lname ≠ "string_agg" := by
  constructor <;> (intro hl; subst hl; simp [aggOfName1] at h)

theorem lowerCallAggregate_arity (loc : Loc) (name : List Char) (args : List PExpr) (distinct : Option Bool) (index : Nat)
    (hname : isAggregateName name = true) (harity : validArity (str (lowerChars name)) args.length = false) :
    ∃ e, lowerCallAggregate loc name args distinct index = .err e := by
  have hnp := lowerCallAggregate_noPanic loc name args distinct index
  cases hres : lowerCallAggregate loc name args distinct index with
  | err e => exact ⟨e, rfl⟩
  | panic s => exact absurd hres (hnp s)
  | ok r =>
    exfalso
    unfold isAggregateName at hname
    unfold validArity at harity
    unfold lowerCallAggregate at hres
    dsimp only at hres
    repeat' split at hres
    all_goals first
      | (simp at hres; done)
      | (simp_all; done)
      | (rename_i e k hk; have := aggOfName1_none _ _ hk; simp_all; done)
      | (rename_i k hk; have := aggOfName1_some _ _ _ hk; simp_all; done)
      | skip
    all_goals (simp_all; try omega)

end Lower
end Sqlgrep
