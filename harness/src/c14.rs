// C14: parsing is total — for every input text, parsing a query or a table definition ends with a statement or an
// error whose position lies inside the text and whose 'near …' excerpt can be produced; never a panic; malformed table
// definitions / aggregate calls / numbers are rejected with an error.
//
// Correspondence (case kind `pstmt`): the token vector the real tokenizer produced for the text (or a mutation of it)
// is run through the real `Parser::parse` and through the Lean model `Parse.parseTokens`; compared: the canonical
// rendering of the tree (every node with its location) or the error kind + payload + location.
// Oracle on the implementation, for every generated *text*: `parsing::parse(text)` does not panic; an error's location
// lies inside the text (line index below the number of `\n`-separated lines, column at most the length of that line);
// `location().extract_near(text)` does not panic; texts built to be invalid (bad regex, empty JSON path, wrong
// aggregate arity, out-of-range number) are rejected with an error.
use sqlgrep::parsing::verif_hooks::{ParserToken, Token};
use sqlgrep::parsing::{parse, CommonParserError};

use crate::run::{Params, Run};
use crate::stmtcases::*;
use crate::util::{catch, hexs, Caught, Rng};

#[derive(Clone, Copy, PartialEq)]
pub enum Expect { Any, MustReject }

fn short(text: &str) -> String {
    let t: String = text.chars().take(400).collect();
    format!("text {:?}", t)
}

/// the property oracle on the implementation for one text; returns the result kind (for tags)
pub fn oracle_text(run: &mut Run, text: &str, expect: Expect) -> String {
    run.oracle_checks += 1;
    let r = catch(|| parse(text));
    match r {
        Caught::Panic(m) => {
            run.fail(short(text), "panic:parse", format!("parsing::parse panicked: {}", m));
            "panic".to_owned()
        }
        Caught::Done(Ok(_)) => {
            if expect == Expect::MustReject {
                run.fail(short(text), "accepted-invalid", "a statement that must be rejected (invalid pattern / empty JSON path / aggregate arity / number out of range) was accepted".to_owned());
            }
            "ok".to_owned()
        }
        Caught::Done(Err(e)) => {
            let loc = e.location().clone();
            let segs: Vec<&str> = text.split('\n').collect();
            let inside = loc.line < segs.len() && loc.column <= segs[loc.line].chars().count();
            if !inside {
                run.fail(short(text), "location-outside", format!("error location {}:{} is outside the text ({} lines)", loc.line, loc.column, segs.len()));
            }
            match catch(|| loc.extract_near(text)) {
                Caught::Panic(m) => run.fail(short(text), "panic:extract_near", format!("extract_near panicked at {}:{}: {}", loc.line, loc.column, m)),
                Caught::Done(near) => {
                    // the excerpt is made of words of the located line
                    if let Some(line) = text.lines().nth(loc.line) {
                        for w in near.split(' ') {
                            // the sentence says the excerpt CAN BE PRODUCED; that it is made of words of the located line is what
                            // `C14Lex.excerpt_is_piece` proves of the model and the correspondence compares — counted, not demanded
                            if !line.contains(w) { run.count("near-not-in-line"); break; }
                        }
                    }
                }
            }
            match &e {
                CommonParserError::ParserError(pe) => format!("perr-{}", err_kind_name(&pe.error)),
                CommonParserError::ConvertParserTreeError(ce) => {
                    let s = format!("{:?}", ce.error);
                    format!("cerr-{}", s.split(|c: char| !c.is_alphanumeric()).next().unwrap_or(""))
                }
            }
        }
    }
}

/// correspondence case for a token vector
pub fn case_tokens(run: &mut Run, tokens: Vec<ParserToken>, gen: &str, desc: &str) {
    let line = format!("pstmt {}", tokens_sexp(&tokens));
    let (answer, kind) = run_parser(tokens);
    // a panic on a vector the tokenizer produced for a text is a C14 failure; on hand-made vectors (token mutations,
    // vectors without End) it is only a model/implementation disagreement: no text reaches the parser that way
    if kind == "panic" && !gen.starts_with("tok-") {
        run.fail(desc.to_owned(), "panic:parser", "Parser::parse panicked on the token vector of this text".to_owned());
    }
    run.count(&format!("result:{}", kind));
    run.case_with_desc(line, answer, format!("{}:{}", gen, kind), desc.to_owned());
}

/// one generated text: oracle on the implementation + (when it tokenizes) the correspondence case
pub fn check_text(run: &mut Run, text: &str, gen: &str, expect: Expect) -> Option<Vec<ParserToken>> {
    let kind = oracle_text(run, text, expect);
    run.count(&format!("text:{}", gen));
    run.count(&format!("parse:{}", kind.split('-').next().unwrap_or("")));
    match tokenize_caught(text) {
        Caught::Done(Ok(tokens)) => {
            case_tokens(run, tokens.clone(), gen, &short(text));
            // the whole pipeline tokens -> tree -> statement against the model's parser + lowering
            let (answer, skind) = run_parse(text);
            run.count(&format!("lowered:{}", skind));
            run.case_with_desc(format!("stmt {} {}", tokens_sexp(&tokens), regex_oracle(&tokens)), answer, format!("stmt:{}:{}", gen, skind), short(text));
            Some(tokens)
        }
        Caught::Done(Err(_)) => { run.count("tokenize-error"); run.tags.insert(format!("{}:{}", gen, kind)); None }
        Caught::Panic(m) => { run.fail(short(text), "panic:tokenize", m); None }
    }
}

const BAD_PATTERNS: &[&str] = &["(", "[a", "*a", "a{2,1}", "(?P<n", "x)", "(?z)", "a**", "[z-a]"];
const BAD_NUMBERS: &[&str] = &["99999999999999999999", "9223372036854775808", "18446744073709551616"];
/// digits outside ASCII: the sentence speaks of numbers OUT OF RANGE, not of which characters are digits — whatever the program
/// answers must be a statement or a located error (no panic), rejection is not demanded
const ODD_NUMBERS: &[&str] = &["٣", "1²", "１２"];

const NEAR_MISS: &[&str] = &[
    "SELECT x FROM t; SELECT y FROM t", "SELECT x FROM t;;", "SELECT x FROM t LIMIT 1; x", "SELECT x FROM t WHERE x = 1; ;",
    "CREATE TABLE t(line = 'a', line[1] => x INT); SELECT x FROM t", "CREATE TABLE t(line = 'a', line[1] => x INT);;",
    "CREATE TABLE t(line = 'a', line[1] => x INT) SELECT", "CREATE TABLE t(line = 'a', line[1] => x INT); CREATE",
    "CREATE TABLE t(line = 'a', line[1] => x TEXT DEFAULT 1);", "CREATE TABLE t(line = 'a', line[1] => x INT DEFAULT 'a');",
    "CREATE TABLE t(line = 'a', line[1] => x INT TRIM);", "CREATE TABLE t(line = 'a', line[1] => x REAL DEFAULT 1);",
    "CREATE TABLE t(line = 'a', line[1] => x TEXT[] DEFAULT 'a');", "CREATE TABLE t(line = 'a', line[1] => x INT DEFAULT (1));",
    "CREATE TABLE t(line = 'a', line[1] => x INT DEFAULT y);", "CREATE TABLE t(line = 'a', line[1] => x INT DEFAULT -1);",
    "CREATE TABLE t(line = 'a', line[1] => x INT DEFAULT NULL);", "CREATE TABLE t(line = 'a', line[1] => x BOOLEAN DEFAULT 1.5);",
    "CREATE TABLE t(line = 'a', line[1] => x FOO);", "CREATE TABLE t(line = 'a', line[1] => x INT[);",
    "CREATE TABLE t(line = 'a', line[1] => x INT[]]);", "CREATE TABLE t(line = 'a', line[1] => x İNT);",
    "CREATE TABLE t(line = 'a', line[1] => x TEXT trim, line[1] => y TEXT Trim NOT NULL);",
    "CREATE TABLE t(line = Split 'a', line[1], => x INT);", "CREATE TABLE t(line = 'a', line[1], line => x INT);",
    "CREATE TABLE t(line = 'a', line[1], line[2] x INT);", "CREATE TABLE t(line 'a');", "CREATE TABLE t({ .a . } => x INT);",
    "CREATE TABLE t({ .a [x] } => x INT);", "CREATE TABLE t({ .a [1 } => x INT);", "CREATE TABLE t({ a } => x INT);",
    "CREATE t(line = 'a');", "CREATE TABLE 't'();", "CREATE TABLE t;", "CREATE TABLE t(", "CREATE TABLE t()", "CREATE TABLE t(,);",
    // (`EXTRACT(É FROM x)` left out: Model/ParseExpr.lean lower-cases ASCII only; reported to the owner of that file)
    "SELECT EXTRACT(Hour FROM x) FROM t", "SELECT EXTRACT(hour x) FROM t", "SELECT EXTRACT hour FROM x FROM t", "SELECT x AS FROM t",
    "SELECT x AS 'y' FROM t", "SELECT x y FROM t", "SELECT x FROM 't'", "SELECT x FROM t::f", "SELECT x FROM t:: 'f' WHERE",
    "SELECT x FROM t INNER u", "SELECT x FROM t INNER JOIN u ON t.k = u.k", "SELECT x FROM t INNER JOIN u::'f' t.k = u.k",
    "SELECT x FROM t INNER JOIN u::'f' ON t = u.k", "SELECT x FROM t INNER JOIN u::'f' ON t.k < u.k",
    "SELECT x FROM t INNER JOIN u::'f' ON t.k = u", "SELECT x FROM t OUTER JOIN u::f ON t.k = u.k", "SELECT x FROM t GROUP x",
    "SELECT x FROM t GROUP BY", "SELECT x FROM t GROUP BY x,", "SELECT x FROM t LIMIT x", "SELECT x FROM t LIMIT 1.5",
    "SELECT x FROM t LIMIT -1", "SELECT x FROM t HAVING", "SELECT x FROM t ORDER BY x", "SELECT x FROM t WHERE",
    "SELECT DISTINCT FROM t", "SELECT DISTINCT DISTINCT x FROM t", "SELECT", "CREATE", ";", "", "SELECT x, FROM t", "SELECT x FROM",
    "SELECT a :: b FROM t", "SELECT a::int::text FROM t", "SELECT a.b.c FROM t", "SELECT 1.b FROM t", "SELECT a.1 FROM t",
    "SELECT (a, b FROM t", "SELECT (a b) FROM t", "SELECT (a +, b) FROM t", "SELECT f(a b) FROM t", "SELECT x IN 1 FROM t",
    "SELECT x NOT IN y FROM t", "SELECT ! x FROM t", "SELECT x ! y FROM t", "SELECT x % y FROM t", "SELECT * x FROM t",
    "SELECT count(DISTINCT) FROM t", "SELECT count(DISTINCT x, y) FROM t", "SELECT sum(DISTINCT x) FROM t", "SELECT ARRAY[] FROM t",
    "SELECT array[1, 2 FROM t", "SELECT Array [1] [0] FROM t", "SELECT CASE x FROM t", "SELECT CASE WHEN x THEN y END FROM t",
    "SELECT CASE WHEN x THEN y ELSE z FROM t", "SELECT CASE WHEN x y FROM t",
    // the lowering's arms (naming, aggregate extraction, HAVING, join sides)
    "SELECT sum(x) + max(y) FROM t", "SELECT k + sum(x) FROM t", "SELECT sum(x) + k FROM t", "SELECT 1 + sum(x) FROM t",
    "SELECT x FROM t HAVING x > 1", "SELECT x FROM t INNER JOIN u::'f' ON a.k = b.k", "SELECT x FROM t INNER JOIN u::'f' ON t.k = z.k",
    "SELECT x FROM t OUTER JOIN u::'f' ON z.k = t.k", "SELECT x FROM t INNER JOIN u::'f' ON u.a = t.b", "SELECT x FROM t INNER JOIN t::'f' ON t.a = t.b",
    "SELECT percentile(x, 1) FROM t", "SELECT string_agg(x, 1) FROM t", "SELECT count(x + 1) FROM t", "SELECT count(t.x), count(*), COUNT(DISTINCT *) FROM t",
    "SELECT abs(sum(x)), upper(lower(max(k))) FROM t", "SELECT sum(x) * 2 + 1, -max(x), NOT bool_and(b), max(x)::text, arr[count(*)], sum(x) IS NULL FROM t",
    "SELECT sum(x) > 1 AND true, greatest(sum(x), 1, 2), greatest(1, k, sum(x)) FROM t", "SELECT foo(sum(x)), foo(x) FROM t", "SELECT abs(x, sum(y), z) AS a, k FROM t GROUP BY k",
    "SELECT k FROM t GROUP BY k HAVING abs(sum(x)) > 1 AND k IN (1, max(x))", "SELECT k FROM t GROUP BY k HAVING CASE WHEN sum(x) > 1 THEN k ELSE 'a' END = k",
    "SELECT k FROM t GROUP BY k HAVING foo(x) > 1", "SELECT k FROM t GROUP BY k HAVING (1, 2)", "SELECT k FROM t GROUP BY k HAVING count(x, y) > 1",
    "SELECT k FROM t GROUP BY k HAVING percentile(x) > 1", "SELECT k FROM t GROUP BY k HAVING -sum(x) < k::int AND NOT a[0] IS NULL OR abs(k) = count(DISTINCT k)",
    "SELECT k FROM t GROUP BY (k, 1)", "SELECT k FROM t GROUP BY k + 1, abs(k), foo(k)", "SELECT (CASE WHEN x THEN sum(y) ELSE 0 END) FROM t", "SELECT x IN (sum(y)) FROM t",
    "SELECT (sum(x), 1) FROM t", "SELECT percentile(x, 1.5), percentile(x, 0.0), PERCENTILE(x, 0.25) AS p FROM t", "SELECT Sum(x), MAX(x) AS m, x, x AS y, x + 1, * FROM t GROUP BY x",
    "SELECT *, x, 1, 'a', x AS y FROM t WHERE foo(x)", "SELECT x ^ 2 FROM t", "SELECT x FROM t WHERE (1, 2) = x", "SELECT create_array(1, x), ARRAY[sum(x)] FROM t",
    "SELECT EXTRACT(EPOCH FROM max(ts)), EXTRACT(week FROM ts) FROM t", "SELECT count() FROM t::'file' INNER JOIN u::'f' ON u.k = t.k LIMIT 3",
    "SELECT * FROM t", "SELECT *, * FROM t", "SELECT DISTINCT * FROM t LIMIT 2",
];

fn rejection_texts() -> Vec<String> {
    let mut v = Vec::new();
    for p in BAD_PATTERNS {
        if regex::Regex::new(p).is_err() {
            v.push(format!("CREATE TABLE t(line = '{}', line[1] => x TEXT);", p));
            v.push(format!("CREATE TABLE t('{}' => x INT);", p));
            // a pattern that no column refers to, before / after a good one, and in split mode: still rejected
            v.push(format!("CREATE TABLE t(unused = '{}', line = '(.*)', line[1] => x TEXT);", p));
            v.push(format!("CREATE TABLE t(line = '(.*)', other = split '{}', line[1] => x TEXT);", p));
            v.push(format!("CREATE TABLE ok(line = '(.*)', line[1] => x TEXT); CREATE TABLE t(line = split '{}', line[1] => x TEXT);", p));
        }
    }
    for n in BAD_NUMBERS {
        v.push(format!("CREATE TABLE t(line = '(.*)', line[{}] => x TEXT);", n));
        v.push(format!("CREATE TABLE t({{ .a[{}] }} => x TEXT);", n));
        v.push(format!("CREATE TABLE t(line = '(.*)', line[1] => x INT DEFAULT {});", n));
        v.push(format!("SELECT x FROM t LIMIT {}", n));
        v.push(format!("SELECT x FROM t WHERE x = {}", n));
        v.push(format!("SELECT x + {} FROM t", n));
    }
    for t in &["{ } => x INT", "{} => x INT", "{ } => x INT NOT NULL", "line = '(.*)', { } => x TEXT"] {
        v.push(format!("CREATE TABLE t({});", t));
    }
    for a in &["string_agg(x)", "STRING_AGG(x)", "percentile(x)", "sum()", "SUM(x, y)", "count(x, y)", "max(x, y, z)", "min()",
               "avg(x, 1)", "percentile(x, 0.5, 1)", "string_agg(x, ',', 1)", "array_agg()", "bool_and(a, b)", "stddev()", "variance(x, y)"] {
        v.push(format!("SELECT {} FROM t", a));
        v.push(format!("SELECT k, {} AS a FROM t GROUP BY k", a));
        v.push(format!("SELECT k FROM t GROUP BY k HAVING {} > 1", a));
    }
    v
}

fn permutations(n: usize) -> Vec<Vec<usize>> {
    if n == 0 { return vec![vec![]]; }
    let mut out = Vec::new();
    for p in permutations(n - 1) {
        for i in 0..=p.len() {
            let mut q = p.clone();
            q.insert(i, n - 1);
            out.push(q);
        }
    }
    out
}

fn run_inner(p: &Params) -> Run {
    let mut run = Run::new("C14");
    let mut rng = Rng::new(p.seed ^ 0xC14);
    let pool = token_pool();

    // --- texts that must be rejected with an error
    for t in rejection_texts() {
        check_text(&mut run, &t, "reject", Expect::MustReject);
    }
    for n in ODD_NUMBERS {
        for t in [format!("SELECT x FROM t LIMIT {}", n), format!("SELECT x + {} FROM t", n), format!("CREATE TABLE t(line = '(.*)', line[{}] => x TEXT);", n)] {
            check_text(&mut run, &t, "odd-digits", Expect::Any);
        }
    }

    // --- near misses aimed at the rarer error arms (trailing tokens, DEFAULT / TRIM type checks, type syntax)
    for t in NEAR_MISS {
        check_text(&mut run, t, "nearmiss", Expect::Any);
    }

    // --- README-style examples, each once, with every token prefix
    for t in README_STYLE.iter().chain(WIDE.iter()) {
        if let Some(tokens) = check_text(&mut run, t, "readme", Expect::Any) {
            token_prefixes(&mut run, &tokens, t);
        }
    }

    // --- valid statements and their mutations
    let nvalid = p.n(110, 2500);
    let all_prefix_every = p.n(6, 8);         // every n-th valid text gets *all* its char prefixes and token prefixes
    for i in 0..nvalid {
        let (text, kind) = gen_valid(&mut rng);
        let tokens = match check_text(&mut run, &text, kind, Expect::Any) { Some(t) => t, None => continue };
        let chars: Vec<char> = text.chars().collect();
        if i % all_prefix_every == 0 {
            for k in 0..chars.len() {
                let pre: String = chars[..k].iter().collect();
                oracle_text(&mut run, &pre, Expect::Any);
                run.count("text:char-prefix-oracle-only");
            }
            token_prefixes(&mut run, &tokens, &text);
        }
        for _ in 0..p.n(5, 8) {
            let k = rng.below(chars.len() + 1);
            let pre: String = chars[..k].iter().collect();
            check_text(&mut run, &pre, "prefix", Expect::Any);
        }
        let cs = chunks(&text, &tokens);
        for _ in 0..p.n(6, 10) {
            let (m, name) = mutate_chunks(&mut rng, &cs);
            check_text(&mut run, &m, &format!("text-{}", name), Expect::Any);
        }
        for _ in 0..p.n(4, 8) {
            let (m, name) = mutate_tokens(&mut rng, &tokens, &pool);
            case_tokens(&mut run, m, &format!("tok-{}", name), &format!("token mutation {} of {}", name, short(&text)));
        }
        if rng.chance(1, 10) {
            // a vector that does not end with End (the tokenizer never produces one; `next` must still answer)
            let mut m = tokens.clone();
            m.pop();
            if rng.chance(1, 2) && !m.is_empty() { let k = rng.below(m.len()); m.truncate(k + 1); }
            case_tokens(&mut run, m, "tok-noend", &format!("token vector without End of {}", short(&text)));
        }
    }

    // --- clause permutations and duplications
    for _ in 0..p.n(40, 600) {
        let q = gen_clause_query(&mut rng);
        let n = q.clauses.len();
        let mut perms = permutations(n);
        rng.shuffle(&mut perms);
        for order in perms.iter().take(p.n(5, 24)) {
            check_text(&mut run, &q.text(order, rng.chance(1, 3)), "clause-perm", Expect::Any);
        }
        if n > 0 {
            for _ in 0..2 {
                let mut order: Vec<usize> = (0..n).collect();
                rng.shuffle(&mut order);
                let dup = order[rng.below(n)];
                order.insert(rng.below(n + 1), dup);
                check_text(&mut run, &q.text(&order, false), "clause-dup", Expect::Any);
            }
        }
    }

    // --- deep nesting (documented bound: 200 levels)
    for kind in 0..10 {
        for depth in &[1usize, 2, 3, 10, 50, 100, 200] {
            check_text(&mut run, &deep(kind, *depth), "deep", Expect::Any);
        }
    }

    // --- long flat inputs
    long_inputs(&mut run, p.n(20_000, 100_000));
    chain_stream(&mut run, false, &[CHAIN_SAFE, 200_000]);
    chain_stream(&mut run, true, &[CHAIN_SAFE]);

    // --- token soups over the SQL vocabulary, random Unicode
    for _ in 0..p.n(450, 20000) {
        check_text(&mut run, &gen_soup(&mut rng), "soup", Expect::Any);
    }
    for _ in 0..p.n(400, 20000) {
        check_text(&mut run, &gen_unicode(&mut rng), "unicode", Expect::Any);
    }
    for _ in 0..p.n(150, 5000) {
        // soups of tokens (no text): the parser on arbitrary vectors over the vocabulary, End-terminated
        let n = rng.below(12);
        let mut v: Vec<ParserToken> = Vec::new();
        match rng.below(3) {
            0 => v.push(ParserToken::new(0, 0, Token::Keyword(sqlgrep::parsing::verif_hooks::Keyword::Select))),
            1 => v.push(ParserToken::new(0, 0, Token::Keyword(sqlgrep::parsing::verif_hooks::Keyword::Create))),
            _ => {}
        }
        for _ in 0..n {
            let mut t = rng.pick(&pool).clone();
            t.location.line = rng.below(3);
            t.location.column = v.len() * 2;
            v.push(t);
        }
        if !rng.chance(1, 12) { v.push(ParserToken::new(3, 0, Token::End)); }
        if v.is_empty() { continue; }
        case_tokens(&mut run, v, "tok-soup", "token soup");
    }
    // --- `f64::from_str` as computed by the Lean model (Model/DecFloat.lean) against the real one, on generated number texts
    let before = run.cases.len();
    crate::f64cases::stream(&mut run, &mut Rng::new(p.seed ^ 0xF64), p.n(1500, 40_000));
    run.notes.push(format!("f64parse cases (Lean parseF64 vs str::parse::<f64>): {}", run.cases.len() - before));
    run.notes.push(format!("texts checked by the oracle: {}; pstmt cases: {}", run.oracle_checks, run.cases.len()));
    let _ = hexs;
    run
}

fn token_prefixes(run: &mut Run, tokens: &[ParserToken], text: &str) {
    if tokens.is_empty() { return; }
    let end = tokens[tokens.len() - 1].clone();
    for k in 0..tokens.len() - 1 {
        let mut v: Vec<ParserToken> = tokens[..k].to_vec();
        let mut e = end.clone();
        e.location = tokens[k].location.clone();
        v.push(e);
        case_tokens(run, v, "tok-prefix", &format!("first {} tokens of {}", k, short(text)));
    }
}

// ---------------------------------------------------------------------------------------------
// long FLAT inputs ("any length"): lists of many elements are not nested, so no depth bound applies to them. Parsed in
// a child process on a thread with the stack of an ordinary main thread (8 MiB) — a parser that recurses once per list
// element overflows the machine stack there, which aborts the process (not catchable in-process).
// ---------------------------------------------------------------------------------------------

pub const LONG_KINDS: usize = 9;

pub fn long_flat(kind: usize, n: usize) -> String {
    let list = |item: &dyn Fn(usize) -> String, sep: &str| (0..n).map(|i| item(i)).collect::<Vec<_>>().join(sep);
    match kind % LONG_KINDS {
        0 => format!("SELECT x FROM t WHERE x IN ({})", list(&|i| i.to_string(), ", ")),
        1 => format!("SELECT x FROM t WHERE x NOT IN ({})", list(&|i| format!("'s{}'", i), ",")),
        2 => format!("SELECT array[{}] FROM t", list(&|i| i.to_string(), ", ")),
        3 => format!("SELECT greatest({}) FROM t", list(&|i| format!("x + {}", i), ", ")),
        4 => format!("SELECT {} FROM t", list(&|i| format!("x AS c{}", i), ", ")),
        5 => format!("SELECT COUNT(*) FROM t GROUP BY {}", list(&|i| format!("c{}", i), ", ")),
        6 => format!("CREATE TABLE t(line = '(.*)', {});", list(&|i| format!("line[1] => c{} TEXT", i), ", ")),
        7 => format!("CREATE TABLE t(line = '(.*)', {} => ts TEXT[]);", list(&|_| "line[1]".to_owned(), ", ")),
        _ => (0..n / 20 + 1).map(|i| format!("CREATE TABLE t{}(line = '(.*)', line[1] => x TEXT);", i)).collect::<Vec<_>>().join("\n"),
    }
}

/// `harness c14long <kind> <n>`: prints `ok` / `err` (either is a fine answer), or dies
pub fn long_child(kind: usize, n: usize) {
    let text = long_flat(kind, n);
    let h = std::thread::Builder::new().stack_size(8 << 20).spawn(move || {
        match sqlgrep::parsing::parse(&text) { Ok(_) => "ok", Err(_) => "err" }
    }).expect("spawn");
    match h.join() { Ok(w) => println!("{}", w), Err(_) => println!("panic") }
}

fn long_inputs(run: &mut Run, n: usize) {
    let exe = match std::env::current_exe() { Ok(e) => e, Err(_) => { run.count("long:no-exe"); return; } };
    for kind in 0..LONG_KINDS {
        let out = std::process::Command::new(&exe).args(["c14long", &kind.to_string(), &n.to_string()]).output();
        run.oracle_checks += 1;
        let desc = format!("{} … ({} elements; `harness c14long {} {}`)", long_flat(kind, 3), n, kind, n);
        match out {
            Err(_) => run.count("long:spawn-failed"),
            Ok(o) => {
                let said = String::from_utf8_lossy(&o.stdout).trim().to_owned();
                run.count(&format!("long:{}:{}", kind, if said.is_empty() { "died" } else { said.as_str() }));
                if !o.status.success() || said == "panic" || said.is_empty() {
                    run.fail(desc, "long-flat-input-crashes", format!("parsing a flat list of {} elements on an 8 MiB stack ended with {:?} (stdout {:?})", n, o.status, said));
                }
            }
        }
    }
    run.notes.push(format!("long flat inputs: {} list kinds of {} elements each parsed in a child process on an 8 MiB stack", LONG_KINDS, n));
}

// ---------------------------------------------------------------------------------------------
// long FLAT OPERATOR CHAINS (finding D75). `1 + 1 + … + 1`, `x > 0 AND x > 0 AND …`, `- - - … 1`, `NOT NOT … true`,
// `x::int::int…`, `a[1][1]…` contain no bracket at all, so C14's bound on bracket nesting does not apply to them — but
// their TREE is as deep as the chain is long (left-deep for the binary operators and the postfix ones, right-deep for
// the prefix ones), and the real program walks it by recursion on the machine stack: in the lowering of the tree
// (`parsing::parse`), in the evaluator, and when the tree is dropped. Run in a child process on a thread with the stack
// of an ordinary main thread (8 MiB; NOT the 512 MiB thread the in-process oracles of this module run on), stage by
// stage; the child reports each finished stage on its own line, so the parent sees in which stage it died.
//   * a size comfortably below every threshold (200 terms) must work: parse, execute one row, the documented value;
//   * far above (200 000 terms) the child is expected to die of stack overflow: class
//     `D75:long-operator-chain-overflows-stack` EXACTLY when it died by SIGSEGV / SIGABRT with `has overflowed its stack`
//     on stderr. Any other outcome — a wrong value, a panic, a death below the safe size, a death of a LIST-shaped kind
//     (`long_inputs` above) — stays an unknown failure.
// ---------------------------------------------------------------------------------------------

pub const CHAIN_KINDS: usize = 8;
pub const CHAIN_SAFE: usize = 200;
const CHAIN_DEFS: &str = "CREATE TABLE t(line = '(-?[0-9]+) (-?[0-9]+)', line[1] => x INT, line[1], line[2] => a INT[]);";
const CHAIN_LINE: &str = "5 7";

pub fn chain_name(kind: usize) -> &'static str {
    ["add", "and", "unary-minus", "not", "cast", "subscript", "or", "multiply-compare"][kind % CHAIN_KINDS]
}

/// the statement of `n` terms / operators, and the record it must print over the line `5 7` (None: an error is the
/// documented answer — a subscript applied to an INT)
pub fn long_chain(kind: usize, n: usize) -> (String, Option<String>) {
    let rep = |item: &str, sep: &str| vec![item; n].join(sep);
    match kind % CHAIN_KINDS {
        0 => (format!("SELECT {} AS r FROM t", rep("1", " + ")), Some(format!("r: {}", n))),
        1 => (format!("SELECT x AS r FROM t WHERE {}", rep("x > 0", " AND ")), Some("r: 5".to_owned())),
        2 => (format!("SELECT {} 1 AS r FROM t", rep("-", " ")), Some(format!("r: {}", if n % 2 == 0 { 1 } else { -1 }))),
        3 => (format!("SELECT {} true AS r FROM t", rep("NOT", " ")), Some(format!("r: {}", n % 2 == 0))),
        4 => (format!("SELECT x{} AS r FROM t", rep("::int", "")), Some("r: 5".to_owned())),
        5 => (format!("SELECT a{} AS r FROM t", rep("[1]", "")), if n == 1 { Some("r: 5".to_owned()) } else { None }),
        6 => (format!("SELECT x AS r FROM t WHERE {}", rep("x < 0", " OR ")), Some(String::new())),
        _ => (format!("SELECT x AS r FROM t WHERE {} = 1", rep("1", " * ")), Some("r: 5".to_owned())),
    }
}

/// `harness c14long chain <kind> <n> <parse|exec>`: each finished stage on its own line — `parsed ok|err`, (exec)
/// `executed <status> <records>`, `dropped` — or the process dies
pub fn chain_child(kind: usize, n: usize, exec: bool) {
    let (text, _) = long_chain(kind, n);
    let h = std::thread::Builder::new().stack_size(8 << 20).spawn(move || {
        if !exec {
            let r = sqlgrep::parsing::parse(&text);
            println!("parsed {}", if r.is_ok() { "ok" } else { "err" });
            drop(r);
            println!("dropped");
            return;
        }
        match crate::engine_run::prepare(CHAIN_DEFS, &text) {
            Err(e) => println!("parsed err {}", e.chars().take(80).collect::<String>().replace('\n', " ")),
            Ok(p) => {
                println!("parsed ok");
                let mut line = CHAIN_LINE.as_bytes().to_vec();
                line.push(b'\n');
                let r = crate::engine_run::run_files(&p, &[line]);
                println!("executed {} {:?}", r.status, r.records());
                drop(p);
                println!("dropped");
            }
        }
    }).expect("spawn");
    if h.join().is_err() { println!("panic"); }
    crate::runq::cleanup_tmp();
}

/// the chain stream: `exec = false` is C14's (parse and lowering), `exec = true` is C09's (an accepted statement executed
/// over one row). Sizes: the safe size, where everything is demanded, and sizes far above it.
pub fn chain_stream(run: &mut Run, exec: bool, sizes: &[usize]) {
    use std::os::unix::process::ExitStatusExt;
    let exe = match std::env::current_exe() { Ok(e) => e, Err(_) => { run.count("chain:no-exe"); return; } };
    let mode = if exec { "exec" } else { "parse" };
    for kind in 0..CHAIN_KINDS {
        for &n in sizes {
            let out = std::process::Command::new(&exe).args(["c14long", "chain", &kind.to_string(), &n.to_string(), mode]).output();
            run.oracle_checks += 1;
            let (sample, _) = long_chain(kind, 3);
            let (_, expected) = long_chain(kind, n);
            let desc = format!("{} … ({} terms, no bracket; `harness c14long chain {} {} {}`: {} on an 8 MiB stack)", sample, n, kind, n, mode, if exec { "parse, then execute over the line `5 7`" } else { "parsing::parse" });
            let o = match out { Ok(o) => o, Err(_) => { run.count("chain:spawn-failed"); continue; } };
            let stdout = String::from_utf8_lossy(&o.stdout).to_string();
            let stderr = String::from_utf8_lossy(&o.stderr).to_string();
            let stages: Vec<&str> = stdout.lines().collect();
            let last_stage = stages.last().map(|l| l.split(' ').next().unwrap_or("")).unwrap_or("start");
            let overflowed = matches!(o.status.signal(), Some(libc::SIGSEGV) | Some(libc::SIGABRT)) && stderr.contains("has overflowed its stack");
            if o.status.success() && stages.last() == Some(&"dropped") {
                // finished: at every size the answers must be the documented ones
                run.count(&format!("chain:{}:{}:{}:finished", mode, chain_name(kind), if n <= CHAIN_SAFE { "safe" } else { "long" }));
                if stages[0] != "parsed ok" {
                    run.fail(desc, "operator-chain-rejected", format!("a valid statement was not accepted: {:?}", stages[0]));
                } else if exec {
                    let said = stages.get(1).copied().unwrap_or("");
                    let ok = match &expected {
                        Some(rec) if rec.is_empty() => said == "executed ok []",
                        Some(rec) => said == format!("executed ok [{:?}]", rec),
                        None => said.starts_with("executed err:"),
                    };
                    if !ok { run.fail(desc, "operator-chain-wrong-answer", format!("the run answered {:?}; documented: {}", said, match &expected { Some(r) if r.is_empty() => "no row".to_owned(), Some(r) => format!("the record {:?}", r), None => "an error (a subscript applied to an INT)".to_owned() })); }
                }
            } else if overflowed && n > CHAIN_SAFE {
                let stage = match last_stage { "start" => "in parsing::parse (lowering)", "parsed" => if exec { "during execution of the first row" } else { "while the statement was dropped" }, "executed" => "while the statement was dropped", _ => "after the last stage" };
                run.count(&format!("chain:{}:{}:{}:overflow-after-{}", mode, chain_name(kind), n, last_stage));
                run.fail(desc, "D75:long-operator-chain-overflows-stack", format!("the child died with {:?} {}: stderr {:?}", o.status, stage, stderr.lines().last().unwrap_or("")));
            } else {
                run.count(&format!("chain:{}:{}:died-otherwise", mode, chain_name(kind)));
                run.fail(desc, if n <= CHAIN_SAFE { "operator-chain-of-safe-size-crashes" } else { "operator-chain-crashes-otherwise" }, format!("the child ended with {:?} after stage {:?}; stdout {:?}; stderr ends {:?}", o.status, last_stage, stdout, stderr.lines().last().unwrap_or("")));
            }
        }
    }
    run.notes.push(format!("operator chains without brackets ({} kinds: + AND unary-minus NOT ::int [1] OR *) of {:?} terms in a child process on an 8 MiB stack through {}: the safe size ({}) must give the documented answer; a death by stack overflow above it is finding D75", CHAIN_KINDS, sizes, if exec { "parse + execution of one row (C09)" } else { "parse and lowering (C14)" }, CHAIN_SAFE));
}

pub fn run(p: &Params) -> Run {
    // the real parser recurses on the machine stack: give it room for the 200-level cases
    let params = Params { tier_thorough: p.tier_thorough, seed: p.seed };
    std::thread::Builder::new()
        .stack_size(1 << 29)
        .spawn(move || run_inner(&params))
        .expect("spawn")
        .join()
        .expect("C14 generator thread")
}
