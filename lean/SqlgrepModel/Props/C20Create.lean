import SqlgrepModel.Lemmas.ParseCaseCreate
import SqlgrepModel.Lemmas.ParseRenameCreate
import SqlgrepModel.Props.C20Stmt
/-
C20 — CREATE TABLE texts at statement level (third review, coverage gap 7; `Props/C20Stmt.lean` MISSING item (a)).

  "Two query or CREATE TABLE texts that differ only in the letter case of keywords, function, aggregate and TYPE NAMES …
   parse to the same statement and therefore produce the same output."

Keywords (CREATE, TABLE, NOT, NULL, DEFAULT, TRUE, FALSE) are normalised by the tokenizer (`Props/C20.lean`
`keyword_case_insensitive`, `layout_invariance`). What is left of letter case in a CREATE TABLE text are the identifier
tokens that `parse_create_table` compares lower-cased (`/repo/src/parsing/parser.rs` `parse_type`, `parse_regex_mode`,
`parse_define_column`; the model's `parseType`, `parseRegexMode`, `parseDefineColumn`):

  * the TYPE NAME of a column definition (`INT`, `Text`, `timestamp`, `real[]`, `TEXT[][]` …),
  * the pattern MODE behind `=` (`split`, `match`),
  * the column OPTION behind the type (`trim`, `convert`, `microseconds`).

These positions are determined by the two tokens in front of the identifier (`caseFreeAfter`): behind `=`; behind
`=> name`; behind `name TYPE` or `]`. `CaseVariant ts₁ ts₂`: the same tokens one by one (at any locations), except that
an identifier of `ts₁` in such a position may be spelled in `ts₂` as ANY identifier with the same lower-cased spelling —
EVERY OCCURRENCE ON ITS OWN (`a INT, b INT` against `a int, b Int`; a column called `int` of type `INT` against the
same column of type `int`). Everything else is the same token: table names, pattern names, column names, JSON path
fields, pattern texts, DEFAULT literals are case-sensitive and are NOT respelled — that is the side condition, and it
is part of the relation rather than a hypothesis about the tree. It is necessary (examples at the end: a respelled
column name is another statement).

Proved outright, for one or several `CREATE TABLE …;` statements:
  `create_table_name_case_tree`        same tree up to locations                      (`Parser::parse`)
  `create_table_name_case_statement`   same `LStmt` / same kind of conversion error   (`parsing::parse` on tokens)
  `create_table_name_case_text`        … for two texts                                (`parsing::parse`)
  `create_table_name_case_same_output` … the whole program answers alike              (`Pipeline.runText`)
  `create_table_name_case_rejected`    rejected by the parser iff the variant is      (error direction)
  `create_table_name_case_error_kind`  … with an error of the same kind               (kinds compared up to the quoted
                                       type name of `NotDefinedType`, which shows the spelling: `SameKind`)
  `create_table_respell_equivariant`   `Parser::parse` commutes with respelling EVERY identifier by one map `ρ`
                                       (`CreateNameMap ρ`, e.g. lower-casing): tree with its names respelled, or the
                                       same error with its payload respelled — the route to the error kinds
-/
namespace Sqlgrep.Props.C20Create
open Sqlgrep Sqlgrep.Parse Sqlgrep.Lower Sqlgrep.Pipeline

/-- a token vector that starts with CREATE -/
def CreateVector (toks : List PTok) : Prop := toks.head?.map (·.tok) = some (.kw .create)

instance (toks : List PTok) : Decidable (CreateVector toks) :=
  inferInstanceAs (Decidable (toks.head?.map (·.tok) = some (.kw .create)))

/-- `ts₂` is `ts₁` with type names, pattern modes and column options respelled by changes of letter case, each
occurrence on its own, at any token locations (head of the file; `caseVariantFrom`, `caseFreeAfter` in
`Lemmas/ParseCaseCreate.lean`) -/
def CaseVariant (ts₁ ts₂ : List PTok) : Prop :=
  caseVariantFrom .eof .eof (ts₁.map PTok.strip) (ts₂.map PTok.strip) = true

instance (ts₁ ts₂ : List PTok) : Decidable (CaseVariant ts₁ ts₂) :=
  inferInstanceAs (Decidable (caseVariantFrom .eof .eof (ts₁.map PTok.strip) (ts₂.map PTok.strip) = true))

theorem createVector_strip {toks : List PTok} (h : CreateVector toks) :
    (toks.map PTok.strip).head?.map (·.tok) = some (.kw .create) := by
  cases toks with
  | nil => simp [CreateVector] at h
  | cons t ts => simpa [CreateVector, PTok.strip] using h

/-- the relation is symmetric: respelling back is a respelling -/
theorem CaseVariant.symm {ts₁ ts₂ : List PTok} (h : CaseVariant ts₁ ts₂) : CaseVariant ts₂ ts₁ :=
  caseVariantFrom_symm _ _ _ _ _ _ (.inl rfl) (.inl rfl) h

/-- a case variant of a CREATE vector is a CREATE vector -/
theorem CaseVariant.createVector {ts₁ ts₂ : List PTok} (h : CaseVariant ts₁ ts₂) (hc : CreateVector ts₁) :
    CreateVector ts₂ := by
  unfold CaseVariant at h
  unfold CreateVector at hc ⊢
  cases ts₁ with
  | nil => simp at hc
  | cons a as =>
    cases ts₂ with
    | nil => simp [caseVariantFrom] at h
    | cons b bs =>
      have hst : StV .eof .eof ⟨a.strip, as.map PTok.strip⟩ ⟨b.strip, bs.map PTok.strip⟩ := h
      have ha : a.tok = .kw .create := by simpa using hc
      have := hst.tok_nonident (by intro n; show a.tok ≠ _; rw [ha]; simp)
      have hb : b.tok = a.tok := this
      simp [hb, ha]

/-! ### (1) trees -/

/-- **Letter case of type names, pattern modes and column options, trees** (`create_table_name_case_tree`): a token
vector of one or several CREATE TABLE statements that `Parser::parse` reads as a tree, and any case variant of it
(per occurrence; names, pattern texts and literals untouched; any locations), are read as the same tree up to
locations. -/
theorem create_table_name_case_tree (toks₁ toks₂ : List PTok) (hc : CreateVector toks₁) (hv : CaseVariant toks₁ toks₂)
    (t₁ : POp) (h : parseTokens PrecTables.code toks₁ = .tree t₁) :
    ∃ t₂, parseTokens PrecTables.code toks₂ = .tree t₂ ∧ t₁.eraseLoc = t₂.eraseLoc := by
  have h1 : parseTokens PrecTables.code (toks₁.map PTok.strip) = .tree t₁.eraseLoc := by
    rw [parseTokens_strip, h]; rfl
  have h2 := parseTokens_create_var noIdentOps_code hv (createVector_strip hc) h1
  rw [parseTokens_strip] at h2
  cases hp : parseTokens PrecTables.code toks₂ <;> rw [hp] at h2 <;> simp only [ParseOutcome.strip, reduceCtorEq] at h2
  rename_i t₂
  exact ⟨t₂, rfl, (ParseOutcome.tree.inj h2).symm⟩

/-- … at the same locations (two texts that differ in letter case only): the SAME tree -/
theorem create_table_name_case_tree_same_locations (toks₁ toks₂ : List PTok)
    (hc : toks₁.head?.map (·.tok) = some (.kw .create)) (hv : caseVariantFrom .eof .eof toks₁ toks₂ = true)
    (t : POp) (h : parseTokens PrecTables.code toks₁ = .tree t) : parseTokens PrecTables.code toks₂ = .tree t :=
  parseTokens_create_var noIdentOps_code hv hc h

/-! ### (2) statements, texts, output -/

/-- **… statements, in full** (`create_table_name_case_lowered`): `parsing::parse` (parser + lowering,
`Pipeline.parseToks`) answers the same on the two vectors up to the locations inside a conversion error — the same
statement, or a conversion error of the same kind (`ExpectedRegexPattern`, `UndefinedPattern` …) -/
theorem create_table_name_case_lowered (rv : List Char → Bool) (toks₁ toks₂ : List PTok) (hc : CreateVector toks₁)
    (hv : CaseVariant toks₁ toks₂) (t₁ : POp) (h : parseTokens PrecTables.code toks₁ = .tree t₁) :
    (parseToks rv toks₁).stripLoc = (parseToks rv toks₂).stripLoc := by
  obtain ⟨t₂, h₂, he⟩ := create_table_name_case_tree toks₁ toks₂ hc hv t₁ h
  exact parseToks_of_sameTree rv h h₂ he

/-- **Letter case of type names, pattern modes and column options, statements**
(`create_table_name_case_statement`): … and therefore `parsing::parse` answers the SAME `LStmt` on the variant -/
theorem create_table_name_case_statement (rv : List Char → Bool) (toks₁ toks₂ : List PTok) (hc : CreateVector toks₁)
    (hv : CaseVariant toks₁ toks₂) (s : LStmt) (h : parseToks rv toks₁ = .stmt s) : parseToks rv toks₂ = .stmt s := by
  obtain ⟨t₁, ht, _⟩ := tree_of_parseToks_stmt h
  obtain ⟨t₂, h₂, he⟩ := create_table_name_case_tree toks₁ toks₂ hc hv t₁ ht
  exact parseToks_stmt_of_sameTree rv ht h₂ he s h

/-- … iff: the relation is symmetric -/
theorem create_table_name_case_statement_iff (rv : List Char → Bool) (toks₁ toks₂ : List PTok) (hc : CreateVector toks₁)
    (hv : CaseVariant toks₁ toks₂) (s : LStmt) : parseToks rv toks₁ = .stmt s ↔ parseToks rv toks₂ = .stmt s :=
  ⟨create_table_name_case_statement rv toks₁ toks₂ hc hv s,
   create_table_name_case_statement rv toks₂ toks₁ (hv.createVector hc) hv.symm s⟩

/-- **… texts** (`create_table_name_case_text`): two CREATE TABLE texts whose token vectors are case variants of each
other — they differ in the letter case of type names, `split` / `match`, `trim` / `convert` / `microseconds` (and, by
`Props/C20.lean`, of keywords, in whitespace, line breaks, comments) — parse to the same statement -/
theorem create_table_name_case_text (o : Lex.Oracles) (rv : List Char → Bool) (text₁ text₂ : List Char)
    (ts₁ ts₂ : List PTok) (ht₁ : Lex.tokenize o text₁ = .ok ts₁) (ht₂ : Lex.tokenize o text₂ = .ok ts₂)
    (hc : CreateVector ts₁) (hv : CaseVariant ts₁ ts₂) (s : LStmt) (h : parseText o rv text₁ = .stmt s) :
    parseText o rv text₂ = .stmt s := by
  unfold parseText at h ⊢
  rw [ht₁] at h
  rw [ht₂]
  exact create_table_name_case_statement rv ts₁ ts₂ hc hv s h

/-- **… and therefore the same output** (`create_table_name_case_same_output`): the whole program
(`Pipeline.runText`: definitions text, query text, format, files ↦ printed records or error) answers the same under two
definitions texts that are case variants of each other — on every query, every input, every format and state of the
outside world -/
theorem create_table_name_case_same_output (F : Facts) (defs₁ defs₂ query : List Char) (fmt : Print.Format)
    (single : Bool) (files : List (List Nat)) (ts₁ ts₂ : List PTok)
    (ht₁ : Lex.tokenize (lexOracles F) defs₁ = .ok ts₁) (ht₂ : Lex.tokenize (lexOracles F) defs₂ = .ok ts₂)
    (hc : CreateVector ts₁) (hv : CaseVariant ts₁ ts₂) (d q : LStmt)
    (hc₁ : classesCover F defs₁ = true ∧ classesCover F query = true) (hc₂ : classesCover F defs₂ = true)
    (hd : parseText (lexOracles F) (regexValidFn F) defs₁ = .stmt d)
    (hp : (createPatterns d).all (fun re => ((Utf8.decode re).bind (regexValidOf F)).isSome) = true)
    (hq : parseText (lexOracles F) (regexValidFn F) query = .stmt q) :
    runText F defs₁ query fmt single files = runText F defs₂ query fmt single files :=
  Props.Pipeline.runText_depends_on_statements F defs₁ defs₂ query query fmt single files d q hc₁ ⟨hc₂, hc₁.2⟩ hd
    (create_table_name_case_text _ _ defs₁ defs₂ ts₁ ts₂ ht₁ ht₂ hc hv d hd) hp hq hq

/-! ### (3) the error direction -/

/-- **A rejected text stays rejected** (`create_table_name_case_rejected`): `Parser::parse` rejects a CREATE TABLE
token vector iff it rejects the case variant (per occurrence, as above). -/
theorem create_table_name_case_rejected (toks₁ toks₂ : List PTok) (hc : CreateVector toks₁) (hv : CaseVariant toks₁ toks₂) :
    (∃ e, parseTokens PrecTables.code toks₁ = .error e) ↔ (∃ e, parseTokens PrecTables.code toks₂ = .error e) := by
  have ne₁ : toks₁ ≠ [] := by intro h0; simp [h0, CreateVector] at hc
  have hc₂ := hv.createVector hc
  have ne₂ : toks₂ ≠ [] := by intro h0; simp [h0, CreateVector] at hc₂
  constructor
  · rintro ⟨e, he⟩
    rcases Props.C14.parse_total PrecTables.code toks₂ ne₂ with ⟨t, ht⟩ | h
    · obtain ⟨t', ht', _⟩ := create_table_name_case_tree toks₂ toks₁ hc₂ hv.symm t ht
      rw [he] at ht'; cases ht'
    · exact h
  · rintro ⟨e, he⟩
    rcases Props.C14.parse_total PrecTables.code toks₁ ne₁ with ⟨t, ht⟩ | h
    · obtain ⟨t', ht', _⟩ := create_table_name_case_tree toks₁ toks₂ hc hv t ht
      rw [he] at ht'; cases ht'
    · exact h

/-- **`Parser::parse` on CREATE TABLE vectors is equivariant under respelling every identifier**
(`create_table_respell_equivariant`): for ONE map `ρ` that changes letter case only, is compatible with `.` and the
`[]` the parser appends to a type name, and fixes the names the parser makes up (`CreateNameMap ρ`: lower-casing is one,
`createNameMap_lowerChars`), the vector with EVERY identifier `n` replaced by `ρ n` — names included — is read as the
tree with its table, pattern, column and JSON field names respelled and everything else the same, or is rejected with
the same error at the same token, `NotDefinedType`'s quoted name respelled (`Lemmas/ParseRenameCreate.lean`, the
CREATE TABLE path in lock step on top of `ren_all`). -/
theorem create_table_respell_equivariant (ρ : List Char → List Char) (hρ : CreateNameMap ρ) (toks : List PTok)
    (hc : CreateVector toks) :
    parseTokens PrecTables.code (toks.map (PTok.ren ρ)) = (parseTokens PrecTables.code toks).renCreate ρ :=
  parseTokens_create_ren hρ noIdentOps_code toks hc

/-- two parser error kinds are the same kind: equal, or both `NotDefinedType` quoting type names that are equal up to
letter case (the payload is the spelling found in the text: `NotDefinedType("FOO[]")` against `NotDefinedType("foo[]")`) -/
def SameKind (k₁ k₂ : PErrKind) : Prop :=
  k₁ = k₂ ∨ ∃ n m, k₁ = .notDefinedType n ∧ k₂ = .notDefinedType m ∧ lowerChars n = lowerChars m

theorem sameKind_of_lower {k₁ k₂ : PErrKind} (h : k₁.ren lowerChars = k₂.ren lowerChars) : SameKind k₁ k₂ := by
  by_cases h1 : ∃ n, k₁ = .notDefinedType n
  · obtain ⟨n, rfl⟩ := h1
    cases k₂ <;> simp only [PErrKind.ren, reduceCtorEq, PErrKind.notDefinedType.injEq] at h
    exact .inr ⟨_, _, rfl, rfl, h⟩
  · by_cases h2 : ∃ m, k₂ = .notDefinedType m
    · obtain ⟨m, rfl⟩ := h2
      cases k₁ <;> simp only [PErrKind.ren, reduceCtorEq, PErrKind.notDefinedType.injEq] at h
      exact absurd ⟨_, rfl⟩ h1
    · have e1 : k₁.ren lowerChars = k₁ := by
        cases k₁ <;> first | rfl | exact absurd ⟨_, rfl⟩ h1
      have e2 : k₂.ren lowerChars = k₂ := by
        cases k₂ <;> first | rfl | exact absurd ⟨_, rfl⟩ h2
      rw [e1, e2] at h
      exact .inl h

theorem strip_ren (ρ : List Char → List Char) (ts : List PTok) :
    (ts.map PTok.strip).map (PTok.ren ρ) = (ts.map (PTok.ren ρ)).map PTok.strip := by
  simp only [List.map_map]
  rfl

/-- **A rejected text is rejected with an error of the same kind** (`create_table_name_case_error_kind`): if
`Parser::parse` rejects a CREATE TABLE token vector with the error `e₁`, it rejects every case variant (per occurrence)
with an error of the same kind (`SameKind`: up to the spelling quoted by `NotDefinedType`).
Route: both vectors have the same all-lower-case spelling (`caseVariantFrom_lower`), `Parser::parse` commutes with
lower-casing every identifier (`create_table_respell_equivariant`) and with relocating tokens (`parseTokens_strip`). -/
theorem create_table_name_case_error_kind (toks₁ toks₂ : List PTok) (hc : CreateVector toks₁) (hv : CaseVariant toks₁ toks₂)
    (e₁ : PErr) (h : parseTokens PrecTables.code toks₁ = .error e₁) :
    ∃ e₂, parseTokens PrecTables.code toks₂ = .error e₂ ∧ SameKind e₁.kind e₂.kind := by
  obtain ⟨e₂, h₂⟩ := (create_table_name_case_rejected toks₁ toks₂ hc hv).mp ⟨e₁, h⟩
  refine ⟨e₂, h₂, sameKind_of_lower ?_⟩
  have hl := caseVariantFrom_lower _ _ _ _ hv
  rw [strip_ren, strip_ren] at hl
  have h3 := congrArg (parseTokens PrecTables.code) hl
  rw [parseTokens_strip, parseTokens_strip,
    create_table_respell_equivariant _ createNameMap_lowerChars toks₁ hc,
    create_table_respell_equivariant _ createNameMap_lowerChars toks₂ (hv.createVector hc), h, h₂] at h3
  simp only [ParseOutcome.renCreate, ParseOutcome.strip, ParseOutcome.error.injEq, PErr.strip, PErr.ren, PErr.mk.injEq,
    true_and] at h3
  exact h3

/-- … at the same locations (two texts that differ in letter case only): the same kind at the same location -/
theorem create_table_name_case_error_kind_same_locations (toks₁ toks₂ : List PTok)
    (hc : toks₁.head?.map (·.tok) = some (.kw .create)) (hv : caseVariantFrom .eof .eof toks₁ toks₂ = true)
    (e₁ : PErr) (h : parseTokens PrecTables.code toks₁ = .error e₁) :
    ∃ e₂, parseTokens PrecTables.code toks₂ = .error e₂ ∧ e₂.loc = e₁.loc ∧ SameKind e₁.kind e₂.kind := by
  have hv' : CaseVariant toks₁ toks₂ := by
    unfold CaseVariant
    exact caseVariantFrom_strip _ _ _ _ hv
  obtain ⟨e₂, h₂, hk⟩ := create_table_name_case_error_kind toks₁ toks₂ hc hv' e₁ h
  refine ⟨e₂, h₂, ?_, hk⟩
  have hl := caseVariantFrom_lower _ _ _ _ hv
  have h3 := congrArg (parseTokens PrecTables.code) hl
  rw [create_table_respell_equivariant _ createNameMap_lowerChars toks₁ hc,
    create_table_respell_equivariant _ createNameMap_lowerChars toks₂ (hv'.createVector hc), h, h₂] at h3
  simp only [ParseOutcome.renCreate, ParseOutcome.error.injEq, PErr.ren, PErr.mk.injEq] at h3
  exact h3.1.symm

/-! ### (4) non-vacuity: concrete texts (kernel-evaluated)

The token vectors are written out (`exT1` …) and shown to be what the tokenizer answers on the texts (`exTokens1` …,
one kernel evaluation of `Lex.tokenize` per text), so that every other closed fact is about a literal. -/

def tk (l c : Nat) (t : Tok) : PTok := ⟨⟨l, c⟩, t⟩
def idt (s : String) : Tok := .ident s.toList
def isStmt (p : Parsed) : Bool := _root_.Sqlgrep.Props.C20Stmt.isStmt p

theorem stmt_of_isStmt {p : Parsed} (h : isStmt p = true) : ∃ s, p = .stmt s := by
  cases p <;> first | exact ⟨_, rfl⟩ | (simp [isStmt, Props.C20Stmt.isStmt] at h)

theorem parseText_of_tokens {text : String} {ts : List PTok} (h : Lex.tokenize Lex.Tables.asciiOnly text.toList = .ok ts) :
    parseText Lex.Tables.asciiOnly (fun _ => true) text.toList = parseToks (fun _ => true) ts := by
  unfold parseText; rw [h]

def exD1 : String := "CREATE TABLE t(line = SPLIT ';', line[1] => a int, line[2] => b Text NOT NULL, line[3] => c REAL[] default NULL);"
/-- all lower case -/
def exD2 : String := "create table t(line = split ';', line[1] => a int, line[2] => b text not null, line[3] => c real[] default null);"
/-- all upper case — except the names `t`, `line`, `a`, `b`, `c`, which are case-sensitive -/
def exD3 : String := "CREATE TABLE t(line = SPLIT ';', line[1] => a INT, line[2] => b TEXT NOT NULL, line[3] => c REAL[] DEFAULT NULL);"

def exT1 : List PTok :=
  [tk 0 0 (.kw .create), tk 0 6 (.kw .table), tk 0 12 (idt "t"), tk 0 14 .lp, tk 0 15 (idt "line"),
   tk 0 19 (.op (.single '=')), tk 0 21 (idt "SPLIT"), tk 0 27 (.str ";".toList), tk 0 31 .comma,
   tk 0 32 (idt "line"), tk 0 37 .lsq, tk 0 38 (.int 1), tk 0 39 .rsq, tk 0 40 .rarrow, tk 0 42 (idt "a"),
   tk 0 45 (idt "int"), tk 0 49 .comma, tk 0 50 (idt "line"), tk 0 55 .lsq, tk 0 56 (.int 2), tk 0 57 .rsq,
   tk 0 58 .rarrow, tk 0 60 (idt "b"), tk 0 63 (idt "Text"), tk 0 68 (.kw .not), tk 0 72 .null, tk 0 77 .comma,
   tk 0 78 (idt "line"), tk 0 83 .lsq, tk 0 84 (.int 3), tk 0 85 .rsq, tk 0 86 .rarrow, tk 0 88 (idt "c"),
   tk 0 91 (idt "REAL"), tk 0 96 .lsq, tk 0 97 .rsq, tk 0 98 (.kw .default), tk 0 106 .null, tk 0 111 .rp,
   tk 0 112 .semi, tk 0 113 .eof]
def exT2 : List PTok :=
  [tk 0 0 (.kw .create), tk 0 6 (.kw .table), tk 0 12 (idt "t"), tk 0 14 .lp, tk 0 15 (idt "line"),
   tk 0 19 (.op (.single '=')), tk 0 21 (idt "split"), tk 0 27 (.str ";".toList), tk 0 31 .comma,
   tk 0 32 (idt "line"), tk 0 37 .lsq, tk 0 38 (.int 1), tk 0 39 .rsq, tk 0 40 .rarrow, tk 0 42 (idt "a"),
   tk 0 45 (idt "int"), tk 0 49 .comma, tk 0 50 (idt "line"), tk 0 55 .lsq, tk 0 56 (.int 2), tk 0 57 .rsq,
   tk 0 58 .rarrow, tk 0 60 (idt "b"), tk 0 63 (idt "text"), tk 0 68 (.kw .not), tk 0 72 .null, tk 0 77 .comma,
   tk 0 78 (idt "line"), tk 0 83 .lsq, tk 0 84 (.int 3), tk 0 85 .rsq, tk 0 86 .rarrow, tk 0 88 (idt "c"),
   tk 0 91 (idt "real"), tk 0 96 .lsq, tk 0 97 .rsq, tk 0 98 (.kw .default), tk 0 106 .null, tk 0 111 .rp,
   tk 0 112 .semi, tk 0 113 .eof]
def exT3 : List PTok :=
  [tk 0 0 (.kw .create), tk 0 6 (.kw .table), tk 0 12 (idt "t"), tk 0 14 .lp, tk 0 15 (idt "line"),
   tk 0 19 (.op (.single '=')), tk 0 21 (idt "SPLIT"), tk 0 27 (.str ";".toList), tk 0 31 .comma,
   tk 0 32 (idt "line"), tk 0 37 .lsq, tk 0 38 (.int 1), tk 0 39 .rsq, tk 0 40 .rarrow, tk 0 42 (idt "a"),
   tk 0 45 (idt "INT"), tk 0 49 .comma, tk 0 50 (idt "line"), tk 0 55 .lsq, tk 0 56 (.int 2), tk 0 57 .rsq,
   tk 0 58 .rarrow, tk 0 60 (idt "b"), tk 0 63 (idt "TEXT"), tk 0 68 (.kw .not), tk 0 72 .null, tk 0 77 .comma,
   tk 0 78 (idt "line"), tk 0 83 .lsq, tk 0 84 (.int 3), tk 0 85 .rsq, tk 0 86 .rarrow, tk 0 88 (idt "c"),
   tk 0 91 (idt "REAL"), tk 0 96 .lsq, tk 0 97 .rsq, tk 0 98 (.kw .default), tk 0 106 .null, tk 0 111 .rp,
   tk 0 112 .semi, tk 0 113 .eof]

theorem exTokens1 : Lex.tokenize Lex.Tables.asciiOnly exD1.toList = .ok exT1 := by decide +kernel
theorem exTokens2 : Lex.tokenize Lex.Tables.asciiOnly exD2.toList = .ok exT2 := by decide +kernel
theorem exTokens3 : Lex.tokenize Lex.Tables.asciiOnly exD3.toList = .ok exT3 := by decide +kernel

/-- every other hypothesis of `create_table_name_case_text` holds on the text `exD1` against its lower-case and its
upper-case variant: the first token vector starts with CREATE, the other two are case variants of it, and the first
text parses to a statement -/
theorem exCreateHyps :
    CreateVector exT1 ∧ CaseVariant exT1 exT2 ∧ CaseVariant exT1 exT3 ∧ isStmt (parseToks (fun _ => true) exT1) = true := by
  decide +kernel

/-- … so the theorem applies: the three texts parse to one statement -/
example : ∃ s, parseText Lex.Tables.asciiOnly (fun _ => true) exD1.toList = .stmt s ∧
    parseText Lex.Tables.asciiOnly (fun _ => true) exD2.toList = .stmt s ∧
    parseText Lex.Tables.asciiOnly (fun _ => true) exD3.toList = .stmt s := by
  obtain ⟨hc, hv2, hv3, hs⟩ := exCreateHyps
  obtain ⟨s, hs⟩ := stmt_of_isStmt hs
  have h1 : parseText Lex.Tables.asciiOnly (fun _ => true) exD1.toList = .stmt s := by rw [parseText_of_tokens exTokens1, hs]
  exact ⟨s, h1, create_table_name_case_text _ _ _ _ _ _ exTokens1 exTokens2 hc hv2 s h1,
    create_table_name_case_text _ _ _ _ _ _ exTokens1 exTokens3 hc hv3 s h1⟩

/-- per occurrence: the same type name spelled differently at each occurrence, array types (`INT[]`, `TEXT[][]`), a
column that is called like a type (`int INT` against `int Int`: the first `int` is a name and stays), the modes and the
three options; two statements in one text -/
def exD4 : String := "CREATE TABLE t(p = MATCH 'a(b)', p[1] => int INT, p[1] => x INT[] convert, p[1] => y TEXT[][], 'z' => z Text TRIM); CREATE TABLE u({.f[0]} => ts TIMESTAMP microseconds);"
def exD5 : String := "CREATE TABLE t(p = match 'a(b)', p[1] => int Int, p[1] => x int[] CONVERT, p[1] => y text[][], 'z' => z TEXT trim); CREATE TABLE u({.f[0]} => ts timestamp MicroSeconds);"

def exT4 : List PTok :=
  [tk 0 0 (.kw .create), tk 0 6 (.kw .table), tk 0 12 (idt "t"), tk 0 14 .lp, tk 0 15 (idt "p"),
   tk 0 16 (.op (.single '=')), tk 0 18 (idt "MATCH"), tk 0 24 (.str "a(b)".toList), tk 0 31 .comma,
   tk 0 32 (idt "p"), tk 0 34 .lsq, tk 0 35 (.int 1), tk 0 36 .rsq, tk 0 37 .rarrow, tk 0 39 (idt "int"),
   tk 0 44 (idt "INT"), tk 0 48 .comma, tk 0 49 (idt "p"), tk 0 51 .lsq, tk 0 52 (.int 1), tk 0 53 .rsq,
   tk 0 54 .rarrow, tk 0 56 (idt "x"), tk 0 59 (idt "INT"), tk 0 63 .lsq, tk 0 64 .rsq, tk 0 65 (idt "convert"),
   tk 0 73 .comma, tk 0 74 (idt "p"), tk 0 76 .lsq, tk 0 77 (.int 1), tk 0 78 .rsq, tk 0 79 .rarrow,
   tk 0 81 (idt "y"), tk 0 84 (idt "TEXT"), tk 0 89 .lsq, tk 0 90 .rsq, tk 0 91 .lsq, tk 0 92 .rsq, tk 0 93 .comma,
   tk 0 94 (.str "z".toList), tk 0 98 .rarrow, tk 0 100 (idt "z"), tk 0 103 (idt "Text"), tk 0 108 (idt "TRIM"),
   tk 0 113 .rp, tk 0 114 .semi, tk 0 115 (.kw .create), tk 0 122 (.kw .table), tk 0 128 (idt "u"), tk 0 130 .lp,
   tk 0 131 .lcu, tk 0 132 (.op (.single '.')), tk 0 133 (idt "f"), tk 0 134 .lsq, tk 0 135 (.int 0), tk 0 136 .rsq,
   tk 0 137 .rcu, tk 0 138 .rarrow, tk 0 140 (idt "ts"), tk 0 144 (idt "TIMESTAMP"), tk 0 154 (idt "microseconds"),
   tk 0 167 .rp, tk 0 168 .semi, tk 0 169 .eof]
def exT5 : List PTok :=
  [tk 0 0 (.kw .create), tk 0 6 (.kw .table), tk 0 12 (idt "t"), tk 0 14 .lp, tk 0 15 (idt "p"),
   tk 0 16 (.op (.single '=')), tk 0 18 (idt "match"), tk 0 24 (.str "a(b)".toList), tk 0 31 .comma,
   tk 0 32 (idt "p"), tk 0 34 .lsq, tk 0 35 (.int 1), tk 0 36 .rsq, tk 0 37 .rarrow, tk 0 39 (idt "int"),
   tk 0 44 (idt "Int"), tk 0 48 .comma, tk 0 49 (idt "p"), tk 0 51 .lsq, tk 0 52 (.int 1), tk 0 53 .rsq,
   tk 0 54 .rarrow, tk 0 56 (idt "x"), tk 0 59 (idt "int"), tk 0 63 .lsq, tk 0 64 .rsq, tk 0 65 (idt "CONVERT"),
   tk 0 73 .comma, tk 0 74 (idt "p"), tk 0 76 .lsq, tk 0 77 (.int 1), tk 0 78 .rsq, tk 0 79 .rarrow,
   tk 0 81 (idt "y"), tk 0 84 (idt "text"), tk 0 89 .lsq, tk 0 90 .rsq, tk 0 91 .lsq, tk 0 92 .rsq, tk 0 93 .comma,
   tk 0 94 (.str "z".toList), tk 0 98 .rarrow, tk 0 100 (idt "z"), tk 0 103 (idt "TEXT"), tk 0 108 (idt "trim"),
   tk 0 113 .rp, tk 0 114 .semi, tk 0 115 (.kw .create), tk 0 122 (.kw .table), tk 0 128 (idt "u"), tk 0 130 .lp,
   tk 0 131 .lcu, tk 0 132 (.op (.single '.')), tk 0 133 (idt "f"), tk 0 134 .lsq, tk 0 135 (.int 0), tk 0 136 .rsq,
   tk 0 137 .rcu, tk 0 138 .rarrow, tk 0 140 (idt "ts"), tk 0 144 (idt "timestamp"), tk 0 154 (idt "MicroSeconds"),
   tk 0 167 .rp, tk 0 168 .semi, tk 0 169 .eof]

theorem exTokens4 : Lex.tokenize Lex.Tables.asciiOnly exD4.toList = .ok exT4 := by decide +kernel
theorem exTokens5 : Lex.tokenize Lex.Tables.asciiOnly exD5.toList = .ok exT5 := by decide +kernel

theorem exCreateHyps2 : CreateVector exT4 ∧ CaseVariant exT4 exT5 ∧ isStmt (parseToks (fun _ => true) exT4) = true := by
  decide +kernel

example : ∃ s, parseText Lex.Tables.asciiOnly (fun _ => true) exD4.toList = .stmt s ∧
    parseText Lex.Tables.asciiOnly (fun _ => true) exD5.toList = .stmt s := by
  obtain ⟨hc, hv, hs⟩ := exCreateHyps2
  obtain ⟨s, hs⟩ := stmt_of_isStmt hs
  have h1 : parseText Lex.Tables.asciiOnly (fun _ => true) exD4.toList = .stmt s := by rw [parseText_of_tokens exTokens4, hs]
  exact ⟨s, h1, create_table_name_case_text _ _ _ _ _ _ exTokens4 exTokens5 hc hv s h1⟩

/-- the side condition is necessary, and the relation sees it: the vector with the TABLE name (`T` for `t`), the PATTERN
name (`Line`), the pattern TEXT, a COLUMN name (`A` for `a`), the column name `int` of `exT4` or its JSON FIELD (`F`)
respelled is not a case variant — these names are case-sensitive (the column `A` is not the column `a`); nor is a
vector in which a type name is replaced by another type name -/
example :
    ¬ CaseVariant exT1 (exT1.set 2 (tk 0 12 (idt "T"))) ∧ ¬ CaseVariant exT1 (exT1.set 4 (tk 0 15 (idt "Line"))) ∧
    ¬ CaseVariant exT1 (exT1.set 7 (tk 0 27 (.str ":".toList))) ∧ ¬ CaseVariant exT1 (exT1.set 14 (tk 0 42 (idt "A"))) ∧
    ¬ CaseVariant exT4 (exT4.set 14 (tk 0 39 (idt "INT"))) ∧ ¬ CaseVariant exT4 (exT4.set 53 (tk 0 133 (idt "F"))) ∧
    ¬ CaseVariant exT1 (exT1.set 15 (tk 0 45 (idt "real"))) ∧ CaseVariant exT1 (exT1.set 15 (tk 0 45 (idt "iNt"))) := by
  decide +kernel

/-- facts about the lines `1;x;2.5` and `7;;` under the pattern `;` in split mode (what the `regex` crate answers) -/
def exFacts : Facts :=
  { regexValid := [(";".toList, true)]
    lines := [(strBytes "1;x;2.5", { splits := [(strBytes ";", [strBytes "1", strBytes "x", strBytes "2.5"])] }),
              (strBytes "7;;", { splits := [(strBytes ";", [strBytes "7", strBytes "", strBytes ""])] })] }

/-- the three definitions texts through the whole program over a small file: the same printed records -/
example : Props.Pipeline.recordsOf (runText exFacts exD1.toList "select a, b, c from t".toList .text false [strBytes "1;x;2.5\n7;;\n"]) =
    some (none, 2, [strBytes "a: 1, b: 'x', c: NULL", strBytes "a: 7, b: '', c: NULL"]) := by decide +kernel
example : Props.Pipeline.recordsOf (runText exFacts exD2.toList "select a, b, c from t".toList .text false [strBytes "1;x;2.5\n7;;\n"]) =
    some (none, 2, [strBytes "a: 1, b: 'x', c: NULL", strBytes "a: 7, b: '', c: NULL"]) := by decide +kernel
example : Props.Pipeline.recordsOf (runText exFacts exD3.toList "select a, b, c from t".toList .text false [strBytes "1;x;2.5\n7;;\n"]) =
    some (none, 2, [strBytes "a: 1, b: 'x', c: NULL", strBytes "a: 7, b: '', c: NULL"]) := by decide +kernel

/-- … whereas the definitions text with a column name respelled (`A` for `a`) defines another table: the query fails -/
example : Props.Pipeline.recordsOf (runText exFacts
      "CREATE TABLE t(line = SPLIT ';', line[1] => A int, line[2] => b Text NOT NULL, line[3] => c REAL[] default NULL);".toList
      "select a, b, c from t".toList .text false [strBytes "1;x;2.5\n7;;\n"]) ≠
    some (none, 2, [strBytes "a: 1, b: 'x', c: NULL", strBytes "a: 7, b: '', c: NULL"]) := by decide +kernel

def errorOf : ParseOutcome → Option PErr
  | .error e => some e
  | _ => none

/-- a rejected vector and its variant (`FOO[]` for `REAL[]`; `FOO` is no type): `create_table_name_case_rejected` and
`create_table_name_case_error_kind` apply; both are rejected, at the type name, with `NotDefinedType` quoting the
spelling found (`SameKind`: the payloads differ in letter case only) -/
example :
    CreateVector (exT1.set 33 (tk 0 91 (idt "FOO"))) ∧
    CaseVariant (exT1.set 33 (tk 0 91 (idt "FOO"))) (exT1.set 33 (tk 0 91 (idt "foo"))) ∧
    errorOf (parseTokens PrecTables.code (exT1.set 33 (tk 0 91 (idt "FOO")))) = some ⟨⟨0, 91⟩, .notDefinedType "FOO[]".toList⟩ ∧
    errorOf (parseTokens PrecTables.code (exT1.set 33 (tk 0 91 (idt "foo")))) = some ⟨⟨0, 91⟩, .notDefinedType "foo[]".toList⟩ := by
  decide +kernel

/-- `create_table_respell_equivariant` is not vacuous: lower-casing is a `CreateNameMap` -/
example : parseTokens PrecTables.code (exT1.map (PTok.ren lowerChars)) = (parseTokens PrecTables.code exT1).renCreate lowerChars :=
  create_table_respell_equivariant _ createNameMap_lowerChars exT1 exCreateHyps.1

end Sqlgrep.Props.C20Create
