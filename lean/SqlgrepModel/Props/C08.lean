import SqlgrepModel.Lemmas.DistinctSelect
import SqlgrepModel.Lemmas.DistinctAgg
/-
C08 — DISTINCT emits each distinct output tuple once, at its first occurrence.

Model: `distinctAdd` / `tupleSame` (Model/Engine.lean: `DistinctValues`, an `FnvHashSet<Vec<Value>>` — two tuples
fall together iff they feed the same hash stream and are `==`), consulted by `selectOne` after projection with a
memory that lives as long as the engine, and by `resultRows` (aggregate result table) with a fresh memory per
table, with and without HAVING. `runBatch` / `executeLine` / `aggResult` are the definitions the driver executes.

Vocabulary (Spec/Select.lean): `dedupFirst same xs` keeps each element of `xs` exactly when no earlier kept
element is the same (`dedupFirst_snoc`); the survivors are a sublist of `xs` (order and content unchanged).
`dedupBlocks` is `dedupFirst` on the row stream grouped by input line (`distinct_stream`).

What "the same tuple of values" means is a theorem, not a definition: `same_tuple_is_value_equality` — equal
length and `Value.beq` (the implementation's `==`) position by position; the hash part is implied (C16:
equal ⇒ same hash stream), so NULL = NULL, -0.0 = 0.0, NaN = NaN, nested arrays element-wise, and `tupleSame`
is an equivalence. KNOWN FINDING D45 (open; INT vs REAL in `Value`'s derived order/equality): the sentence says
"numbers by value", but an INT and a REAL of the same numeric value are different tuples for DISTINCT (`Value`'s
derived `==` compares the variants first) — `d45_int_real_not_same_tuple` below is the kernel-checked witness; all
other clauses of `same_tuple_is_value_equality` are as the sentence demands. It needs an output column that is INT
on one row and REAL on another (e.g. a CASE with branches of both types); a typed column never mixes them.

Runs whose version without DISTINCT (and without LIMIT) fails are outside the sentence (errors do not depend on
DISTINCT — projections are evaluated before the memory is consulted — so this is the same hypothesis as in C07).
Only this file states property theorems; helper lemmas live in `Lemmas/`.
-/
namespace Sqlgrep.Props.C08
open Sqlgrep Sqlgrep.Spec.Select

/-! ### what "the same tuple" means -/

/-- two output tuples are "the same" for DISTINCT iff they have the same number of columns and are equal by
`==` in every position (equal values always feed equal hash streams, so the hash set adds no condition) -/
theorem same_tuple_is_value_equality (a b : List Value) :
    tupleSame a b = true ↔
      a.length = b.length ∧ ∀ i (ha : i < a.length) (hb : i < b.length), Value.beq a[i] b[i] = true := by
  rw [tupleSame_eq_beqList]; exact beqList_iff a b

/-- "the same tuple" is an equivalence relation on tuples (reflexive also for NaN and NULL) -/
theorem same_tuple_equivalence :
    (∀ a, tupleSame a a = true) ∧ (∀ a b, tupleSame a b = true → tupleSame b a = true) ∧
    (∀ a b c, tupleSame a b = true → tupleSame b c = true → tupleSame a c = true) :=
  ⟨tupleSame_isEquiv.refl, tupleSame_isEquiv.symm, tupleSame_isEquiv.trans⟩

/-! ### first occurrences -/

/-- **a row is output exactly when no earlier output row has the same tuple**: extending the input of DISTINCT
by one row `x` extends its output by `x` iff none of the rows output so far is the same as `x` — equivalently
(the relation being an equivalence) iff no earlier row at all is the same; the earlier output is unchanged -/
theorem row_output_iff_no_earlier_same (xs : List (List Value)) (x : List Value) :
    dedupFirst tupleSame (xs ++ [x]) =
        dedupFirst tupleSame xs ++ (if (dedupFirst tupleSame xs).any (tupleSame x) then [] else [x]) ∧
    (dedupFirst tupleSame xs).any (tupleSame x) = xs.any (tupleSame x) :=
  ⟨dedupFirst_snoc tupleSame xs x, dedupFirst_any_eq tupleSame tupleSame_isEquiv xs x⟩

/-- **otherwise nothing changes**: the surviving rows are rows of the input, in their order, unchanged; no two
of them are the same; and every input row is represented by a survivor -/
theorem survivors_keep_order_and_content (xs : List (List Value)) :
    (dedupFirst tupleSame xs).Sublist xs ∧
    (dedupFirst tupleSame xs).Pairwise (fun a b => tupleSame a b = false) ∧
    (∀ x ∈ xs, (dedupFirst tupleSame xs).any (tupleSame x) = true) := by
  refine ⟨dedupFrom_sublist tupleSame [] xs, (dedupFrom_pairwise tupleSame tupleSame_isEquiv [] xs).1, ?_⟩
  intro x hx
  have := dedupFrom_covers tupleSame tupleSame_isEquiv [] xs x hx
  simpa [dedupFirst] using this

/-- grouping the stream by input line changes neither rows nor order -/
theorem distinct_stream (blocks : List (List (List Value))) :
    (dedupBlocks tupleSame [] blocks).flatten = dedupFirst tupleSame blocks.flatten :=
  dedupBlocks_flatten tupleSame [] blocks

/-! ### non-aggregate statements -/

/-- **SELECT DISTINCT = first occurrences of the output without DISTINCT**, for every list of files, every join
index (several rows per line), every LIMIT. If the run without DISTINCT and LIMIT does not fail and `blocks` are
the row blocks it prints, then the run with DISTINCT prints the blocks `dedupBlocks tupleSame [] blocks` — whose
row stream is `dedupFirst tupleSame` of the stream of `blocks` — cut by LIMIT n to their first n rows, and
reports no error. -/
theorem distinct_is_first_occurrences (O : Oracles) (qy : Query) (q : SelectStmt) (joined : List FileLine)
    (files : List (List FileLine))
    (hu : hasFailed (runBatch O (qy.withSelect ((q.withLimit none).withDistinct false)) joined files none) = false) :
    ∃ blocks : List (List (List Value)),
      batchBlocks O qy q joined files = some blocks ∧
      runBatch O (qy.withSelect ((q.withLimit none).withDistinct false)) joined files none =
        { printed := render (columnsOf qy q) blocks, totalLines := blocks.length } ∧
      runBatch O (qy.withSelect (q.withDistinct true)) joined files none =
        { printed := render (columnsOf qy q) (applyLimit q.limit (dedupBlocks tupleSame [] blocks)),
          totalLines := linesConsumed q.limit (dedupBlocks tupleSame [] blocks) } ∧
      (applyLimit q.limit (dedupBlocks tupleSame [] blocks)).flatten =
        (match q.limit with
          | some n => (dedupFirst tupleSame blocks.flatten).take n
          | none => dedupFirst tupleSame blocks.flatten) := by
  have hs0 : SameRows q ((q.withLimit none).withDistinct false) := ⟨rfl, rfl, rfl⟩
  have hs1 : SameRows q (q.withDistinct true) := ⟨rfl, rfl, rfl⟩
  obtain ⟨blocks, hb⟩ := batchBlocks_of_unlimited_ok O (qy.withSelect ((q.withLimit none).withDistinct false))
    ((q.withLimit none).withDistinct false) rfl rfl joined files hu
  have hb0 : batchBlocks O qy q joined files = some blocks := by
    rw [← batchBlocks_same O qy q _ hs0]; exact hb
  have hb1 : batchBlocks O (qy.withSelect (q.withDistinct true)) (q.withDistinct true) joined files = some blocks := by
    rw [batchBlocks_same O qy q _ hs1]; exact hb0
  refine ⟨blocks, hb0, ?_, ?_, ?_⟩
  · rw [runBatch_select_eq_spec O _ _ rfl joined files blocks hb]
    simp only [runOf, outBlocks, applyLimit, applyDistinct, linesConsumed, columnsOf_same qy q _ hs0,
      SelectStmt.withDistinct_distinct, SelectStmt.withDistinct_limit, SelectStmt.withLimit_limit]
    simp
  · rw [runBatch_select_eq_spec O _ _ rfl joined files blocks hb1]
    simp only [runOf, outBlocks, applyDistinct, columnsOf_same qy q _ hs1,
      SelectStmt.withDistinct_distinct, SelectStmt.withDistinct_limit]
    simp
  · cases q.limit with
    | none => exact dedupBlocks_flatten tupleSame [] blocks
    | some n => simp only [applyLimit, takeBlocks_flatten, dedupBlocks_flatten]; rfl

/-! ### aggregate statements -/

/-- **every result table separately**: for any aggregation state (any history of lines, any number of earlier
result tables), the result table computed with DISTINCT is the table computed without DISTINCT with each
distinct row kept once, at its first occurrence (same columns, same state afterwards, the same error if a
cell or HAVING cannot be evaluated) — with or without HAVING. The memory is fresh for every table: the
statement has no memory parameter at all. -/
theorem agg_distinct_each_table (O : Oracles) (q : AggStmt) (st : AggState) :
    aggResult O (q.withDistinct true) st =
      Outcome.mapOk (fun p => (p.1, dedupTable p.2)) (aggResult O (q.withDistinct false) st) :=
  aggResult_distinct O (q := q.withDistinct false) (q' := q.withDistinct true) ⟨rfl, rfl, rfl, rfl, rfl, rfl⟩ rfl rfl st

/-- the row list itself, for any starting memory: with DISTINCT = `dedupFrom` of the rows without -/
theorem agg_distinct_rows (O : Oracles) (q : AggStmt) (groups : List (List Value × List (Nat × Value)))
    (seen : List (List Value)) :
    resultRows O (q.withDistinct true) groups seen =
      Outcome.mapOk (dedupFrom tupleSame seen) (resultRows O (q.withDistinct false) groups []) :=
  resultRows_distinct O (q := q.withDistinct false) (q' := q.withDistinct true) ⟨rfl, rfl, rfl, rfl, rfl, rfl⟩ rfl rfl
    groups seen []

/-- **batch mode**: the run with DISTINCT reads the same lines and prints the table printed without DISTINCT
(and LIMIT) with every distinct row once at its first occurrence, cut by LIMIT afterwards -/
theorem agg_distinct_batch (O : Oracles) (qy : Query) (q : AggStmt) (joined : List FileLine)
    (files : List (List FileLine))
    (hu : hasFailed (runBatch O (qy.withAgg ((q.withLimit none).withDistinct false)) joined files none) = false) :
    ∃ r : RowOut,
      runBatch O (qy.withAgg ((q.withLimit none).withDistinct false)) joined files none =
        { runBatch O (qy.withAgg ((q.withLimit none).withDistinct false)) joined files none with
          printed := r.rows.map (renderRecord r.columns) } ∧
      runBatch O (qy.withAgg (q.withDistinct true)) joined files none =
        { runBatch O (qy.withAgg ((q.withLimit none).withDistinct false)) joined files none with
          printed := ((match q.limit with
            | some n => (dedupFirst tupleSame r.rows).take n
            | none => dedupFirst tupleSame r.rows)).map (renderRecord r.columns) } :=
  runBatch_agg_distinct O qy q joined files hu

/-- **follow mode / line-at-a-time** (update + result): a step returns its result table (`stepTable`: every
environment of the line — one per join partner, exactly one without a join — updates the state, then one table iff one of
them updated), and with DISTINCT that table is the table without DISTINCT, deduplicated on its own -/
theorem agg_distinct_step_tables (O : Oracles) (qy : Query) (q : AggStmt) (hq : qy.stmt = .aggregate q)
    (idx : JoinIndex) (es : EngineState) (l : Line) (envs : List (Env × List String)) :
    (executeLine O qy idx true es l =
      if !anyResult l.row then .ok (updateLimit false q.limit es none)
      else (lineEnvs qy idx false l).bind (fun envs =>
        (stepTable O q envs es.agg).bind (fun t =>
          .ok (updateLimit false q.limit { es with agg := t.1 } t.2)))) ∧
    stepTable O (q.withDistinct true) envs es.agg =
      Outcome.mapOk (fun t => (t.1, t.2.map dedupTable)) (stepTable O (q.withDistinct false) envs es.agg) :=
  ⟨executeLine_agg_result O qy q hq idx es l,
   stepTable_distinct O (q := q.withDistinct false) (q' := q.withDistinct true) ⟨rfl, rfl, rfl, rfl, rfl, rfl⟩ rfl rfl
     envs es.agg⟩

/-! ### non-vacuity and concrete behaviour -/

-- NULL equals NULL, -0.0 equals 0.0, NaN equals NaN
example : tupleSame [.null, .int 1] [.null, .int 1] = true := by decide
example : tupleSame [.real 0x8000000000000000] [.real 0] = true := by decide
example : tupleSame [.real 0x7ff8000000000000] [.real 0x7ff8000000000001] = true := by decide
/-- KNOWN FINDING D45, instance for DISTINCT (kept as a kernel-checked witness): INT 1 and REAL 1.0 are not the
same tuple although they are the same number — `Value`'s derived equality distinguishes the types -/
theorem d45_int_real_not_same_tuple : tupleSame [.int 1] [.real 0x3ff0000000000000] = false := by decide
example : tupleSame [.int 1, .null] [.int 1, .int 2] = false := by decide
-- first occurrences: a tuple recurring after a gap, tuples differing in one column / only by NULL
example : dedupFirst tupleSame [[.int 1, .null], [.int 1, .int 2], [.null, .null], [.int 1, .null], [.int 1, .int 2]] =
    [[.int 1, .null], [.int 1, .int 2], [.null, .null]] := by rfl

def exTable : TableInfo := { name := "t", columns := ["v", "w"] }
def exQuery (lim : Option Nat) (d : Bool) : Query :=
  { stmt := .select { projections := [("v", .column "v")], wildcard := false, filter := none, limit := lim, distinct := d },
    table := exTable, join := none }
def exLine (v : Value) : FileLine := { readable := true, line := { text := [], row := [v, .int 7] } }
def exFiles : List (List FileLine) := [[exLine (.int 1), exLine .null], [exLine (.int 1), exLine .null, exLine (.int 2)]]

-- the hypothesis of `distinct_is_first_occurrences` holds here; DISTINCT keeps 1, NULL, 2 (memory across files)
example : hasFailed (runBatch {} (exQuery none false) [] exFiles none) = false := by decide
example : (runBatch {} (exQuery none true) [] exFiles none).printed = ["v: 1", "v: NULL", "v: 2"] := by decide

end Sqlgrep.Props.C08
