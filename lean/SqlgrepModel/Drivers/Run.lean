import SqlgrepModel.CodecStmt
import SqlgrepModel.Spec.Agg
import SqlgrepModel.Spec.Select
/- `batch` (FileExecutor run, text format) and `incr` (line-at-a-time engine outputs). -/
namespace Sqlgrep.Drivers.Run
open Sqlgrep

def statusOf (ro : RunOut) : String :=
  if ro.skipped.isSome then "skip"
  else if ro.panicked then "panic"
  else match ro.error with
    | some k => "err:" ++ k.name
    | none => "ok"

def runOutToWire (ro : RunOut) : String :=
  if ro.skipped.isSome then "skip " ++ ro.skipped.getD ""
  else statusOf ro ++ " total=" ++ toString ro.totalLines ++ " out=" ++
    ",".intercalate (ro.printed.map (fun l => Sexp.showBytes (strBytes l)))

def handleBatch (args : List Sexp) : String :=
  match args with
  | [o, q, j, .list (.atom "files" :: fs), stop] =>
    match Oracles.ofSexp o, Query.ofSexp q, fileOfSexp j, fs.mapM fileOfSexp, optNat stop with
    | some o, some q, some j, some fs, some stop =>
      let model := runOutToWire (runBatch o q j fs stop)
      -- three-way comparison: the executable specification's answer travels with the model's
      let spec := if stop.isSome then none else match q.stmt with
        | .aggregate a => Spec.Agg.batch o q a j fs
        | .select s => Spec.Select.batch o q s j fs
      -- fourth field: the deviating answer the open finding PREDICTS; `./check` attributes a deviation to the finding only
      -- when the implementation answered exactly that
      let pred := if stop.isSome then none else match q.stmt with
        | .aggregate a => Spec.Agg.predicted o q a j fs
        | .select _ => none
      match spec with
      | some (ro, cls) =>
        model ++ " ## " ++ runOutToWire ro ++ " ## " ++ (if cls.isEmpty then "spec-mismatch" else cls) ++
          (match pred with
            | some pr => " ## " ++ runOutToWire pr
            | none => "")
      | none => model
    | none, _, _, _, _ => "bad-oracles"
    | _, none, _, _, _ => "bad-query"
    | _, _, none, _, _ => "bad-joined"
    | _, _, _, none, _ => "bad-files"
    | _, _, _, _, none => "bad-stop"
  | _ => "bad-case"

/-- line-at-a-time with update+result: per line `-` or the result rows, `!` appended when the limit was reached -/
def incrLoop (O : Oracles) (qy : Query) (idx : JoinIndex) : List FileLine → EngineState → List String → List String
  | [], _, acc => acc.reverse
  | fl :: rest, es, acc =>
    match executeLine O qy idx true es fl.line with
    | .ok (es', lo) =>
      let item := (match lo.result with
        | some r => rowOutToWire r
        | none => "-") ++ (if lo.reachedLimit then "!" else "")
      incrLoop O qy idx rest es' (item :: acc)
    | .error k => (("err:" ++ k.name) :: acc).reverse
    | .panic _ => ("panic" :: acc).reverse
    | .oracleMissing w => ["skip " ++ w]

def handleIncr (args : List Sexp) : String :=
  match args with
  | [o, q, j, f] =>
    match Oracles.ofSexp o, Query.ofSexp q, fileOfSexp j, fileOfSexp f with
    | some o, some q, some j, some f =>
      let idxO : Outcome JoinIndex := match q.join with
        | some ji => setupJoin q.table ji (loadJoinFile ji j)
        | none => .ok []
      match idxO with
      | .ok idx =>
        let items := incrLoop o q idx f {} []
        if items.any (·.startsWith "skip") then "skip" else "|".intercalate items
      | .error k => "err:" ++ k.name
      | _ => "panic"
    | _, _, _, _ => "bad-case"
  | _ => "bad-case"

end Sqlgrep.Drivers.Run
