import SqlgrepModel.Lemmas.ReaderUtf8
import SqlgrepModel.Lemmas.PrintGrammar
/-
`validUtf8` (the check `std::str::from_utf8` performs, Model/Reader.lean) accepts only byte strings that
are the UTF-8 encoding of a sequence of characters: the decidable form of `Print.IsUtf8`.
-/
namespace Sqlgrep.Print
open Sqlgrep.Utf8 Sqlgrep.Reader

theorem toNat_ofNat_valid {n : Nat} (h : n < 0xD800 ∨ (0xE000 ≤ n ∧ n < 0x110000)) : (Char.ofNat n).toNat = n := by
  cases h with
  | inl h => exact toNat_ofNat_small h
  | inr h =>
    have : n.isValidChar := Or.inr ⟨by omega, h.2⟩
    simp [Char.ofNat, this, Char.toNat, Char.ofNatAux]

theorem decode_some_cons {x : Option (List Char)} {c : Char} {cs : List Char}
    (h : x.map (c :: ·) = some cs) : ∃ cs', x = some cs' ∧ cs = c :: cs' := by
  cases x with
  | none => cases h
  | some cs' => exact ⟨cs', rfl, by simpa using h.symm⟩

theorem encode_of_decode : ∀ (bs : List Nat) (cs : List Char), decode bs = some cs → encode cs = bs := by
  intro bs
  induction bs using decode.induct with
  | case1 => intro cs h; simp only [decode, Option.some.injEq] at h; subst h; rfl
  | case2 b0 rest h ih =>
    intro cs hd
    rw [decode_cons, if_pos h] at hd
    obtain ⟨cs', h1, h2⟩ := decode_some_cons hd
    rw [h2, encode_cons', encodeChar_ascii h, ih cs' h1]; rfl
  | case3 b0 rest h1 h2 => intro cs hd; rw [decode_cons, if_neg h1, if_pos h2] at hd; cases hd
  | case4 b0 h1 h2 h3 b1 rest hc ih =>
    intro cs hd
    rw [decode_cons, if_neg h1, if_neg h2, if_pos h3] at hd
    simp only [hc, if_true] at hd
    obtain ⟨cs', e1, e2⟩ := decode_some_cons hd
    simp only [isCont, Bool.and_eq_true, decide_eq_true_eq] at hc
    have hn : (Char.ofNat ((b0 - 0xC0) * 64 + (b1 - 0x80))).toNat = (b0 - 0xC0) * 64 + (b1 - 0x80) :=
      toNat_ofNat_small (by omega)
    rw [e2, encode_cons', ih cs' e1]
    simp only [encodeChar, hn]
    rw [if_neg (by omega), if_pos (by omega)]
    simp only [List.cons_append, List.nil_append, List.cons.injEq, and_true]
    constructor <;> omega
  | case5 b0 h1 h2 h3 b1 rest hc =>
    intro cs hd; rw [decode_cons, if_neg h1, if_neg h2, if_pos h3] at hd; simp only [hc] at hd; cases hd
  | case6 b0 rest h1 h2 h3 hn =>
    intro cs hd; rw [decode_cons, if_neg h1, if_neg h2, if_pos h3] at hd
    cases rest with
    | nil => cases hd
    | cons b1 r => exact absurd rfl (hn b1 r)
  | case7 b0 h1 h2 h3 h4 b1 b2 rest n hc ih =>
    intro cs hd
    rw [decode_cons, if_neg h1, if_neg h2, if_neg h3, if_pos h4] at hd
    simp only [] at hd
    rw [if_pos hc] at hd
    obtain ⟨cs', e1, e2⟩ := decode_some_cons hd
    simp only [isCont, Bool.and_eq_true, Bool.not_eq_true', decide_eq_true_eq, Bool.and_eq_false_iff,
      decide_eq_false_iff_not, n] at hc
    have hn : (Char.ofNat ((b0 - 0xE0) * 4096 + (b1 - 0x80) * 64 + (b2 - 0x80))).toNat
        = (b0 - 0xE0) * 4096 + (b1 - 0x80) * 64 + (b2 - 0x80) := toNat_ofNat_valid (by omega)
    rw [e2, encode_cons', ih cs' e1]
    simp only [encodeChar, hn]
    rw [if_neg (by omega), if_neg (by omega), if_pos (by omega)]
    simp only [List.cons_append, List.nil_append, List.cons.injEq, and_true]
    refine ⟨?_, ?_, ?_⟩ <;> omega
  | case8 b0 h1 h2 h3 h4 b1 b2 rest n hc =>
    intro cs hd
    rw [decode_cons, if_neg h1, if_neg h2, if_neg h3, if_pos h4] at hd
    simp only [] at hd
    rw [if_neg hc] at hd; cases hd
  | case9 b0 rest h1 h2 h3 h4 hn =>
    intro cs hd; rw [decode_cons, if_neg h1, if_neg h2, if_neg h3, if_pos h4] at hd
    match rest, hn, hd with
    | [], _, hd => cases hd
    | [_], _, hd => cases hd
    | b1 :: b2 :: r, hn, _ => exact absurd rfl (hn b1 b2 r)
  | case10 b0 h1 h2 h3 h4 h5 b1 b2 b3 rest n hc ih =>
    intro cs hd
    rw [decode_cons, if_neg h1, if_neg h2, if_neg h3, if_neg h4, if_pos h5] at hd
    simp only [] at hd
    rw [if_pos hc] at hd
    obtain ⟨cs', e1, e2⟩ := decode_some_cons hd
    simp only [isCont, Bool.and_eq_true, decide_eq_true_eq, n] at hc
    have hn : (Char.ofNat ((b0 - 0xF0) * 262144 + (b1 - 0x80) * 4096 + (b2 - 0x80) * 64 + (b3 - 0x80))).toNat
        = (b0 - 0xF0) * 262144 + (b1 - 0x80) * 4096 + (b2 - 0x80) * 64 + (b3 - 0x80) :=
      toNat_ofNat_valid (by omega)
    rw [e2, encode_cons', ih cs' e1]
    simp only [encodeChar, hn]
    rw [if_neg (by omega), if_neg (by omega), if_neg (by omega)]
    simp only [List.cons_append, List.nil_append, List.cons.injEq, and_true]
    refine ⟨?_, ?_, ?_, ?_⟩ <;> omega
  | case11 b0 h1 h2 h3 h4 h5 b1 b2 b3 rest n hc =>
    intro cs hd
    rw [decode_cons, if_neg h1, if_neg h2, if_neg h3, if_neg h4, if_pos h5] at hd
    simp only [] at hd
    rw [if_neg hc] at hd; cases hd
  | case12 b0 rest h1 h2 h3 h4 h5 hn =>
    intro cs hd; rw [decode_cons, if_neg h1, if_neg h2, if_neg h3, if_neg h4, if_pos h5] at hd
    match rest, hn, hd with
    | [], _, hd => cases hd
    | [_], _, hd => cases hd
    | [_, _], _, hd => cases hd
    | b1 :: b2 :: b3 :: r, hn, _ => exact absurd rfl (hn b1 b2 b3 r)
  | case13 b0 rest h1 h2 h3 h4 h5 =>
    intro cs hd; rw [decode_cons, if_neg h1, if_neg h2, if_neg h3, if_neg h4, if_neg h5] at hd; cases hd

/-- a byte string that passes the UTF-8 check of `std::str::from_utf8` is the encoding of a character
sequence: `IsUtf8` holds of every Rust `String`, and `validUtf8` decides it -/
theorem isUtf8_of_valid {bs : List Nat} (h : validUtf8 bs = true) : IsUtf8 bs := by
  rw [validUtf8_eq_decode] at h
  cases hd : decode bs with
  | none => rw [hd] at h; cases h
  | some cs => exact ⟨cs, encode_of_decode bs cs hd⟩

end Sqlgrep.Print
