import SqlgrepModel.Lemmas.JsonDoc
import SqlgrepModel.Lemmas.FloatGrammar
/-
Which NUMBER a JSON number literal becomes (`JsonDoc.serdeNumber`, the function `docOfLine` executes for every number
of a line), in terms of the denotation `JsonGrammar.NumD lex d` the RFC 8259 grammar gives the literal.

* the sign (`lexNeg_of_numD`) and the REAL (`litReal_eq`): the literal's REAL is the nearest REAL of the decimal `d`
  (`nearestReal d`), except that a literal `-0…` of value zero is `-0.0` (the sign of a zero is the sign of the text);
* integer literals (`intLiteral_shape`, `intLiteral_iff_chars`): `isIntLiteral` holds exactly of `[-] int` — no
  fraction, no exponent —, and then the denotation is `⟨±digits, 0⟩`;
* `serdeNumber_classify`: serde_json's three-way classification, in terms of `d`; `serdeNumber_none_iff`: out of range;
* `toJson_none_iff`: a parsed text has no document exactly when one of its number literals is out of range;
* `numD_floatD` / `json_number_is_from_str`: a JSON number literal is a text of the `f64::from_str` grammar with the same
  denotation, so its REAL is what `f64::from_str` (`DecFloat.parseF64`) answers for the same text.
-/
namespace Sqlgrep.JsonDoc
open Sqlgrep.JsonGrammar

/-! ### sign -/

theorem lexNeg_cons (c : Char) (t : List Char) : lexNeg (c :: t) = decide (c = '-') := by
  unfold lexNeg
  split
  · rename_i h; cases h; rfl
  · rename_i h
    have : c ≠ '-' := fun e => h t (by rw [e])
    simp [this]

theorem isIntLiteral_cons (c : Char) (t : List Char) :
    isIntLiteral (c :: t) =
      if c = '-' then t.all (fun c => decide (Digit c)) else (c :: t).all (fun c => decide (Digit c)) := by
  unfold isIntLiteral
  split
  · rename_i h; cases h; rfl
  · rename_i h
    have : c ≠ '-' := fun e => h t (by rw [e])
    simp [this]

theorem intPart_digits {i : List Char} (hi : IntPart i) : Digits i ∧ ∃ c t, i = c :: t ∧ c ≠ '-' := by
  cases hi with
  | zero => exact ⟨by decide, '0', [], rfl, by decide⟩
  | @nonzero d ds hd hds =>
    exact ⟨Digits.cons (digit19_digit hd) hds, d, ds, rfl, (digit_ne_sign (digit19_digit hd)).1⟩

/-- a literal without `-` starts with a digit -/
theorem lexNeg_pos {i : List Char} (hi : IntPart i) (r : List Char) : lexNeg (i ++ r) = false := by
  obtain ⟨_, c, t, rfl, hc⟩ := intPart_digits hi
  rw [List.cons_append, lexNeg_cons]; simp [hc]

/-- the sign of the literal and the sign of its denotation: they agree, and a zero can carry either sign -/
theorem lexNeg_of_numD {lex : List Char} {d : Dec} (h : NumD lex d) :
    (lexNeg lex = true → d.mant ≤ 0) ∧ (lexNeg lex = false → 0 ≤ d.mant) := by
  cases h with
  | @pos i f e fd ev hi hf he =>
    rw [List.append_assoc, lexNeg_pos hi]
    exact ⟨fun h => (by cases h), fun _ => Int.natCast_nonneg _⟩
  | @neg i f e fd ev hi hf he =>
    rw [lexNeg_cons]
    refine ⟨fun _ => ?_, fun h => (by simp at h)⟩
    have := Int.natCast_nonneg (digitsVal (i ++ fd))
    show -(digitsVal (i ++ fd) : Int) ≤ 0
    omega

/-- the REAL nearest to the decimal number `d` (`+0.0` for zero): a function of the denotation alone -/
def nearestReal (d : Dec) : Nat := DecFloat.decToF64 (decide (d.mant < 0)) d.mant.natAbs d.exp

/-- **the REAL of a literal, sign of zero included**: it is the nearest REAL of the literal's decimal value; when
that value is zero and the literal starts with `-` (`-0`, `-0.0`, `-0e7`) it is `-0.0` -/
theorem litReal_eq {lex : List Char} {d : Dec} (h : NumD lex d) :
    realOfDec (lexNeg lex) d = if lexNeg lex = true ∧ d.mant = 0 then DecFloat.signMask else nearestReal d := by
  have hs := lexNeg_of_numD h
  unfold realOfDec nearestReal
  cases hn : lexNeg lex with
  | false =>
    have := hs.2 hn
    have hd : decide (d.mant < 0) = false := by simp; omega
    simp [hd]
  | true =>
    have := hs.1 hn
    by_cases h0 : d.mant = 0
    · simp [h0, DecFloat.decToF64]
    · have hd : decide (d.mant < 0) = true := by simp; omega
      simp [h0, hd]

/-! ### integer literals: `[-] int`, no fraction, no exponent -/

theorem all_digit_iff (cs : List Char) : cs.all (fun c => decide (Digit c)) = true ↔ Digits cs := by
  simp [Digits, List.all_eq_true]

theorem fracD_digits {f fd : List Char} (hf : FracD f fd) (h : Digits f) : f = [] ∧ fd = [] := by
  cases hf with
  | none => exact ⟨rfl, rfl⟩
  | some _ => exact absurd (h '.' (List.mem_cons_self ..)) (by decide)

theorem expD_digits {e : List Char} {ev : Int} (he : ExpD e ev) (h : Digits e) : e = [] ∧ ev = 0 := by
  have no : ∀ {c : Char} {t : List Char}, (c = 'e' ∨ c = 'E') → Digits (c :: t) → False := by
    intro c t hc hd
    have := hd c (List.mem_cons_self ..)
    rcases hc with rfl | rfl <;> exact absurd this (by decide)
  cases he with
  | none => exact ⟨rfl, rfl⟩
  | plain hc _ => exact (no hc h).elim
  | plus hc _ => exact (no hc h).elim
  | minus hc _ => exact (no hc h).elim

theorem digits_append {a b : List Char} : Digits (a ++ b) ↔ Digits a ∧ Digits b := by
  unfold Digits
  constructor
  · intro h; exact ⟨fun c hc => h c (List.mem_append_left _ hc), fun c hc => h c (List.mem_append_right _ hc)⟩
  · rintro ⟨h1, h2⟩ c hc
    rcases List.mem_append.1 hc with hc | hc
    · exact h1 c hc
    · exact h2 c hc

/-- the two integer literals over an `int` and what they denote -/
theorem intLiteral_of_int {i : List Char} (hi : IntPart i) :
    isIntLiteral i = true ∧ isIntLiteral ('-' :: i) = true ∧
    NumD i ⟨digitsVal i, 0⟩ ∧ NumD ('-' :: i) ⟨-(digitsVal i : Int), 0⟩ := by
  obtain ⟨hd, c, t, rfl, hc⟩ := intPart_digits hi
  have key := @NumD.pos _ [] [] [] 0 hi FracD.none ExpD.none
  have keyn := @NumD.neg _ [] [] [] 0 hi FracD.none ExpD.none
  simp only [List.append_nil, List.length_nil] at key keyn
  refine ⟨?_, ?_, by simpa using key, by simpa using keyn⟩
  · rw [isIntLiteral_cons, if_neg hc, all_digit_iff]; exact hd
  · rw [isIntLiteral_cons, if_pos rfl, all_digit_iff]; exact hd

/-- **an integer literal is `[-] int`**: when `isIntLiteral` holds of a `number`, the text is an `int` with an optional
minus in front — no fraction, no exponent — and it denotes that integer with exponent 0 -/
theorem intLiteral_shape {lex : List Char} {d : Dec} (h : NumD lex d) (hint : isIntLiteral lex = true) :
    ∃ i, IntPart i ∧ ((lex = i ∧ d = ⟨digitsVal i, 0⟩) ∨ (lex = '-' :: i ∧ d = ⟨-(digitsVal i : Int), 0⟩)) := by
  cases h with
  | @pos i f e fd ev hi hf he =>
    obtain ⟨_, c, t, hct, hc⟩ := intPart_digits hi
    have hall : Digits (i ++ f ++ e) := by
      subst hct
      rw [List.append_assoc, List.cons_append, isIntLiteral_cons, if_neg hc, all_digit_iff] at hint
      rw [List.append_assoc]; exact hint
    rw [digits_append, digits_append] at hall
    obtain ⟨rfl, rfl⟩ := fracD_digits hf hall.1.2
    obtain ⟨rfl, rfl⟩ := expD_digits he hall.2
    exact ⟨i, hi, Or.inl ⟨by simp, by simp⟩⟩
  | @neg i f e fd ev hi hf he =>
    have hall : Digits (i ++ f ++ e) := by
      rw [isIntLiteral_cons, if_pos rfl, all_digit_iff] at hint; exact hint
    rw [digits_append, digits_append] at hall
    obtain ⟨rfl, rfl⟩ := fracD_digits hf hall.1.2
    obtain ⟨rfl, rfl⟩ := expD_digits he hall.2
    exact ⟨i, hi, Or.inr ⟨by simp, by simp⟩⟩

/-- … said on the characters: a `number` is an integer literal exactly when it contains neither a decimal point nor
an exponent marker -/
theorem intLiteral_iff_chars {lex : List Char} {d : Dec} (h : NumD lex d) :
    isIntLiteral lex = true ↔ ∀ c ∈ lex, c ≠ '.' ∧ c ≠ 'e' ∧ c ≠ 'E' := by
  constructor
  · intro hint c hc
    obtain ⟨i, hi, ⟨rfl, _⟩ | ⟨rfl, _⟩⟩ := intLiteral_shape h hint
    · have := digit_ne_sign ((intPart_digits hi).1 c hc)
      exact ⟨this.2.2.1, this.2.2.2⟩
    · rcases List.mem_cons.1 hc with rfl | hc
      · decide
      · have := digit_ne_sign ((intPart_digits hi).1 c hc)
        exact ⟨this.2.2.1, this.2.2.2⟩
  · intro hno
    have hf0 : ∀ {f fd : List Char}, FracD f fd → (∀ c ∈ f, c ≠ '.') → f = [] := by
      intro f fd hf hn
      cases hf with
      | none => rfl
      | some _ => exact absurd rfl (hn '.' (List.mem_cons_self ..))
    have he0 : ∀ {e : List Char} {ev : Int}, ExpD e ev → (∀ c ∈ e, c ≠ 'e' ∧ c ≠ 'E') → e = [] := by
      intro e ev he hn
      have no : ∀ {c : Char} {t : List Char}, (c = 'e' ∨ c = 'E') → (∀ x ∈ c :: t, x ≠ 'e' ∧ x ≠ 'E') → False := by
        intro c t hc hx
        have := hx c (List.mem_cons_self ..)
        rcases hc with rfl | rfl
        · exact this.1 rfl
        · exact this.2 rfl
      cases he with
      | none => rfl
      | plain hc _ => exact (no hc hn).elim
      | plus hc _ => exact (no hc hn).elim
      | minus hc _ => exact (no hc hn).elim
    cases h with
    | @pos i f e fd ev hi hf he =>
      have f0 := hf0 hf (fun c hc => (hno c (by simp [hc])).1)
      have e0 := he0 he (fun c hc => (hno c (by simp [hc])).2)
      subst f0; subst e0
      simpa using (intLiteral_of_int hi).1
    | @neg i f e fd ev hi hf he =>
      have f0 := hf0 hf (fun c hc => (hno c (by simp [hc])).1)
      have e0 := he0 he (fun c hc => (hno c (by simp [hc])).2)
      subst f0; subst e0
      simpa using (intLiteral_of_int hi).2.1

/-! ### serde_json's classification, in terms of the denotation -/

theorem u64Max_bits : DecFloat.decToF64 false u64Max 0 = 0x43f0000000000000 := by decide +kernel

/-- an integer that fits `u64` is inside the REAL range -/
theorem u64_finite (m : Nat) (h : m ≤ u64Max) : DecFloat.decToF64 false m 0 ≠ DecFloat.infBits := by
  have := DecFloat.decToF64_mono m u64Max 0 h
  rw [u64Max_bits] at this
  unfold DecFloat.infBits; omega

/-- **`serdeNumber` in terms of the denotation.** For a `number` literal `lex` denoting `d`:
* out of the REAL range (the magnitude rounds to infinity) ⇒ no number (`NumberOutOfRange`);
* an integer literal without minus and `≤ u64::MAX` ⇒ `PosInt(d.mant)`;
* an integer literal of negative value `≥ i64::MIN` ⇒ `NegInt(d.mant)`;
* everything else — a fraction or an exponent (even when the value is integral: `1.0`, `1e2`), an integer literal
  beyond those bounds, and `-0` — ⇒ `Float`;
in each case the REAL carried along is `realOfDec (lexNeg lex) d` (`litReal_eq`). -/
theorem serdeNumber_classify {lex : List Char} {d : Dec} (h : NumD lex d) :
    serdeNumber lex =
      if DecFloat.decToF64 false d.mant.natAbs d.exp = DecFloat.infBits then none
      else if isIntLiteral lex = true ∧ lexNeg lex = false ∧ d.mant ≤ (u64Max : Int) then
        some (.posInt d.mant.toNat (realOfDec (lexNeg lex) d))
      else if isIntLiteral lex = true ∧ d.mant < 0 ∧ -9223372036854775808 ≤ d.mant then
        some (.negInt d.mant (realOfDec (lexNeg lex) d))
      else some (.float (realOfDec (lexNeg lex) d)) := by
  have hs := lexNeg_of_numD h
  unfold serdeNumber
  rw [numValue_complete h]
  simp only [realOfDec_mag]
  by_cases hinf : DecFloat.decToF64 false d.mant.natAbs d.exp = DecFloat.infBits
  · simp only [hinf, if_true]
  · simp only [hinf, if_false]
    by_cases hint : isIntLiteral lex = true
    · simp only [hint, true_and]
      cases hn : lexNeg lex with
      | false =>
        have h0 := hs.2 hn
        have e1 : d.mant.toNat = d.mant.natAbs := by omega
        have e2 : (d.mant.natAbs ≤ u64Max) ↔ d.mant ≤ (u64Max : Int) := by omega
        by_cases hu : d.mant ≤ (u64Max : Int)
        · simp [hu, e2.2 hu, e1]
        · have : ¬ d.mant.natAbs ≤ u64Max := fun x => hu (e2.1 x)
          have hneg : ¬ d.mant < 0 := by omega
          simp [hu, this, hneg]
      | true =>
        have h0 := hs.1 hn
        have e3 : -(d.mant.natAbs : Int) = d.mant := by omega
        simp only [Bool.not_true, Bool.false_eq_true, if_false, Bool.true_eq_false, false_and]
        by_cases hz : d.mant = 0
        · simp [hz, u64Max]
        · have hlt : d.mant < 0 := by omega
          have hne : d.mant.natAbs ≠ 0 := by omega
          by_cases hb : -9223372036854775808 ≤ d.mant
          · have h1 : d.mant.natAbs ≤ 9223372036854775808 := by omega
            have h2 : d.mant.natAbs ≤ u64Max := by unfold u64Max; omega
            simp [hlt, hb, h1, h2, hne, e3]
          · have h1 : ¬ d.mant.natAbs ≤ 9223372036854775808 := by omega
            by_cases h2 : d.mant.natAbs ≤ u64Max
            · simp [hb, h1, h2, hne]
            · simp [hb, h2]
    · simp [hint]

/-- out of range: exactly the literals whose magnitude rounds to infinity, i.e. (by `DecFloat.decToF64_overflow_iff`)
whose value `|mant| · 10^exp` is at least `(2^54 − 1) · 2^970 = 2^1024 − 2^970` -/
theorem serdeNumber_none_iff {lex : List Char} {d : Dec} (h : NumD lex d) :
    serdeNumber lex = none ↔ DecFloat.decToF64 false d.mant.natAbs d.exp = DecFloat.infBits := by
  rw [serdeNumber_classify h]
  constructor
  · intro hx
    by_cases hinf : DecFloat.decToF64 false d.mant.natAbs d.exp = DecFloat.infBits
    · exact hinf
    · rw [if_neg hinf] at hx
      split at hx
      · cases hx
      · split at hx <;> cases hx
  · intro hinf; rw [if_pos hinf]

/-- the REAL of the number (`as_f64`), for every literal in range -/
theorem serdeNumber_asF64 {lex : List Char} {d : Dec} (h : NumD lex d) (n : JNum) (hn : serdeNumber lex = some n) :
    (Json.num n).asF64 = some (realOfDec (lexNeg lex) d) := by
  obtain ⟨d', hd', hf, _⟩ := serdeNumber_spec lex n hn
  rw [numValue_complete h] at hd'
  cases hd'
  exact hf

/-! ### the columns: INT and REAL from a number literal -/

/-- **an INT column fed from the literal**: it holds `d.mant` exactly when the literal is an integer literal
(`[-] int`) whose value fits `i64` — except the literal `-0`, which serde_json keeps as the float `-0.0` —, and NULL for
every other number literal: `1.0`, `1e2`, `9223372036854775808` … `18446744073709551615` (serde's `PosInt` beyond
`i64::MAX`), anything beyond `u64`, `-9223372036854775809`, `0.5` -/
theorem int_of_literal {lex : List Char} {d : Dec} (h : NumD lex d) (n : JNum) (hn : serdeNumber lex = some n) :
    convertFromJson .int (.num n) =
      if isIntLiteral lex = true ∧ -9223372036854775808 ≤ d.mant ∧ d.mant ≤ 9223372036854775807 ∧
          ¬ (lexNeg lex = true ∧ d.mant = 0) then .int d.mant
      else .null := by
  have hs := lexNeg_of_numD h
  rw [serdeNumber_classify h] at hn
  split at hn
  · cases hn
  · split at hn
    · rename_i hc
      obtain ⟨hint, hneg, hu⟩ := hc
      have h0 := hs.2 hneg
      cases hn
      simp only [convertFromJson, Json.asI64]
      by_cases hi : d.mant.toNat ≤ 9223372036854775807
      · have : d.mant ≤ 9223372036854775807 := by omega
        have e : ((d.mant.toNat : Nat) : Int) = d.mant := by omega
        simp [hi, hint, hneg, this, e]; omega
      · have : ¬ d.mant ≤ 9223372036854775807 := by omega
        simp [hi, this]
    · split at hn
      · rename_i hc
        obtain ⟨hint, hlt, hb⟩ := hc
        cases hn
        have : d.mant ≤ 9223372036854775807 := by omega
        have hz : d.mant ≠ 0 := by omega
        simp [convertFromJson, Json.asI64, hint, hb, this, hz]
      · rename_i hc1 hc2
        cases hn
        simp only [convertFromJson, Json.asI64]
        rw [if_neg]
        rintro ⟨hint, hlo, hhi, hnz⟩
        by_cases hneg : lexNeg lex = true
        · have := hs.1 hneg
          have hz : d.mant ≠ 0 := fun e => hnz ⟨hneg, e⟩
          exact hc2 ⟨hint, by omega, hlo⟩
        · have hneg' : lexNeg lex = false := by simpa using hneg
          exact hc1 ⟨hint, hneg', by unfold u64Max; omega⟩

/-- **a REAL column fed from the literal** holds the literal's REAL -/
theorem real_of_literal {lex : List Char} {d : Dec} (h : NumD lex d) (n : JNum) (hn : serdeNumber lex = some n) :
    convertFromJson .real (.num n) = .real (realOfDec (lexNeg lex) d) := by
  have := serdeNumber_asF64 h n hn
  simp only [convertFromJson, this]

/-! ### a literal out of range: the whole text has no document -/

mutual
/-- a parsed text has no document exactly when one of its number literals has no number (out of range) -/
theorem toJson_none_iff : ∀ (l : LVal), toJson l = none ↔ ∃ lex ∈ l.lexemes, serdeNumber lex = none
  | .null => by simp [toJson, LVal.lexemes]
  | .bool b => by simp [toJson, LVal.lexemes]
  | .str s => by simp [toJson, LVal.lexemes]
  | .num lex => by simp [toJson, LVal.lexemes]
  | .arr xs => by
    rw [toJson, LVal.lexemes, ← toJsonList_none_iff xs]
    cases toJsonList xs <;> simp
  | .obj ms => by
    rw [toJson, LVal.lexemes, ← toJsonMembers_none_iff ms]
    cases toJsonMembers ms <;> simp
theorem toJsonList_none_iff : ∀ (xs : List LVal), toJsonList xs = none ↔ ∃ lex ∈ LVal.lexemesList xs, serdeNumber lex = none
  | [] => by simp [toJsonList, LVal.lexemesList]
  | x :: xs => by
    rw [toJsonList, LVal.lexemesList]
    have h1 := toJson_none_iff x
    have h2 := toJsonList_none_iff xs
    cases hx : toJson x with
    | none =>
      obtain ⟨lex, hl, hs⟩ := h1.1 hx
      simp only [true_iff]
      exact ⟨lex, List.mem_append_left _ hl, hs⟩
    | some v =>
      have n1 : ¬ ∃ lex ∈ x.lexemes, serdeNumber lex = none := fun h => by rw [h1.2 h] at hx; cases hx
      cases hxs : toJsonList xs with
      | none =>
        obtain ⟨lex, hl, hs⟩ := h2.1 hxs
        simp only [true_iff]
        exact ⟨lex, List.mem_append_right _ hl, hs⟩
      | some vs =>
        have n2 : ¬ ∃ lex ∈ LVal.lexemesList xs, serdeNumber lex = none := fun h => by rw [h2.2 h] at hxs; cases hxs
        simp only [reduceCtorEq, false_iff]
        rintro ⟨lex, hl, hs⟩
        rcases List.mem_append.1 hl with hl | hl
        · exact n1 ⟨lex, hl, hs⟩
        · exact n2 ⟨lex, hl, hs⟩
theorem toJsonMembers_none_iff : ∀ (ms : List (List Char × LVal)),
    toJsonMembers ms = none ↔ ∃ lex ∈ LVal.lexemesMembers ms, serdeNumber lex = none
  | [] => by simp [toJsonMembers, LVal.lexemesMembers]
  | (k, x) :: ms => by
    rw [toJsonMembers, LVal.lexemesMembers]
    have h1 := toJson_none_iff x
    have h2 := toJsonMembers_none_iff ms
    cases hx : toJson x with
    | none =>
      obtain ⟨lex, hl, hs⟩ := h1.1 hx
      simp only [true_iff]
      exact ⟨lex, List.mem_append_left _ hl, hs⟩
    | some v =>
      have n1 : ¬ ∃ lex ∈ x.lexemes, serdeNumber lex = none := fun h => by rw [h1.2 h] at hx; cases hx
      cases hxs : toJsonMembers ms with
      | none =>
        obtain ⟨lex, hl, hs⟩ := h2.1 hxs
        simp only [true_iff]
        exact ⟨lex, List.mem_append_right _ hl, hs⟩
      | some vs =>
        have n2 : ¬ ∃ lex ∈ LVal.lexemesMembers ms, serdeNumber lex = none := fun h => by rw [h2.2 h] at hxs; cases hxs
        simp only [reduceCtorEq, false_iff]
        rintro ⟨lex, hl, hs⟩
        rcases List.mem_append.1 hl with hl | hl
        · exact n1 ⟨lex, hl, hs⟩
        · exact n2 ⟨lex, hl, hs⟩
end

/-! ### a JSON number literal is a text of the `f64::from_str` grammar, with the same denotation -/

theorem expD_floatExpD {e : List Char} {ev : Int} (h : ExpD e ev) : FloatGrammar.ExpD e ev := by
  cases h with
  | none => exact .none
  | @plain c ds hc hd => exact FloatGrammar.ExpDV.some (sg := []) (neg := false) hc .none hd
  | @plus c ds hc hd => exact FloatGrammar.ExpDV.some (sg := ['+']) (neg := false) hc .plus hd
  | @minus c ds hc hd => exact FloatGrammar.ExpDV.some (sg := ['-']) (neg := true) hc .minus hd

theorem unsigned_numberD {i f e fd : List Char} {ev : Int} (hi : IntPart i) (hf : FracD f fd) (he : ExpD e ev) :
    FloatGrammar.NumberD (i ++ f ++ e) (digitsVal (i ++ fd)) (ev - fd.length) := by
  obtain ⟨hd, c, t, hct, _⟩ := intPart_digits hi
  have hne : i ≠ [] := by rw [hct]; simp
  cases hf with
  | none =>
    have := FloatGrammar.NumberDV.int ⟨hne, hd⟩ (expD_floatExpD he)
    simpa using this
  | @some ds hds =>
    have := FloatGrammar.NumberDV.point hd hds.2 (Or.inl hne) (expD_floatExpD he)
    simpa using this

/-- RFC 8259 `number` ⊆ Rust `Float`, same decimal, same sign -/
theorem numD_floatD {lex : List Char} {d : Dec} (h : NumD lex d) :
    FloatGrammar.FloatD lex (.dec (lexNeg lex) d.mant.natAbs d.exp) := by
  cases h with
  | @pos i f e fd ev hi hf he =>
    have hn : lexNeg (i ++ f ++ e) = false := by rw [List.append_assoc]; exact lexNeg_pos hi _
    rw [hn]
    have := FloatGrammar.FloatDV.number .none (unsigned_numberD hi hf he)
    simpa using this
  | @neg i f e fd ev hi hf he =>
    rw [lexNeg_cons]
    have := FloatGrammar.FloatDV.number .minus (unsigned_numberD hi hf he)
    simpa using this

/-- **the REAL of a JSON number literal is `f64::from_str` of the same text** (what the C02 oracle of the harness
demands since D66) — for every literal whose exponent digits' value is below 65 536 (`FloatGrammar.ExpSmall`, decidable
on the text): beyond that Rust's `f64::from_str` stops reading the exponent (observation N3; serde_json does not), and
the two agree only while the literal is shorter than ≈ 65 000 characters (both `±0` / out of range). -/
theorem json_number_is_from_str {lex : List Char} {d : Dec} (h : NumD lex d) (hs : FloatGrammar.ExpSmall lex) :
    DecFloat.parseF64 lex = some (realOfDec (lexNeg lex) d) :=
  (DecFloat.parseF64_iff hs _).2 ⟨_, numD_floatD h, rfl⟩

end Sqlgrep.JsonDoc
