#!/usr/bin/env python3
"""Resolve git conflict markers by keeping both sides (ours first). For registration files only."""
import sys, re
for path in sys.argv[1:]:
    s = open(path).read()
    out = []
    state = 0
    for line in s.splitlines(keepends=True):
        if line.startswith("<<<<<<< "): state = 1; continue
        if line.startswith("=======") and state == 1: state = 2; continue
        if line.startswith(">>>>>>> ") and state == 2: state = 0; continue
        if line.startswith("||||||| "): state = 3; continue
        if state == 3:
            continue
        out.append(line)
    open(path, "w").write("".join(out))
