import SqlgrepModel.Model.Reader
/-
Specification vocabulary for the readers (C10, C12): the unique split of a byte string at `\n`,
and its basic laws. Nothing here looks at the reader models.
-/
namespace Sqlgrep
namespace Reader

/-- put `b` in front of the first piece -/
def consHead (b : Nat) : List (List Nat) → List (List Nat)
  | [] => [[b]]
  | l :: ls => (b :: l) :: ls

/-- split at every `\n` (the pieces do not contain it; `n` newlines give `n+1` pieces) -/
def splitNl : List Nat → List (List Nat)
  | [] => [[]]
  | b :: bs => if b = nl then [] :: splitNl bs else consHead b (splitNl bs)

/-- inverse of `splitNl` -/
def joinNl : List (List Nat) → List Nat
  | [] => []
  | [l] => l
  | l :: l' :: ls => l ++ nl :: joinNl (l' :: ls)

/-- the newline-terminated lines of a content: all pieces but the last (the unterminated tail) -/
def completeLines (bs : List Nat) : List (List Nat) := (splitNl bs).dropLast

/-- the unterminated tail of a content (empty when the content ends with `\n` or is empty) -/
def tailOf (bs : List Nat) : List Nat := (splitNl bs).getLast?.getD []

/-- lines written out, each followed by `\n` -/
def wire (ls : List (List Nat)) : List Nat := ls.flatMap (fun l => l ++ [nl])

theorem splitNl_ne_nil (bs : List Nat) : splitNl bs ≠ [] := by
  cases bs with
  | nil => simp [splitNl]
  | cons b bs =>
    unfold splitNl
    split
    · simp
    · cases h : splitNl bs <;> simp [consHead]

theorem splitNl_cons_nl (bs : List Nat) : splitNl (nl :: bs) = [] :: splitNl bs := by
  simp [splitNl]

theorem splitNl_cons_ne (b : Nat) (bs : List Nat) (h : b ≠ nl) : splitNl (b :: bs) = consHead b (splitNl bs) := by
  simp [splitNl, h]

/-- the pieces contain no newline -/
theorem splitNl_no_nl (bs : List Nat) : ∀ l ∈ splitNl bs, nl ∉ l := by
  induction bs with
  | nil => simp [splitNl]
  | cons b bs ih =>
    unfold splitNl
    split
    · intro l hl
      simp only [List.mem_cons] at hl
      rcases hl with hl | hl
      · subst hl; simp
      · exact ih l hl
    · rename_i hb
      cases h : splitNl bs with
      | nil => exact absurd h (splitNl_ne_nil bs)
      | cons x xs =>
        rw [h] at ih
        intro l hl
        simp only [consHead, List.mem_cons] at hl
        rcases hl with hl | hl
        · subst hl
          simp only [List.mem_cons, not_or]
          exact ⟨fun e => hb e.symm, ih x (by simp)⟩
        · exact ih l (by simp [hl])

/-- joining the pieces with `\n` gives the content back: nothing lost, duplicated or reordered -/
theorem joinNl_splitNl (bs : List Nat) : joinNl (splitNl bs) = bs := by
  induction bs with
  | nil => simp [splitNl, joinNl]
  | cons b bs ih =>
    unfold splitNl
    split
    · rename_i hb
      subst hb
      cases h : splitNl bs with
      | nil => exact absurd h (splitNl_ne_nil bs)
      | cons x xs => rw [h] at ih; simp [joinNl, ih]
    · cases h : splitNl bs with
      | nil => exact absurd h (splitNl_ne_nil bs)
      | cons x xs =>
        rw [h] at ih
        cases xs with
        | nil => simp [joinNl] at ih; simp [consHead, joinNl, ih]
        | cons y ys => simp only [joinNl] at ih; simp [consHead, joinNl, ih]

theorem splitNl_append_nl (l rest : List Nat) (h : nl ∉ l) : splitNl (l ++ nl :: rest) = l :: splitNl rest := by
  induction l with
  | nil => simp [splitNl]
  | cons b l ih =>
    simp only [List.mem_cons, not_or] at h
    have hb : b ≠ nl := fun e => h.1 e.symm
    simp only [List.cons_append]
    rw [splitNl_cons_ne b _ hb, ih h.2]
    rfl

theorem splitNl_of_no_nl (t : List Nat) (h : nl ∉ t) : splitNl t = [t] := by
  induction t with
  | nil => simp [splitNl]
  | cons b t ih =>
    simp only [List.mem_cons, not_or] at h
    have hb : b ≠ nl := fun e => h.1 e.symm
    rw [splitNl_cons_ne b _ hb, ih h.2]
    rfl

theorem splitNl_wire_append (ls : List (List Nat)) (rest : List Nat) (h : ∀ l ∈ ls, nl ∉ l) :
    splitNl (wire ls ++ rest) = ls ++ splitNl rest := by
  induction ls with
  | nil => simp [wire]
  | cons l ls ih =>
    have h1 : nl ∉ l := h l (by simp)
    have h2 : ∀ l' ∈ ls, nl ∉ l' := fun l' hl' => h l' (by simp [hl'])
    have : wire (l :: ls) ++ rest = l ++ nl :: (wire ls ++ rest) := by
      simp [wire, List.append_assoc]
    rw [this, splitNl_append_nl l _ h1, ih h2]
    rfl

theorem completeLines_wire_append (ls : List (List Nat)) (rest : List Nat) (h : ∀ l ∈ ls, nl ∉ l) :
    completeLines (wire ls ++ rest) = ls ++ completeLines rest := by
  unfold completeLines
  rw [splitNl_wire_append ls rest h, List.dropLast_append_of_ne_nil (splitNl_ne_nil rest)]

theorem completeLines_of_no_nl (t : List Nat) (h : nl ∉ t) : completeLines t = [] := by
  simp [completeLines, splitNl_of_no_nl t h]

/-- the decomposition of a content into complete lines and a tail is unique -/
theorem completeLines_unique (ls : List (List Nat)) (t : List Nat) (h : ∀ l ∈ ls, nl ∉ l) (ht : nl ∉ t) :
    completeLines (wire ls ++ t) = ls ∧ tailOf (wire ls ++ t) = t := by
  constructor
  · rw [completeLines_wire_append ls t h, completeLines_of_no_nl t ht]; simp
  · unfold tailOf
    rw [splitNl_wire_append ls t h, splitNl_of_no_nl t ht]
    simp

/-- every content is its complete lines, written out, followed by its tail -/
theorem wire_completeLines_tail (bs : List Nat) : wire (completeLines bs) ++ tailOf bs = bs := by
  have key : ∀ (ps : List (List Nat)), ps ≠ [] → wire ps.dropLast ++ ps.getLast?.getD [] = joinNl ps := by
    intro ps
    induction ps with
    | nil => intro h; exact absurd rfl h
    | cons p ps ih =>
      intro _
      cases ps with
      | nil => simp [wire, joinNl]
      | cons q qs =>
        have := ih (by simp)
        simp only [List.dropLast_cons_cons, joinNl]
        rw [← this]
        simp [wire, List.getLast?_cons_cons, List.append_assoc]
  unfold completeLines tailOf
  rw [key _ (splitNl_ne_nil bs), joinNl_splitNl]

end Reader
end Sqlgrep
