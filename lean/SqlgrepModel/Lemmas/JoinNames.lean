import SqlgrepModel.Model.Exec
/-
Helper lemmas for C05 (`join_names`): which value a name is bound to in the column mapping of a joined row
(`create_joined_column_mapping`; HashMap semantics = the last insertion for a name wins).
-/
namespace Sqlgrep

abbrev Binds := List (String × Value)

/-- the value the `HashMap` built by the insertions `ins` holds for `n` -/
def lastGet (ins : Binds) (n : String) : Option Value := (ins.reverse.find? (fun p => p.1 == n)).map (·.2)

theorem env_get_table (ins : Binds) (n : String) : (envOfInsertions ins).get .table n = lastGet ins n := rfl

def keysOf (ins : Binds) : List String := ins.map (·.1)

theorem hasKey_iff (ins : Binds) (n : String) : hasKey ins n = true ↔ n ∈ keysOf ins := by
  unfold hasKey keysOf
  simp only [List.any_eq_true, List.mem_map, beq_iff_eq]

theorem find_of_nodup (xs : Binds) (n : String) (v : Value) (hnd : (keysOf xs).Nodup) (hm : (n, v) ∈ xs) :
    xs.find? (fun p => p.1 == n) = some (n, v) := by
  induction xs with
  | nil => cases hm
  | cons x rest ih =>
    simp only [keysOf, List.map_cons, List.nodup_cons] at hnd
    rw [List.find?_cons]
    by_cases hx : x.1 = n
    · simp only [hx, beq_self_eq_true]
      rcases List.mem_cons.1 hm with h | h
      · rw [← h]
      · exfalso
        apply hnd.1
        rw [hx]
        exact List.mem_map.2 ⟨(n, v), h, rfl⟩
    · have : (x.1 == n) = false := by simpa using hx
      simp only [this]
      rcases List.mem_cons.1 hm with h | h
      · exfalso; apply hx; rw [← h]
      · exact ih hnd.2 h

/-- with distinct keys, a name is bound to the value it was inserted with -/
theorem lastGet_of_nodup (ins : Binds) (n : String) (v : Value) (hnd : (keysOf ins).Nodup) (hm : (n, v) ∈ ins) :
    lastGet ins n = some v := by
  unfold lastGet
  have hnd' : (keysOf ins.reverse).Nodup := by
    unfold keysOf at *
    rw [List.map_reverse]
    unfold List.Nodup at *
    rw [List.pairwise_reverse]
    exact hnd.imp (fun h => Ne.symm h)
  rw [find_of_nodup ins.reverse n v hnd' (List.mem_reverse.2 hm)]
  rfl

/-! ### the base mapping of the queried table -/

def baseKeys (t : TableInfo) : List String := t.columns.flatMap (fun n => [n, t.name ++ "." ++ n]) ++ ["input"]

theorem keysOf_columnsMapping_sub (t : TableInfo) (row : List Value) (line : Bytes) :
    (keysOf (columnsMapping t row line)).Sublist (baseKeys t) := by
  unfold columnsMapping baseKeys keysOf
  rw [List.map_append]
  apply List.Sublist.append _ (List.Sublist.refl _)
  generalize t.columns = cols
  induction cols generalizing row with
  | nil => simp
  | cons c cs ih =>
    cases row with
    | nil => simp
    | cons v vs =>
      simp only [List.zip_cons_cons, List.flatMap_cons, List.map_append, List.map_cons, List.map_nil]
      exact List.Sublist.append (List.Sublist.refl _) (ih vs)

theorem mem_columnsMapping (t : TableInfo) (row : List Value) (line : Bytes) (n : String) (v : Value)
    (h : (n, v) ∈ t.columns.zip row) :
    (n, v) ∈ columnsMapping t row line ∧ (t.name ++ "." ++ n, v) ∈ columnsMapping t row line := by
  unfold columnsMapping
  constructor
  · apply List.mem_append_left
    exact List.mem_flatMap.2 ⟨(n, v), h, by simp⟩
  · apply List.mem_append_left
    exact List.mem_flatMap.2 ⟨(n, v), h, by simp⟩

theorem input_mem_columnsMapping (t : TableInfo) (row : List Value) (line : Bytes) :
    ("input", Value.text line) ∈ columnsMapping t row line := by
  unfold columnsMapping; simp

/-! ### the fold over the joined row -/

def jstep (u : String) (acc : Binds) (p : String × Value) : Binds :=
  (if hasKey acc p.1 then acc else acc ++ [(p.1, p.2)]) ++ [(u ++ "." ++ p.1, p.2)]

def jfold (u : String) (acc : Binds) (l : Binds) : Binds := l.foldl (jstep u) acc

theorem joinedMapping_fst (t : TableInfo) (row : List Value) (line : Bytes) (j : JoinInfo) (jrow : List Value) :
    (joinedMapping t row line j jrow).1 = jfold j.joined.name (columnsMapping t row line) (j.joined.columns.zip jrow) := rfl

theorem mem_jstep (u : String) (acc : Binds) (p q : String × Value) (h : q ∈ acc) : q ∈ jstep u acc p := by
  unfold jstep
  split <;> simp [h]

theorem mem_jfold (u : String) (acc l : Binds) (q : String × Value) (h : q ∈ acc) : q ∈ jfold u acc l := by
  induction l generalizing acc with
  | nil => exact h
  | cons p rest ih => exact ih _ (mem_jstep u acc p q h)

theorem qual_mem_jfold (u : String) (acc l : Binds) (n : String) (v : Value) (h : (n, v) ∈ l) :
    (u ++ "." ++ n, v) ∈ jfold u acc l := by
  induction l generalizing acc with
  | nil => cases h
  | cons p rest ih =>
    rcases List.mem_cons.1 h with h | h
    · show _ ∈ jfold u (jstep u acc p) rest
      apply mem_jfold
      unfold jstep
      rw [← h]; simp
    · exact ih _ h

theorem keysOf_jstep (u : String) (acc : Binds) (p : String × Value) :
    keysOf (jstep u acc p) = (if hasKey acc p.1 then keysOf acc else keysOf acc ++ [p.1]) ++ [u ++ "." ++ p.1] := by
  unfold jstep keysOf
  split <;> simp

theorem plain_mem_jfold (u : String) (acc l : Binds) (n : String) (v : Value) (h : (n, v) ∈ l)
    (hnd : (keysOf l).Nodup) (hq : ∀ m ∈ keysOf l, n ≠ u ++ "." ++ m) (hk : n ∉ keysOf acc) :
    (n, v) ∈ jfold u acc l := by
  induction l generalizing acc with
  | nil => cases h
  | cons p rest ih =>
    simp only [keysOf, List.map_cons, List.nodup_cons] at hnd
    have hk' : hasKey acc n = false := by
      cases hh : hasKey acc n
      · rfl
      · exact absurd ((hasKey_iff acc n).1 hh) hk
    rcases List.mem_cons.1 h with h | h
    · show _ ∈ jfold u (jstep u acc p) rest
      apply mem_jfold
      unfold jstep
      rw [← h]
      simp [hk']
    · show _ ∈ jfold u (jstep u acc p) rest
      apply ih _ h hnd.2
      · intro m hm; exact hq m (by simp only [keysOf, List.map_cons]; exact List.mem_cons_of_mem _ hm)
      · have hne : p.1 ≠ n := by
          intro he
          apply hnd.1
          rw [he]
          exact List.mem_map.2 ⟨(n, v), h, rfl⟩
        have hq0 : n ≠ u ++ "." ++ p.1 := hq p.1 (by simp [keysOf])
        rw [keysOf_jstep]
        intro hmem
        rcases List.mem_append.1 hmem with h1 | h1
        · split at h1
          · exact hk h1
          · rcases List.mem_append.1 h1 with h2 | h2
            · exact hk h2
            · simp at h2; exact hne h2.symm
        · simp at h1; exact hq0 h1

theorem nodup_jfold (u : String) (acc l : Binds) (hacc : (keysOf acc).Nodup)
    (hqn : ((keysOf l).map (fun m => u ++ "." ++ m)).Nodup)
    (hfresh : ∀ m ∈ keysOf l, u ++ "." ++ m ∉ keysOf acc)
    (hpq : ∀ m ∈ keysOf l, ∀ m' ∈ keysOf l, m' ≠ u ++ "." ++ m) :
    (keysOf (jfold u acc l)).Nodup := by
  induction l generalizing acc with
  | nil => exact hacc
  | cons p rest ih =>
    simp only [keysOf, List.map_cons, List.nodup_cons, List.mem_cons, forall_eq_or_imp] at hqn hfresh hpq
    show (keysOf (jfold u (jstep u acc p) rest)).Nodup
    apply ih
    · rw [keysOf_jstep]
      have h1 : (if hasKey acc p.1 = true then keysOf acc else keysOf acc ++ [p.1]).Nodup := by
        split
        · exact hacc
        · rename_i hh
          rw [List.nodup_append]
          refine ⟨hacc, by simp, ?_⟩
          intro a ha b hb
          simp at hb
          rw [hb]
          intro hab
          apply hh
          rw [hasKey_iff, ← hab]
          exact ha
      rw [List.nodup_append]
      refine ⟨h1, by simp, ?_⟩
      intro a ha b hb
      simp at hb
      rw [hb]
      intro hab
      split at ha
      · exact hfresh.1 (hab ▸ ha)
      · rcases List.mem_append.1 ha with h2 | h2
        · exact hfresh.1 (hab ▸ h2)
        · simp at h2
          exact hpq.1.1 (h2 ▸ hab)
    · exact hqn.2
    · intro m hm
      rw [keysOf_jstep]
      intro hmem
      have hmk : m ∈ keysOf rest := hm
      rcases List.mem_append.1 hmem with h1 | h1
      · split at h1
        · exact hfresh.2 m hm h1
        · rcases List.mem_append.1 h1 with h2 | h2
          · exact hfresh.2 m hm h2
          · simp at h2
            exact hpq.2 m hm |>.1 h2.symm
      · simp at h1
        apply hqn.1
        rw [← h1]
        exact List.mem_map.2 ⟨m, hmk, rfl⟩
    · intro m hm m' hm'
      exact (hpq.2 m hm).2 m' hm'

/-! ### well-formed names and the resulting lookups -/

/-- the names of the two tables do not collide other than through equal plain column names: the queried
table's plain and qualified names and `input` are pairwise distinct, the joined table's qualified names are
distinct from each other, from those and from the joined table's plain names, and a joined plain name that is
not a queried column is not a qualified name or `input` either. Holds whenever column and table names are
identifiers without `.` other than `input` and the two tables have different names. -/
def NamesOk (t : TableInfo) (j : JoinInfo) : Prop :=
  (baseKeys t).Nodup ∧
  (j.joined.columns.map (fun m => j.joined.name ++ "." ++ m)).Nodup ∧
  j.joined.columns.Nodup ∧
  (∀ m ∈ j.joined.columns, j.joined.name ++ "." ++ m ∉ baseKeys t) ∧
  (∀ m ∈ j.joined.columns, ∀ m' ∈ j.joined.columns, m' ≠ j.joined.name ++ "." ++ m) ∧
  (∀ n ∈ j.joined.columns, n ∉ t.columns → n ∉ baseKeys t)

instance (t : TableInfo) (j : JoinInfo) : Decidable (NamesOk t j) := by unfold NamesOk; infer_instance

theorem keysOf_zip_sublist (cols : List String) (vals : List Value) : (keysOf (cols.zip vals)).Sublist cols := by
  induction cols generalizing vals with
  | nil => simp [keysOf]
  | cons c cs ih =>
    cases vals with
    | nil => simp [keysOf]
    | cons v vs =>
      simp only [keysOf, List.zip_cons_cons, List.map_cons]
      exact List.Sublist.cons_cons _ (ih vs)

theorem nodup_joinedMapping (t : TableInfo) (row : List Value) (line : Bytes) (j : JoinInfo) (jrow : List Value)
    (h : NamesOk t j) : (keysOf (joinedMapping t row line j jrow).1).Nodup := by
  obtain ⟨hb, hq, _, hf, hpq, _⟩ := h
  rw [joinedMapping_fst]
  have hsub := keysOf_zip_sublist j.joined.columns jrow
  have hbase := keysOf_columnsMapping_sub t row line
  apply nodup_jfold
  · exact hbase.nodup hb
  · exact (hsub.map _).nodup hq
  · intro m hm hmem
    exact hf m (hsub.subset hm) (hbase.subset hmem)
  · intro m hm m' hm'
    exact hpq m (hsub.subset hm) m' (hsub.subset hm')

theorem lastGet_queried (t : TableInfo) (row : List Value) (line : Bytes) (j : JoinInfo) (jrow : List Value)
    (h : NamesOk t j) (n : String) (v : Value) (hm : (n, v) ∈ t.columns.zip row) :
    lastGet (joinedMapping t row line j jrow).1 n = some v ∧
    lastGet (joinedMapping t row line j jrow).1 (t.name ++ "." ++ n) = some v := by
  have hnd := nodup_joinedMapping t row line j jrow h
  have := mem_columnsMapping t row line n v hm
  constructor
  · apply lastGet_of_nodup _ _ _ hnd
    rw [joinedMapping_fst]; exact mem_jfold _ _ _ _ this.1
  · apply lastGet_of_nodup _ _ _ hnd
    rw [joinedMapping_fst]; exact mem_jfold _ _ _ _ this.2

theorem lastGet_input (t : TableInfo) (row : List Value) (line : Bytes) (j : JoinInfo) (jrow : List Value)
    (h : NamesOk t j) : lastGet (joinedMapping t row line j jrow).1 "input" = some (.text line) := by
  apply lastGet_of_nodup _ _ _ (nodup_joinedMapping t row line j jrow h)
  rw [joinedMapping_fst]; exact mem_jfold _ _ _ _ (input_mem_columnsMapping t row line)

theorem lastGet_joined_qualified (t : TableInfo) (row : List Value) (line : Bytes) (j : JoinInfo) (jrow : List Value)
    (h : NamesOk t j) (n : String) (v : Value) (hm : (n, v) ∈ j.joined.columns.zip jrow) :
    lastGet (joinedMapping t row line j jrow).1 (j.joined.name ++ "." ++ n) = some v := by
  apply lastGet_of_nodup _ _ _ (nodup_joinedMapping t row line j jrow h)
  rw [joinedMapping_fst]; exact qual_mem_jfold _ _ _ _ _ hm

theorem lastGet_joined_plain (t : TableInfo) (row : List Value) (line : Bytes) (j : JoinInfo) (jrow : List Value)
    (h : NamesOk t j) (n : String) (v : Value) (hm : (n, v) ∈ j.joined.columns.zip jrow) (hc : n ∉ t.columns) :
    lastGet (joinedMapping t row line j jrow).1 n = some v := by
  apply lastGet_of_nodup _ _ _ (nodup_joinedMapping t row line j jrow h)
  obtain ⟨_, _, hjn, _, hpq, hpf⟩ := h
  have hsub := keysOf_zip_sublist j.joined.columns jrow
  have hn : n ∈ j.joined.columns := (List.of_mem_zip hm).1
  rw [joinedMapping_fst]
  apply plain_mem_jfold _ _ _ _ _ hm (hsub.nodup hjn)
  · intro m hm'; exact hpq m (hsub.subset hm') n hn
  · intro hk
    exact hpf n hn hc ((keysOf_columnsMapping_sub t row line).subset hk)

/-- the name under which `*` lists a joined column -/
def starKey (t : TableInfo) (j : JoinInfo) (n : String) : String :=
  if t.columns.contains n then j.joined.name ++ "." ++ n else n

theorem joinedMapping_snd (t : TableInfo) (row : List Value) (line : Bytes) (j : JoinInfo) (jrow : List Value) :
    (joinedMapping t row line j jrow).2 = t.columns ++ j.joined.columns.map (starKey t j) := rfl

theorem lastGet_starKey (t : TableInfo) (row : List Value) (line : Bytes) (j : JoinInfo) (jrow : List Value)
    (h : NamesOk t j) (n : String) (v : Value) (hm : (n, v) ∈ j.joined.columns.zip jrow) :
    lastGet (joinedMapping t row line j jrow).1 (starKey t j n) = some v := by
  unfold starKey
  by_cases hc : n ∈ t.columns
  · have : t.columns.contains n = true := List.contains_iff_mem.2 hc
    simp only [this, if_true]
    exact lastGet_joined_qualified t row line j jrow h n v hm
  · have : t.columns.contains n = false := by
      cases hh : t.columns.contains n
      · rfl
      · exact absurd (List.contains_iff_mem.1 hh) hc
    simp only [this, Bool.false_eq_true, if_false]
    exact lastGet_joined_plain t row line j jrow h n v hm hc

theorem map_lookup_zip (g : String → Option Value) (f : String → String) (cols : List String) (vals : List Value)
    (hl : cols.length = vals.length) (h : ∀ p ∈ cols.zip vals, g (f p.1) = some p.2) :
    (cols.map f).map g = vals.map some := by
  induction cols generalizing vals with
  | nil => cases vals with
    | nil => rfl
    | cons _ _ => cases hl
  | cons c cs ih =>
    cases vals with
    | nil => cases hl
    | cons v vs =>
      simp only [List.map_cons, List.cons.injEq]
      refine ⟨h (c, v) (by simp), ih vs (by simpa using hl) ?_⟩
      intro p hp
      exact h p (by simp [hp])

/-- `*` over a joined row: the queried table's values followed by the joined table's -/
theorem star_values (t : TableInfo) (row : List Value) (line : Bytes) (j : JoinInfo) (jrow : List Value)
    (h : NamesOk t j) (hr : t.columns.length = row.length) (hjr : j.joined.columns.length = jrow.length) :
    (joinedMapping t row line j jrow).2.map (lastGet (joinedMapping t row line j jrow).1) = (row ++ jrow).map some := by
  rw [joinedMapping_snd, List.map_append, List.map_append]
  congr 1
  · have := map_lookup_zip (lastGet (joinedMapping t row line j jrow).1) id t.columns row hr
      (fun p hp => (lastGet_queried t row line j jrow h p.1 p.2 hp).1)
    simpa using this
  · exact map_lookup_zip _ _ _ _ hjr (fun p hp => lastGet_starKey t row line j jrow h p.1 p.2 hp)

end Sqlgrep
