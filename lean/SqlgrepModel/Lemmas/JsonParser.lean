import SqlgrepModel.Lemmas.JsonGrammar
/-
An executable JSON parser and the proof that it DECIDES the denotation relations of `Spec/JsonGrammar.lean`:
`parseJson cs = some x ↔ JsonTextD cs x` (`parseJson_iff`: complete — whenever the grammar says that a text
denotes a value the parser computes exactly that value — and sound — whatever it returns is a denotation by
the grammar). Consequences: the grammar is unambiguous (a text has at most one denotation, `ValD.unique`,
`ObjD.unique`), and the grammar can be evaluated on concrete texts by `decide`, acceptance and rejection alike.

The parser skips whitespace before every token and after every value; `JsonTextD` (`ws value ws`) is what it
decides.
-/
namespace Sqlgrep.JsonGrammar

/-! ### whitespace -/

def WsChar (c : Char) : Prop := c = ' ' ∨ c = '\t' ∨ c = '\n' ∨ c = '\r'

instance : DecidablePred WsChar := fun c => by unfold WsChar; infer_instance

def dropWs : List Char → List Char
  | [] => []
  | c :: t => if WsChar c then dropWs t else c :: t

theorem dropWs_append_ws {w : List Char} (h : Ws w) (cs : List Char) : dropWs (w ++ cs) = dropWs cs := by
  induction w with
  | nil => rfl
  | cons c w ih =>
    have hc : WsChar c := h c (List.mem_cons_self ..)
    simp only [List.cons_append, dropWs, hc, if_true]
    exact ih (fun x hx => h x (List.mem_cons_of_mem _ hx))

theorem dropWs_cons {c : Char} (h : ¬ WsChar c) (t : List Char) : dropWs (c :: t) = c :: t := by
  simp only [dropWs, h, if_false]

theorem dropWs_ws {w : List Char} (h : Ws w) : dropWs w = [] := by
  have := dropWs_append_ws h []
  rw [List.append_nil] at this
  exact this

theorem dropWs_idem (cs : List Char) : dropWs (dropWs cs) = dropWs cs := by
  induction cs with
  | nil => rfl
  | cons c t ih =>
    by_cases hc : WsChar c
    · simp only [dropWs, hc, if_true, ih]
    · simp only [dropWs, hc, if_false]

/-- what is left after skipping a structural character's leading whitespace -/
theorem sep_dropWs {c : Char} {e : List Char} (h : Sep c e) (hc : ¬ WsChar c) (r : List Char) :
    ∃ b, Ws b ∧ dropWs (e ++ r) = c :: (b ++ r) := by
  obtain ⟨a, b, ha, hb, rfl⟩ := h
  refine ⟨b, hb, ?_⟩
  rw [List.append_assoc, dropWs_append_ws ha, List.cons_append, dropWs_cons hc]

theorem sep_length {c : Char} {e : List Char} (h : Sep c e) : 1 ≤ e.length := by
  obtain ⟨a, b, _, _, rfl⟩ := h
  simp only [List.length_append, List.length_cons]; omega

/-! ### number tokens -/

instance : DecidablePred NumChar := fun c => by unfold NumChar; infer_instance

/-- the next character does not continue a number token -/
def NoNumAhead (r : List Char) : Prop := ∀ c t, r = c :: t → ¬ NumChar c

theorem noNumAhead_nil : NoNumAhead [] := by intro c t h; cases h

theorem noNumAhead_cons {c : Char} (h : ¬ NumChar c) (t : List Char) : NoNumAhead (c :: t) := by
  intro c' t' e; cases e; exact h

theorem wsChar_not_num {c : Char} (h : WsChar c) : ¬ NumChar c := by
  rcases h with rfl | rfl | rfl | rfl <;> decide

theorem sep_noNumAhead {c : Char} {e : List Char} (h : Sep c e) (hc : ¬ NumChar c) (r : List Char) :
    NoNumAhead (e ++ r) := by
  obtain ⟨a, b, ha, _, rfl⟩ := h
  cases a with
  | nil => exact noNumAhead_cons hc _
  | cons x a => exact noNumAhead_cons (wsChar_not_num (ha x (List.mem_cons_self ..))) _

theorem ws_noNumAhead {w : List Char} (h : Ws w) : NoNumAhead w := by
  cases w with
  | nil => exact noNumAhead_nil
  | cons x a => exact noNumAhead_cons (wsChar_not_num (h x (List.mem_cons_self ..))) _

/-- the leading run of number characters and what follows it -/
def spanNum : List Char → List Char × List Char
  | [] => ([], [])
  | c :: cs => if NumChar c then (c :: (spanNum cs).1, (spanNum cs).2) else ([], c :: cs)

theorem spanNum_append (tok r : List Char) (h : ∀ c ∈ tok, NumChar c) (hr : NoNumAhead r) :
    spanNum (tok ++ r) = (tok, r) := by
  induction tok with
  | nil =>
    cases r with
    | nil => rfl
    | cons c t => simp [spanNum, hr c t rfl]
  | cons d ds ih =>
    have hd : NumChar d := h d (List.mem_cons_self ..)
    simp only [List.cons_append, spanNum, hd, if_true, ih (fun x hx => h x (List.mem_cons_of_mem _ hx))]

/-- facts about the first character of a number -/
theorem numChar_facts {c : Char} (h : NumChar c) :
    ¬ WsChar c ∧ c ≠ '"' ∧ c ≠ '{' ∧ c ≠ '[' ∧ c ≠ 't' ∧ c ≠ 'f' ∧ c ≠ 'n' ∧ c ≠ ']' := by
  refine ⟨fun hw => wsChar_not_num hw h, ?_, ?_, ?_, ?_, ?_, ?_, ?_⟩ <;> (intro e; subst e; revert h; decide)

/-! ### literal names -/

def stripLit : List Char → List Char → Option (List Char)
  | [], cs => some cs
  | _ :: _, [] => none
  | p :: ps, c :: cs => if p = c then stripLit ps cs else none

theorem stripLit_append (p r : List Char) : stripLit p (p ++ r) = some r := by
  induction p with
  | nil => rfl
  | cons c p ih => simp [stripLit, ih]

/-! ### strings -/

instance : DecidablePred Unescaped := fun c => by unfold Unescaped; infer_instance

/-- the character a two-character escape `\e` represents (the table of §7) -/
def escapeLookup (e : Char) : Option Char := (escapeTable.find? (fun p => p.1 == e)).map Prod.snd

/-- the characters of a string after its opening quote, up to and including the closing quote: the
denoted characters and the rest of the input -/
def parseChars : List Char → Option (List Char × List Char)
  | [] => none
  | c :: rest =>
    if c = '"' then some ([], rest)
    else if c = '\\' then
      match rest with
      | [] => none
      | e :: rest1 =>
        if e = 'u' then
          match rest1 with
          | a :: b :: c :: d :: rest2 =>
            match hex4 a b c d with
            | none => none
            | some n =>
              if n < 0xD800 ∨ 0xE000 ≤ n then
                match parseChars rest2 with
                | some (s, r) => some (Char.ofNat n :: s, r)
                | none => none
              else if n < 0xDC00 then
                match rest2 with
                | b1 :: u1 :: e :: f :: g :: h :: rest3 =>
                  if b1 = '\\' ∧ u1 = 'u' then
                    match hex4 e f g h with
                    | none => none
                    | some lo =>
                      if 0xDC00 ≤ lo ∧ lo < 0xE000 then
                        match parseChars rest3 with
                        | some (s, r) => some (Char.ofNat (0x10000 + (n - 0xD800) * 0x400 + (lo - 0xDC00)) :: s, r)
                        | none => none
                      else none
                  else none
                | _ => none
              else none
          | _ => none
        else
          match escapeLookup e with
          | none => none
          | some x =>
            match parseChars rest1 with
            | some (s, r) => some (x :: s, r)
            | none => none
    else if Unescaped c then
      match parseChars rest with
      | some (s, r) => some (c :: s, r)
      | none => none
    else none

theorem parseChars_complete {cs xs : List Char} (h : CharsD cs xs) :
    ∀ r, parseChars (cs ++ '"' :: r) = some (xs, r) := by
  have hq : ('\\' : Char) ≠ '"' := by decide
  induction h with
  | nil => intro r; rw [parseChars.eq_def]; simp
  | @cons c cs x xs hc _ ih =>
    intro r
    have ih := ih r
    rw [List.append_assoc]
    generalize cs ++ '"' :: r = T at ih
    cases hc with
    | unescaped hu =>
      have h1 : x ≠ '"' := by intro e; subst e; revert hu; decide
      have h2 : x ≠ '\\' := by intro e; subst e; revert hu; decide
      simp only [List.cons_append, List.nil_append]; rw [parseChars.eq_def]
      simp only [h1, h2, hu, if_false, if_true, ih]
    | @escape e _ he =>
      have hlook : e ≠ 'u' ∧ escapeLookup e = some x := by
        simp only [escapeTable, List.mem_cons, Prod.mk.injEq, List.not_mem_nil, or_false] at he
        rcases he with ⟨rfl, rfl⟩ | ⟨rfl, rfl⟩ | ⟨rfl, rfl⟩ | ⟨rfl, rfl⟩ | ⟨rfl, rfl⟩ | ⟨rfl, rfl⟩ | ⟨rfl, rfl⟩ | ⟨rfl, rfl⟩ <;> decide
      simp only [List.cons_append, List.nil_append]; rw [parseChars.eq_def]
      simp only [hq, hlook.1, hlook.2, if_false, if_true, ih]
    | @unicode a b c d n hh hn =>
      simp only [List.cons_append, List.nil_append]; rw [parseChars.eq_def]
      simp only [hq, if_false, if_true, hh, hn, ih]
    | @surrogates a b c d e f g h hi lo h1 h2 b1 b2 b3 b4 =>
      have hn : ¬ (hi < 0xD800 ∨ 0xE000 ≤ hi) := by omega
      simp only [List.cons_append, List.nil_append]; rw [parseChars.eq_def]
      simp only [hq, if_false, if_true, h1, h2, hn, b2, and_self, b3, b4, ih]

/-! ### values -/

mutual
/-- one `value` (leading whitespace skipped); returns the value and the rest after the whitespace
that follows it -/
def parseVal : Nat → List Char → Option (JVal × List Char)
  | 0, _ => none
  | fuel + 1, cs =>
    match dropWs cs with
    | [] => none
    | c :: t =>
      if c = '"' then
        match parseChars t with
        | some (s, r) => some (.str s, dropWs r)
        | none => none
      else if c = '{' then
        match dropWs t with
        | [] => none
        | c2 :: t2 =>
          if c2 = '}' then some (.obj [], dropWs t2)
          else
            match parseMembers fuel (c2 :: t2) with
            | some (ms, r) => some (.obj ms, r)
            | none => none
      else if c = '[' then
        match dropWs t with
        | [] => none
        | c2 :: t2 =>
          if c2 = ']' then some (.arr [], dropWs t2)
          else
            match parseElems fuel (c2 :: t2) with
            | some (xs, r) => some (.arr xs, r)
            | none => none
      else if c = 't' then
        match stripLit ['r', 'u', 'e'] t with
        | some r => some (.bool true, dropWs r)
        | none => none
      else if c = 'f' then
        match stripLit ['a', 'l', 's', 'e'] t with
        | some r => some (.bool false, dropWs r)
        | none => none
      else if c = 'n' then
        match stripLit ['u', 'l', 'l'] t with
        | some r => some (.null, dropWs r)
        | none => none
      else
        match numValue (spanNum (c :: t)).1 with
        | some d => some (.num d, dropWs (spanNum (c :: t)).2)
        | none => none
/-- `member *( value-separator member ) end-object` -/
def parseMembers : Nat → List Char → Option (List (List Char × JVal) × List Char)
  | 0, _ => none
  | fuel + 1, cs =>
    match parseMember fuel cs with
    | none => none
    | some (m, r) =>
      match r with
      | [] => none
      | c :: t =>
        if c = '}' then some ([m], dropWs t)
        else if c = ',' then
          match parseMembers fuel t with
          | some (ms, r') => some (m :: ms, r')
          | none => none
        else none
/-- `member = string name-separator value` -/
def parseMember : Nat → List Char → Option ((List Char × JVal) × List Char)
  | 0, _ => none
  | fuel + 1, cs =>
    match dropWs cs with
    | [] => none
    | c :: t =>
      if c = '"' then
        match parseChars t with
        | none => none
        | some (k, r) =>
          match dropWs r with
          | [] => none
          | c2 :: t2 =>
            if c2 = ':' then
              match parseVal fuel t2 with
              | some (x, r2) => some ((k, x), r2)
              | none => none
            else none
      else none
/-- `value *( value-separator value ) end-array` -/
def parseElems : Nat → List Char → Option (List JVal × List Char)
  | 0, _ => none
  | fuel + 1, cs =>
    match parseVal fuel cs with
    | none => none
    | some (x, r) =>
      match r with
      | [] => none
      | c :: t =>
        if c = ']' then some ([x], dropWs t)
        else if c = ',' then
          match parseElems fuel t with
          | some (xs, r') => some (x :: xs, r')
          | none => none
        else none
end

/-- parse a whole text as `JSON-text = ws value ws` -/
def parseJson (cs : List Char) : Option JVal :=
  match parseVal (cs.length + 1) cs with
  | some (x, []) => some x
  | _ => none

/-! ### the parsers skip leading whitespace -/

theorem parseVal_dropWs (fuel : Nat) (cs : List Char) : parseVal fuel (dropWs cs) = parseVal fuel cs := by
  cases fuel with
  | zero => simp [parseVal]
  | succ f => rw [parseVal, parseVal, dropWs_idem]

theorem parseVal_ws (fuel : Nat) {w : List Char} (h : Ws w) (cs : List Char) :
    parseVal fuel (w ++ cs) = parseVal fuel cs := by
  rw [← parseVal_dropWs, dropWs_append_ws h, parseVal_dropWs]

theorem parseElems_dropWs (fuel : Nat) (cs : List Char) : parseElems fuel (dropWs cs) = parseElems fuel cs := by
  cases fuel with
  | zero => simp [parseElems]
  | succ f => rw [parseElems, parseElems, parseVal_dropWs]

theorem parseElems_ws (fuel : Nat) {w : List Char} (h : Ws w) (cs : List Char) :
    parseElems fuel (w ++ cs) = parseElems fuel cs := by
  rw [← parseElems_dropWs, dropWs_append_ws h, parseElems_dropWs]

theorem parseMember_ws (fuel : Nat) {w : List Char} (h : Ws w) (cs : List Char) :
    parseMember fuel (w ++ cs) = parseMember fuel cs := by
  cases fuel with
  | zero => simp [parseMember]
  | succ f => rw [parseMember, parseMember, dropWs_append_ws h]

theorem parseMembers_ws (fuel : Nat) {w : List Char} (h : Ws w) (cs : List Char) :
    parseMembers fuel (w ++ cs) = parseMembers fuel cs := by
  cases fuel with
  | zero => simp [parseMembers]
  | succ f => rw [parseMembers, parseMembers, parseMember_ws f h]

/-! ### first characters -/

theorem StrD.shape {k name : List Char} (h : StrD k name) : ∃ cs, k = '"' :: (cs ++ ['"']) ∧ CharsD cs name := by
  cases h with
  | mk hc => exact ⟨_, rfl, hc⟩

theorem MemberD.head {m : List Char} {x : List Char × JVal} (h : MemberD m x) : ∃ t, m = '"' :: t := by
  cases h with
  | mk hk _ _ =>
    obtain ⟨cs, rfl, _⟩ := hk.shape
    simp only [List.cons_append]
    exact ⟨_, rfl⟩

theorem MembersD.head {ms : List Char} {xs : List (List Char × JVal)} (h : MembersD ms xs) : ∃ t, ms = '"' :: t := by
  cases h with
  | one hm => exact hm.head
  | cons hm _ _ =>
    obtain ⟨t, rfl⟩ := hm.head
    simp only [List.cons_append]
    exact ⟨_, rfl⟩

theorem NumD.head {cs : List Char} {d : Dec} (h : NumD cs d) : ∃ c t, cs = c :: t ∧ NumChar c := by
  have hne := h.ne_nil
  cases cs with
  | nil => exact absurd rfl hne
  | cons c t => exact ⟨c, t, rfl, h.chars c (List.mem_cons_self ..)⟩

/-- after skipping whitespace, a value followed by anything starts with a character that is not `]` -/
theorem ValD.head {v : List Char} {x : JVal} (h : ValD v x) (R : List Char) :
    ∃ c t, dropWs (v ++ R) = c :: t ∧ c ≠ ']' := by
  have hsep : ∀ {c : Char} {b : List Char} (rest : List Char), Sep c b → ¬ WsChar c → c ≠ ']' →
      ∃ c' t, dropWs (b ++ rest) = c' :: t ∧ c' ≠ ']' := by
    intro c b rest hb hw hc
    obtain ⟨w, hw', he⟩ := sep_dropWs hb hw rest
    rw [he]
    exact ⟨c, _, rfl, hc⟩
  cases h with
  | false => exact ⟨'f', _, dropWs_cons (by decide) _, by decide⟩
  | null => exact ⟨'n', _, dropWs_cons (by decide) _, by decide⟩
  | true => exact ⟨'t', _, dropWs_cons (by decide) _, by decide⟩
  | object ho =>
    cases ho with
    | empty hb _ => rw [List.append_assoc]; exact hsep _ hb (by decide) (by decide)
    | members hb _ _ => simp only [List.append_assoc]; exact hsep _ hb (by decide) (by decide)
  | array ha =>
    cases ha with
    | empty hb _ => rw [List.append_assoc]; exact hsep _ hb (by decide) (by decide)
    | elements hb _ _ => simp only [List.append_assoc]; exact hsep _ hb (by decide) (by decide)
  | number hn =>
    obtain ⟨c, t, rfl, hc⟩ := hn.head
    exact ⟨c, _, dropWs_cons (numChar_facts hc).1 _, (numChar_facts hc).2.2.2.2.2.2.2⟩
  | string hs =>
    obtain ⟨cs, rfl, _⟩ := hs.shape
    exact ⟨'"', _, dropWs_cons (by decide) _, by decide⟩

theorem ElemsD.head {vs : List Char} {xs : List JVal} (h : ElemsD vs xs) (R : List Char) :
    ∃ c t, dropWs (vs ++ R) = c :: t ∧ c ≠ ']' := by
  cases h with
  | one hv => exact hv.head R
  | cons hv _ _ => rw [List.append_assoc, List.append_assoc]; exact hv.head _

theorem StrD.length {k name : List Char} (h : StrD k name) : 2 ≤ k.length := by
  obtain ⟨cs, rfl, _⟩ := h.shape
  simp

/-! ### completeness -/

theorem parseVal_lit (fuel : Nat) (c : Char) (lit r : List Char) (x : JVal)
    (hw : ¬ WsChar c) (h1 : c ≠ '"') (h2 : c ≠ '{') (h3 : c ≠ '[')
    (hsel : ∀ t, (if c = 't' then
        match stripLit ['r', 'u', 'e'] t with
        | some r => some (JVal.bool true, dropWs r)
        | none => none
      else if c = 'f' then
        match stripLit ['a', 'l', 's', 'e'] t with
        | some r => some (JVal.bool false, dropWs r)
        | none => none
      else if c = 'n' then
        match stripLit ['u', 'l', 'l'] t with
        | some r => some (JVal.null, dropWs r)
        | none => none
      else
        match numValue (spanNum (c :: t)).1 with
        | some d => some (JVal.num d, dropWs (spanNum (c :: t)).2)
        | none => none) = match stripLit lit t with
        | some r => some (x, dropWs r)
        | none => none) :
    parseVal (fuel + 1) (c :: (lit ++ r)) = some (x, dropWs r) := by
  rw [parseVal, dropWs_cons hw]
  simp only [h1, h2, h3, if_false, hsel, stripLit_append]

mutual
theorem parseVal_complete : ∀ {a : List Char} {x : JVal}, ValD a x → ∀ (r : List Char), NoNumAhead r →
    ∀ fuel, a.length < fuel → parseVal fuel (a ++ r) = some (x, dropWs r)
  | _, _, .false, r, _, fuel, hf => by
    cases fuel with
    | zero => simp at hf
    | succ f =>
      exact parseVal_lit f 'f' ['a', 'l', 's', 'e'] r _ (by decide) (by decide) (by decide) (by decide)
        (fun t => by simp only [show ('f' : Char) ≠ 't' by decide, if_false, if_true])
  | _, _, .null, r, _, fuel, hf => by
    cases fuel with
    | zero => simp at hf
    | succ f =>
      exact parseVal_lit f 'n' ['u', 'l', 'l'] r _ (by decide) (by decide) (by decide) (by decide)
        (fun t => by simp only [show ('n' : Char) ≠ 't' by decide, show ('n' : Char) ≠ 'f' by decide, if_false, if_true])
  | _, _, .true, r, _, fuel, hf => by
    cases fuel with
    | zero => simp at hf
    | succ f =>
      exact parseVal_lit f 't' ['r', 'u', 'e'] r _ (by decide) (by decide) (by decide) (by decide)
        (fun t => by simp only [if_true])
  | _, _, .object h, r, _, fuel, hf => parseObj_complete h r fuel hf
  | _, _, .array h, r, _, fuel, hf => parseArr_complete h r fuel hf
  | a, _, .number h, r, hr, fuel, hf => by
    cases fuel with
    | zero => simp at hf
    | succ f =>
      obtain ⟨c, t, rfl, hc⟩ := h.head
      obtain ⟨hw, h1, h2, h3, h4, h5, h6, _⟩ := numChar_facts hc
      have hs := spanNum_append (c :: t) r h.chars hr
      rw [List.cons_append] at hs ⊢
      rw [parseVal, dropWs_cons hw]
      simp only [h1, h2, h3, h4, h5, h6, if_false, hs, numValue_complete h]
  | _, _, .string h, r, _, fuel, hf => by
    cases fuel with
    | zero => simp at hf
    | succ f =>
      obtain ⟨cs, rfl, hc⟩ := h.shape
      have := parseChars_complete hc r
      simp only [List.cons_append, List.append_assoc, List.nil_append]
      rw [parseVal, dropWs_cons (by decide)]
      simp only [if_true, this]
theorem parseObj_complete : ∀ {a : List Char} {ms : List (List Char × JVal)}, ObjD a ms → ∀ (r : List Char),
    ∀ fuel, a.length < fuel → parseVal fuel (a ++ r) = some (.obj ms, dropWs r)
  | _, _, .empty hb he, r, fuel, hf => by
    cases fuel with
    | zero => simp at hf
    | succ f =>
      obtain ⟨w1, hw1, e1⟩ := sep_dropWs hb (by decide) (_ ++ r)
      obtain ⟨w2, hw2, e2⟩ := sep_dropWs he (by decide) r
      rw [List.append_assoc, parseVal, e1]
      simp only [show ('{' : Char) ≠ '"' by decide, if_false, if_true]
      rw [dropWs_append_ws hw1, e2]
      simp only [if_true, dropWs_append_ws hw2]
  | _, _, @ObjD.members b ms e xs hb hm he, r, fuel, hf => by
    cases fuel with
    | zero => simp at hf
    | succ f =>
      have hlb := sep_length hb
      have hle := sep_length he
      have key := parseMembers_complete hm e r he f (by
        simp only [List.length_append] at hf; omega)
      obtain ⟨w1, hw1, e1⟩ := sep_dropWs hb (by decide) (ms ++ (e ++ r))
      obtain ⟨t, hms⟩ := hm.head
      rw [List.append_assoc, List.append_assoc, parseVal, e1]
      simp only [show ('{' : Char) ≠ '"' by decide, if_false, if_true]
      rw [dropWs_append_ws hw1]
      rw [List.append_assoc] at key
      rw [hms] at key ⊢
      rw [List.cons_append, dropWs_cons (by decide)]
      simp only [show ('"' : Char) ≠ '}' by decide, if_false]
      rw [List.cons_append] at key
      rw [key]
theorem parseMembers_complete : ∀ {ms : List Char} {xs : List (List Char × JVal)}, MembersD ms xs →
    ∀ (e r : List Char), Sep '}' e → ∀ fuel, ms.length + 1 < fuel →
      parseMembers fuel (ms ++ e ++ r) = some (xs, dropWs r)
  | _, _, .one hm, e, r, he, fuel, hf => by
    cases fuel with
    | zero => simp at hf
    | succ f =>
      have key := parseMember_complete hm (e ++ r) (sep_noNumAhead he (by decide) r) f (by omega)
      obtain ⟨w2, hw2, e2⟩ := sep_dropWs he (by decide) r
      rw [List.append_assoc, parseMembers, key, e2]
      simp only [if_true, dropWs_append_ws hw2]
  | _, _, @MembersD.cons m s ms x xs hm hs hms, e, r, he, fuel, hf => by
    cases fuel with
    | zero => simp at hf
    | succ f =>
      have hls := sep_length hs
      have key := parseMember_complete hm (s ++ (ms ++ (e ++ r))) (sep_noNumAhead hs (by decide) _) f (by
        simp only [List.length_append] at hf; omega)
      have key2 := parseMembers_complete hms e r he f (by
        simp only [List.length_append] at hf; omega)
      obtain ⟨w2, hw2, e2⟩ := sep_dropWs hs (by decide) (ms ++ (e ++ r))
      rw [List.append_assoc] at key2
      simp only [List.append_assoc]
      rw [parseMembers, key, e2]
      simp only [show (',' : Char) ≠ '}' by decide, if_false, if_true]
      rw [parseMembers_ws f hw2, key2]
theorem parseMember_complete : ∀ {m : List Char} {x : List Char × JVal}, MemberD m x → ∀ (r : List Char),
    NoNumAhead r → ∀ fuel, m.length < fuel → parseMember fuel (m ++ r) = some (x, dropWs r)
  | _, _, @MemberD.mk k s v name x hk hs hv, r, hr, fuel, hf => by
    cases fuel with
    | zero => simp at hf
    | succ f =>
      have hlk := hk.length
      have hls := sep_length hs
      have key := parseVal_complete hv r hr f (by simp only [List.length_append] at hf; omega)
      obtain ⟨cs, rfl, hc⟩ := hk.shape
      have hstr := parseChars_complete hc (s ++ (v ++ r))
      obtain ⟨w2, hw2, e2⟩ := sep_dropWs hs (by decide) (v ++ r)
      simp only [List.cons_append, List.append_assoc, List.nil_append]
      rw [parseMember, dropWs_cons (by decide)]
      simp only [if_true, hstr, e2]
      rw [parseVal_ws f hw2, key]
theorem parseArr_complete : ∀ {a : List Char} {xs : List JVal}, ArrD a xs → ∀ (r : List Char),
    ∀ fuel, a.length < fuel → parseVal fuel (a ++ r) = some (.arr xs, dropWs r)
  | _, _, .empty hb he, r, fuel, hf => by
    cases fuel with
    | zero => simp at hf
    | succ f =>
      obtain ⟨w1, hw1, e1⟩ := sep_dropWs hb (by decide) (_ ++ r)
      obtain ⟨w2, hw2, e2⟩ := sep_dropWs he (by decide) r
      rw [List.append_assoc, parseVal, e1]
      simp only [show ('[' : Char) ≠ '"' by decide, show ('[' : Char) ≠ '{' by decide, if_false, if_true]
      rw [dropWs_append_ws hw1, e2]
      simp only [if_true, dropWs_append_ws hw2]
  | _, _, @ArrD.elements b vs e xs hb hv he, r, fuel, hf => by
    cases fuel with
    | zero => simp at hf
    | succ f =>
      have hlb := sep_length hb
      have hle := sep_length he
      have key := parseElems_complete hv e r he f (by
        simp only [List.length_append] at hf; omega)
      obtain ⟨w1, hw1, e1⟩ := sep_dropWs hb (by decide) (vs ++ (e ++ r))
      obtain ⟨c2, t2, hd, hc2⟩ := hv.head (e ++ r)
      rw [List.append_assoc, List.append_assoc, parseVal, e1]
      simp only [show ('[' : Char) ≠ '"' by decide, show ('[' : Char) ≠ '{' by decide, if_false, if_true]
      rw [dropWs_append_ws hw1, hd]
      simp only [hc2, if_false]
      rw [← hd, parseElems_dropWs, ← List.append_assoc, key]
theorem parseElems_complete : ∀ {vs : List Char} {xs : List JVal}, ElemsD vs xs →
    ∀ (e r : List Char), Sep ']' e → ∀ fuel, vs.length + 1 < fuel →
      parseElems fuel (vs ++ e ++ r) = some (xs, dropWs r)
  | _, _, .one hv, e, r, he, fuel, hf => by
    cases fuel with
    | zero => simp at hf
    | succ f =>
      have key := parseVal_complete hv (e ++ r) (sep_noNumAhead he (by decide) r) f (by omega)
      obtain ⟨w2, hw2, e2⟩ := sep_dropWs he (by decide) r
      rw [List.append_assoc, parseElems, key, e2]
      simp only [if_true, dropWs_append_ws hw2]
  | _, _, @ElemsD.cons v s vs x xs hv hs hvs, e, r, he, fuel, hf => by
    cases fuel with
    | zero => simp at hf
    | succ f =>
      have hls := sep_length hs
      have key := parseVal_complete hv (s ++ (vs ++ (e ++ r))) (sep_noNumAhead hs (by decide) _) f (by
        simp only [List.length_append] at hf; omega)
      have key2 := parseElems_complete hvs e r he f (by
        simp only [List.length_append] at hf; omega)
      obtain ⟨w2, hw2, e2⟩ := sep_dropWs hs (by decide) (vs ++ (e ++ r))
      rw [List.append_assoc] at key2
      simp only [List.append_assoc]
      rw [parseElems, key, e2]
      simp only [show (',' : Char) ≠ ']' by decide, if_false, if_true]
      rw [parseElems_ws f hw2, key2]
end

/-! ### consequences -/

/-- the parser computes the denotation of every text that has one -/
theorem parseJson_complete {cs : List Char} {x : JVal} (h : ValD cs x) : parseJson cs = some x := by
  have := parseVal_complete h [] noNumAhead_nil (cs.length + 1) (by omega)
  rw [List.append_nil] at this
  simp only [parseJson, this, dropWs]

/-- ... also with whitespace around it (`JSON-text = ws value ws`) -/
theorem parseJson_complete_text {a v b : List Char} {x : JVal} (ha : Ws a) (hv : ValD v x) (hb : Ws b) :
    parseJson (a ++ v ++ b) = some x := by
  have := parseVal_complete hv b (ws_noNumAhead hb) ((a ++ (v ++ b)).length + 1) (by
    simp only [List.length_append]; omega)
  rw [dropWs_ws hb] at this
  simp only [parseJson, List.append_assoc]
  rw [parseVal_ws _ ha, this]

/-- **the grammar is unambiguous**: a text denotes at most one value -/
theorem ValD.unique {cs : List Char} {x x' : JVal} (h : ValD cs x) (h' : ValD cs x') : x = x' := by
  have := parseJson_complete h
  rw [parseJson_complete h'] at this
  exact (Option.some.inj this).symm

/-- an object text has exactly one list of members -/
theorem ObjD.unique {cs : List Char} {ms ms' : List (List Char × JVal)} (h : ObjD cs ms) (h' : ObjD cs ms') :
    ms = ms' := by
  have := ValD.unique (.object h) (.object h')
  exact JVal.obj.inj this

theorem StrD.unique {cs s s' : List Char} (h : StrD cs s) (h' : StrD cs s') : s = s' := by
  have := ValD.unique (.string h) (.string h')
  exact JVal.str.inj this

/-- a text the parser rejects has no denotation -/
theorem no_denotation_of_parse_none {cs : List Char} (h : parseJson cs = none) : ¬ ∃ x, ValD cs x := by
  intro ⟨x, hx⟩
  rw [parseJson_complete hx] at h
  cases h

/-! ### soundness: what the parser returns is a denotation by the grammar -/

/-- `dropWs` removes a whitespace prefix and stops at a non-whitespace character -/
theorem dropWs_spec (l : List Char) : ∃ a, Ws a ∧ l = a ++ dropWs l := by
  induction l with
  | nil => exact ⟨[], ws_nil, rfl⟩
  | cons c t ih =>
    by_cases hc : WsChar c
    · obtain ⟨a, ha, he⟩ := ih
      refine ⟨c :: a, ?_, ?_⟩
      · intro x hx
        cases hx with
        | head => exact hc
        | tail _ hx => exact ha x hx
      · simp only [dropWs, hc, if_true, List.cons_append]; rw [← he]
    · exact ⟨[], ws_nil, by simp only [dropWs, hc, if_false, List.nil_append]⟩

theorem dropWs_eq_nil {l : List Char} (h : dropWs l = []) : Ws l := by
  obtain ⟨a, ha, he⟩ := dropWs_spec l
  rw [h, List.append_nil] at he
  rw [he]; exact ha

theorem stripLit_sound : ∀ (p cs r : List Char), stripLit p cs = some r → cs = p ++ r
  | [], cs, r, h => by simp only [stripLit, Option.some.injEq] at h; simp [h]
  | _ :: _, [], r, h => by simp [stripLit] at h
  | p :: ps, c :: cs, r, h => by
    simp only [stripLit] at h
    split at h
    · rename_i hpc; subst hpc; rw [stripLit_sound ps cs r h]; rfl
    · cases h

theorem spanNum_spec (cs : List Char) : cs = (spanNum cs).1 ++ (spanNum cs).2 := by
  induction cs with
  | nil => rfl
  | cons c cs ih =>
    by_cases hc : NumChar c
    · simp only [spanNum, hc, if_true, List.cons_append]; rw [← ih]
    · simp only [spanNum, hc, if_false, List.nil_append]

theorem escapeLookup_sound {e x : Char} (h : escapeLookup e = some x) : (e, x) ∈ escapeTable := by
  unfold escapeLookup at h
  cases hf : escapeTable.find? (fun p => p.1 == e) with
  | none => rw [hf] at h; cases h
  | some p =>
    rw [hf] at h
    simp only [Option.map_some, Option.some.injEq] at h
    have hm := List.mem_of_find?_eq_some hf
    have hp := List.find?_some hf
    simp only [beq_iff_eq] at hp
    obtain ⟨p1, p2⟩ := p
    simp only at hp h
    subst hp; subst h
    exact hm

theorem charsD_single {c : List Char} {x : Char} {cs xs : List Char} (h : StrCharD c x) (hs : CharsD cs xs) :
    CharsD (c ++ cs) (x :: xs) := .cons h hs

theorem parseChars_sound : ∀ (n : Nat) (cs : List Char), cs.length ≤ n → ∀ (xs r : List Char),
    parseChars cs = some (xs, r) → ∃ body, cs = body ++ '"' :: r ∧ CharsD body xs := by
  intro n
  induction n with
  | zero =>
    intro cs hl xs r h
    cases cs with
    | nil => rw [parseChars.eq_def] at h; cases h
    | cons _ _ => simp at hl
  | succ n ih =>
    intro cs hl xs r h
    cases cs with
    | nil => rw [parseChars.eq_def] at h; cases h
    | cons c rest =>
      simp only [List.length_cons] at hl
      rw [parseChars.eq_def] at h
      simp only at h
      by_cases hq : c = '"'
      · simp only [hq, if_true, Option.some.injEq, Prod.mk.injEq] at h
        obtain ⟨rfl, rfl⟩ := h
        exact ⟨[], by simp [hq], .nil⟩
      simp only [hq, if_false] at h
      by_cases hb : c = '\\'
      · simp only [hb, if_true] at h
        cases rest with
        | nil => cases h
        | cons e rest1 =>
          simp only [List.length_cons] at hl
          simp only at h
          by_cases hu : e = 'u'
          · simp only [hu, if_true] at h
            rcases rest1 with _ | ⟨a, _ | ⟨b, _ | ⟨c', _ | ⟨d, rest2⟩⟩⟩⟩ <;> try (cases h)
            simp only [List.length_cons] at hl
            simp only at h
            cases hh : hex4 a b c' d with
            | none => rw [hh] at h; cases h
            | some nn =>
              rw [hh] at h
              simp only at h
              by_cases hn : nn < 0xD800 ∨ 0xE000 ≤ nn
              · rw [if_pos hn] at h
                cases hp : parseChars rest2 with
                | none => rw [hp] at h; cases h
                | some sr =>
                  obtain ⟨s, r'⟩ := sr
                  rw [hp] at h
                  simp only [Option.some.injEq, Prod.mk.injEq] at h
                  obtain ⟨rfl, rfl⟩ := h
                  obtain ⟨body, hbody, hcd⟩ := ih rest2 (by omega) s r' hp
                  refine ⟨['\\', 'u', a, b, c', d] ++ body, ?_, .cons (.unicode hh hn) hcd⟩
                  rw [hb, hu, hbody]; rfl
              · rw [if_neg hn] at h
                by_cases hhi : nn < 0xDC00
                · rw [if_pos hhi] at h
                  rcases rest2 with _ | ⟨b1, _ | ⟨u1, _ | ⟨e', _ | ⟨f, _ | ⟨g, _ | ⟨h', rest3⟩⟩⟩⟩⟩⟩ <;> try (cases h)
                  simp only [List.length_cons] at hl
                  simp only at h
                  by_cases hbu : b1 = '\\' ∧ u1 = 'u'
                  · rw [if_pos hbu] at h
                    cases hh2 : hex4 e' f g h' with
                    | none => rw [hh2] at h; cases h
                    | some lo =>
                      rw [hh2] at h
                      simp only at h
                      by_cases hlo : 0xDC00 ≤ lo ∧ lo < 0xE000
                      · rw [if_pos hlo] at h
                        cases hp : parseChars rest3 with
                        | none => rw [hp] at h; cases h
                        | some sr =>
                          obtain ⟨s, r'⟩ := sr
                          rw [hp] at h
                          simp only [Option.some.injEq, Prod.mk.injEq] at h
                          obtain ⟨rfl, rfl⟩ := h
                          obtain ⟨body, hbody, hcd⟩ := ih rest3 (by omega) s r' hp
                          refine ⟨['\\', 'u', a, b, c', d, '\\', 'u', e', f, g, h'] ++ body, ?_,
                            .cons (.surrogates hh hh2 (by omega) hhi hlo.1 hlo.2) hcd⟩
                          rw [hb, hu, hbu.1, hbu.2, hbody]; rfl
                      · rw [if_neg hlo] at h; cases h
                  · rw [if_neg hbu] at h; cases h
                · rw [if_neg hhi] at h; cases h
          · simp only [hu, if_false] at h
            cases hl' : escapeLookup e with
            | none => rw [hl'] at h; cases h
            | some x =>
              rw [hl'] at h
              simp only at h
              cases hp : parseChars rest1 with
              | none => rw [hp] at h; cases h
              | some sr =>
                obtain ⟨s, r'⟩ := sr
                rw [hp] at h
                simp only [Option.some.injEq, Prod.mk.injEq] at h
                obtain ⟨rfl, rfl⟩ := h
                obtain ⟨body, hbody, hcd⟩ := ih rest1 (by omega) s r' hp
                refine ⟨['\\', e] ++ body, ?_, .cons (.escape (escapeLookup_sound hl')) hcd⟩
                rw [hb, hbody]; rfl
      · simp only [hb, if_false] at h
        by_cases hun : Unescaped c
        · rw [if_pos hun] at h
          cases hp : parseChars rest with
          | none => rw [hp] at h; cases h
          | some sr =>
            obtain ⟨s, r'⟩ := sr
            rw [hp] at h
            simp only [Option.some.injEq, Prod.mk.injEq] at h
            obtain ⟨rfl, rfl⟩ := h
            obtain ⟨body, hbody, hcd⟩ := ih rest (by omega) s r' hp
            refine ⟨[c] ++ body, ?_, .cons (.unescaped hun) hcd⟩
            rw [hbody]; rfl
        · rw [if_neg hun] at h; cases h


/-- `dropWs l = c :: t`: `l` is whitespace, then `c :: t` -/
theorem dropWs_cons_spec {l : List Char} {c : Char} {t : List Char} (h : dropWs l = c :: t) :
    ∃ a, Ws a ∧ l = a ++ c :: t := by
  obtain ⟨a, ha, he⟩ := dropWs_spec l
  rw [h] at he
  exact ⟨a, ha, he⟩

def ValSound (fuel : Nat) : Prop := ∀ cs x r, parseVal fuel cs = some (x, r) →
  ∃ w v rest, Ws w ∧ ValD v x ∧ cs = w ++ v ++ rest ∧ r = dropWs rest
def MembersSound (fuel : Nat) : Prop := ∀ cs xs r, parseMembers fuel cs = some (xs, r) →
  ∃ w ms e rest, Ws w ∧ MembersD ms xs ∧ Sep '}' e ∧ cs = w ++ ms ++ e ++ rest ∧ r = dropWs rest
def MemberSound (fuel : Nat) : Prop := ∀ cs m r, parseMember fuel cs = some (m, r) →
  ∃ w t rest, Ws w ∧ MemberD t m ∧ cs = w ++ t ++ rest ∧ r = dropWs rest
def ElemsSound (fuel : Nat) : Prop := ∀ cs xs r, parseElems fuel cs = some (xs, r) →
  ∃ w vs e rest, Ws w ∧ ElemsD vs xs ∧ Sep ']' e ∧ cs = w ++ vs ++ e ++ rest ∧ r = dropWs rest

theorem valSound_succ (f : Nat) (ims : MembersSound f) (ies : ElemsSound f) : ValSound (f + 1) := by
  intro cs x r h
  rw [parseVal] at h
  cases hd : dropWs cs with
  | nil => rw [hd] at h; cases h
  | cons c t =>
    obtain ⟨w, hw, hcs⟩ := dropWs_cons_spec hd
    rw [hd] at h
    simp only at h
    have lit : ∀ (lit : List Char) (y : JVal), ValD (c :: lit) y →
        (match stripLit lit t with
          | some r => some (y, dropWs r)
          | none => none) = some (x, r) →
        ∃ w v rest, Ws w ∧ ValD v x ∧ cs = w ++ v ++ rest ∧ r = dropWs rest := by
      intro lit y hy h
      cases hs : stripLit lit t with
      | none => rw [hs] at h; cases h
      | some r1 =>
        rw [hs] at h
        simp only [Option.some.injEq, Prod.mk.injEq] at h
        obtain ⟨rfl, rfl⟩ := h
        have := stripLit_sound lit t r1 hs
        exact ⟨w, c :: lit, r1, hw, hy, by rw [hcs, this]; simp, rfl⟩
    by_cases h1 : c = '"'
    · simp only [h1, if_true] at h
      cases hp : parseChars t with
      | none => rw [hp] at h; cases h
      | some sr =>
        obtain ⟨s, r1⟩ := sr
        rw [hp] at h
        simp only [Option.some.injEq, Prod.mk.injEq] at h
        obtain ⟨rfl, rfl⟩ := h
        obtain ⟨body, hbody, hcd⟩ := parseChars_sound t.length t (Nat.le_refl _) s r1 hp
        exact ⟨w, '"' :: body ++ ['"'], r1, hw, .string (.mk hcd), by rw [hcs, h1, hbody]; simp, rfl⟩
    simp only [h1, if_false] at h
    by_cases h2 : c = '{'
    · simp only [h2, if_true] at h
      cases hd2 : dropWs t with
      | nil => rw [hd2] at h; cases h
      | cons c2 t2 =>
        obtain ⟨a, ha, ht⟩ := dropWs_cons_spec hd2
        rw [hd2] at h
        simp only at h
        by_cases hc2 : c2 = '}'
        · simp only [hc2, if_true, Option.some.injEq, Prod.mk.injEq] at h
          obtain ⟨rfl, rfl⟩ := h
          refine ⟨[], (w ++ '{' :: a) ++ ['}'], t2, ws_nil, .object (.empty ⟨w, a, hw, ha, rfl⟩ (sep_bare '}')), ?_, rfl⟩
          rw [hcs, h2, ht, hc2]; simp
        · simp only [hc2, if_false] at h
          cases hm : parseMembers f (c2 :: t2) with
          | none => rw [hm] at h; cases h
          | some mr =>
            obtain ⟨ms, r'⟩ := mr
            rw [hm] at h
            simp only [Option.some.injEq, Prod.mk.injEq] at h
            obtain ⟨rfl, rfl⟩ := h
            obtain ⟨w', mt, e, rest, hw', hmd, he, hct, hr⟩ := ims _ _ _ hm
            refine ⟨[], (w ++ '{' :: (a ++ w')) ++ mt ++ e, rest, ws_nil,
              .object (.members ⟨w, a ++ w', hw, ws_append ha hw', rfl⟩ hmd he), ?_, hr⟩
            rw [hcs, h2, ht, hct]; simp
    simp only [h2, if_false] at h
    by_cases h3 : c = '['
    · simp only [h3, if_true] at h
      cases hd2 : dropWs t with
      | nil => rw [hd2] at h; cases h
      | cons c2 t2 =>
        obtain ⟨a, ha, ht⟩ := dropWs_cons_spec hd2
        rw [hd2] at h
        simp only at h
        by_cases hc2 : c2 = ']'
        · simp only [hc2, if_true, Option.some.injEq, Prod.mk.injEq] at h
          obtain ⟨rfl, rfl⟩ := h
          refine ⟨[], (w ++ '[' :: a) ++ [']'], t2, ws_nil, .array (.empty ⟨w, a, hw, ha, rfl⟩ (sep_bare ']')), ?_, rfl⟩
          rw [hcs, h3, ht, hc2]; simp
        · simp only [hc2, if_false] at h
          cases hm : parseElems f (c2 :: t2) with
          | none => rw [hm] at h; cases h
          | some mr =>
            obtain ⟨xs, r'⟩ := mr
            rw [hm] at h
            simp only [Option.some.injEq, Prod.mk.injEq] at h
            obtain ⟨rfl, rfl⟩ := h
            obtain ⟨w', vt, e, rest, hw', hvd, he, hct, hr⟩ := ies _ _ _ hm
            refine ⟨[], (w ++ '[' :: (a ++ w')) ++ vt ++ e, rest, ws_nil,
              .array (.elements ⟨w, a ++ w', hw, ws_append ha hw', rfl⟩ hvd he), ?_, hr⟩
            rw [hcs, h3, ht, hct]; simp
    simp only [h3, if_false] at h
    by_cases h4 : c = 't'
    · simp only [h4, if_true] at h
      exact lit ['r', 'u', 'e'] (.bool true) (by rw [h4]; exact .true) h
    simp only [h4, if_false] at h
    by_cases h5 : c = 'f'
    · simp only [h5, if_true] at h
      exact lit ['a', 'l', 's', 'e'] (.bool false) (by rw [h5]; exact .false) h
    simp only [h5, if_false] at h
    by_cases h6 : c = 'n'
    · simp only [h6, if_true] at h
      exact lit ['u', 'l', 'l'] .null (by rw [h6]; exact .null) h
    simp only [h6, if_false] at h
    cases hn : numValue (spanNum (c :: t)).1 with
    | none => rw [hn] at h; cases h
    | some d =>
      rw [hn] at h
      simp only [Option.some.injEq, Prod.mk.injEq] at h
      obtain ⟨rfl, rfl⟩ := h
      refine ⟨w, (spanNum (c :: t)).1, (spanNum (c :: t)).2, hw, .number (numValue_sound hn), ?_, rfl⟩
      rw [hcs, List.append_assoc, ← spanNum_spec]

theorem membersSound_succ (f : Nat) (im : MemberSound f) (ims : MembersSound f) : MembersSound (f + 1) := by
  intro cs xs r h
  rw [parseMembers] at h
  cases hm : parseMember f cs with
  | none => rw [hm] at h; cases h
  | some mr =>
    obtain ⟨m, r1⟩ := mr
    rw [hm] at h
    simp only at h
    obtain ⟨w, t, rest1, hw, hmd, hcs, hr1⟩ := im _ _ _ hm
    cases r1 with
    | nil => cases h
    | cons c t1 =>
      obtain ⟨a, ha, hrest⟩ := dropWs_cons_spec hr1.symm
      simp only at h
      by_cases hc : c = '}'
      · simp only [hc, if_true, Option.some.injEq, Prod.mk.injEq] at h
        obtain ⟨rfl, rfl⟩ := h
        refine ⟨w, t, a ++ ['}'], t1, hw, .one hmd, ⟨a, [], ha, ws_nil, rfl⟩, ?_, rfl⟩
        rw [hcs, hrest, hc]; simp
      · simp only [hc, if_false] at h
        by_cases hc' : c = ','
        · simp only [hc', if_true] at h
          cases hms : parseMembers f t1 with
          | none => rw [hms] at h; cases h
          | some msr =>
            obtain ⟨ms', r'⟩ := msr
            rw [hms] at h
            simp only [Option.some.injEq, Prod.mk.injEq] at h
            obtain ⟨rfl, rfl⟩ := h
            obtain ⟨w2, mt, e, rest, hw2, hmsd, he, ht1, hr⟩ := ims _ _ _ hms
            refine ⟨w, t ++ (a ++ ',' :: w2) ++ mt, e, rest, hw, .cons hmd ⟨a, w2, ha, hw2, rfl⟩ hmsd, he, ?_, hr⟩
            rw [hcs, hrest, hc', ht1]; simp
        · simp only [hc', if_false] at h; cases h

theorem memberSound_succ (f : Nat) (iv : ValSound f) : MemberSound (f + 1) := by
  intro cs m r h
  rw [parseMember] at h
  cases hd : dropWs cs with
  | nil => rw [hd] at h; cases h
  | cons c t =>
    obtain ⟨w, hw, hcs⟩ := dropWs_cons_spec hd
    rw [hd] at h
    simp only at h
    by_cases h1 : c = '"'
    · simp only [h1, if_true] at h
      cases hp : parseChars t with
      | none => rw [hp] at h; cases h
      | some sr =>
        obtain ⟨k, r1⟩ := sr
        rw [hp] at h
        simp only at h
        obtain ⟨body, hbody, hcd⟩ := parseChars_sound t.length t (Nat.le_refl _) k r1 hp
        cases hd2 : dropWs r1 with
        | nil => rw [hd2] at h; cases h
        | cons c2 t2 =>
          obtain ⟨a, ha, hr1⟩ := dropWs_cons_spec hd2
          rw [hd2] at h
          simp only at h
          by_cases h2 : c2 = ':'
          · simp only [h2, if_true] at h
            cases hv : parseVal f t2 with
            | none => rw [hv] at h; cases h
            | some vr =>
              obtain ⟨x, r2⟩ := vr
              rw [hv] at h
              simp only [Option.some.injEq, Prod.mk.injEq] at h
              obtain ⟨rfl, rfl⟩ := h
              obtain ⟨w2, v, rest, hw2, hvd, ht2, hr⟩ := iv _ _ _ hv
              refine ⟨w, ('"' :: body ++ ['"']) ++ (a ++ ':' :: w2) ++ v, rest, hw,
                .mk (.mk hcd) ⟨a, w2, ha, hw2, rfl⟩ hvd, ?_, hr⟩
              rw [hcs, h1, hbody, hr1, h2, ht2]; simp
          · simp only [h2, if_false] at h; cases h
    · simp only [h1, if_false] at h; cases h

theorem elemsSound_succ (f : Nat) (iv : ValSound f) (ies : ElemsSound f) : ElemsSound (f + 1) := by
  intro cs xs r h
  rw [parseElems] at h
  cases hm : parseVal f cs with
  | none => rw [hm] at h; cases h
  | some mr =>
    obtain ⟨x, r1⟩ := mr
    rw [hm] at h
    simp only at h
    obtain ⟨w, v, rest1, hw, hvd, hcs, hr1⟩ := iv _ _ _ hm
    cases r1 with
    | nil => cases h
    | cons c t1 =>
      obtain ⟨a, ha, hrest⟩ := dropWs_cons_spec hr1.symm
      simp only at h
      by_cases hc : c = ']'
      · simp only [hc, if_true, Option.some.injEq, Prod.mk.injEq] at h
        obtain ⟨rfl, rfl⟩ := h
        refine ⟨w, v, a ++ [']'], t1, hw, .one hvd, ⟨a, [], ha, ws_nil, rfl⟩, ?_, rfl⟩
        rw [hcs, hrest, hc]; simp
      · simp only [hc, if_false] at h
        by_cases hc' : c = ','
        · simp only [hc', if_true] at h
          cases hms : parseElems f t1 with
          | none => rw [hms] at h; cases h
          | some msr =>
            obtain ⟨xs', r'⟩ := msr
            rw [hms] at h
            simp only [Option.some.injEq, Prod.mk.injEq] at h
            obtain ⟨rfl, rfl⟩ := h
            obtain ⟨w2, vt, e, rest, hw2, hvsd, he, ht1, hr⟩ := ies _ _ _ hms
            refine ⟨w, v ++ (a ++ ',' :: w2) ++ vt, e, rest, hw, .cons hvd ⟨a, w2, ha, hw2, rfl⟩ hvsd, he, ?_, hr⟩
            rw [hcs, hrest, hc', ht1]; simp
        · simp only [hc', if_false] at h; cases h

theorem all_sound : ∀ fuel, ValSound fuel ∧ MembersSound fuel ∧ MemberSound fuel ∧ ElemsSound fuel := by
  intro fuel
  induction fuel with
  | zero =>
    refine ⟨?_, ?_, ?_, ?_⟩
    · intro cs x r h; simp [parseVal] at h
    · intro cs x r h; simp [parseMembers] at h
    · intro cs x r h; simp [parseMember] at h
    · intro cs x r h; simp [parseElems] at h
  | succ f ih =>
    obtain ⟨iv, ims, im, ies⟩ := ih
    exact ⟨valSound_succ f ims ies, membersSound_succ f im ims, memberSound_succ f iv, elemsSound_succ f iv ies⟩

/-- soundness: what the parser returns is a denotation by the grammar -/
theorem parseJson_sound {cs : List Char} {x : JVal} (h : parseJson cs = some x) : JsonTextD cs x := by
  unfold parseJson at h
  cases hp : parseVal (cs.length + 1) cs with
  | none => rw [hp] at h; cases h
  | some xr =>
    obtain ⟨y, r⟩ := xr
    rw [hp] at h
    cases r with
    | cons _ _ => cases h
    | nil =>
      simp only [Option.some.injEq] at h
      subst h
      obtain ⟨w, v, rest, hw, hvd, hcs, hr⟩ := (all_sound _).1 _ _ _ hp
      exact ⟨w, v, rest, hw, hvd, dropWs_eq_nil hr.symm, hcs⟩

/-- **the parser decides the grammar**: `parseJson cs = some x` iff `cs` is a JSON text denoting `x` -/
theorem parseJson_iff (cs : List Char) (x : JVal) : parseJson cs = some x ↔ JsonTextD cs x :=
  ⟨parseJson_sound, fun ⟨_, _, _, ha, hv, hb, he⟩ => by rw [he]; exact parseJson_complete_text ha hv hb⟩

theorem JsonTextD.jsonText {cs : List Char} {x : JVal} (h : JsonTextD cs x) : JsonText cs := by
  obtain ⟨a, v, b, ha, hv, hb, he⟩ := h
  exact ⟨a, v, b, ha, hv.val, hb, he⟩


/-! ### decidable equality of JSON values (for `decide` on concrete texts) -/

mutual
def JVal.eqb : JVal → JVal → Bool
  | .null, .null => true
  | .bool a, .bool b => a == b
  | .num a, .num b => decide (a = b)
  | .str a, .str b => decide (a = b)
  | .arr a, .arr b => JVal.eqbList a b
  | .obj a, .obj b => JVal.eqbMembers a b
  | _, _ => false
def JVal.eqbList : List JVal → List JVal → Bool
  | [], [] => true
  | x :: xs, y :: ys => JVal.eqb x y && JVal.eqbList xs ys
  | _, _ => false
def JVal.eqbMembers : List (List Char × JVal) → List (List Char × JVal) → Bool
  | [], [] => true
  | (k, x) :: xs, (k', y) :: ys => decide (k = k') && JVal.eqb x y && JVal.eqbMembers xs ys
  | _, _ => false
end

mutual
theorem JVal.eqb_iff : ∀ (a b : JVal), JVal.eqb a b = true ↔ a = b
  | .null, b => by cases b <;> simp [JVal.eqb]
  | .bool a, b => by cases b <;> simp [JVal.eqb]
  | .num a, b => by cases b <;> simp [JVal.eqb]
  | .str a, b => by cases b <;> simp [JVal.eqb]
  | .arr a, b => by cases b <;> simp [JVal.eqb, JVal.eqbList_iff a]
  | .obj a, b => by cases b <;> simp [JVal.eqb, JVal.eqbMembers_iff a]
theorem JVal.eqbList_iff : ∀ (a b : List JVal), JVal.eqbList a b = true ↔ a = b
  | [], b => by cases b <;> simp [JVal.eqbList]
  | x :: xs, b => by cases b <;> simp [JVal.eqbList, JVal.eqb_iff x, JVal.eqbList_iff xs]
theorem JVal.eqbMembers_iff : ∀ (a b : List (List Char × JVal)), JVal.eqbMembers a b = true ↔ a = b
  | [], b => by cases b <;> simp [JVal.eqbMembers]
  | (k, x) :: xs, b => by
    cases b with
    | nil => simp [JVal.eqbMembers]
    | cons y ys => obtain ⟨k', y⟩ := y; simp [JVal.eqbMembers, JVal.eqb_iff x, JVal.eqbMembers_iff xs, and_assoc]
end

instance : DecidableEq JVal := fun a b => decidable_of_iff _ (JVal.eqb_iff a b)

end Sqlgrep.JsonGrammar
