import SqlgrepModel.Spec.JsonGrammar
/-
RFC 8259 §6 numbers: the executable recogniser `numValue` / `isJsonNumber` of `Spec/JsonGrammar.lean`
is sound and complete for the grammar's `NumD` (hence a `number` has exactly one denotation), and a text
with a denotation is a `number` of the plain grammar.
-/
namespace Sqlgrep.JsonGrammar

theorem Digits.nil : Digits [] := by intro c h; cases h

theorem Digits.cons {c : Char} {cs : List Char} (h : Digit c) (hs : Digits cs) : Digits (c :: cs) := by
  intro x hx
  cases hx with
  | head => exact h
  | tail _ hx => exact hs x hx

theorem Digits.tail {c : Char} {cs : List Char} (h : Digits (c :: cs)) : Digits cs :=
  fun x hx => h x (List.mem_cons_of_mem _ hx)

theorem Digits.head {c : Char} {cs : List Char} (h : Digits (c :: cs)) : Digit c := h c (List.mem_cons_self ..)

/-- the next character does not continue a run of digits -/
def NoDigitAhead (r : List Char) : Prop := ∀ c t, r = c :: t → ¬ Digit c

theorem spanDigits_spec (cs : List Char) :
    cs = (spanDigits cs).1 ++ (spanDigits cs).2 ∧ Digits (spanDigits cs).1 ∧ NoDigitAhead (spanDigits cs).2 := by
  induction cs with
  | nil => exact ⟨rfl, Digits.nil, by intro c t h; cases h⟩
  | cons c cs ih =>
    by_cases hc : Digit c
    · have : spanDigits (c :: cs) = (c :: (spanDigits cs).1, (spanDigits cs).2) := by
        simp [spanDigits, hc]
      rw [this]
      exact ⟨by simp only [List.cons_append]; rw [← ih.1], Digits.cons hc ih.2.1, ih.2.2⟩
    · have : spanDigits (c :: cs) = ([], c :: cs) := by simp [spanDigits, hc]
      rw [this]
      exact ⟨rfl, Digits.nil, by intro c' t h; cases h; exact hc⟩

theorem spanDigits_append (ds r : List Char) (hd : Digits ds) (hr : NoDigitAhead r) :
    spanDigits (ds ++ r) = (ds, r) := by
  induction ds with
  | nil =>
    cases r with
    | nil => rfl
    | cons c t =>
      have := hr c t rfl
      simp [spanDigits, this]
  | cons d ds ih =>
    have h1 : spanDigits (d :: ds ++ r) = (d :: (spanDigits (ds ++ r)).1, (spanDigits (ds ++ r)).2) := by
      simp [spanDigits, hd.head]
    rw [h1, ih hd.tail]

/-! ### exponent -/

theorem expValue_sound {cs : List Char} {ev : Int} (h : expValue cs = some ev) : ExpD cs ev := by
  unfold expValue at h
  split at h
  · cases h; exact .none
  · rename_i e t
    split at h
    · rename_i he
      split at h
      · split at h
        · rename_i hd; cases h; exact .minus he hd
        · cases h
      · split at h
        · rename_i hd; cases h; exact .plus he hd
        · cases h
      · split at h
        · rename_i hd; cases h; exact .plain he hd
        · cases h
    · cases h

theorem digit_ne_sign {c : Char} (h : Digit c) : c ≠ '-' ∧ c ≠ '+' ∧ c ≠ '.' ∧ c ≠ 'e' ∧ c ≠ 'E' := by
  refine ⟨?_, ?_, ?_, ?_, ?_⟩ <;> (intro e; subst e; revert h; decide)

theorem expValue_complete {cs : List Char} {ev : Int} (h : ExpD cs ev) : expValue cs = some ev := by
  cases h with
  | none => rfl
  | plain he hd =>
    rename_i e ds
    obtain ⟨hne, hds⟩ := hd
    cases ds with
    | nil => exact absurd rfl hne
    | cons d ds =>
      have hd := digit_ne_sign hds.head
      simp only [expValue, he, if_true]
      split
      · rename_i heq; cases heq; exact absurd rfl hd.1
      · rename_i heq; cases heq; exact absurd rfl hd.2.1
      · rw [if_pos (show Digits1 _ from ⟨hne, hds⟩)]
  | plus he hd => simp only [expValue, he, if_true, if_pos hd]
  | minus he hd => simp only [expValue, he, if_true, if_pos hd]

/-- what may follow `int` or `frac` inside a number: nothing, or the next optional part -/
theorem exp_noDigit {e : List Char} {ev : Int} (h : ExpD e ev) : NoDigitAhead e := by
  intro c t hc hd
  have := digit_ne_sign hd
  cases h with
  | none => cases hc
  | plain he _ => cases hc; cases he with | inl he => exact this.2.2.2.1 he | inr he => exact this.2.2.2.2 he
  | plus he _ => cases hc; cases he with | inl he => exact this.2.2.2.1 he | inr he => exact this.2.2.2.2 he
  | minus he _ => cases hc; cases he with | inl he => exact this.2.2.2.1 he | inr he => exact this.2.2.2.2 he

theorem exp_head_ne_dot {e : List Char} {ev : Int} (h : ExpD e ev) : ∀ t, e ≠ '.' :: t := by
  intro t hc
  cases h with
  | none => cases hc
  | plain he _ => cases hc; revert he; decide
  | plus he _ => cases hc; revert he; decide
  | minus he _ => cases hc; revert he; decide

/-! ### fraction and exponent -/

theorem fracExpValue_sound {cs fd : List Char} {ev : Int} (h : fracExpValue cs = some (fd, ev)) :
    ∃ f e, cs = f ++ e ∧ FracD f fd ∧ ExpD e ev := by
  unfold fracExpValue at h
  split at h
  · rename_i t
    have hs := spanDigits_spec t
    simp only at h
    split at h
    · cases h
    · rename_i hne
      cases hx : expValue (spanDigits t).2 with
      | none => rw [hx] at h; cases h
      | some x =>
        rw [hx] at h
        simp only [Option.map_some, Option.some.injEq, Prod.mk.injEq] at h
        obtain ⟨h1, h2⟩ := h
        subst h2
        refine ⟨'.' :: (spanDigits t).1, (spanDigits t).2, ?_, ?_, expValue_sound hx⟩
        · simp only [List.cons_append]; rw [← hs.1]
        · rw [← h1]; exact .some ⟨hne, hs.2.1⟩
  · cases hx : expValue cs with
    | none => rw [hx] at h; cases h
    | some x =>
      rw [hx] at h
      simp only [Option.map_some, Option.some.injEq, Prod.mk.injEq] at h
      obtain ⟨h1, h2⟩ := h
      subst h1; subst h2
      exact ⟨[], cs, rfl, .none, expValue_sound hx⟩

theorem fracExpValue_not_dot {cs : List Char} (h : ∀ t, cs ≠ '.' :: t) :
    fracExpValue cs = (expValue cs).map ([], ·) := by
  unfold fracExpValue
  split
  · rename_i t; exact absurd rfl (h t)
  · rfl

theorem fracExpValue_complete {f e fd : List Char} {ev : Int} (hf : FracD f fd) (he : ExpD e ev) :
    fracExpValue (f ++ e) = some (fd, ev) := by
  cases hf with
  | none =>
    simp only [List.nil_append]
    rw [fracExpValue_not_dot (exp_head_ne_dot he), expValue_complete he]; rfl
  | some hd =>
    have hs := spanDigits_append fd e hd.2 (exp_noDigit he)
    simp only [List.cons_append, fracExpValue, hs, if_neg hd.1, expValue_complete he, Option.map_some]

theorem frac_noDigit {f fd e : List Char} {ev : Int} (hf : FracD f fd) (he : ExpD e ev) : NoDigitAhead (f ++ e) := by
  cases hf with
  | none => exact exp_noDigit he
  | some _ => intro c t hc hd; cases hc; exact (digit_ne_sign hd).2.2.1 rfl

/-! ### the whole number -/

theorem digit19_digit {c : Char} (h : Digit19 c) : Digit c := by
  unfold Digit19 at h; unfold Digit; omega

theorem digit19_ne_zero {c : Char} (h : Digit19 c) : c ≠ '0' := by
  intro e; subst e; revert h; decide

theorem unsignedValue_sound {cs i fd : List Char} {ev : Int} (h : unsignedValue cs = some (i, fd, ev)) :
    ∃ f e, cs = i ++ f ++ e ∧ IntPart i ∧ FracD f fd ∧ ExpD e ev := by
  unfold unsignedValue at h
  split at h
  · cases h
  · rename_i d t
    split at h
    · rename_i hd
      cases hx : fracExpValue t with
      | none => rw [hx] at h; cases h
      | some x =>
        obtain ⟨fd', ev'⟩ := x
        rw [hx] at h
        simp only [Option.map_some, Option.some.injEq, Prod.mk.injEq] at h
        obtain ⟨h1, h2, h3⟩ := h
        subst h1; subst h2; subst h3
        obtain ⟨f, e, hfe, hf, he⟩ := fracExpValue_sound hx
        exact ⟨f, e, by rw [hd, hfe]; simp, .zero, hf, he⟩
    · split at h
      · rename_i hd19
        have hs := spanDigits_spec t
        simp only at h
        cases hx : fracExpValue (spanDigits t).2 with
        | none => rw [hx] at h; cases h
        | some x =>
          obtain ⟨fd', ev'⟩ := x
          rw [hx] at h
          simp only [Option.map_some, Option.some.injEq, Prod.mk.injEq] at h
          obtain ⟨h1, h2, h3⟩ := h
          subst h1; subst h2; subst h3
          obtain ⟨f, e, hfe, hf, he⟩ := fracExpValue_sound hx
          refine ⟨f, e, ?_, .nonzero hd19 hs.2.1, hf, he⟩
          simp only [List.cons_append, List.append_assoc]
          rw [← hfe, ← hs.1]
      · cases h

theorem unsignedValue_complete {i f e fd : List Char} {ev : Int} (hi : IntPart i) (hf : FracD f fd) (he : ExpD e ev) :
    unsignedValue (i ++ f ++ e) = some (i, fd, ev) := by
  cases hi with
  | zero =>
    simp only [List.cons_append, List.nil_append, unsignedValue, if_true, fracExpValue_complete hf he,
      Option.map_some]
  | nonzero hd hds =>
    rename_i d ds
    have hs := spanDigits_append ds (f ++ e) hds (frac_noDigit hf he)
    simp only [List.cons_append, List.append_assoc, unsignedValue, digit19_ne_zero hd, if_false, hd, if_true, hs,
      fracExpValue_complete hf he, Option.map_some]

theorem intPart_head_ne_minus {i : List Char} (hi : IntPart i) : ∀ t, i ≠ '-' :: t := by
  intro t h
  cases hi with
  | zero => cases h
  | nonzero hd _ => cases h; exact (digit_ne_sign (digit19_digit hd)).1 rfl

/-- soundness: what `numValue` computes is a denotation by the grammar -/
theorem numValue_sound {cs : List Char} {d : Dec} (h : numValue cs = some d) : NumD cs d := by
  unfold numValue at h
  split at h
  · rename_i t
    cases hx : unsignedValue t with
    | none => rw [hx] at h; cases h
    | some x =>
      obtain ⟨i, fd, ev⟩ := x
      rw [hx] at h
      simp only [Option.map_some, Option.some.injEq] at h
      subst h
      obtain ⟨f, e, hc, hi, hf, he⟩ := unsignedValue_sound hx
      subst hc
      exact .neg hi hf he
  · cases hx : unsignedValue cs with
    | none => rw [hx] at h; cases h
    | some x =>
      obtain ⟨i, fd, ev⟩ := x
      rw [hx] at h
      simp only [Option.map_some, Option.some.injEq] at h
      subst h
      obtain ⟨f, e, hc, hi, hf, he⟩ := unsignedValue_sound hx
      subst hc
      exact .pos hi hf he

/-- completeness: every denotation by the grammar is the one `numValue` computes -/
theorem numValue_complete {cs : List Char} {d : Dec} (h : NumD cs d) : numValue cs = some d := by
  cases h with
  | pos hi hf he =>
    rename_i i f e fd ev
    unfold numValue
    split
    · rename_i t heq
      exfalso
      cases hi with
      | zero => cases heq
      | nonzero hd _ => cases heq; exact (digit_ne_sign (digit19_digit hd)).1 rfl
    · rw [unsignedValue_complete hi hf he]; rfl
  | neg hi hf he =>
    simp only [numValue, unsignedValue_complete hi hf he, Option.map_some]

/-- a `number` has exactly one denotation -/
theorem NumD.unique {cs : List Char} {d d' : Dec} (h : NumD cs d) (h' : NumD cs d') : d = d' := by
  have := numValue_complete h
  rw [numValue_complete h'] at this
  exact (Option.some.inj this).symm

/-! ### denotation ⇒ grammar -/

theorem FracD.frac {f fd : List Char} (h : FracD f fd) : Opt Frac f := by
  cases h with
  | none => exact Or.inl rfl
  | some hd => exact Or.inr (.mk hd)

theorem ExpD.exp {e : List Char} {ev : Int} (h : ExpD e ev) : Opt Exp e := by
  cases h with
  | none => exact Or.inl rfl
  | plain he hd => exact Or.inr (Exp.mk (sign := []) he (Or.inl rfl) hd)
  | plus he hd => exact Or.inr (Exp.mk (sign := ['+']) he (Or.inr (Or.inr rfl)) hd)
  | minus he hd => exact Or.inr (Exp.mk (sign := ['-']) he (Or.inr (Or.inl rfl)) hd)

/-- a text with a number denotation is a `number` of the grammar -/
theorem NumD.num {cs : List Char} {d : Dec} (h : NumD cs d) : Num cs := by
  cases h with
  | pos hi hf he => exact Num.mk (m := []) (Or.inl rfl) hi hf.frac he.exp
  | neg hi hf he => exact Num.mk (m := ['-']) (Or.inr rfl) hi hf.frac he.exp

/-- `isJsonNumber` is sound for the grammar of §6 -/
theorem isJsonNumber_sound {cs : List Char} (h : isJsonNumber cs = true) : Num cs := by
  unfold isJsonNumber at h
  cases hx : numValue cs with
  | none => rw [hx] at h; cases h
  | some d => exact (numValue_sound hx).num

theorem isJsonNumber_denotes {cs : List Char} (h : isJsonNumber cs = true) : ∃ d, numValue cs = some d ∧ NumD cs d := by
  unfold isJsonNumber at h
  cases hx : numValue cs with
  | none => rw [hx] at h; cases h
  | some d => exact ⟨d, rfl, numValue_sound hx⟩

/-! ### the characters of a number -/

/-- the characters a `number` is made of -/
def NumChar (c : Char) : Prop := Digit c ∨ c = '-' ∨ c = '+' ∨ c = '.' ∨ c = 'e' ∨ c = 'E'

theorem NumD.chars {cs : List Char} {d : Dec} (h : NumD cs d) : ∀ c ∈ cs, NumChar c := by
  have hI : ∀ {i}, IntPart i → ∀ c ∈ i, NumChar c := by
    intro i hi c hc
    cases hi with
    | zero => simp only [List.mem_singleton] at hc; subst hc; exact Or.inl (by decide)
    | nonzero hd hds =>
      cases hc with
      | head => exact Or.inl (digit19_digit hd)
      | tail _ hc => exact Or.inl (hds c hc)
  have hF : ∀ {f fd}, FracD f fd → ∀ c ∈ f, NumChar c := by
    intro f fd hf c hc
    cases hf with
    | none => cases hc
    | some hd =>
      cases hc with
      | head => exact Or.inr (Or.inr (Or.inr (Or.inl rfl)))
      | tail _ hc => exact Or.inl (hd.2 c hc)
  have hE : ∀ {e ev}, ExpD e ev → ∀ c ∈ e, NumChar c := by
    intro e ev he c hc
    have hee : ∀ {x : Char}, (x = 'e' ∨ x = 'E') → NumChar x := by
      intro x hx
      cases hx with
      | inl hx => exact Or.inr (Or.inr (Or.inr (Or.inr (Or.inl hx))))
      | inr hx => exact Or.inr (Or.inr (Or.inr (Or.inr (Or.inr hx))))
    cases he with
    | none => cases hc
    | plain he hd =>
      cases hc with
      | head => exact hee he
      | tail _ hc => exact Or.inl (hd.2 c hc)
    | plus he hd =>
      cases hc with
      | head => exact hee he
      | tail _ hc =>
        cases hc with
        | head => exact Or.inr (Or.inr (Or.inl rfl))
        | tail _ hc => exact Or.inl (hd.2 c hc)
    | minus he hd =>
      cases hc with
      | head => exact hee he
      | tail _ hc =>
        cases hc with
        | head => exact Or.inr (Or.inl rfl)
        | tail _ hc => exact Or.inl (hd.2 c hc)
  intro c hc
  cases h with
  | pos hi hf he =>
    simp only [List.mem_append] at hc
    rcases hc with (hc | hc) | hc
    · exact hI hi c hc
    · exact hF hf c hc
    · exact hE he c hc
  | neg hi hf he =>
    cases hc with
    | head => exact Or.inr (Or.inl rfl)
    | tail _ hc =>
      rcases List.mem_append.mp hc with hc | hc
      rotate_left
      · exact hE he c hc
      rcases List.mem_append.mp hc with hc | hc
      · exact hI hi c hc
      · exact hF hf c hc

theorem NumD.ne_nil {cs : List Char} {d : Dec} (h : NumD cs d) : cs ≠ [] := by
  cases h with
  | pos hi _ _ =>
    cases hi with
    | zero => simp
    | nonzero _ _ => simp
  | neg _ _ _ => simp

end Sqlgrep.JsonGrammar
