
/-
`f64::from_str` (Rust `core::num::dec2flt`) computed in Lean: the grammar (`parseF64`) and the correctly
rounded (round-half-to-even) conversion of a decimal number `±mant · 10^exp10` to the IEEE-754 binary64 bit
pattern (`decToF64`), by exact arithmetic on unbounded naturals.  No floating point is used anywhere.

The conversion of a positive rational `N / D`:
* everything is measured in *units of 2^-1074* (the spacing of the subnormals; every finite REAL is a whole
  number of units, `F64.umag` in Lemmas/FloatOrder.lean): `A = N · 2^1074`, so the number is `A / D` units;
* the rounding grid is `2^k` units with `k = max 0 (⌊log2 (A/D)⌋ − 52)`: the quotient `q = ⌊A / (D·2^k)⌋`
  then has 53 significant bits (`2^52 ≤ q < 2^53`) or `k = 0` (subnormal range, `q < 2^52` possible);
  `k` is found from the bit lengths of `A` and `D` (off by at most one, corrected by one comparison);
* `q` is rounded on the remainder `r` (`2r < den` down, `2r > den` up, tie to even);
* the pattern is `k · 2^52 + q'`: for `2^52 ≤ q' < 2^53` that is exponent field `k+1`, fraction `q' − 2^52`;
  for `q' = 2^53` (rounding carried into the next binade) it is exponent field `k+2`, fraction 0; for `k = 0`,
  `q' < 2^52` it is the subnormal `q'`; anything at or above the pattern of `+inf` is `+inf` (overflow).
-/
namespace Sqlgrep
namespace DecFloat

def infBits : Nat := 0x7ff0000000000000
def signMask : Nat := 2 ^ 63
/-- the NaN `f64::from_str("nan")` returns (`f64::NAN`); `"-nan"` gives the same with the sign bit set -/
def nanBits : Nat := 0x7ff8000000000000

/-- `2^1074`: the number of units of 2^-1074 in 1 -/
def unitScale : Nat := 2 ^ 1074

/-- round-half-to-even of `q + r/den` (`r < den`) -/
def roundQ (q r den : Nat) : Nat :=
  if 2 * r < den then q else if den < 2 * r then q + 1 else q + q % 2

/-- the grid exponent (in units of 2^-1074) for `A / D` units: `⌊log2 (A/D)⌋ − 52`, not below 0 -/
def gridExp (A D : Nat) : Nat :=
  let k0 := A.log2 - D.log2 - 53
  if A / (D * 2 ^ k0) < 2 ^ 53 then k0 else k0 + 1

/-- the pattern before the overflow cut: `k · 2^52 + q'` with the grid exponent `k` and the rounded quotient `q'`
(a binary64 pattern with an unbounded exponent field) -/
def rawBits (N D : Nat) : Nat :=
  let A := N * unitScale
  let k := gridExp A D
  let den := D * 2 ^ k
  k * 2 ^ 52 + roundQ (A / den) (A % den) den

/-- magnitude bits (sign bit clear) of the binary64 nearest to `N / D` (`D > 0`), ties to even; `+inf` on overflow -/
def magBits (N D : Nat) : Nat := min (rawBits N D) infBits

/-- The correctly rounded binary64 pattern of `(-1)^neg · mant · 10^exp10`.

Hopeless exponents are decided without computing the power of ten (so an exponent with thousands of digits costs
nothing); with `L = ⌊log2 mant⌋`, i.e. `2^L ≤ mant < 2^(L+1)`, and `8^n ≤ 10^n`:
* `exp10 ≥ 0`, `L + 3·exp10 ≥ 1024`: the number is `≥ 2^L · 8^exp10 ≥ 2^1024`, beyond every finite REAL ⇒ `inf`
  (`Lemmas/DecFloat.lean` `clamp_inf_sound`: `magBits` would answer `inf` as well);
* `exp10 < 0`, `3·|exp10| ≥ L + 1076`: the number is `< 2^(L+1) / 8^|exp10| ≤ 2^-1075`, below half the smallest
  subnormal ⇒ `0` (`clamp_zero_sound`).
So the powers of ten that are computed have at most `(L + 1076) / 3` digits-worth of exponent. -/
def decToF64 (neg : Bool) (mant : Nat) (exp10 : Int) : Nat :=
  let sign := if neg then signMask else 0
  if mant = 0 then sign
  else if 0 ≤ exp10 then
    if 1024 ≤ mant.log2 + 3 * exp10.toNat then sign + infBits
    else sign + magBits (mant * 10 ^ exp10.toNat) 1
  else
    if mant.log2 + 1076 ≤ 3 * (-exp10).toNat then sign
    else sign + magBits mant (10 ^ (-exp10).toNat)

/-! ### the grammar of `f64::from_str`

```
Number ::= [sign] ( 'inf' | 'infinity' | 'nan' | Digit* '.' Digit* [Exp] | Digit+ [Exp] )    (letters: any case)
Exp    ::= ('e' | 'E') [sign] Digit+                with at least one digit before or after the '.'
```
Nothing else: no whitespace, no `_`, no hexadecimal.  The exponent is read with Rust's cap (`capDigitsVal`).  Texts are lists of code points (or of UTF-8 bytes: every
accepted character is ASCII, so both views agree). -/

def isDigit (c : Nat) : Bool := decide (48 ≤ c) && decide (c ≤ 57)

/-- the leading digits and the rest -/
def spanDigits : List Nat → List Nat × List Nat
  | [] => ([], [])
  | c :: cs => if isDigit c then ((c :: (spanDigits cs).1), (spanDigits cs).2) else ([], c :: cs)

/-- value of a digit string, most significant first -/
def digitsVal (ds : List Nat) : Nat := ds.foldl (fun acc c => acc * 10 + (c - 48)) 0

/-- ASCII lower-casing of a code point -/
def lowerC (c : Nat) : Nat := if decide (65 ≤ c) && decide (c ≤ 90) then c + 32 else c

def wInf : List Nat := [105, 110, 102]
def wInfinity : List Nat := [105, 110, 102, 105, 110, 105, 116, 121]
def wNan : List Nat := [110, 97, 110]

/-- where `dec2flt` stops accumulating exponent digits (`0x10000`) -/
def expCap : Nat := 65536

/-- the exponent digits as `dec2flt::parse::parse_scientific` (and `decimal_seq::parse_decimal_seq`, the slow path)
accumulate them: `if exponent < 0x10000 { exponent = 10 * exponent + digit }` for every digit, most significant first —
the digits after the point at which the accumulated magnitude has reached 65 536 are read and IGNORED. For exponent
digits whose value is below 65 536 this is their value (`Lemmas/FloatGrammar.lean` `capDigitsVal_eq`); a longer exponent
stops at the first prefix at or above 65 536 (a value in 65 536 … 655 359): `655360` is read as 65 536. Observation N3
of DESIGN.md: visible only when the mantissa has ≈ 65 000 digits or more (every shorter text is 0 or inf either way). -/
def capDigitsVal (ds : List Nat) : Nat := ds.foldl (fun acc c => if acc < expCap then acc * 10 + (c - 48) else acc) 0

/-- the optional exponent part: `none` = malformed; an absent exponent is 0. The magnitude is accumulated with Rust's
cap (`capDigitsVal`), the sign is applied afterwards (`if negative { -exponent }`). -/
def parseExp (s : List Nat) : Option Int :=
  match s with
  | [] => some 0
  | c :: rest =>
    if c = 101 ∨ c = 69 then
      let (neg, ds) : Bool × List Nat :=
        match rest with
        | 45 :: ds => (true, ds)
        | 43 :: ds => (false, ds)
        | ds => (false, ds)
      let (ed, tail) := spanDigits ds
      if ed.isEmpty || !tail.isEmpty then none
      else some (if neg then -(capDigitsVal ed : Int) else (capDigitsVal ed : Int))
    else none

/-- the unsigned part of a number text -/
def parseBody (neg : Bool) (s : List Nat) : Option Nat :=
  let l := s.map lowerC
  if l = wNan then some ((if neg then signMask else 0) + nanBits)
  else if l = wInf ∨ l = wInfinity then some ((if neg then signMask else 0) + infBits)
  else
    let (ip, r1) := spanDigits s
    let (fp, r2) : List Nat × List Nat :=
      match r1 with
      | 46 :: r => spanDigits r
      | r => ([], r)
    if ip.isEmpty && fp.isEmpty then none
    else
      match parseExp r2 with
      | none => none
      | some e => some (decToF64 neg (digitsVal (ip ++ fp)) (e - (fp.length : Int)))

/-- `f64::from_str` over code points / bytes: `none` = `Err`, `some bits` = `Ok(value)` -/
def parseF64N (s : List Nat) : Option Nat :=
  match s with
  | 45 :: rest => parseBody true rest
  | 43 :: rest => parseBody false rest
  | _ => parseBody false s

/-- `f64::from_str` -/
def parseF64 (s : List Char) : Option Nat := parseF64N (s.map Char.toNat)

end DecFloat
end Sqlgrep
