import SqlgrepModel.CodecExpr
/- `eval ORACLES ENV EXPR` → outcome of the model evaluator. -/
namespace Sqlgrep.Drivers.Eval
open Sqlgrep

def handle (args : List Sexp) : String :=
  match args with
  | [o, env, e] =>
    match Oracles.ofSexp o, Env.ofSexp env, Expr.ofSexp e with
    | some o, some env, some e => Outcome.toWire (eval o env e)
    | none, _, _ => "bad-oracles"
    | _, none, _ => "bad-env"
    | _, _, none => "bad-expr"
  | _ => "bad-case"

end Sqlgrep.Drivers.Eval
