import SqlgrepModel.Lemmas.Variance
import SqlgrepModel.Props.C04
/-
C04 — STDDEV / VARIANCE against an INDEPENDENT definition, and the choices of the code the sentence does not fix.

The property sentence says "STDDEV / VARIANCE … over the argument's non-NULL values"; the README says `stddev(x)`,
`variance(x)`. `Spec/Variance.lean` is the textbook population variance `σ² = (1/n)·Σ(x − μ)²` over exact rationals, written
from nothing in the code. `Spec/Agg.lean` (`intVariance`, `realVariance`; the model's `stddevCalcInt` / `stddevCalc` equal them by
definition, and the engine is proved to show them: `Props.C04.aggregate_fold_refines`) is what the CODE computes, since the
repair of finding **D72** (below). This file relates the two:

  (i)   over ℚ: `onepass_formula_is_the_variance_over_rationals`, `variance_nonneg`, `variance_of_equal_values_is_zero`,
        `variance_of_ints_cross_multiplied` (`σ² = (n·Σx² − (Σx)²) / n²`).
  (ii)  INT arguments — the HEADLINE `int_variance_is_rounded_exact_quotient`: with `N = n·Σx² − (Σx)²` and `D = n²` formed
        EXACTLY (integers; `N / D` IS the textbook variance), the VARIANCE cell is `fl( fl(N) / fl(D) )`: two correctly rounded
        conversions (nearest, ties to even) and one correctly rounded division — no subtraction of rounded terms. Corollaries:
        `int_variance_never_negative` (never NaN, never negative), `int_variance_of_equal_values_is_zero` (`0.0`, and STDDEV
        `0.0`), `int_variance_correctly_rounded_when_small` (when `N`, `D < 2^53` the conversions are exact, so the cell is a
        REAL NEAREST TO THE VARIANCE ITSELF — one rounding), `int_variance_exact_when_representable` (… and when the variance is
        a REAL, the cell is that REAL), `engine_int_variance` (the engine's running fold shows that cell).
  (iii) REAL arguments — the one-pass formula `(Σx² − (Σx)²/n)/n` step by step in REAL arithmetic, then negative results are
        replaced by `0.0`: `real_variance_never_below_zero`, `real_variance_is_formula_unless_negative` (the clamp theorem),
        `variance_exact_where_no_step_rounds_real` (under the decidable `onePassExactReals` the cell is EXACTLY the textbook
        variance of the exact values), `every_step_is_correctly_rounded` (all that holds in general: each operation is nearest
        on its own rounded operands; the subtraction cancels, so no bound on the distance from the exact variance is claimed —
        `real_formula_can_go_negative` is the kernel-evaluated witness of why the clamp is there). HONESTLY: for REAL
        arguments the cell is the CODE'S FORMULA in REAL arithmetic and nothing more is proved; it can be far from the
        variance — OPEN finding **D76**, witness `d76_real_variance_far_from_exact` (100000001.0, 100000002.0, 100000003.0
        show VARIANCE 0.0, exact 2/3).
  (iv)  the CHOICES of the code that the sentence does not fix and the specification mirrors, as kernel-evaluated facts:
        population not sample (`choice_population_not_sample`), PERCENTILE = nearest rank at index `min(⌊p·n⌋, n−1)`
        (`choice_percentile_nearest_rank`), AVG over INT truncates towards zero (`choice_avg_int_truncates`; AVG over
        INTERVAL likewise divides the exact total of nanoseconds: `Props/C04Avg.lean`, finding D74 repaired).

Finding **D72** (repaired in /repo; `notes/pending/D72-variance.patch` until committed). Before the repair both branches evaluated
the one-pass formula in REAL arithmetic, INT sums converted first: over three REAL rows `0.1` the program printed
`variance0: -0.00, stddev1: NaN`, over seven INT rows `1000000007` `variance0: -146.29, stddev1: NaN`, over three INT rows
`300000007` `variance0: 10.67, stddev1: 3.27` — the values of each group are equal, the variance is 0. The REGRESSION witnesses
`d72_repaired_real`, `d72_repaired_int`, `d72_repaired_equal_ints` evaluate the same three inputs in the kernel: `0.0` and `0.0`.
-/
namespace Sqlgrep.Props.C04Variance
open Sqlgrep Sqlgrep.Value Sqlgrep.Spec.Agg Sqlgrep.Spec.Variance Sqlgrep.Variance

/-- the exact values of a list of INTs -/
def ratsOfInts (is : List Int) : List Rat := is.map (fun (i : Int) => (i : Rat))

/-! ### (i) the formula and the definition, over exact rationals -/

/-- **over exact rationals the one-pass formula IS the population variance**: `(1/n)·Σ(x − μ)² = (Σx² − (Σx)²/n) / n` for
every non-empty list of rationals -/
theorem onepass_formula_is_the_variance_over_rationals (xs : List Rat) (h : xs ≠ []) :
    popVariance xs = ((xs.map (fun x => x ^ 2)).sum - xs.sum ^ 2 / xs.length) / xs.length :=
  popVariance_eq_onepass xs h

/-- a variance is never negative -/
theorem variance_nonneg (xs : List Rat) : 0 ≤ popVariance xs := popVariance_nonneg xs

/-- the variance of `n` equal values is 0 (and so is their standard deviation) -/
theorem variance_of_equal_values_is_zero (n : Nat) (c : Rat) :
    popVariance (List.replicate n c) = 0 ∧ IsStdDev (List.replicate n c) 0 := by
  refine ⟨popVariance_const n c, ?_, ?_⟩
  · exact Rat.le_refl
  · rw [popVariance_const]; grind

/-- for INT inputs in integers only: `n²·σ² = n·Σx² − (Σx)²` -/
theorem variance_of_ints_cross_multiplied (is : List Int) (h : is ≠ []) :
    popVariance (ratsOfInts is) = (varNumer is : Rat) / ((is.length : Rat) * is.length) := popVariance_ints is h

/-! ### (ii) INT arguments: the cell is the rounded quotient of the EXACT numerator and denominator of the variance -/

/-- the 64-bit range conditions under which the specification (and the code) answer at all for INT arguments: every
square, every partial sum and every partial sum of squares is an i64 -/
def sumsInRange (is : List Int) : Bool :=
  (is.map (fun x => x * x)).all inI64 && partialSumsOk inI64 0 is && partialSumsOk inI64 0 (is.map (fun x => x * x))

theorem ints_map_int' (l : List Int) : ints (l.map Value.int) = some l := by
  induction l with
  | nil => rfl
  | cons x xs ih => simp only [ints, List.map_cons, asInt, collect_cons_some] at ih ⊢; rw [ih]; rfl

theorem stddevOf_ints (isVar : Bool) (i : Int) (is : List Int) (hrange : sumsInRange (i :: is) = true) :
    stddevOf isVar ((i :: is).map Value.int) =
      some (.real (spreadInt (i :: is).length isVar (intSum (i :: is)) (intSum ((i :: is).map (fun x => x * x))))) := by
  have hi := ints_map_int' (i :: is)
  unfold sumsInRange at hrange
  simp only [List.map_cons] at hi
  unfold stddevOf
  simp only [List.map_cons, hi] at hrange ⊢
  rw [if_pos hrange]

/-- the specification's (= the model's) answer for INT arguments within range, unfolded -/
theorem stddev_of_ints (e : Expr) (isVar : Bool) (vs : List Value) (is : List Int) (hne : is ≠ [])
    (h : nonNull vs = is.map Value.int) (hrange : sumsInRange is = true) :
    aggregate (.stddev e isVar) vs =
      some (.real (spreadInt is.length isVar (intSum is) (intSum (is.map (fun x => x * x))))) := by
  cases is with
  | nil => exact absurd rfl hne
  | cons i is =>
    simp only [aggregate, h]
    exact stddevOf_ints isVar i is hrange

theorem spreadInt_variance (n S Q : Int) : spreadInt n true S Q = intVariance n S Q := by
  simp only [spreadInt, finishSpread, if_true]
theorem spreadInt_stddev (n S Q : Int) : spreadInt n false S Q = F64.sqrt (intVariance n S Q) := by
  simp only [spreadInt, finishSpread, Bool.false_eq_true, if_false]

theorem sq_all_of_range {is : List Int} (h : sumsInRange is = true) : (is.map (fun x => x * x)).all inI64 = true := by
  unfold sumsInRange at h; simp only [Bool.and_eq_true] at h; exact h.1.1

/-- a cell is the REAL with bit pattern `b` (decidable form, for kernel evaluation) -/
theorem real_of_bits {o : Option Value} {b : Nat} (h : o.bind asReal = some b) : o = some (.real b) := by
  cases o with
  | none => simp at h
  | some v => cases v <;> simp [asReal] at h ⊢; exact h
/-- a cell is the INT `i` (decidable form) -/
theorem int_of_bits {o : Option Value} {i : Int} (h : o.bind asInt = some i) : o = some (.int i) := by
  cases o with
  | none => simp at h
  | some v => cases v <;> simp [asInt] at h ⊢; exact h

/-- **HEADLINE (INT arguments).** For a group of fewer than `2^63` INT values within the 64-bit range (what the code can count
and sum at all), let `N = n·Σx² − (Σx)²` and `D = n²`, formed exactly. Then
* `N ≥ 0`, `D > 0` and `N / D` is EXACTLY the textbook population variance of the values (over ℚ);
* the VARIANCE cell is `fl(N) / fl(D)` in REAL arithmetic, where `fl(N)`, `fl(D)` (`i128 as f64`) are finite, non-negative
  REALs NEAREST to `N` resp. `D` (ties to even: `Lemmas/Variance.lean` `ofInt_nat_tie_even`), and the division is correctly
  rounded: if the cell is finite no REAL `y` is nearer to the exact quotient `fl(N) / fl(D)` (cross-multiplied);
* the cell is never NaN and never negative.
Two correctly rounded conversions and one correctly rounded division of the exact rational's numerator and denominator. -/
theorem int_variance_is_rounded_exact_quotient (e : Expr) (vs : List Value) (is : List Int) (hne : is ≠ [])
    (h : nonNull vs = is.map Value.int) (hrange : sumsInRange is = true) (hcount : is.length < 2 ^ 63) :
    ∃ N D : Nat, (N : Int) = varNumer is ∧ D = is.length * is.length ∧ 0 < D ∧
      popVariance (ratsOfInts is) = (N : Rat) / (D : Rat) ∧
      aggregate (.stddev e true) vs = some (.real (F64.div (F64.ofInt N) (F64.ofInt D))) ∧
      (F64.isFinite (F64.ofInt N) = true ∧ F64.signBit (F64.ofInt N) = false ∧
        ∀ y, DecFloat.adist (N * F64.unitScale) (F64.umag (F64.ofInt N)) ≤ DecFloat.adist (N * F64.unitScale) (F64.umag y)) ∧
      (F64.isFinite (F64.ofInt D) = true ∧ F64.signBit (F64.ofInt D) = false ∧
        ∀ y, DecFloat.adist (D * F64.unitScale) (F64.umag (F64.ofInt D)) ≤ DecFloat.adist (D * F64.unitScale) (F64.umag y)) ∧
      (F64.isFinite (F64.div (F64.ofInt N) (F64.ofInt D)) = true → ∀ y,
        DecFloat.adist (F64.umag (F64.ofInt N) * F64.unitScale) (F64.umag (F64.div (F64.ofInt N) (F64.ofInt D)) * F64.umag (F64.ofInt D)) ≤
          DecFloat.adist (F64.umag (F64.ofInt N) * F64.unitScale) (F64.umag y * F64.umag (F64.ofInt D))) ∧
      F64.isNaN (F64.div (F64.ofInt N) (F64.ofInt D)) = false ∧ F64.signBit (F64.div (F64.ofInt N) (F64.ofInt D)) = false := by
  obtain ⟨N, D, hN, hD, hDpos, hNb, hDb, hnum, hden, hpop⟩ := intVariance_parts is hne hcount (sq_all_of_range hrange)
  have hcell : intVariance is.length (intSum is) (intSum (is.map (fun x => x * x))) = F64.div (F64.ofInt N) (F64.ofInt D) := by
    unfold intVariance; rw [hnum, hden]
  have hv := stddev_of_ints e true vs is hne h hrange
  rw [spreadInt_variance, hcell] at hv
  have hsign := intVariance_sign hnum hden hNb hDpos hDb
  rw [hcell] at hsign
  refine ⟨N, D, hN, hD, hDpos, hpop, hv, ?_, ?_, ?_, hsign.1, hsign.2⟩
  · exact ⟨(ofInt_nat_nearest hNb 0).1, (ofInt_nat_nearest hNb 0).2.1, fun y => (ofInt_nat_nearest hNb y).2.2.2⟩
  · exact ⟨(ofInt_nat_nearest hDb 0).1, (ofInt_nat_nearest hDb 0).2.1, fun y => (ofInt_nat_nearest hDb y).2.2.2⟩
  · intro hf y
    have := intVariance_nearest hnum hden hNb hDpos hDb (by rw [hcell]; exact hf) y
    rw [hcell] at this; exact this

/-- **never NaN, never negative** (INT arguments): the sign bit of the VARIANCE cell is clear and it is not NaN -/
theorem int_variance_never_negative (e : Expr) (vs : List Value) (is : List Int) (hne : is ≠ [])
    (h : nonNull vs = is.map Value.int) (hrange : sumsInRange is = true) (hcount : is.length < 2 ^ 63) :
    ∃ v, aggregate (.stddev e true) vs = some (.real v) ∧ F64.isNaN v = false ∧ F64.signBit v = false := by
  obtain ⟨N, D, _, _, _, _, hv, _, _, _, hn, hs⟩ := int_variance_is_rounded_exact_quotient e vs is hne h hrange hcount
  exact ⟨_, hv, hn, hs⟩

/-- **`0.0` for equal values** (INT arguments): VARIANCE and STDDEV over `n` copies of one integer are the REAL `0.0` -/
theorem int_variance_of_equal_values_is_zero (e : Expr) (vs : List Value) (n : Nat) (c : Int) (hn : 0 < n)
    (h : nonNull vs = (List.replicate n c).map Value.int) (hrange : sumsInRange (List.replicate n c) = true)
    (hcount : n < 2 ^ 63) :
    aggregate (.stddev e true) vs = some (.real F64.zero) ∧ aggregate (.stddev e false) vs = some (.real F64.zero) := by
  have hne : List.replicate n c ≠ [] := by
    intro h0; have := congrArg List.length h0; simp at this; omega
  obtain ⟨N, D, hN, _, hDpos, _, hDb, hnum, hden, _⟩ :=
    intVariance_parts (List.replicate n c) hne (by simpa using hcount) (sq_all_of_range hrange)
  have hN0 : (N : Int) = 0 := by rw [hN, varNumer_replicate]
  have hz : intVariance (List.replicate n c).length (intSum (List.replicate n c))
      (intSum ((List.replicate n c).map (fun x => x * x))) = F64.zero :=
    intVariance_zero (by rw [hnum, hN0]) hden hDpos hDb
  have h1 := stddev_of_ints e true vs _ hne h hrange
  have h2 := stddev_of_ints e false vs _ hne h hrange
  rw [spreadInt_variance, hz] at h1
  rw [spreadInt_stddev, hz] at h2
  exact ⟨h1, h2⟩

/-- **one rounding only when `N`, `D < 2^53`**: both conversions are exact, so the (finite) VARIANCE cell is a REAL NEAREST TO THE
TEXTBOOK VARIANCE `N / D` ITSELF (cross-multiplied by `D`, in units of 2^-1074) -/
theorem int_variance_correctly_rounded_when_small (e : Expr) (vs : List Value) (is : List Int) (hne : is ≠ [])
    (h : nonNull vs = is.map Value.int) (hrange : sumsInRange is = true) (hcount : is.length < 2 ^ 63)
    (hsmallN : varNumer is < 2 ^ 53) (hsmallD : is.length * is.length < 2 ^ 53) :
    ∃ (N D : Nat) (v : Nat), (N : Int) = varNumer is ∧ D = is.length * is.length ∧
      popVariance (ratsOfInts is) = (N : Rat) / (D : Rat) ∧ aggregate (.stddev e true) vs = some (.real v) ∧
      (F64.isFinite v = true → ∀ y, DecFloat.adist (N * F64.unitScale) (F64.umag v * D) ≤ DecFloat.adist (N * F64.unitScale) (F64.umag y * D)) := by
  obtain ⟨N, D, hN, hD, hDpos, _, _, hnum, hden, hpop⟩ := intVariance_parts is hne hcount (sq_all_of_range hrange)
  have hv := stddev_of_ints e true vs is hne h hrange
  rw [spreadInt_variance] at hv
  have hNb : N < 2 ^ 53 := by omega
  refine ⟨N, D, _, hN, hD, hpop, hv, fun hf y => ?_⟩
  exact intVariance_nearest_small hnum hden hNb hDpos (by omega) hf y

/-- **exact when the variance is a REAL** (and `N`, `D < 2^53`): if the textbook variance is the exact value of a finite
non-negative REAL `y`, the VARIANCE cell is `y` — a much weaker hypothesis than "no step of the one-pass formula rounds" -/
theorem int_variance_exact_when_representable (e : Expr) (vs : List Value) (is : List Int) (hne : is ≠ [])
    (h : nonNull vs = is.map Value.int) (hrange : sumsInRange is = true) (hcount : is.length < 2 ^ 63)
    (hsmallN : varNumer is < 2 ^ 53) (hsmallD : is.length * is.length < 2 ^ 53)
    (y : Nat) (hy : F64.IsExactly y (popVariance (ratsOfInts is))) (hs : F64.signBit y = false) (hylt : y < 2 ^ 64) :
    aggregate (.stddev e true) vs = some (.real y) := by
  obtain ⟨N, D, hN, hD, hDpos, _, _, hnum, hden, hpop⟩ := intVariance_parts is hne hcount (sq_all_of_range hrange)
  have hv := stddev_of_ints e true vs is hne h hrange
  rw [spreadInt_variance] at hv
  have hpop' : popVariance (ratsOfInts is) = (N : Rat) / (D : Rat) := hpop
  rw [intVariance_exact_rat hnum hden (by omega) hDpos (by omega) y hy.1 hs hylt (by rw [hy.2, hpop'])] at hv
  exact hv

/-- … and the engine's running computation (`update_aggregate` folded over the group's values) shows the very cell of the
headline -/
theorem engine_int_variance (e : Expr) (vs : List Value) (is : List Int) (hne : is ≠ []) (hvs : vs ≠ [])
    (h : nonNull vs = is.map Value.int) (hrange : sumsInRange is = true) (hcount : is.length < 2 ^ 63) :
    ∃ (N D : Nat) (c : Cell), (N : Int) = varNumer is ∧ D = is.length * is.length ∧
      popVariance (ratsOfInts is) = (N : Rat) / (D : Rat) ∧
      foldV (.stddev e true) vs {} = .ok c ∧ shownValue (.stddev e true) c = .real (F64.div (F64.ofInt N) (F64.ofInt D)) := by
  obtain ⟨N, D, hN, hD, _, hpop, hv, _⟩ := int_variance_is_rounded_exact_quotient e vs is hne h hrange hcount
  obtain ⟨c, hc, hs, _⟩ := Props.C04.aggregate_fold_refines (.stddev e true) vs _ hvs hv rfl
  exact ⟨N, D, c, hN, hD, hpop, hc, hs⟩

/-! examples: the hypotheses hold on non-trivial values, and the conclusions are evaluated -/

/-- 2, 4, 4, 4, 5, 5, 7, 9 (mean 5): `N = 256`, `D = 64`; VARIANCE is the REAL 4.0 = the textbook variance, STDDEV the REAL 2.0 -/
example : sumsInRange [2, 4, 4, 4, 5, 5, 7, 9] = true ∧ varNumer [2, 4, 4, 4, 5, 5, 7, 9] = 256 ∧
    popVariance (ratsOfInts [2, 4, 4, 4, 5, 5, 7, 9]) = 4 ∧ F64.toRat 0x4010000000000000 = 4 := by decide +kernel
example : aggregate (.stddev (.column "v") true) [.int 2, .int 4, .null, .int 4, .int 4, .int 5, .int 5, .int 7, .int 9] =
      some (.real 0x4010000000000000) ∧
    aggregate (.stddev (.column "v") false) [.int 2, .int 4, .null, .int 4, .int 4, .int 5, .int 5, .int 7, .int 9] =
      some (.real 0x4000000000000000) :=
  ⟨int_variance_exact_when_representable _ _ [2, 4, 4, 4, 5, 5, 7, 9] (by decide) rfl (by decide +kernel) (by decide)
      (by decide) (by decide) 0x4010000000000000 (by decide +kernel) (by decide) (by decide),
   real_of_bits (by decide +kernel)⟩
/-- 1, 2, 3: the variance 2/3 is no REAL; `N = 6`, `D = 9` are small, so the cell `0x3fe5555555555555` is a REAL nearest to 2/3
(`int_variance_correctly_rounded_when_small` applies) -/
example : varNumer [1, 2, 3] = 6 ∧ popVariance (ratsOfInts [1, 2, 3]) = 2 / 3 ∧
    aggregate (.stddev (.column "v") true) [.int 1, .int 2, .int 3] = some (.real 0x3fe5555555555555) :=
  ⟨by decide +kernel, by decide +kernel, real_of_bits (by decide +kernel)⟩
/-- large values with a small spread — 1000000007, 1000000008, 1000000010: `Σx² ≈ 3·10^18` is far beyond 53 bits, yet
`N = 14`, `D = 9`, and the cell is `0x3ff8e38e38e38e39` = the REAL nearest to 14/9 = 1.5555… (the one-pass formula in REAL
arithmetic showed rounding noise here) -/
example : sumsInRange [1000000007, 1000000008, 1000000010] = true ∧ varNumer [1000000007, 1000000008, 1000000010] = 14 ∧
    popVariance (ratsOfInts [1000000007, 1000000008, 1000000010]) = 14 / 9 ∧
    (aggregate (.stddev (.column "v") true) [.int 1000000007, .int 1000000008, .int 1000000010]).bind asReal = some 0x3ff8e38e38e38e39 := by
  decide +kernel

/-! ### (iii) REAL arguments: the one-pass formula, clamped at zero -/

theorem spread_variance (n : Int) (s q : Nat) : spread n true s q = realVariance n s q := by
  simp only [spread, finishSpread, if_true]

/-- **the clamp theorem, part 1**: the REAL shown for VARIANCE of REAL arguments is never below zero — it is NaN (only if the
formula's result is NaN: infinite or NaN inputs), a zero, or positive -/
theorem real_variance_never_below_zero (n : Int) (s q : Nat) : F64.cmp (realVariance n s q) F64.zero ≠ .lt :=
  clampNegative_not_lt _

/-- **the clamp theorem, part 2**: it IS the one-pass formula's value whenever that is not below zero, and `0.0` otherwise -/
theorem real_variance_is_formula_unless_negative (n : Int) (s q : Nat) :
    (F64.cmp (populationVariance n s q) F64.zero ≠ .lt → realVariance n s q = populationVariance n s q) ∧
    (F64.cmp (populationVariance n s q) F64.zero = .lt → realVariance n s q = F64.zero) :=
  ⟨fun h => clampNegative_of_not_lt h, fun h => clampNegative_of_lt h⟩

theorem reals_map_real' (l : List Nat) : reals (l.map Value.real) = some l := by
  induction l with
  | nil => rfl
  | cons x xs ih => simp only [reals, List.map_cons, asReal, collect_cons_some] at ih ⊢; rw [ih]; rfl

theorem ints_real_none (y : Nat) (ys : List Value) : ints (Value.real y :: ys) = none := by
  simp [ints, asInt, collect]

/-- **VARIANCE of REAL arguments where nothing rounds.** For finite REAL arguments on which neither the running sums `Σx`, `Σ(x·x)` nor the
formula round (`onePassExactReals`, decidable) and whose first value is not `-0.0`, the REAL shown is finite and its exact value
is the textbook population variance of the exact values of the arguments. -/
theorem variance_exact_where_no_step_rounds_real (e : Expr) (vs : List Value) (r : Nat) (rs : List Nat)
    (h : nonNull vs = (r :: rs).map Value.real)
    (hz : zeroNeutral (r :: rs) = true ∧ zeroNeutral ((r :: rs).map (fun x => F64.mul x x)) = true)
    (hex : onePassExactReals (r :: rs) = true) :
    ∃ v, aggregate (.stddev e true) vs = some (.real v) ∧ F64.IsExactly v (popVariance ((r :: rs).map F64.toRat)) := by
  have hr := reals_map_real' (r :: rs)
  have hv : aggregate (.stddev e true) vs = some (.real (spread (r :: rs).length true (realSum (r :: rs))
      (realSum ((r :: rs).map (fun x => F64.mul x x))))) := by
    simp only [List.map_cons] at hr
    simp only [aggregate, h, stddevOf, List.map_cons, ints_real_none, hr]
    simp only [List.map_cons] at hz
    simp only [hz.1, hz.2, Bool.and_self, if_true]
  refine ⟨_, hv, ?_⟩
  rw [spread_variance]
  exact realVariance_exact_value (r :: rs) (by simp) hex

/-- **every step of the formula is correctly rounded on its own operands** (finite operands and results, `n ≠ 0`): no REAL
`y` is nearer to the exact `s·s`, `p/n`, `q − d`, `e/n` than the REALs `p`, `d`, `e`, `v` the model computes. The composition
of four correctly rounded steps is NOT a correctly rounded variance (`real_formula_can_go_negative`). -/
theorem every_step_is_correctly_rounded (count : Int) (s q : Nat) (hs : F64.isFinite s = true) (hq : F64.isFinite q = true)
    (hn : F64.isFinite (steps count s q).n = true) (hz : F64.mag (steps count s q).n ≠ 0)
    (hp : F64.isFinite (steps count s q).p = true) (hd : F64.isFinite (steps count s q).d = true)
    (he : F64.isFinite (steps count s q).e = true) (hv : F64.isFinite (steps count s q).v = true) (y : Nat) :
    let t := steps count s q
    populationVariance count s q = t.v ∧
    DecFloat.adist (F64.umag s * F64.umag s) (F64.umag t.p * F64.unitScale) ≤ DecFloat.adist (F64.umag s * F64.umag s) (F64.umag y * F64.unitScale) ∧
    DecFloat.adist (F64.umag t.p * F64.unitScale) (F64.umag t.d * F64.umag t.n) ≤ DecFloat.adist (F64.umag t.p * F64.unitScale) (F64.umag y * F64.umag t.n) ∧
    DecFloat.adist (F64.units q + F64.units (F64.neg t.d)).natAbs (F64.umag t.e) ≤ DecFloat.adist (F64.units q + F64.units (F64.neg t.d)).natAbs (F64.umag y) ∧
    DecFloat.adist (F64.umag t.e * F64.unitScale) (F64.umag t.v * F64.umag t.n) ≤ DecFloat.adist (F64.umag t.e * F64.unitScale) (F64.umag y * F64.umag t.n) :=
  ⟨rfl, onePass_steps_nearest count s q hs hq hn hz hp hd he hv y⟩

/-- the REAL nearest to 0.1 -/
def tenth : Nat := 0x3fb999999999999a

/-- REAL arguments 0.5, 1.5, −2.25, 100.0 (bit patterns): sums, squares and the formula are exact; VARIANCE is exactly
`1880.01171875` = the textbook variance of these four numbers -/
example : onePassExactReals [0x3fe0000000000000, 0x3ff8000000000000, 0xc002000000000000, 0x4059000000000000] = true ∧
    popVariance ([0x3fe0000000000000, 0x3ff8000000000000, 0xc002000000000000, 0x4059000000000000].map F64.toRat) = 481283 / 256 := by
  decide +kernel

/-- **why the clamp is there**: over the three REALs 0.1, 0.1, 0.1 the one-pass formula evaluates to the NEGATIVE REAL
`0xbc35555555555555` (−1.1564823173178713e-18; exact variance 0): every step correctly rounded, the result below zero -/
theorem real_formula_can_go_negative :
    populationVariance 3 (realSum [tenth, tenth, tenth]) (realSum ([tenth, tenth, tenth].map (fun x => F64.mul x x))) = 0xbc35555555555555 ∧
    F64.cmp 0xbc35555555555555 F64.zero = .lt ∧ popVariance [F64.toRat tenth, F64.toRat tenth, F64.toRat tenth] = 0 :=
  ⟨by decide +kernel, by decide +kernel, popVariance_const 3 _⟩

/-! ### finding D72, repaired: regression witnesses (kernel-evaluated; `harness witness D72` runs the same inputs on the code) -/

/-- **D72 regression, REAL arguments.** VARIANCE and STDDEV over the three REALs 0.1, 0.1, 0.1 are `0.0` (they were
−1.1564823173178713e-18 and NaN) -/
theorem d72_repaired_real :
    aggregate (.stddev (.column "v") true) [.real tenth, .real tenth, .real tenth] = some (.real F64.zero) ∧
    aggregate (.stddev (.column "v") false) [.real tenth, .real tenth, .real tenth] = some (.real F64.zero) :=
  ⟨real_of_bits (by decide +kernel), real_of_bits (by decide +kernel)⟩

/-- **D72 regression, INT arguments.** VARIANCE and STDDEV over seven INTs 1000000007 are `0.0` (they were −146.2857… and NaN) -/
theorem d72_repaired_int :
    aggregate (.stddev (.column "v") true) (List.replicate 7 (.int 1000000007)) = some (.real F64.zero) ∧
    aggregate (.stddev (.column "v") false) (List.replicate 7 (.int 1000000007)) = some (.real F64.zero) :=
  int_variance_of_equal_values_is_zero _ _ 7 1000000007 (by decide) rfl (by decide +kernel) (by decide)

/-- **D72 regression, the other direction.** VARIANCE and STDDEV over three INTs 300000007 are `0.0` (they were 10.666… and 3.2659…) -/
theorem d72_repaired_equal_ints :
    aggregate (.stddev (.column "v") true) (List.replicate 3 (.int 300000007)) = some (.real F64.zero) ∧
    aggregate (.stddev (.column "v") false) (List.replicate 3 (.int 300000007)) = some (.real F64.zero) :=
  int_variance_of_equal_values_is_zero _ _ 3 300000007 (by decide) rfl (by decide +kernel) (by decide)

/-- the engine shows exactly these cells: the running `update_aggregate` over seven rows 1000000007 ends with `0.0` in the cell -/
theorem d72_repaired_engine :
    ∃ c, foldV (.stddev (.column "v") true) (List.replicate 7 (.int 1000000007)) {} = .ok c ∧
      shownValue (.stddev (.column "v") true) c = .real F64.zero := by
  obtain ⟨c, hc, hs, _⟩ := Props.C04.aggregate_fold_refines (.stddev (.column "v") true) (List.replicate 7 (.int 1000000007))
    (.real F64.zero) (by decide) d72_repaired_int.1 rfl
  exact ⟨c, hc, hs⟩

/-! ### finding D76, OPEN: for REAL arguments the cell can be far from the variance (kernel-evaluated witnesses)

For REAL arguments NO accuracy statement is proved: the cell is the code's one-pass formula evaluated in REAL arithmetic
(`Spec.Agg.realVariance`), equal to the variance only where no step rounds (`variance_exact_where_no_step_rounds_real`). The
clamp of D72 removes negative results and the NaN, not the cancellation. `harness witness D76` and the `real-variance` stream
of `./check C04` run the same inputs on the code (class `D76:real-variance-cancellation`, assigned only to exactly these cells). -/

/-- **D76 witness.** Over the three REALs 100000001.0, 100000002.0, 100000003.0 (exactly representable; bit patterns below)
VARIANCE is `0.0` and STDDEV `0.0` — the exact variance of these three numbers is 2/3 (and over the INT column with the same
values the cell is the REAL nearest to 2/3, `int_variance_correctly_rounded_when_small`). Over 1000000.1, 1000000.2, 1000000.3
(the REALs nearest to them) VARIANCE is `0x3f7c000000000000` = 0.0068359375 where the exact variance of the three REALs is
2213609290391334421 / 332041393326771929088 = 0.0066666…: 2.5 % off. -/
theorem d76_real_variance_far_from_exact :
    aggregate (.stddev (.column "r") true) [.real 0x4197d78404000000, .real 0x4197d78408000000, .real 0x4197d7840c000000] = some (.real F64.zero) ∧
    aggregate (.stddev (.column "r") false) [.real 0x4197d78404000000, .real 0x4197d78408000000, .real 0x4197d7840c000000] = some (.real F64.zero) ∧
    [0x4197d78404000000, 0x4197d78408000000, 0x4197d7840c000000].map F64.toRat = [100000001, 100000002, 100000003] ∧
    popVariance [100000001, 100000002, 100000003] = 2 / 3 ∧
    aggregate (.stddev (.column "v") true) [.int 100000001, .int 100000002, .int 100000003] = some (.real 0x3fe5555555555555) ∧
    aggregate (.stddev (.column "r") true) [.real 0x412e848033333333, .real 0x412e848066666666, .real 0x412e84809999999a] = some (.real 0x3f7c000000000000) ∧
    F64.toRat 0x3f7c000000000000 = 7 / 1024 ∧
    popVariance ([0x412e848033333333, 0x412e848066666666, 0x412e84809999999a].map F64.toRat) = 2213609290391334421 / 332041393326771929088 :=
  ⟨real_of_bits (by decide +kernel), real_of_bits (by decide +kernel), by decide +kernel, by decide +kernel,
   real_of_bits (by decide +kernel), real_of_bits (by decide +kernel), by decide +kernel, by decide +kernel⟩

/-- the engine shows exactly that cell: three `update_aggregate` steps over 100000001.0, 100000002.0, 100000003.0 end with `0.0` -/
theorem d76_engine :
    ∃ c, foldV (.stddev (.column "r") true) [.real 0x4197d78404000000, .real 0x4197d78408000000, .real 0x4197d7840c000000] {} = .ok c ∧
      shownValue (.stddev (.column "r") true) c = .real F64.zero := by
  obtain ⟨c, hc, hs, _⟩ := Props.C04.aggregate_fold_refines (.stddev (.column "r") true)
    [.real 0x4197d78404000000, .real 0x4197d78408000000, .real 0x4197d7840c000000] (.real F64.zero) (by decide) d76_real_variance_far_from_exact.1 rfl
  exact ⟨c, hc, hs⟩

/-! ### (iv) the choices of the code that the sentence does not fix (mirrored by the specification) -/

/-- **population, not sample**: over 1, 2, 3 the population variance is 2/3 and the sample variance 1; VARIANCE shows
`0x3fe5555555555555` = 0.666… (and 1.0 would be `0x3ff0000000000000`) -/
theorem choice_population_not_sample :
    popVariance (ratsOfInts [1, 2, 3]) = 2 / 3 ∧ sampleVariance (ratsOfInts [1, 2, 3]) = 1 ∧
    aggregate (.stddev (.column "v") true) [.int 1, .int 2, .int 3] = some (.real 0x3fe5555555555555) :=
  ⟨by decide +kernel, by decide +kernel, real_of_bits (by decide +kernel)⟩

/-- **PERCENTILE(p) is the nearest-rank element at index `min(⌊p·n⌋, n−1)`** of the ascending values: the median of 1, 2 is 2
(not 1, not 1.5), PERCENTILE(1.0) is the greatest value, PERCENTILE(0.0) the least -/
theorem choice_percentile_nearest_rank :
    aggregate (.percentile (.column "v") 0x3fe0000000000000) [.int 2, .int 1] = some (.int 2) ∧
    aggregate (.percentile (.column "v") 0x3fe0000000000000) [.int 3, .int 2, .int 1] = some (.int 2) ∧
    aggregate (.percentile (.column "v") 0x3ff0000000000000) [.int 3, .int 1, .int 2] = some (.int 3) ∧
    aggregate (.percentile (.column "v") 0) [.int 3, .int 1, .int 2] = some (.int 1) :=
  ⟨int_of_bits (by decide +kernel), int_of_bits (by decide +kernel), int_of_bits (by decide +kernel), int_of_bits (by decide +kernel)⟩

/-- **AVG over INT is the truncating division** of the sum by the count (towards zero: 3/2 ↦ 1, −3/2 ↦ −1) -/
theorem choice_avg_int_truncates :
    aggregate (.avg (.column "v")) [.int 1, .int 2] = some (.int 1) ∧
    aggregate (.avg (.column "v")) [.int (-1), .int (-2)] = some (.int (-1)) :=
  ⟨int_of_bits (by decide +kernel), int_of_bits (by decide +kernel)⟩

end Sqlgrep.Props.C04Variance
