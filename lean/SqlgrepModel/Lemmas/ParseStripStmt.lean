import SqlgrepModel.Lemmas.ParseLoc
import SqlgrepModel.Model.ParseStmt
import Lean
/-
The statement parser does not depend on token locations: running `Parser::parse` (`Model/ParseStmt.lean`) on the token
vector with every location replaced by the default one gives the same answer with every location erased (tree,
error kind, remaining state). Extends `Lemmas/ParseLoc.lean` (`strip_all`, the six expression functions) to SELECT,
JOIN, the clause loop, CREATE TABLE, column definitions and types.
-/
namespace Sqlgrep

/-- projections with the locations of their expressions erased -/
def eraseProj (ps : List (Option (List Char) × PExpr)) : List (Option (List Char) × PExpr) :=
  ps.map (fun p => (p.1, p.2.eraseLoc))

def Clauses.eraseLoc (c : Clauses) : Clauses :=
  { filter := c.filter.map PExpr.eraseLoc, groupBy := c.groupBy.map PExpr.eraseLoc.eraseLocs,
    having := c.having.map PExpr.eraseLoc, join := c.join, limit := c.limit }

def PCreate.eraseLoc (c : PCreate) : PCreate := { c with loc := default, endLoc := default }

def POp.eraseLoc : POp → POp
  | .select q => .select { q with loc := default, projections := eraseProj q.projections,
                                  filter := q.filter.map PExpr.eraseLoc,
                                  groupBy := q.groupBy.map PExpr.eraseLoc.eraseLocs,
                                  having := q.having.map PExpr.eraseLoc }
  | .createTable c => .createTable c.eraseLoc
  | .multiple cs => .multiple (cs.map PCreate.eraseLoc)

def ParseOutcome.strip : ParseOutcome → ParseOutcome
  | .tree t => .tree t.eraseLoc
  | .error e => .error e.strip
  | .fuel => .fuel
  | .panic => .panic

namespace Parse

theorem parsePrimary_strip (T : PrecTables) (n : Nat) (s : PSt) :
    parsePrimary T n s.strip = (parsePrimary T n s).strip PExpr.eraseLoc := (strip_all T n).2.2.2.1 s

theorem consumeString_strip (s : PSt) : consumeString s.strip = (consumeString s).strip id := by
  unfold consumeString
  simp only [strip_cur_tok]
  split
  · rw [next_strip]; cases next s <;> rfl
  · rfl

theorem consumeInt_strip (s : PSt) : consumeInt s.strip = (consumeInt s).strip id := by
  unfold consumeInt
  simp only [strip_cur_tok]
  split
  · rw [next_strip]; cases next s <;> rfl
  · rfl

theorem expectConsumeOp_strip (o : Operator) (s : PSt) : expectConsumeOp o s.strip = (expectConsumeOp o s).strip id :=
  expectConsume_strip _ _ s

theorem eraseProj_append (a b : List (Option (List Char) × PExpr)) : eraseProj (a ++ b) = eraseProj a ++ eraseProj b := by
  simp [eraseProj]

theorem eraseProj_single (a : Option (List Char)) (e : PExpr) : eraseProj [(a, e)] = [(a, e.eraseLoc)] := rfl
theorem eraseProj_nil : eraseProj [] = [] := rfl

theorem strip_ite {α : Type} (f : α → α) (c : Prop) [Decidable c] (a b : PRes α) :
    PRes.strip f (if c then a else b) = if c then PRes.strip f a else PRes.strip f b := by
  split <;> rfl

theorem strip_rest_isEmpty (s : PSt) : s.strip.rest.isEmpty = s.rest.isEmpty := by
  cases h : s.rest <;> simp [PSt.strip, h]

open Lean Elab Tactic Meta in
/-- goal `_ = PRes.strip f (match d with …)` with `d : PRes _` not a constructor application: `cases d` (as
`strip_cases` of `Lemmas/ParseLoc.lean`, looking through the annotations `split` leaves on the goal) -/
elab "strip_cases'" : tactic => withMainContext do
  let g ← getMainGoal
  let t := (← instantiateMVars (← g.getType)).cleanupAnnotations
  unless t.isAppOf ``Eq && t.getAppArgs.size == 3 do throwError "not an equation"
  let rhs := t.getAppArgs[2]!.cleanupAnnotations
  unless rhs.isAppOf ``PRes.strip && rhs.getAppArgs.size == 3 do throwError "right side is not a strip"
  let inner := rhs.getAppArgs[2]!.cleanupAnnotations
  unless inner.getAppFn.isConst do throwError "not a match"
  let some info ← getMatcherInfo? inner.getAppFn.constName! | throwError "not a match"
  let discr := inner.getAppArgs[info.getFirstDiscrPos]!
  let dty ← whnfR (← inferType discr)
  unless dty.isAppOf ``PRes do throwError "scrutinee is not a result"
  if discr.getAppFn.isConstOf ``PRes.ok || discr.getAppFn.isConstOf ``PRes.err || discr.getAppFn.isConstOf ``PRes.fuel then
    throwError "scrutinee is a constructor"
  let d ← Term.exprToSyntax discr
  evalTactic (← `(tactic| (cases hd : $d <;> try simp only [hd])))

/-- one step of a lock-step proof `F … s.strip = (F … s).strip er`: rewrite with the known commutation lemmas, case on
the next scrutinee of the right-hand side, split what is left -/
macro "sstrip" "[" ls:Lean.Parser.Tactic.simpLemma,* "]" : tactic => `(tactic| repeat' (first
   | rfl
   | dsimp +instances only [strip_cur_tok, strip_cur_loc]
   | simp only [strip_ok, strip_err, strip_fuel, id, strip_cur_tok, strip_cur_loc, next_strip, expectConsume_strip,
       expectConsumeOp_strip, consumeIdentifier_strip, consumeString_strip, consumeInt_strip, mkErr_strip, parseExpr_strip,
       parsePrimary_strip, eraseProj_append, eraseProj_single, eraseLocs_append, PExpr.eraseLoc, PExpr.eraseLoc.eraseLocs, strip_ite,
       List.map_cons, List.map_nil, Option.isSome_map, Option.map_some, Option.map_none, $ls,*]
   | strip_cases'
   | split))

theorem parseJoin_strip (b : Bool) (s : PSt) : parseJoin b s.strip = (parseJoin b s).strip id := by
  unfold parseJoin
  sstrip []

theorem optAlias_strip (s : PSt) : optAlias s.strip = (optAlias s).strip id := by
  unfold optAlias
  sstrip []

theorem optDistinct_strip (s : PSt) : optDistinct s.strip = (optDistinct s).strip id := by
  unfold optDistinct
  sstrip []

theorem optFile_strip (s : PSt) : optFile s.strip = (optFile s).strip id := by
  unfold optFile
  sstrip []

theorem optSemi_strip (s : PSt) : optSemi s.strip = (optSemi s).strip id := by
  unfold optSemi
  sstrip []

theorem parseRegexMode_strip (s : PSt) : parseRegexMode s.strip = (parseRegexMode s).strip id := by
  unfold parseRegexMode
  sstrip []


theorem projLoop_strip (T : PrecTables) : ∀ (n : Nat) (acc : List (Option (List Char) × PExpr)) (s : PSt),
    projLoop T n (eraseProj acc) s.strip = (projLoop T n acc s).strip eraseProj := by
  intro n
  induction n with
  | zero => intro acc s; rw [projLoop, projLoop]; rfl
  | succ n ih =>
    intro acc s
    rw [projLoop, projLoop]
    sstrip [optAlias_strip, ← ih]

theorem groupKeysLoop_strip' (T : PrecTables) : ∀ (n : Nat) (acc : List PExpr) (s : PSt),
    groupKeysLoop T n (PExpr.eraseLoc.eraseLocs acc) s.strip = (groupKeysLoop T n acc s).strip PExpr.eraseLoc.eraseLocs := by
  intro n
  induction n with
  | zero => intro acc s; rw [groupKeysLoop, groupKeysLoop]; rfl
  | succ n ih =>
    intro acc s
    rw [groupKeysLoop, groupKeysLoop]
    sstrip [← ih]

theorem clauseTurn_strip (T : PrecTables) (n : Nat) (c : Clauses) (s : PSt) :
    clauseTurn T n c.eraseLoc s.strip = (clauseTurn T n c s).strip (fun r => (r.1.eraseLoc, r.2)) := by
  have hg : ∀ k s, groupKeysLoop T n [PExpr.eraseLoc k] s.strip = (groupKeysLoop T n [k] s).strip PExpr.eraseLoc.eraseLocs :=
    fun k s => groupKeysLoop_strip' T n [k] s
  unfold clauseTurn
  sstrip [parseJoin_strip, hg, Clauses.eraseLoc]

theorem clauseLoop_strip (T : PrecTables) : ∀ (n : Nat) (c : Clauses) (s : PSt),
    clauseLoop T n c.eraseLoc s.strip = (clauseLoop T n c s).strip Clauses.eraseLoc := by
  intro n
  induction n with
  | zero => intro c s; rw [clauseLoop, clauseLoop]; rfl
  | succ n ih =>
    intro c s
    rw [clauseLoop, clauseLoop]
    sstrip [clauseTurn_strip, ← ih]

theorem clauses_strip (T : PrecTables) (n : Nat) (s : PSt) :
    clauses T n s.strip = (clauses T n s).strip Clauses.eraseLoc := by
  have h := clauseLoop_strip T n {} s
  have h0 : ({} : Clauses).eraseLoc = {} := rfl
  rw [h0] at h
  unfold clauses
  sstrip [h]

theorem parseSelect_strip (T : PrecTables) (n : Nat) (s : PSt) :
    parseSelect T n s.strip = (parseSelect T n s).strip POp.eraseLoc := by
  have hp : ∀ s, projLoop T n [] s.strip = (projLoop T n [] s).strip eraseProj := fun s => projLoop_strip T n [] s
  unfold parseSelect
  sstrip [optDistinct_strip, hp, optFile_strip, clauses_strip, POp.eraseLoc, Clauses.eraseLoc]

theorem typeBrackets_strip : ∀ (n k : Nat) (s : PSt), typeBrackets n k s.strip = (typeBrackets n k s).strip id := by
  intro n
  induction n with
  | zero => intro k s; rw [typeBrackets, typeBrackets]; rfl
  | succ n ih =>
    intro k s
    rw [typeBrackets, typeBrackets]
    sstrip [← ih]

theorem parseType_strip (n : Nat) (s : PSt) : parseType n s.strip = (parseType n s).strip id := by
  unfold parseType
  sstrip [typeBrackets_strip, PErr.strip]

theorem eraseLoc_value_inv {a : PExpr} {l : Loc} {v : Value} (h : a.eraseLoc = .value l v) : ∃ l', a = .value l' v := by
  cases a <;> simp [PExpr.eraseLoc] at h
  exact ⟨_, by rw [h.2]⟩

theorem parseDefineColumn_strip (T : PrecTables) (n : Nat) (p : PColParsing) (s : PSt) :
    parseDefineColumn T n p s.strip = (parseDefineColumn T n p s).strip id := by
  unfold parseDefineColumn
  sstrip [parseType_strip]
  all_goals first
    | (simp_all [PExpr.eraseLoc, mkErr]; done)
    | (obtain ⟨l', hl⟩ := eraseLoc_value_inv ‹_ = PExpr.value _ _›; simp_all [PExpr.eraseLoc, mkErr])

theorem refLoop_strip : ∀ (n : Nat) (acc : List PRegexRef) (s : PSt), refLoop n acc s.strip = (refLoop n acc s).strip id := by
  intro n
  induction n with
  | zero => intro acc s; rw [refLoop, refLoop]; rfl
  | succ n ih =>
    intro acc s
    rw [refLoop, refLoop]
    sstrip [← ih]

theorem optRefs_strip (n : Nat) (f : PRegexRef) (s : PSt) : optRefs n f s.strip = (optRefs n f s).strip id := by
  unfold optRefs
  sstrip [refLoop_strip]

theorem jsonLoop_strip : ∀ (n : Nat) (acc : List PJsonStep) (s : PSt), jsonLoop n acc s.strip = (jsonLoop n acc s).strip id := by
  intro n
  induction n with
  | zero => intro acc s; rw [jsonLoop, jsonLoop]; rfl
  | succ n ih =>
    intro acc s
    rw [jsonLoop, jsonLoop]
    sstrip [← ih]

theorem colItem_strip (T : PrecTables) (n : Nat) (ps : Patterns) (cs : List PColDef) (s : PSt) :
    colItem T n ps cs s.strip = (colItem T n ps cs s).strip id := by
  unfold colItem
  sstrip [parseRegexMode_strip, optRefs_strip, parseDefineColumn_strip, jsonLoop_strip]

theorem colLoop_strip (T : PrecTables) : ∀ (n : Nat) (ps : Patterns) (cs : List PColDef) (s : PSt),
    colLoop T n ps cs s.strip = (colLoop T n ps cs s).strip id := by
  intro n
  induction n with
  | zero => intro ps cs s; rw [colLoop, colLoop]; rfl
  | succ n ih =>
    intro ps cs s
    rw [colLoop, colLoop]
    sstrip [colItem_strip, ← ih]

theorem parseCreateTable_strip (T : PrecTables) (n : Nat) (s : PSt) :
    parseCreateTable T n s.strip = (parseCreateTable T n s).strip PCreate.eraseLoc := by
  unfold parseCreateTable
  sstrip [colLoop_strip, PCreate.eraseLoc]

theorem opOfCreates_erase (cs : List PCreate) : opOfCreates (cs.map PCreate.eraseLoc) = (opOfCreates cs).eraseLoc := by
  unfold opOfCreates
  cases cs with
  | nil => rfl
  | cons c rest => cases rest <;> simp [POp.eraseLoc]

theorem multiCreateLoop_strip (T : PrecTables) : ∀ (n : Nat) (acc : List PCreate) (s : PSt),
    multiCreateLoop T n (acc.map PCreate.eraseLoc) s.strip = (multiCreateLoop T n acc s).strip POp.eraseLoc := by
  intro n
  induction n with
  | zero => intro acc s; rw [multiCreateLoop, multiCreateLoop]; rfl
  | succ n ih =>
    intro acc s
    rw [multiCreateLoop, multiCreateLoop]
    sstrip [parseCreateTable_strip, ← ih, ← opOfCreates_erase, List.map_append]

theorem parseStatement_strip (T : PrecTables) (n : Nat) (s : PSt) :
    parseStatement T n s.strip = (parseStatement T n s).strip POp.eraseLoc := by
  have h := multiCreateLoop_strip T n [] s
  simp only [List.map_nil] at h
  unfold parseStatement
  sstrip [parseSelect_strip, h]

theorem parseOp_strip (T : PrecTables) (n : Nat) (s : PSt) :
    parseOp T n s.strip = (parseOp T n s).strip POp.eraseLoc := by
  unfold parseOp
  sstrip [parseStatement_strip, optSemi_strip, strip_rest_isEmpty]

/-- **the statement parser reads only the tokens**: on the token vector with all locations reset, `Parser::parse`
answers what it answers on the original, locations erased (same tree up to locations, same error kind) -/
theorem parseTokens_strip (T : PrecTables) (toks : List PTok) :
    parseTokens T (toks.map PTok.strip) = (parseTokens T toks).strip := by
  unfold parseTokens parseTokensFuel
  cases toks with
  | nil => rfl
  | cons t ts =>
    simp only [List.map_cons, List.length_cons, List.length_map]
    have h := parseOp_strip T (fuelBound (ts.length + 1)) { cur := t, rest := ts }
    simp only [PSt.strip] at h
    rw [h]
    cases parseOp T (fuelBound (ts.length + 1)) { cur := t, rest := ts } <;> rfl

end Parse
end Sqlgrep
