// Statement-parser cases (C14, parser-level C20): wire encoding of token vectors, canonical rendering of the real
// `ParserOperationTree` / `ParserError` (identical to `Drivers/ParseStmt.lean`), generators of statement texts and
// of their mutations.
use sqlgrep::data_model::{ColumnParsing, JsonAccess, RegexMode, RegexResultReference};
use sqlgrep::model::{BooleanOperator, NullableCompareOperator};
use sqlgrep::parsing::verif_hooks::{
    tokenize, BinaryOperators, Keyword, Operator, Parser, ParserColumnDefinition, ParserError, ParserErrorType,
    ParserExpressionTree, ParserExpressionTreeData, ParserJoinClause, ParserToken, Token, UnaryOperators,
};
use sqlgrep::parsing::verif_hooks::{ConvertParserTreeError, ConvertParserTreeErrorType};
use sqlgrep::parsing::{CommonParserError, ParserOperationTree};
use sqlgrep::Statement;

use crate::extract::{def_sexp, gen_def};
use crate::queries::{gen_query, gen_schema, stmt_sexp, QueryOpts};
use crate::util::{catch, hexs, value_sexp, vtype_sexp, Caught, Rng};

// ---------------------------------------------------------------------------------------------
// wire encoding of tokens
// ---------------------------------------------------------------------------------------------

pub fn keyword_name(k: &Keyword) -> String {
    format!("{:?}", k).to_lowercase()
}

pub fn op_sexp(o: &Operator) -> String {
    match o {
        Operator::Single(c) => format!("(o1 {})", *c as u32),
        Operator::Dual(c, d) => format!("(o2 {} {})", *c as u32, *d as u32),
    }
}

pub fn token_body(t: &Token) -> String {
    match t {
        Token::Int(i) => format!("i {}", i),
        Token::Float(f) => format!("f {}", f.to_bits()),
        Token::String(s) => format!("s {}", hexs(s)),
        Token::Identifier(s) => format!("id {}", hexs(s)),
        Token::Keyword(k) => format!("kw {}", keyword_name(k)),
        Token::Operator(Operator::Single(c)) => format!("o1 {}", *c as u32),
        Token::Operator(Operator::Dual(c, d)) => format!("o2 {} {}", *c as u32, *d as u32),
        Token::Null => "p null".to_owned(),
        Token::True => "p true".to_owned(),
        Token::False => "p false".to_owned(),
        Token::LeftParentheses => "p lp".to_owned(),
        Token::RightParentheses => "p rp".to_owned(),
        Token::LeftSquareParentheses => "p lsq".to_owned(),
        Token::RightSquareParentheses => "p rsq".to_owned(),
        Token::LeftCurlyParentheses => "p lcu".to_owned(),
        Token::RightCurlyParentheses => "p rcu".to_owned(),
        Token::Comma => "p comma".to_owned(),
        Token::SemiColon => "p semi".to_owned(),
        Token::Colon => "p colon".to_owned(),
        Token::DoubleColon => "p dcolon".to_owned(),
        Token::RightArrow => "p rarrow".to_owned(),
        Token::End => "p eof".to_owned(),
    }
}

pub fn tokens_sexp(ts: &[ParserToken]) -> String {
    let mut s = String::from("(");
    for (i, t) in ts.iter().enumerate() {
        if i > 0 { s.push(' '); }
        s.push_str(&format!("({} {} {})", t.location.line, t.location.column, token_body(&t.token)));
    }
    s.push(')');
    s
}

/// short class of a token (for tags)
pub fn token_class(t: &Token) -> String {
    match t {
        Token::Int(_) => "int".to_owned(),
        Token::Float(_) => "float".to_owned(),
        Token::String(_) => "str".to_owned(),
        Token::Identifier(_) => "ident".to_owned(),
        Token::Keyword(k) => keyword_name(k),
        Token::Operator(_) => "op".to_owned(),
        other => token_body(other).replace("p ", ""),
    }
}

// ---------------------------------------------------------------------------------------------
// canonical rendering of the parse tree and of parser errors
// ---------------------------------------------------------------------------------------------

fn opt_bool(b: &Option<bool>) -> &'static str {
    match b { None => "none", Some(false) => "0", Some(true) => "1" }
}

fn opt_str(s: &Option<String>) -> String {
    match s { None => "none".to_owned(), Some(s) => hexs(s) }
}

fn exprs(out: &mut String, es: &[ParserExpressionTree]) {
    for e in es {
        out.push(' ');
        expr(out, e);
    }
}

pub fn expr(out: &mut String, e: &ParserExpressionTree) {
    let l = format!("{} {}", e.location.line, e.location.column);
    match &e.tree {
        ParserExpressionTreeData::Value(v) => out.push_str(&format!("(val {} {})", l, value_sexp(v))),
        ParserExpressionTreeData::ColumnAccess(n) => out.push_str(&format!("(col {} {})", l, hexs(n))),
        ParserExpressionTreeData::ScopedColumnAccess(_, n) => out.push_str(&format!("(scoped {} {})", l, hexs(n))),
        ParserExpressionTreeData::Wildcard => out.push_str(&format!("(wild {})", l)),
        ParserExpressionTreeData::Tuple { values } => {
            out.push_str(&format!("(tuple {}", l));
            exprs(out, values);
            out.push(')');
        }
        ParserExpressionTreeData::BinaryOperator { operator, left, right } => {
            out.push_str(&format!("(bin {} {} ", l, op_sexp(operator)));
            expr(out, left);
            out.push(' ');
            expr(out, right);
            out.push(')');
        }
        ParserExpressionTreeData::BooleanOperation { operator, left, right } => {
            out.push_str(&format!("(bool {} {} ", l, match operator { BooleanOperator::And => "and", BooleanOperator::Or => "or" }));
            expr(out, left);
            out.push(' ');
            expr(out, right);
            out.push(')');
        }
        ParserExpressionTreeData::UnaryOperator { operator, operand } => {
            out.push_str(&format!("(un {} {} ", l, op_sexp(operator)));
            expr(out, operand);
            out.push(')');
        }
        ParserExpressionTreeData::Invert { operand } => {
            out.push_str(&format!("(inv {} ", l));
            expr(out, operand);
            out.push(')');
        }
        ParserExpressionTreeData::NullableCompare { operator, left, right } => {
            out.push_str(&format!("(nullcmp {} {} ", l, match operator { NullableCompareOperator::Equal => "is", NullableCompareOperator::NotEqual => "isnot" }));
            expr(out, left);
            out.push(' ');
            expr(out, right);
            out.push(')');
        }
        ParserExpressionTreeData::In { is_not, operand, values } => {
            out.push_str(&format!("(in {} {} ", l, if *is_not { 1 } else { 0 }));
            expr(out, operand);
            out.push_str(" (list");
            exprs(out, values);
            out.push_str("))");
        }
        ParserExpressionTreeData::Call { name, arguments, distinct } => {
            out.push_str(&format!("(call {} {} {} (list", l, hexs(name), opt_bool(distinct)));
            exprs(out, arguments);
            out.push_str("))");
        }
        ParserExpressionTreeData::ArrayElementAccess { array, index } => {
            out.push_str(&format!("(idx {} ", l));
            expr(out, array);
            out.push(' ');
            expr(out, index);
            out.push(')');
        }
        ParserExpressionTreeData::TypeConversion { operand, convert_to_type } => {
            out.push_str(&format!("(cast {} ", l));
            expr(out, operand);
            out.push_str(&format!(" {})", vtype_sexp(convert_to_type)));
        }
        ParserExpressionTreeData::Case { clauses, else_clause } => {
            out.push_str(&format!("(case {} (list", l));
            for (c, r) in clauses {
                out.push_str(" (when ");
                expr(out, c);
                out.push(' ');
                expr(out, r);
                out.push(')');
            }
            out.push_str(") ");
            expr(out, else_clause);
            out.push(')');
        }
    }
}

fn opt_expr(out: &mut String, e: &Option<ParserExpressionTree>) {
    match e {
        None => out.push_str("none"),
        Some(e) => expr(out, e),
    }
}

fn join_sexp(j: &Option<ParserJoinClause>) -> String {
    match j {
        None => "none".to_owned(),
        Some(j) => format!("(join {} {} {} {} {} {} {})", hexs(&j.joiner_table), hexs(&j.joiner_filename), hexs(&j.left_table),
                           hexs(&j.left_column), hexs(&j.right_table), hexs(&j.right_column), if j.is_outer { 1 } else { 0 }),
    }
}

pub fn json_path(a: &JsonAccess) -> String {
    let mut s = String::new();
    let mut cur = Some(a);
    while let Some(x) = cur {
        match x {
            JsonAccess::Field { name, inner } => { s.push_str(&format!(" (f {})", hexs(name))); cur = inner.as_deref(); }
            JsonAccess::Array { index, inner } => { s.push_str(&format!(" (i {})", index)); cur = inner.as_deref(); }
        }
    }
    s
}

fn ref_sexp(r: &RegexResultReference) -> String {
    format!("{} {}", hexs(&r.pattern_name), r.group_index)
}

fn parsing_sexp(p: &ColumnParsing) -> String {
    match p {
        ColumnParsing::Regex(r) => format!("(regex {})", ref_sexp(r)),
        ColumnParsing::MultiRegex(rs) => format!("(multi{})", rs.iter().map(|r| format!(" (ref {})", ref_sexp(r))).collect::<String>()),
        ColumnParsing::Json(a) => format!("(json{})", json_path(a)),
    }
}

fn coldef_sexp(c: &ParserColumnDefinition) -> String {
    format!("(coldef {} {} {} {} {} {} {} {})", parsing_sexp(&c.parsing), hexs(&c.name), vtype_sexp(&c.column_type),
            opt_bool(&c.nullable), opt_bool(&c.trim), opt_bool(&c.convert), opt_bool(&c.microseconds),
            match &c.default_value { None => "none".to_owned(), Some(v) => value_sexp(v) })
}

pub fn tree_sexp(t: &ParserOperationTree) -> String {
    match t {
        ParserOperationTree::Select { location, projections, from, filter, group_by, having, join, limit, distinct } => {
            let mut s = format!("(select {} {} {} (list", location.line, location.column, if *distinct { 1 } else { 0 });
            for (name, e) in projections {
                s.push_str(&format!(" (p {} ", opt_str(name)));
                expr(&mut s, e);
                s.push(')');
            }
            s.push_str(&format!(") {} {} ", hexs(&from.0), opt_str(&from.1)));
            opt_expr(&mut s, filter);
            s.push(' ');
            match group_by {
                None => s.push_str("none"),
                Some(ks) => { s.push_str("(list"); exprs(&mut s, ks); s.push(')'); }
            }
            s.push(' ');
            opt_expr(&mut s, having);
            s.push_str(&format!(" {} {})", join_sexp(join), match limit { None => "none".to_owned(), Some(n) => n.to_string() }));
            s
        }
        ParserOperationTree::CreateTable { location, end_location, name, patterns, columns } => {
            let mut s = format!("(create {} {} {} {} {} (list", location.line, location.column, end_location.line, end_location.column, hexs(name));
            for (n, p, m) in patterns {
                s.push_str(&format!(" (pat {} {} {})", hexs(n), hexs(p), match m { RegexMode::Captures => "captures", RegexMode::Split => "split" }));
            }
            s.push_str(") (list");
            for c in columns {
                s.push(' ');
                s.push_str(&coldef_sexp(c));
            }
            s.push_str("))");
            s
        }
        ParserOperationTree::Multiple(ts) => {
            format!("(multiple{})", ts.iter().map(|t| format!(" {}", tree_sexp(t))).collect::<String>())
        }
    }
}

pub fn err_kind_sexp(e: &ParserErrorType) -> String {
    match e {
        ParserErrorType::ExpectedKeyword(k) => format!("(ExpectedKeyword {})", keyword_name(k)),
        ParserErrorType::ExpectedAnyKeyword(ks) => format!("(ExpectedAnyKeyword{})", ks.iter().map(|k| format!(" {}", keyword_name(k))).collect::<String>()),
        ParserErrorType::ExpectedSpecificOperator(o) => format!("(ExpectedSpecificOperator {})", op_sexp(o)),
        ParserErrorType::NotDefinedBinaryOperator(o) => format!("(NotDefinedBinaryOperator {})", op_sexp(o)),
        ParserErrorType::NotDefinedUnaryOperator(o) => format!("(NotDefinedUnaryOperator {})", op_sexp(o)),
        ParserErrorType::NotDefinedType(n) => format!("(NotDefinedType {})", hexs(n)),
        ParserErrorType::ExpectedDefaultValueOfType(t) => format!("(ExpectedDefaultValueOfType {})", vtype_sexp(t)),
        other => format!("{:?}", other),
    }
}

pub fn err_kind_name(e: &ParserErrorType) -> String {
    let s = format!("{:?}", e);
    s.split(|c: char| !c.is_alphanumeric()).next().unwrap_or("").to_owned()
}

pub fn parser_err_sexp(e: &ParserError) -> String {
    format!("err {} {} {}", e.location.line, e.location.column, err_kind_sexp(&e.error))
}

/// the real `Parser::parse` on a token vector; (answer, result-kind for tags)
pub fn run_parser(tokens: Vec<ParserToken>) -> (String, String) {
    let r = catch(move || {
        let binary_operators = BinaryOperators::new();
        let unary_operators = UnaryOperators::new();
        Parser::new(&binary_operators, &unary_operators, tokens).parse()
    });
    match r {
        Caught::Done(Ok(t)) => {
            let kind = match &t {
                ParserOperationTree::Select { .. } => "select",
                ParserOperationTree::CreateTable { .. } => "create",
                ParserOperationTree::Multiple(_) => "multiple",
            };
            (format!("ok {}", tree_sexp(&t)), kind.to_owned())
        }
        Caught::Done(Err(e)) => (parser_err_sexp(&e), err_kind_name(&e.error)),
        Caught::Panic(_) => ("panic".to_owned(), "panic".to_owned()),
    }
}

pub fn tokenize_caught(text: &str) -> Caught<Result<Vec<ParserToken>, ParserError>> {
    catch(|| tokenize(text))
}

// ---------------------------------------------------------------------------------------------
// lowered statements (`stmt` cases): the statement `parsing::parse` returns, in the encoding the engine / extraction
// models already read (`queries::stmt_sexp`, `extract::def_sexp`) plus FROM / join / table and column names
// ---------------------------------------------------------------------------------------------

fn from_sexp(from: &str, file: &Option<String>, join: Option<&sqlgrep::model::JoinClause>) -> String {
    format!("{} {} {}", hexs(from), opt_str(file), match join {
        None => "nojoin".to_owned(),
        Some(j) => format!("(join {} {} {} {} {})", hexs(&j.joined_table), hexs(&j.joined_filename), hexs(&j.joined_column),
                           hexs(&j.joiner_column), if j.is_outer { 1 } else { 0 }),
    })
}

fn lowered1(s: &Statement) -> String {
    match s {
        Statement::Select(q) => format!("(lowered {} {})", stmt_sexp(s).unwrap_or_default(), from_sexp(&q.from, &q.filename, q.join.as_ref())),
        Statement::Aggregate(a) => format!("(lowered {} {})", stmt_sexp(s).unwrap_or_default(), from_sexp(&a.from, &a.filename, a.join.as_ref())),
        Statement::CreateTable(td) => format!("(table {} {} (names{}))", hexs(&td.name), def_sexp(td),
                                              td.columns.iter().map(|c| format!(" {}", hexs(&c.name))).collect::<String>()),
        Statement::Multiple(_) => "(multiple)".to_owned(),
    }
}

pub fn lowered_sexp(s: &Statement) -> String {
    match s {
        Statement::Multiple(ss) => format!("(multiple{})", ss.iter().map(|s| format!(" {}", lowered1(s))).collect::<String>()),
        s => lowered1(s),
    }
}

pub fn convert_err_sexp(e: &ConvertParserTreeError) -> String {
    let kind = match &e.error {
        ConvertParserTreeErrorType::UndefinedOperator(o) => format!("(UndefinedOperator {})", op_sexp(o)),
        ConvertParserTreeErrorType::UndefinedFunction(n) => format!("(UndefinedFunction {})", hexs(n)),
        ConvertParserTreeErrorType::InvalidJoinerTable(n) => format!("(InvalidJoinerTable {})", hexs(n)),
        other => format!("{:?}", other),
    };
    format!("cerr {} {} {}", e.location.line, e.location.column, kind)
}

/// `parsing::parse(text)` rendered for the `stmt` case kind; (answer, result kind)
pub fn run_parse(text: &str) -> (String, String) {
    match catch(|| sqlgrep::parsing::parse(text)) {
        Caught::Done(Ok(s)) => (format!("ok {}", lowered_sexp(&s)), match &s {
            Statement::Select(_) => "select", Statement::Aggregate(_) => "aggregate", Statement::CreateTable(_) => "create", Statement::Multiple(_) => "multiple",
        }.to_owned()),
        Caught::Done(Err(CommonParserError::ParserError(e))) => (format!("p{}", parser_err_sexp(&e)), format!("perr-{}", err_kind_name(&e.error))),
        Caught::Done(Err(CommonParserError::ConvertParserTreeError(e))) => {
            let s = format!("{:?}", e.error);
            (convert_err_sexp(&e), format!("cerr-{}", s.split(|c: char| !c.is_alphanumeric()).next().unwrap_or("")))
        }
        Caught::Panic(_) => ("panic".to_owned(), "panic".to_owned()),
    }
}

/// the `Regex::new` oracle for every string token of the vector
pub fn regex_oracle(tokens: &[ParserToken]) -> String {
    let mut seen: Vec<&String> = Vec::new();
    let mut s = String::from("(rx");
    for t in tokens {
        if let Token::String(p) = &t.token {
            if !seen.contains(&p) {
                seen.push(p);
                s.push_str(&format!(" ({} {})", hexs(p), if regex::Regex::new(p).is_ok() { 1 } else { 0 }));
            }
        }
    }
    s.push(')');
    s
}

// ---------------------------------------------------------------------------------------------
// valid statement texts
// ---------------------------------------------------------------------------------------------

pub const README_STYLE: &[&str] = &[
    "SELECT ip, hostname FROM connections WHERE hostname IS NOT NULL",
    "SELECT hostname, COUNT() AS count FROM connections GROUP BY hostname",
    "SELECT * FROM connections::'file.log';",
    "SELECT x, MAX(x) FROM test WHERE x >= 13 GROUP BY x",
    "SELECT hour, COUNT(*) AS c FROM connections WHERE day >= 15 GROUP BY hour HAVING COUNT(*) > 2 LIMIT 10",
    "SELECT DISTINCT hostname FROM connections LIMIT 5;",
    "SELECT t.k, u.y FROM t INNER JOIN u::'other.log' ON t.k = u.k WHERE u.y IS NOT NULL",
    "SELECT t.k, COUNT(*) FROM t OUTER JOIN u::'other.log' ON u.k = t.k GROUP BY t.k",
    "SELECT EXTRACT(EPOCH FROM timestamp), EXTRACT(hour FROM timestamp) FROM connections",
    "SELECT CASE WHEN x > 1 THEN 'a' WHEN x > 0 THEN 'b' ELSE 'c' END AS cls, x::real, -x, NOT (x > 1) FROM test",
    "SELECT ARRAY[1, 2, x], timestamp[1], array_length(events) FROM clients WHERE device_id IN (1, 2, 3) AND mac NOT IN ('a')",
    "SELECT x * 2 + y / 3 - 1 AS v, x ^ 2, (1, 2), 'it\\'s', 1.5, TRUE, false, null FROM test WHERE a = b OR c != d AND e <= f",
    "SELECT percentile(x, 0.5), string_agg(k, ', '), count(DISTINCT x), sum(x) * 2 FROM test GROUP BY k, x + 1 HAVING sum(x) > 10 AND k IS NOT NULL",
    "select k from t where v is null limit 0",
    // NOT over IN / NOT IN stays a node of its own (with a NULL operand or member `NOT (x IN …)` and `x NOT IN …` differ)
    "SELECT NOT x IN (1, 2), NOT (x NOT IN (1)), NOT NOT x IN (3) FROM t WHERE NOT k IN ('a', NULL) AND NOT (x NOT IN (NULL, 1))",
    "CREATE TABLE connections(\n    line = 'connection from ([0-9.]+) \\\\((.+)?\\\\) at ([a-zA-Z]+) ([a-zA-Z]+) ([0-9]+) ([0-9]+):([0-9]+):([0-9]+) ([0-9]+)',\n\n    line[1] => ip TEXT,\n    line[2] => hostname TEXT,\n    line[9] => year INT,\n    line[4] => month TEXT,\n    line[5] => day INT,\n    line[6] => hour INT,\n    line[7] => minute INT,\n    line[8] => second INT\n);",
    "CREATE TABLE clients(\n    { .timestamp } => timestamp INT,\n    { .metadata.device_id } => device_id INT CONVERT,\n    { .metadata.mac_address } => mac_address TEXT,\n    { .events } => events TEXT[]\n);",
    "CREATE TABLE connections(\n    line = split ';',\n\n    line[1] => ip TEXT,\n    line[2] => hostname TEXT,\n    line[3] => year INT NOT NULL,\n    line[4] => month TEXT --test comment\n);",
    "CREATE TABLE connections(\n    line = 'a (b) (c)',\n    line[1] => ip TEXT DEFAULT 'unknown',\n    line[2], line[1], line[2] => ts TIMESTAMP MICROSECONDS,\n    line[1], line[2] => arr TEXT[] \n);",
    "CREATE TABLE a('x=([0-9]+)' => x INT NOT NULL, 'y=(.*)' => y TEXT TRIM, { .a[0].b } => z REAL[][] DEFAULT NULL); CREATE TABLE b(p = match '(.)', p[1] => c BOOLEAN DEFAULT true);",
    "CREATE TABLE e();",
    "CREATE TABLE t(line = '(.*)', line[1] => x TEXT);",
];

pub const WIDE: &[&str] = &[
    "SELECT * FROM t",
    "SELECT k, v, w, r, s, input FROM t",
    "SELECT k, w, COUNT(*), SUM(v), MIN(v), MAX(v), AVG(v), COUNT(DISTINCT v), PERCENTILE(v, 0.5) FROM t GROUP BY k, w",
    "SELECT v, COUNT(*), ARRAY_AGG(k), STRING_AGG(s, ',') FROM t GROUP BY v",
    "SELECT s, k, COUNT(DISTINCT w), BOOL_OR(v > 2), STDDEV(v) FROM t GROUP BY s, k HAVING COUNT(*) > 0 AND SUM(v) > -100",
    "SELECT DISTINCT k, w FROM t",
    "SELECT array_unique(create_array(v, w, 3, 1, 2)), k FROM t",
];

/// a valid (well-formed by construction) statement text
pub fn gen_valid(rng: &mut Rng) -> (String, &'static str) {
    match rng.below(12) {
        10 | 11 => {
            // every expression form of the reference grammar of C13 (minimal parentheses) as a projection and as a filter:
            // the lowering of each form against the model's (unknown function names and the like end as conversion errors
            // on both sides)
            let d = 1 + rng.below(4);
            let e1 = crate::c13::gen_expr(rng, d);
            let e2 = crate::c13::gen_expr(rng, d);
            let p = crate::c13::layout(&crate::c13::words(&e1, crate::c13::Style::Minimal), false);
            let w = crate::c13::layout(&crate::c13::words(&e2, crate::c13::Style::Minimal), false);
            (if rng.chance(1, 2) { format!("SELECT {} FROM t WHERE {}", p, w) } else { format!("SELECT {}, {} AS y FROM t", p, w) }, "exprs")
        }
        0 => ((*rng.pick(README_STYLE)).to_owned(), "readme"),
        1 => ((*rng.pick(WIDE)).to_owned(), "wide"),
        2 | 3 | 4 => {
            let share = if rng.chance(1, 3) { 5 } else { 0 };
            let d = gen_def(rng, share);
            (d.render(rng), "def")
        }
        5 => {
            let n = 2 + rng.below(2);
            let mut s = String::new();
            for i in 0..n {
                let d = gen_def(rng, 2);
                s.push_str(&d.render(rng).replace("CREATE TABLE t ", &format!("CREATE TABLE t{} ", i)));
                s.push('\n');
            }
            (s, "defs")
        }
        _ => {
            let sch = gen_schema(rng);
            let opts = QueryOpts { allow_limit: true, allow_distinct: true, allow_join: true, aggregate: None };
            let q = gen_query(rng, &sch, &opts, "/tmp/j.log");
            let mut t = q.text;
            if rng.chance(1, 4) { t.push(';'); }
            (t, "query")
        }
    }
}

// ---------------------------------------------------------------------------------------------
// clause permutations / duplications
// ---------------------------------------------------------------------------------------------

pub struct ClauseQuery {
    pub head: String,
    pub clauses: Vec<String>,
}

impl ClauseQuery {
    pub fn text(&self, order: &[usize], semicolon: bool) -> String {
        let mut s = self.head.clone();
        for i in order {
            s.push(' ');
            s.push_str(&self.clauses[*i]);
        }
        if semicolon { s.push(';'); }
        s
    }
}

pub fn gen_clause_query(rng: &mut Rng) -> ClauseQuery {
    let head = (*rng.pick(&[
        "SELECT k, COUNT(*) FROM t",
        "SELECT k, SUM(v) AS s, MAX(w) FROM t::'main.log'",
        "SELECT DISTINCT k, MIN(v) FROM t",
        "SELECT t.k, COUNT(v) FROM t",
    ])).to_owned();
    let all = vec![
        format!("{} JOIN u::'j.log' ON {}", rng.pick(&["INNER", "OUTER"]), rng.pick(&["t.k = u.k", "u.k = t.k"])),
        format!("WHERE {}", rng.pick(&["v > 1", "v > 1 AND w < 3 OR k = 'a'", "k IS NOT NULL", "v IN (1, 2)", "NOT (v = 2)"])),
        format!("GROUP BY {}", rng.pick(&["k", "k, w", "k, v + 1", "t.k"])),
        format!("HAVING {}", rng.pick(&["COUNT(*) > 1", "SUM(v) > 2 AND k != 'a'", "MAX(w) IS NOT NULL"])),
        format!("LIMIT {}", rng.below(20)),
    ];
    let mut clauses = Vec::new();
    for c in all {
        if rng.chance(3, 4) { clauses.push(c); }
    }
    ClauseQuery { head, clauses }
}

// ---------------------------------------------------------------------------------------------
// deep nesting
// ---------------------------------------------------------------------------------------------

pub fn deep(kind: usize, depth: usize) -> String {
    let rep = |s: &str| s.repeat(depth);
    match kind % 10 {
        0 => format!("SELECT {}x{} FROM t", rep("("), rep(")")),
        1 => format!("SELECT {}x FROM t", rep("-")),
        2 => format!("SELECT {}x FROM t", rep("NOT ")),
        3 => format!("SELECT a{}0{} FROM t", rep("[a"), rep("]")),
        4 => format!("SELECT {}x{} FROM t", rep("abs("), rep(")")),
        5 => format!("SELECT {}1{} FROM t", rep("CASE WHEN x THEN "), rep(" ELSE 2 END")),
        6 => format!("SELECT x FROM t WHERE {}1{}", rep("x IN (2, "), rep(")")),
        7 => format!("SELECT {}x{} FROM t", rep("(1 + "), rep(")")),
        8 => format!("SELECT {}x FROM t", rep("(")),                       // unbalanced
        _ => format!("SELECT x{} FROM t", rep(" + (y * -z")),               // unbalanced
    }
}

// ---------------------------------------------------------------------------------------------
// token soups, random Unicode
// ---------------------------------------------------------------------------------------------

pub const VOCAB: &[&str] = &[
    "SELECT", "FROM", "WHERE", "GROUP", "BY", "AS", "AND", "OR", "CREATE", "TABLE", "NOT", "IS", "IN", "HAVING", "INNER",
    "OUTER", "JOIN", "ON", "EXTRACT", "DEFAULT", "DISTINCT", "CASE", "WHEN", "THEN", "ELSE", "END", "LIMIT", "NULL", "TRUE",
    "false", "select", "from", "x", "t", "k", "count", "COUNT", "sum", "string_agg", "percentile", "abs", "ARRAY", "array", "TRIM",
    "CONVERT", "MICROSECONDS", "split", "match", "INT", "text", "REAL", "timestamp", "boolean", "interval", "line", "t.x", "u.k",
    "1", "0", "42", "1.5", "2.", "9223372036854775807", "'a'", "'x y'", "''", "'(.*)'", "'f.log'", "(", ")", "[", "]", "{", "}",
    ",", ";", ":", "::", "=>", "=", "!=", "<", "<=", ">", ">=", "+", "-", "*", "/", "^", ".", "!", "%", "--", "é", "日本", "_a",
    "x1", "\n", "\t", "\\", "'",
];

pub fn gen_soup(rng: &mut Rng) -> String {
    let n = 1 + rng.below(14);
    let mut s = String::new();
    // half of the soups start like a statement, so that the parser gets past the dispatch
    match rng.below(4) {
        0 => s.push_str("SELECT "),
        1 => s.push_str("CREATE TABLE t ( "),
        2 => s.push_str("SELECT x FROM t "),
        _ => {}
    }
    for _ in 0..n {
        s.push_str(*rng.pick(VOCAB));
        if !rng.chance(1, 8) { s.push(' '); }
    }
    s
}

pub fn gen_unicode(rng: &mut Rng) -> String {
    let n = rng.below(24);
    let mut s = String::new();
    for _ in 0..n {
        let c = match rng.below(12) {
            0 | 1 | 2 => char::from_u32(0x20 + rng.below(0x5f) as u32),
            3 => Some(*rng.pick(&['\n', '\t', '\r', ' ', '\u{a0}', '\u{2028}', '\u{3000}', '\u{85}'])),
            4 => Some(*rng.pick(&['\'', '\\', '-', '(', ')', '.', ';', ':', '=', '>', '<', '!'])),
            5 => char::from_u32(0x30 + rng.below(10) as u32),
            6 => Some(*rng.pick(&['é', 'ß', 'İ', 'K', 'ǅ', 'ﬁ', '٣', '²', '½', 'Ⅷ', '０', '𝟘', 'Σ', 'ς'])),
            7 => char::from_u32(0xa0 + rng.below(0x2000) as u32),
            8 => char::from_u32(0x3000 + rng.below(0x7000) as u32),
            9 => char::from_u32(0x10000 + rng.below(0x10000) as u32),
            10 => char::from_u32(rng.below(0x20) as u32),
            _ => char::from_u32(rng.below(0x110000) as u32),
        };
        if let Some(c) = c { s.push(c); }
    }
    if rng.chance(1, 3) { format!("SELECT {} FROM t", s) } else if rng.chance(1, 4) { format!("CREATE TABLE t('{}' => x TEXT);", s) } else { s }
}

// ---------------------------------------------------------------------------------------------
// text mutations: chunks = lexemes (token start to next token start, from the real tokenizer's locations)
// ---------------------------------------------------------------------------------------------

/// char offsets at which the tokens of `text` start (ascending, deduplicated, starting with 0), or None when the
/// text does not tokenize
pub fn chunk_starts(text: &str, tokens: &[ParserToken]) -> Vec<usize> {
    let chars: Vec<char> = text.chars().collect();
    let mut line_start = vec![0usize];
    for (i, c) in chars.iter().enumerate() {
        if *c == '\n' { line_start.push(i + 1); }
    }
    let mut offs: Vec<usize> = vec![0];
    for t in tokens {
        if let Some(ls) = line_start.get(t.location.line) {
            let o = (ls + t.location.column).min(chars.len());
            offs.push(o);
        }
    }
    offs.push(chars.len());
    offs.sort();
    offs.dedup();
    offs
}

pub fn chunks(text: &str, tokens: &[ParserToken]) -> Vec<String> {
    let chars: Vec<char> = text.chars().collect();
    let offs = chunk_starts(text, tokens);
    offs.windows(2).map(|w| chars[w[0]..w[1]].iter().collect::<String>()).filter(|s| !s.is_empty()).collect()
}

/// one mutation of a chunk list: (mutated text, mutation name)
pub fn mutate_chunks(rng: &mut Rng, cs: &[String]) -> (String, &'static str) {
    let mut v: Vec<String> = cs.to_vec();
    if v.is_empty() { return (String::new(), "empty"); }
    let i = rng.below(v.len());
    let name = match rng.below(5) {
        0 => { v.remove(i); "delete" }
        1 => { let c = v[i].clone(); v.insert(i, c); "duplicate" }
        2 => { if v.len() > 1 { let j = if i + 1 < v.len() { i + 1 } else { i - 1 }; v.swap(i, j); } "swap" }
        3 => { let j = rng.below(v.len()); v.swap(i, j); "swap-far" }
        _ => { v[i] = format!(" {} ", rng.pick(VOCAB)); "replace" }
    };
    (v.concat(), name)
}

/// token-level mutations of a token vector (the last token, `End`, stays in place)
pub fn mutate_tokens(rng: &mut Rng, ts: &[ParserToken], pool: &[ParserToken]) -> (Vec<ParserToken>, &'static str) {
    let mut v: Vec<ParserToken> = ts.to_vec();
    if v.len() < 2 { return (v, "short"); }
    let n = v.len() - 1;
    let i = rng.below(n);
    let name = match rng.below(6) {
        0 => { v.remove(i); "delete" }
        1 => { let c = v[i].clone(); v.insert(i, c); "duplicate" }
        2 => { let j = if i + 1 < n { i + 1 } else if i > 0 { i - 1 } else { i }; v.swap(i, j); "swap" }
        3 => { let j = rng.below(n); v.swap(i, j); "swap-far" }
        4 => { if !pool.is_empty() { let loc = v[i].location.clone(); v[i] = rng.pick(pool).clone(); v[i].location = loc; } "replace" }
        _ => { if !pool.is_empty() { let mut t = rng.pick(pool).clone(); t.location = v[i].location.clone(); v.insert(i, t); } "insert" }
    };
    (v, name)
}

/// a pool of tokens over the SQL vocabulary (as the real tokenizer produces them)
pub fn token_pool() -> Vec<ParserToken> {
    let mut pool = Vec::new();
    for w in VOCAB {
        if let Caught::Done(Ok(ts)) = tokenize_caught(w) {
            for t in ts {
                if t.token != Token::End { pool.push(t); }
            }
        }
    }
    for w in &["IS NOT", "NOT IN", "x::int", "=>", "a.b", "-- c"] {
        if let Caught::Done(Ok(ts)) = tokenize_caught(w) {
            for t in ts {
                if t.token != Token::End { pool.push(t); }
            }
        }
    }
    pool
}
