import SqlgrepModel.Lemmas.ExecT
import SqlgrepModel.Lemmas.NoiseRun
import SqlgrepModel.Lemmas.ReaderExec
import SqlgrepModel.Lemmas.InterruptLoad
/-
The traced batch loop (`Model/ExecT.lean`: what `Pipeline.runText` executes, with the calls of `OutputPrinter::print`
kept as data) under changes of the LINE STRUCTURE of its input:

* noise lines (C06): the run over files and a joined file equals, in everything but the line counter — the recorded
  print calls included —, the run over the same files without their noise lines (`runBatchT_noise`);
* file boundaries (C12): the run over several files is the run over the one file holding all their lines
  (`runBatchT_flatten`), LIMIT or not;
* an unreadable line (C12): a run whose statement never raises the LIMIT flag and whose input holds an unreadable line
  ends failed (`runWithIndexT_unreadable_fails`).

These strengthen `runBatch_noise` (Lemmas/NoiseRun.lean) and `exec_multi_file_eq_concat` (Props/C12.lean) from the text
rendering `RunOut.printed` to the result tables handed to the printer model, which is what the end-to-end answer is
computed from in every output format.
-/
namespace Sqlgrep
open Sqlgrep.Spec.Select

/-! ### one step of the traced loop -/

/-- the traced state after one line was counted, executed and its output handed to the printer -/
def advanceT (s : TraceState) (es1 : EngineState) (lo : LineOut) : TraceState :=
  { ls := advance s.ls es1 lo, calls := s.calls ++ callsOf lo.result }

theorem runFileT_cons_ok (O : Oracles) (qy : Query) (idx : JoinIndex) (w : Bool) (fl : FileLine) (rest : List FileLine)
    (s : TraceState) (es1 : EngineState) (lo : LineOut) (hr : fl.readable = true)
    (hx : executeLine O qy idx w s.ls.es fl.line = .ok (es1, lo)) :
    runFileT O qy idx w (fl :: rest) s =
      if lo.reachedLimit then { ls := { advance s.ls es1 lo with stop := true }, calls := s.calls ++ callsOf lo.result }
      else runFileT O qy idx w rest (advanceT s es1 lo) := by
  simp only [runFileT, hr, hx, Bool.not_true, Bool.false_eq_true, if_false, piece, advance, advanceT]
  cases lo.result <;> rfl

theorem runFileT_cons_unreadable (O : Oracles) (qy : Query) (idx : JoinIndex) (w : Bool) (fl : FileLine) (rest : List FileLine)
    (s : TraceState) (hr : fl.readable = false) :
    (runFileT O qy idx w (fl :: rest) s).calls = s.calls ∧ (runFileT O qy idx w (fl :: rest) s).ls.stop = true := by
  simp only [runFileT, hr, Bool.not_false, if_true, and_self]

theorem runFileT_cons_fail (O : Oracles) (qy : Query) (idx : JoinIndex) (w : Bool) (fl : FileLine) (rest : List FileLine)
    (s : TraceState) (hr : fl.readable = true) (hx : ∀ p, executeLine O qy idx w s.ls.es fl.line ≠ .ok p) :
    (runFileT O qy idx w (fl :: rest) s).calls = s.calls ∧ (runFileT O qy idx w (fl :: rest) s).ls.stop = true := by
  simp only [runFileT, hr, Bool.not_true, Bool.false_eq_true, if_false]
  cases h : executeLine O qy idx w s.ls.es fl.line with
  | ok p => exact absurd h (hx p)
  | error k => exact ⟨rfl, rfl⟩
  | panic k => exact ⟨rfl, rfl⟩
  | oracleMissing k => exact ⟨rfl, rfl⟩

/-! ### noise lines -/

/-- the print calls recorded over a file are those recorded over the file without its noise lines -/
theorem runFileT_noise_calls (O : Oracles) (qy : Query) (idx : JoinIndex) (w : Bool) (flag : EngineState → Bool)
    (hflag : ∀ es es1 l lo, executeLine O qy idx w es l = .ok (es1, lo) → lo.reachedLimit = flag es1)
    (fls : List FileLine) (a b : TraceState) (hes : a.ls.es = b.ls.es) (hc : a.calls = b.calls) (h0 : flag a.ls.es = false) :
    (runFileT O qy idx w fls a).calls = (runFileT O qy idx w (denoise fls) b).calls := by
  induction fls generalizing a b with
  | nil => exact hc
  | cons fl rest ih =>
    by_cases hr : fl.readable = true
    · by_cases ha : anyResult fl.line.row = true
      · have hkeep : denoise (fl :: rest) = fl :: denoise rest := by simp [denoise, isNoise, hr, ha]
        rw [hkeep]
        cases hx : executeLine O qy idx w a.ls.es fl.line with
        | ok p =>
          obtain ⟨es1, lo⟩ := p
          have hxb : executeLine O qy idx w b.ls.es fl.line = .ok (es1, lo) := by rw [← hes]; exact hx
          rw [runFileT_cons_ok O qy idx w fl rest a es1 lo hr hx, runFileT_cons_ok O qy idx w fl (denoise rest) b es1 lo hr hxb]
          by_cases hl : lo.reachedLimit = true
          · simp only [hl, if_true, hc]
          · simp only [hl, Bool.false_eq_true, if_false]
            refine ih _ _ rfl (by simp only [advanceT, hc]) ?_
            show flag es1 = false
            rw [← hflag a.ls.es es1 fl.line lo hx]; simpa using hl
        | error k =>
          have hna : ∀ p, executeLine O qy idx w a.ls.es fl.line ≠ .ok p := by intro p hp; rw [hx] at hp; cases hp
          have hnb : ∀ p, executeLine O qy idx w b.ls.es fl.line ≠ .ok p := by rw [← hes]; exact hna
          rw [(runFileT_cons_fail O qy idx w fl rest a hr hna).1, (runFileT_cons_fail O qy idx w fl (denoise rest) b hr hnb).1, hc]
        | panic k =>
          have hna : ∀ p, executeLine O qy idx w a.ls.es fl.line ≠ .ok p := by intro p hp; rw [hx] at hp; cases hp
          have hnb : ∀ p, executeLine O qy idx w b.ls.es fl.line ≠ .ok p := by rw [← hes]; exact hna
          rw [(runFileT_cons_fail O qy idx w fl rest a hr hna).1, (runFileT_cons_fail O qy idx w fl (denoise rest) b hr hnb).1, hc]
        | oracleMissing k =>
          have hna : ∀ p, executeLine O qy idx w a.ls.es fl.line ≠ .ok p := by intro p hp; rw [hx] at hp; cases hp
          have hnb : ∀ p, executeLine O qy idx w b.ls.es fl.line ≠ .ok p := by rw [← hes]; exact hna
          rw [(runFileT_cons_fail O qy idx w fl rest a hr hna).1, (runFileT_cons_fail O qy idx w fl (denoise rest) b hr hnb).1, hc]
      · have ha' : anyResult fl.line.row = false := by simpa using ha
        have hdrop : denoise (fl :: rest) = denoise rest := by simp [denoise, isNoise, hr, ha']
        rw [hdrop]
        have hx := executeLine_noise O qy idx w a.ls.es fl.line ha'
        have hfl : noiseFlag qy w a.ls.es = false := by
          have := hflag a.ls.es a.ls.es fl.line _ hx
          simp only at this
          rw [this]; exact h0
        rw [hfl] at hx
        rw [runFileT_cons_ok O qy idx w fl rest a _ _ hr hx]
        simp only [Bool.false_eq_true, if_false]
        exact ih _ b hes (by simp only [advanceT, callsOf, List.append_nil, hc]) h0
    · have hr' : fl.readable = false := by simpa using hr
      have hkeep : denoise (fl :: rest) = fl :: denoise rest := by simp [denoise, isNoise, hr']
      rw [hkeep, (runFileT_cons_unreadable O qy idx w fl rest a hr').1, (runFileT_cons_unreadable O qy idx w fl (denoise rest) b hr').1, hc]

/-- two traced states that differ at most in the line counters -/
structure TSim (a b : TraceState) : Prop where
  ls : Sim a.ls b.ls
  calls : a.calls = b.calls

theorem runFilesT_noise (O : Oracles) (qy : Query) (idx : JoinIndex) (w : Bool) (flag : EngineState → Bool)
    (hflag : ∀ es es1 l lo, executeLine O qy idx w es l = .ok (es1, lo) → lo.reachedLimit = flag es1)
    (hreach : ∀ es, reachedLimit qy es = false → flag es = false)
    (files : List (List FileLine)) (a b : TraceState) (hs : TSim a b) :
    TSim (runFilesT O qy idx w files a) (runFilesT O qy idx w (files.map denoise) b) := by
  induction files generalizing a b with
  | nil => exact hs
  | cons f rest ih =>
    simp only [runFilesT, List.map_cons, ← hs.ls.es, ← hs.ls.stop]
    by_cases hc : (a.ls.stop || reachedLimit qy a.ls.es) = true
    · simp only [hc, if_true]; exact hs
    · simp only [hc, Bool.false_eq_true, if_false]
      have h0 : flag a.ls.es = false := by
        apply hreach
        cases h : reachedLimit qy a.ls.es with
        | false => rfl
        | true => simp [h] at hc
      have h1 : TSim (runFileT O qy idx w f a) (runFileT O qy idx w (denoise f) b) := by
        refine ⟨?_, runFileT_noise_calls O qy idx w flag hflag f a b hs.ls.es hs.calls h0⟩
        rw [runFileT_ls, runFileT_ls]
        exact (runFile_noise O qy idx w flag hflag f a.ls b.ls hs.ls h0).1
      rw [← h1.ls.stop]
      by_cases hst : (runFileT O qy idx w f a).ls.stop = true
      · simp only [hst, if_true]; exact h1
      · simp only [hst, Bool.false_eq_true, if_false]
        exact ih _ _ h1

/-- two traced runs that differ at most in `totalLines`: same print calls, same text, same way of ending -/
structure TSame (a b : TraceOut) : Prop where
  out : SameOut a.out b.out
  calls : a.calls = b.calls

theorem TSame.refl (a : TraceOut) : TSame a a := ⟨SameOut.refl _, rfl⟩
theorem TSame.symm {a b : TraceOut} (h : TSame a b) : TSame b a := ⟨h.1.symm, h.2.symm⟩
theorem TSame.trans {a b c : TraceOut} (h : TSame a b) (h' : TSame b c) : TSame a c := ⟨h.1.trans h'.1, h.2.trans h'.2⟩

/-- **noise lines of the input files are invisible to the traced run**, whatever the outcome of the join set-up -/
theorem runWithIndexT_noise (O : Oracles) (qy : Query) (idxO : Outcome JoinIndex) (files : List (List FileLine)) :
    TSame (runWithIndexT O qy idxO files) (runWithIndexT O qy idxO (files.map denoise)) := by
  cases idxO with
  | ok idx =>
    unfold runWithIndexT
    cases hq : qy.stmt with
    | select q =>
      have hsim := runFilesT_noise O qy idx true (reachedLimit qy)
        (fun es es1 l lo hx => executeLine_select_reached O qy q hq idx true es es1 l lo hx) (fun _ h => h)
        files {} {} ⟨⟨rfl, rfl, rfl, rfl, rfl, rfl⟩, rfl⟩
      simp only [Bool.not_false]
      rw [← hasFailed_sameOut hsim.ls.sameOut]
      split <;> exact ⟨hsim.ls.sameOut, hsim.calls⟩
    | aggregate q =>
      have hsim := runFilesT_noise O qy idx false (fun _ => false)
        (fun es es1 l lo hx => (executeLine_agg_update_out O qy hq idx es es1 l lo hx).2.1) (fun _ _ => rfl)
        files {} {} ⟨⟨rfl, rfl, rfl, rfl, rfl, rfl⟩, rfl⟩
      simp only [Bool.not_true]
      rw [← hasFailed_sameOut hsim.ls.sameOut, ← hsim.ls.es]
      split
      · exact ⟨hsim.ls.sameOut, hsim.calls⟩
      · cases finalResult O q (runFilesT O qy idx false files {}).ls.es with
        | ok r =>
          exact ⟨⟨by simp only [hsim.ls.printed], hsim.ls.error, hsim.ls.panicked, hsim.ls.skipped⟩, by simp only [hsim.calls]⟩
        | error k => exact ⟨sameOut_failWith hsim.ls.sameOut (.error k : Outcome RowOut), hsim.calls⟩
        | panic s => exact ⟨sameOut_failWith hsim.ls.sameOut (.panic s : Outcome RowOut), hsim.calls⟩
        | oracleMissing s => exact ⟨sameOut_failWith hsim.ls.sameOut (.oracleMissing s : Outcome RowOut), hsim.calls⟩
  | error k => exact TSame.refl _
  | panic s => exact TSame.refl _
  | oracleMissing s => exact TSame.refl _

/-- noise lines of the joined file leave no trace in the join set-up -/
theorem joinSetup_noise (qy : Query) (joined : Option (List FileLine)) :
    joinSetup qy (joined.map denoise) = joinSetup qy joined := by
  unfold joinSetup
  cases qy.join with
  | none => rfl
  | some j =>
    cases joined with
    | none => rfl
    | some jl =>
      simp only [Option.map_some]
      rw [loadJoinFileI_none, loadJoinFileI_none, loadJoinFile_noise]

/-- **noise lines are invisible to the traced batch run** — in the input files and in the joined file, for every
statement kind: same print calls, same text records, same error / panic / skip; only `totalLines` may differ -/
theorem runBatchT_noise (O : Oracles) (qy : Query) (joined : Option (List FileLine)) (files : List (List FileLine)) :
    TSame (runBatchT O qy joined files) (runBatchT O qy (joined.map denoise) (files.map denoise)) := by
  unfold runBatchT
  rw [joinSetup_noise]
  exact runWithIndexT_noise O qy _ files

/-- two joined files with the same rows give the same run -/
theorem runBatchT_joined_noise (O : Oracles) (qy : Query) (j₁ j₂ : List FileLine) (files : List (List FileLine))
    (h : denoise j₁ = denoise j₂) : runBatchT O qy (some j₁) files = runBatchT O qy (some j₂) files := by
  unfold runBatchT
  have h1 := joinSetup_noise qy (some j₁)
  have h2 := joinSetup_noise qy (some j₂)
  simp only [Option.map_some] at h1 h2
  rw [← h1, ← h2, h]

/-! ### file boundaries -/

theorem runFile_nostop (O : Oracles) (qy : Query) (idx : JoinIndex) (w : Bool) (fls : List FileLine) (ls : LoopState)
    (hrl : reachedLimit qy ls.es = false) (h : (runFile O qy idx w none fls ls).stop = false) :
    reachedLimit qy (runFile O qy idx w none fls ls).es = false := by
  induction fls generalizing ls with
  | nil => exact hrl
  | cons fl rest ih =>
    have hn : ((none : Option Nat) == some ls.consumed) = false := rfl
    by_cases hr : fl.readable = true
    · cases hx : executeLine O qy idx w ls.es fl.line with
      | ok p =>
        obtain ⟨es1, lo⟩ := p
        rw [runFile_cons_ok O qy idx w fl rest ls es1 lo hr hx] at h ⊢
        by_cases hl : lo.reachedLimit = true
        · simp [hl] at h
        · simp only [hl, Bool.false_eq_true, if_false] at h ⊢
          exact ih _ (executeLine_limit_flag O qy idx w ls.es es1 fl.line lo hx (by simpa using hl)) h
      | error k => simp [runFile, hn, hr, hx] at h
      | panic k => simp [runFile, hn, hr, hx] at h
      | oracleMissing k => simp [runFile, hn, hr, hx] at h
    · have hr' : fl.readable = false := by simpa using hr
      simp [runFile, hn, hr'] at h

theorem runFileT_append (O : Oracles) (qy : Query) (idx : JoinIndex) (w : Bool) (a b : List FileLine) (s : TraceState)
    (hst : s.ls.stop = false) :
    runFileT O qy idx w (a ++ b) s =
      if (runFileT O qy idx w a s).ls.stop then runFileT O qy idx w a s else runFileT O qy idx w b (runFileT O qy idx w a s) := by
  induction a generalizing s with
  | nil => simp [runFileT, hst]
  | cons fl rest ih =>
    by_cases hr : fl.readable = true
    · cases hx : executeLine O qy idx w s.ls.es fl.line with
      | ok p =>
        obtain ⟨es1, lo⟩ := p
        rw [List.cons_append, runFileT_cons_ok O qy idx w fl (rest ++ b) s es1 lo hr hx,
          runFileT_cons_ok O qy idx w fl rest s es1 lo hr hx]
        by_cases hl : lo.reachedLimit = true
        · simp only [hl, if_true]
        · simp only [hl, Bool.false_eq_true, if_false]
          exact ih _ hst
      | error k => simp [runFileT, hr, hx]
      | panic k => simp [runFileT, hr, hx]
      | oracleMissing k => simp [runFileT, hr, hx]
    · have hr' : fl.readable = false := by simpa using hr
      simp [runFileT, hr']

/-- the double loop over files is the single loop over all their lines -/
theorem runFilesT_flatten (O : Oracles) (qy : Query) (idx : JoinIndex) (w : Bool) (files : List (List FileLine))
    (s : TraceState) (hst : s.ls.stop = false) (hrl : reachedLimit qy s.ls.es = false) :
    runFilesT O qy idx w files s = runFileT O qy idx w files.flatten s := by
  induction files generalizing s with
  | nil => simp [runFilesT, runFileT]
  | cons f rest ih =>
    rw [runFilesT, List.flatten_cons, runFileT_append O qy idx w f rest.flatten s hst]
    simp only [hst, hrl, Bool.or_self, Bool.false_eq_true, if_false]
    by_cases h1 : (runFileT O qy idx w f s).ls.stop = true
    · simp only [h1, if_true]
    · simp only [h1, Bool.false_eq_true, if_false]
      have h1' : (runFileT O qy idx w f s).ls.stop = false := by simpa using h1
      refine ih _ h1' ?_
      rw [runFileT_ls] at h1' ⊢
      exact runFile_nostop O qy idx w f s.ls hrl h1'

/-- **several files = the one file holding all their lines**, for the traced run: every statement, join, LIMIT -/
theorem runWithIndexT_flatten (O : Oracles) (qy : Query) (idxO : Outcome JoinIndex) (files : List (List FileLine)) :
    runWithIndexT O qy idxO files = runWithIndexT O qy idxO [files.flatten] := by
  cases idxO with
  | ok idx =>
    have key : ∀ w, runFilesT O qy idx w files {} = runFilesT O qy idx w [files.flatten] {} := by
      intro w
      by_cases hrl : reachedLimit qy ({} : TraceState).ls.es = true
      · cases files with
        | nil => simp [runFilesT, runFileT]
        | cons f rest => simp [runFilesT, hrl]
      · have hrl' : reachedLimit qy ({} : TraceState).ls.es = false := by simpa using hrl
        rw [runFilesT_flatten O qy idx w files {} rfl hrl', runFilesT_flatten O qy idx w [files.flatten] {} rfl hrl']
        simp
    simp only [runWithIndexT, key]
  | error k => rfl
  | panic s => rfl
  | oracleMissing s => rfl

theorem runBatchT_flatten (O : Oracles) (qy : Query) (joined : Option (List FileLine)) (files : List (List FileLine)) :
    runBatchT O qy joined files = runBatchT O qy joined [files.flatten] :=
  runWithIndexT_flatten O qy _ files

/-! ### an unreadable line -/

/-- a statement that never raises the LIMIT flag in the batch loop: no LIMIT clause on a non-aggregate statement (the
LIMIT of an aggregate statement applies to the final table only) -/
def NoLimit : Stmt → Prop
  | .select s => s.limit = none
  | .aggregate _ => True

theorem noLimit_flag_select (O : Oracles) (qy : Query) (q : SelectStmt) (hq : qy.stmt = .select q) (h : q.limit = none)
    (idx : JoinIndex) (w : Bool) (es es1 : EngineState) (l : Line) (lo : LineOut)
    (hx : executeLine O qy idx w es l = .ok (es1, lo)) : lo.reachedLimit = false := by
  rw [executeLine_select_reached O qy q hq idx _ es es1 l lo hx]
  simp [reachedLimit, hq, h]

theorem noLimit_start (qy : Query) (h : NoLimit qy.stmt) (es : EngineState) : reachedLimit qy es = false := by
  cases hq : qy.stmt with
  | select q => rw [hq] at h; simp only [NoLimit] at h; simp [reachedLimit, hq, h]
  | aggregate q => simp [reachedLimit, hq]

/-- a file loop that meets an unreadable line, with a statement that never raises the LIMIT flag, ends stopped and failed -/
theorem runFile_unreadable (O : Oracles) (qy : Query) (idx : JoinIndex) (w : Bool)
    (hflag : ∀ es es1 l lo, executeLine O qy idx w es l = .ok (es1, lo) → lo.reachedLimit = false)
    (fls : List FileLine) (ls : LoopState) (hbad : ∃ fl ∈ fls, fl.readable = false) :
    (runFile O qy idx w none fls ls).stop = true ∧ hasFailed (runFile O qy idx w none fls ls).out = true := by
  induction fls generalizing ls with
  | nil => obtain ⟨fl, hm, _⟩ := hbad; cases hm
  | cons fl rest ih =>
    have hn : ((none : Option Nat) == some ls.consumed) = false := rfl
    by_cases hr : fl.readable = true
    · have hbad' : ∃ fl ∈ rest, fl.readable = false := by
        obtain ⟨x, hm, hx⟩ := hbad
        rcases List.mem_cons.1 hm with rfl | hm'
        · rw [hr] at hx; cases hx
        · exact ⟨x, hm', hx⟩
      cases hx : executeLine O qy idx w ls.es fl.line with
      | ok p =>
        obtain ⟨es1, lo⟩ := p
        rw [runFile_cons_ok O qy idx w fl rest ls es1 lo hr hx]
        simp only [hflag ls.es es1 fl.line lo hx, Bool.false_eq_true, if_false]
        exact ih _ hbad'
      | error k => simp [runFile, hn, hr, hx, failWith, hasFailed]
      | panic k => simp [runFile, hn, hr, hx, failWith, hasFailed]
      | oracleMissing k => simp [runFile, hn, hr, hx, failWith, hasFailed]
    · have hr' : fl.readable = false := by simpa using hr
      simp [runFile, hn, hr', hasFailed]

/-- a file loop without an unreadable line, with a statement that never raises the LIMIT flag: stopped ⇒ failed -/
theorem runFile_stop_failed (O : Oracles) (qy : Query) (idx : JoinIndex) (w : Bool)
    (hflag : ∀ es es1 l lo, executeLine O qy idx w es l = .ok (es1, lo) → lo.reachedLimit = false)
    (fls : List FileLine) (ls : LoopState) (hinv : ls.stop = true → hasFailed ls.out = true) :
    (runFile O qy idx w none fls ls).stop = true → hasFailed (runFile O qy idx w none fls ls).out = true := by
  induction fls generalizing ls with
  | nil => exact hinv
  | cons fl rest ih =>
    have hn : ((none : Option Nat) == some ls.consumed) = false := rfl
    by_cases hr : fl.readable = true
    · cases hx : executeLine O qy idx w ls.es fl.line with
      | ok p =>
        obtain ⟨es1, lo⟩ := p
        rw [runFile_cons_ok O qy idx w fl rest ls es1 lo hr hx]
        simp only [hflag ls.es es1 fl.line lo hx, Bool.false_eq_true, if_false]
        refine ih _ ?_
        intro hs
        have := hinv hs
        simpa [advance, hasFailed] using this
      | error k => simp [runFile, hn, hr, hx, failWith, hasFailed]
      | panic k => simp [runFile, hn, hr, hx, failWith, hasFailed]
      | oracleMissing k => simp [runFile, hn, hr, hx, failWith, hasFailed]
    · have hr' : fl.readable = false := by simpa using hr
      simp [runFile, hn, hr', hasFailed]

theorem runFiles_unreadable (O : Oracles) (qy : Query) (idx : JoinIndex) (w : Bool)
    (hflag : ∀ es es1 l lo, executeLine O qy idx w es l = .ok (es1, lo) → lo.reachedLimit = false)
    (hstart : ∀ es, reachedLimit qy es = false)
    (files : List (List FileLine)) (ls : LoopState) (hinv : ls.stop = true → hasFailed ls.out = true)
    (hbad : ∃ fl ∈ files.flatten, fl.readable = false) :
    hasFailed (runFiles O qy idx w none files ls).out = true := by
  induction files generalizing ls with
  | nil => obtain ⟨fl, hm, _⟩ := hbad; simp at hm
  | cons f rest ih =>
    simp only [runFiles, hstart, Bool.or_false]
    by_cases hs : ls.stop = true
    · simp only [hs, if_true]; exact hinv hs
    · simp only [hs, Bool.false_eq_true, if_false]
      by_cases hf : ∃ fl ∈ f, fl.readable = false
      · obtain ⟨h1, h2⟩ := runFile_unreadable O qy idx w hflag f ls hf
        simp only [h1, if_true]; exact h2
      · have hinv' := runFile_stop_failed O qy idx w hflag f ls hinv
        by_cases h1 : (runFile O qy idx w none f ls).stop = true
        · simp only [h1, if_true]; exact hinv' h1
        · simp only [h1, Bool.false_eq_true, if_false]
          refine ih _ hinv' ?_
          obtain ⟨x, hm, hx⟩ := hbad
          rw [List.flatten_cons, List.mem_append] at hm
          rcases hm with hm | hm
          · exact absurd ⟨x, hm, hx⟩ hf
          · exact ⟨x, hm, hx⟩

/-- **an unreadable line is never passed over silently**: the traced run of a statement without LIMIT flag over input
that holds an unreadable line ends failed (an error kind, or a missing oracle fact; never `Ok`), whatever the join -/
theorem runWithIndexT_unreadable_fails (O : Oracles) (qy : Query) (hnl : NoLimit qy.stmt) (idxO : Outcome JoinIndex)
    (files : List (List FileLine)) (hbad : ∃ fl ∈ files.flatten, fl.readable = false) :
    hasFailed (runWithIndexT O qy idxO files).out = true := by
  rw [runWithIndexT_out]
  cases idxO with
  | ok idx =>
    cases hq : qy.stmt with
    | select q =>
      rw [hq] at hnl
      have h := runFiles_unreadable O qy idx true (fun es es1 l lo hx => noLimit_flag_select O qy q hq hnl idx true es es1 l lo hx)
        (noLimit_start qy (by rw [hq]; exact hnl)) files {} (by intro h; cases h) hbad
      simp only [runWithIndex, hq, Bool.not_false]
      rw [if_pos h]
      exact h
    | aggregate q =>
      have h := runFiles_unreadable O qy idx false
        (fun es es1 l lo hx => (executeLine_agg_update_out O qy hq idx es es1 l lo hx).2.1)
        (noLimit_start qy (by rw [hq]; trivial)) files {} (by intro h; cases h) hbad
      simp only [runWithIndex, hq, Bool.not_true]
      rw [if_pos h]
      exact h
  | error k => simp [runWithIndex, failWith, hasFailed]
  | panic s => simp [runWithIndex, failWith, hasFailed]
  | oracleMissing s => simp [runWithIndex, failWith, hasFailed]


/-! ### what is lost at an unreadable line: nothing before it -/

/-- a file loop left without a stop has not failed -/
theorem runFile_nostop_ok (O : Oracles) (qy : Query) (idx : JoinIndex) (w : Bool) (fls : List FileLine) (ls : LoopState)
    (h0 : hasFailed ls.out = false) (h : (runFile O qy idx w none fls ls).stop = false) :
    hasFailed (runFile O qy idx w none fls ls).out = false := by
  induction fls generalizing ls with
  | nil => exact h0
  | cons fl rest ih =>
    have hn : ((none : Option Nat) == some ls.consumed) = false := rfl
    by_cases hr : fl.readable = true
    · cases hx : executeLine O qy idx w ls.es fl.line with
      | ok p =>
        obtain ⟨es1, lo⟩ := p
        rw [runFile_cons_ok O qy idx w fl rest ls es1 lo hr hx] at h ⊢
        by_cases hl : lo.reachedLimit = true
        · simp [hl] at h
        · simp only [hl, Bool.false_eq_true, if_false] at h ⊢
          exact ih _ (by simpa [advance, hasFailed] using h0) h
      | error k => simp [runFile, hn, hr, hx] at h
      | panic k => simp [runFile, hn, hr, hx] at h
      | oracleMissing k => simp [runFile, hn, hr, hx] at h
    · have hr' : fl.readable = false := by simpa using hr
      simp [runFile, hn, hr'] at h

/-- the traced state in which an unreadable line leaves the loop -/
def readErrorT (s : TraceState) : TraceState :=
  { s with ls := { s.ls with out := { s.ls.out with error := some .failReadFile }, stop := true } }

/-- **up to an unreadable line the loop is the loop over the lines before it**: it ends where that loop ended if that
loop stopped (failure, LIMIT), and otherwise in its final state with `FailReadFile` reported — no print call, no
engine state, no count of the lines before is lost, and nothing after is looked at -/
theorem runFileT_unreadable_after (O : Oracles) (qy : Query) (idx : JoinIndex) (w : Bool) (a b : List FileLine) (bad : FileLine)
    (hbad : bad.readable = false) (s : TraceState) (hst : s.ls.stop = false) :
    runFileT O qy idx w (a ++ bad :: b) s =
      if (runFileT O qy idx w a s).ls.stop then runFileT O qy idx w a s else readErrorT (runFileT O qy idx w a s) := by
  rw [runFileT_append O qy idx w a (bad :: b) s hst]
  split
  · rfl
  · simp only [runFileT, hbad, Bool.not_false, if_true, readErrorT]

theorem runFilesT_single (O : Oracles) (qy : Query) (idx : JoinIndex) (w : Bool) (x : List FileLine) (s : TraceState) :
    runFilesT O qy idx w [x] s = if s.ls.stop || reachedLimit qy s.ls.es then s else runFileT O qy idx w x s := by
  simp only [runFilesT]
  split
  · rfl
  · split <;> rfl

/-- the traced run of a non-aggregate statement over one file: the loop's out and calls -/
theorem runWithIndexT_select_single (O : Oracles) (qy : Query) (q : SelectStmt) (hq : qy.stmt = .select q) (idx : JoinIndex)
    (x : List FileLine) :
    runWithIndexT O qy (.ok idx) [x] =
      { out := (if reachedLimit qy ({} : EngineState) then ({} : TraceState) else runFileT O qy idx true x {}).ls.out,
        calls := (if reachedLimit qy ({} : EngineState) then ({} : TraceState) else runFileT O qy idx true x {}).calls } := by
  unfold runWithIndexT
  simp only [hq, Bool.not_false, runFilesT_single]
  have : (({} : TraceState).ls.stop || reachedLimit qy ({} : TraceState).ls.es) = reachedLimit qy ({} : EngineState) := by
    show (false || _) = _
    rw [Bool.false_or]
  rw [this]
  split <;> simp only [ite_self]

/-- **an unreadable line in the input of a non-aggregate statement**: the traced run over input whose lines are
`A ++ unreadable :: rest` is the run over `A` — if that one had already ended (an error, LIMIT reached, the join
set-up failed) — or else the run over `A`, which did not fail, with `FailReadFile` as its error: the same print calls,
the same count -/
theorem runWithIndexT_read_error (O : Oracles) (qy : Query) (q : SelectStmt) (hq : qy.stmt = .select q)
    (idxO : Outcome JoinIndex) (fs fsA : List (List FileLine)) (bad : FileLine) (rest : List FileLine)
    (hbad : bad.readable = false) (hsplit : fs.flatten = fsA.flatten ++ bad :: rest) :
    runWithIndexT O qy idxO fs = runWithIndexT O qy idxO fsA ∨
    (hasFailed (runWithIndexT O qy idxO fsA).out = false ∧
      runWithIndexT O qy idxO fs =
        { out := { (runWithIndexT O qy idxO fsA).out with error := some .failReadFile },
          calls := (runWithIndexT O qy idxO fsA).calls }) := by
  cases idxO with
  | ok idx =>
    rw [runWithIndexT_flatten O qy (.ok idx) fs, runWithIndexT_flatten O qy (.ok idx) fsA, hsplit,
      runWithIndexT_select_single O qy q hq, runWithIndexT_select_single O qy q hq]
    by_cases hrl : reachedLimit qy ({} : EngineState) = true
    · left; simp only [hrl, if_true]
    · simp only [hrl, Bool.false_eq_true, if_false]
      rw [runFileT_unreadable_after O qy idx true fsA.flatten rest bad hbad {} rfl]
      by_cases hs : (runFileT O qy idx true fsA.flatten {}).ls.stop = true
      · left; simp only [hs, if_true]
      · right
        simp only [hs, Bool.false_eq_true, if_false]
        refine ⟨?_, rfl⟩
        have hs' : (runFileT O qy idx true fsA.flatten {}).ls.stop = false := by simpa using hs
        rw [runFileT_ls] at hs' ⊢
        exact runFile_nostop_ok O qy idx true fsA.flatten _ rfl hs'
  | error k => left; rfl
  | panic s => left; rfl
  | oracleMissing s => left; rfl

end Sqlgrep
