import SqlgrepModel.Lemmas.SelectRun
/-
Lines that yield no row (`anyResult row = false`): every engine entry point returns the state unchanged and no
result; the join loader skips them.
-/
namespace Sqlgrep

/-- the `reached_limit` flag the engine returns with a line that yields no row (`update_limit` with no result) -/
def noiseFlag (qy : Query) (w : Bool) (es : EngineState) : Bool :=
  match qy.stmt with
  | .select q => match q.limit with
    | some n => decide (es.numOut ≥ n)
    | none => false
  | .aggregate q => if w then (match q.limit with
      | some n => decide (es.numOut ≥ n)
      | none => false) else false

theorem updateLimit_none (isSelect : Bool) (lim : Option Nat) (es : EngineState) :
    updateLimit isSelect lim es none =
      (es, { result := none, reachedLimit := match lim with
        | some n => decide (es.numOut ≥ n)
        | none => false }) := by
  cases lim <;> rfl

/-- **step identity**: on a line that yields no row, `executeLine` — SELECT, aggregate update-only (batch),
aggregate update+result (follow) — returns the engine state unchanged, no result, and the flag `noiseFlag` -/
theorem executeLine_noise (O : Oracles) (qy : Query) (idx : JoinIndex) (w : Bool) (es : EngineState) (l : Line)
    (h : anyResult l.row = false) :
    executeLine O qy idx w es l = .ok (es, { result := none, reachedLimit := noiseFlag qy w es }) := by
  unfold executeLine noiseFlag
  cases qy.stmt with
  | select q => simp only [h, Bool.not_false, if_true, updateLimit_none]
  | aggregate q =>
    cases w with
    | true => simp only [h, Bool.not_false, if_true, updateLimit_none]
    | false => simp [h]

/-- for a non-aggregate statement the flag is `reached_limit()` -/
theorem noiseFlag_select (qy : Query) (q : SelectStmt) (hq : qy.stmt = .select q) (w : Bool) (es : EngineState) :
    noiseFlag qy w es = reachedLimit qy es := by
  simp only [noiseFlag, reachedLimit, hq]
  cases q.limit <;> rfl

theorem noiseFlag_agg_update (qy : Query) (q : AggStmt) (hq : qy.stmt = .aggregate q) (es : EngineState) :
    noiseFlag qy false es = false := by
  simp [noiseFlag, hq]

/-! ### the join loader -/

theorem loadJoin_fold_filter (ki : Nat) (lines : List Line) (idx : JoinIndex) :
    lines.foldl (fun idx l => if anyResult l.row then joinIndexAdd idx (l.row.getD ki .null) l.row else idx) idx =
    (lines.filter (fun l => anyResult l.row)).foldl
      (fun idx l => if anyResult l.row then joinIndexAdd idx (l.row.getD ki .null) l.row else idx) idx := by
  induction lines generalizing idx with
  | nil => rfl
  | cons l ls ih =>
    by_cases h : anyResult l.row = true
    · simp only [List.foldl_cons, List.filter_cons, h, if_true]; exact ih _
    · simp only [List.foldl_cons, List.filter_cons, h, Bool.false_eq_true, if_false]; exact ih _

/-- the joined file's lines that yield no row leave no trace in the join index -/
theorem loadJoin_noise (j : JoinInfo) (lines : List Line) :
    loadJoin j lines = loadJoin j (lines.filter (fun l => anyResult l.row)) := by
  unfold loadJoin
  cases indexOf? j.joined.columns j.joinedColumn with
  | none => rfl
  | some ki => simp only [loadJoin_fold_filter ki lines []]

/-- a physical line is noise when it is readable and yields no row -/
def isNoise (fl : FileLine) : Bool := fl.readable && !anyResult fl.line.row

/-- a file without its noise lines (unreadable lines stay: they are errors, not noise) -/
def denoise (fls : List FileLine) : List FileLine := fls.filter (fun fl => !isNoise fl)

theorem loadJoinFile_noise (j : JoinInfo) (lines : List FileLine) :
    loadJoinFile j (denoise lines) = loadJoinFile j lines := by
  unfold loadJoinFile
  have hany : (denoise lines).any (fun fl => !fl.readable) = lines.any (fun fl => !fl.readable) := by
    induction lines with
    | nil => rfl
    | cons fl rest ih =>
      unfold denoise at ih ⊢
      by_cases hn : isNoise fl = true
      · have hr : fl.readable = true := by
          simp only [isNoise, Bool.and_eq_true] at hn; exact hn.1
        simp [hn, hr, ih]
      · simp [hn, ih]
  rw [hany]
  split
  · rfl
  · split
    · rfl
    · rename_i hbad
      have hall : ∀ fl ∈ lines, fl.readable = true := by
        intro fl hfl
        cases hr : fl.readable with
        | true => rfl
        | false =>
          exfalso; apply hbad
          exact List.any_eq_true.2 ⟨fl, hfl, by simp [hr]⟩
      rw [loadJoin_noise j (lines.map (·.line)), loadJoin_noise j ((denoise lines).map (·.line))]
      congr 1
      clear hany hbad
      induction lines with
      | nil => rfl
      | cons fl rest ih =>
        have hr : fl.readable = true := hall fl (List.mem_cons_self ..)
        have ih' := ih (fun x hx => hall x (List.mem_cons_of_mem _ hx))
        unfold denoise at ih' ⊢
        by_cases ha : anyResult fl.line.row = true
        · have hn : isNoise fl = false := by simp [isNoise, hr, ha]
          simp only [List.filter_cons, hn, Bool.not_false, if_true, List.map_cons, ha]
          rw [ih']
        · have hn : isNoise fl = true := by simp [isNoise, hr, ha]
          simp only [List.filter_cons, hn, Bool.not_true, Bool.false_eq_true, if_false, List.map_cons, ha]
          exact ih'

end Sqlgrep
