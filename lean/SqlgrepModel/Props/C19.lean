import SqlgrepModel.Lemmas.InterruptRun
import SqlgrepModel.Lemmas.InterruptFollow
/-
C19 — interrupting a query stops it promptly and leaves consistent output.

Model (`Model/Exec.lean`, `Model/ExecI.lean`): `runBatch O qy joined files stopAt` is `FileExecutor::execute`; the
`running` flag is sampled before each input line is looked at, and `stopAt = some k` says that it is found
cleared before the `k`-th line (0-based, counted over all files) — the place of the per-line hook, and the only
thing a clearing anywhere between the `k-1`-th and the `k`-th sample can change. After the loop an aggregate
statement still prints its table (`finalResult`). `runBatchI` adds the joined-file loader, which samples the flag
only before a line whose number `n` has `n > 0 ∧ n % 10 = 0`, then leaves with the PARTIAL index as a success;
the flag stays cleared, so the batch loop stops before its first line. `takeLines k files` = the first `k` input
lines. Every theorem holds for every clearing point (`∀ k`, `∀ m`), every statement, every file list, with and
without join, LIMIT, DISTINCT.
Not modelled: signal delivery and the ctrl-c handler thread (what is modelled is the flag flip between two
samples); follow mode is modelled (`runFollow`); the real `FollowFileExecutor` is run with its standard output captured (harness
`c19::run_follow`, `e2ef.rs`), the whole program through `Props/PipelineFollow.lean`, and the real binary is sent SIGINT by
`cli::interrupt_stream`.
Only this file states property theorems; helper lemmas live in `Lemmas/Interrupt*.lean`.
-/
namespace Sqlgrep.Props.C19
open Sqlgrep

/-- **An interrupted run is the uninterrupted run over the lines consumed before the interruption**: same
records, same line count, same outcome — for every statement and every clearing point. -/
theorem interrupt_is_run_over_prefix (O : Oracles) (qy : Query) (joined : List FileLine) (files : List (List FileLine))
    (k : Nat) : runBatch O qy joined files (some k) = runBatch O qy joined (takeLines k files) none := by
  rw [runBatch_eq_runWithIndex, runBatch_eq_runWithIndex, runWithIndex_stop_eq_take]

/-- **No further line is consumed**: after the flag is cleared before line `k`, at most `k` lines have been
consumed — and exactly `k` whenever the uninterrupted run gets that far -/
theorem interrupt_no_further_line (O : Oracles) (qy : Query) (joined : List FileLine) (files : List (List FileLine)) (k : Nat) :
    (runBatch O qy joined files (some k)).totalLines ≤ k ∧
    (k ≤ (runBatch O qy joined files none).totalLines → (runBatch O qy joined files (some k)).totalLines = k) := by
  rw [runBatch_eq_runWithIndex, runBatch_eq_runWithIndex]
  cases hidx : joinOutcome qy joined with
  | ok idx =>
    rw [runWithIndex_totalLines, runWithIndex_totalLines]
    generalize (!(match qy.stmt with
        | .aggregate _ => true
        | _ => false)) = w
    have hI := runFiles_sound O qy idx w (some k) files {} sound_init
    have hU := runFiles_sound O qy idx w none files {} sound_init
    have hle := runFiles_stop_eq_take O qy idx w k files {} (Nat.zero_le _)
    have hrel := runFiles_rel_init O qy idx w k files
    have hbound : (runFiles O qy idx w (some k) files {}).consumed ≤ k := by
      rcases hrel with h | h
      · have h1 := hI.1; have h2 := hU.1
        -- identical runs: bounded through the frozen/prefix form of the interrupted run
        have : ∀ (fs : List (List FileLine)) (ls : LoopState), ls.consumed ≤ k →
            (runFiles O qy idx w (some k) fs ls).consumed ≤ k := by
          intro fs
          induction fs with
          | nil => intro ls h; simpa [runFiles] using h
          | cons f rest ih =>
            intro ls h
            simp only [runFiles]
            split
            · exact h
            · split
              · exact runFile_stop_consumed_le O qy idx w k f ls h
              · exact ih _ (runFile_stop_consumed_le O qy idx w k f ls h)
        exact this files {} (Nat.zero_le _)
      · omega
    refine ⟨by rw [hI.1]; exact hbound, ?_⟩
    intro hk
    rcases hrel with h | h
    · rw [h] at hbound ⊢
      rw [hU.1] at hk ⊢
      omega
    · rw [hI.1]; exact h.1
  | error e => simp [runWithIndex, failWith]; omega
  | panic s => simp [runWithIndex, failWith]; omega
  | oracleMissing s => simp [runWithIndex, failWith]; omega

/-- **Everything printed is a prefix of what the uninterrupted query prints** (non-aggregate statements: any
files, LIMIT, DISTINCT, joins) -/
theorem interrupt_output_prefix (O : Oracles) (qy : Query) (q : SelectStmt) (hq : qy.stmt = .select q)
    (joined : List FileLine) (files : List (List FileLine)) (k : Nat) :
    (runBatch O qy joined files (some k)).printed <+: (runBatch O qy joined files none).printed := by
  rw [runBatch_eq_runWithIndex, runBatch_eq_runWithIndex]
  cases hidx : joinOutcome qy joined with
  | ok idx =>
    rw [runWithIndex_select O qy q hq, runWithIndex_select O qy q hq]
    rcases runFiles_rel_init O qy idx true k files with h | h
    · rw [h]; exact List.prefix_refl _
    · exact h.2.2
  | error e => exact List.prefix_refl _
  | panic s => exact List.prefix_refl _
  | oracleMissing s => exact List.prefix_refl _

/-- **An interrupted aggregate query prints exactly the table of the lines consumed before the interruption**:
nothing is printed inside the loop, and the final print is `finalResult` of the engine state reached over the
first `k` lines — the very table (and line count) of a batch run over that prefix -/
theorem interrupt_aggregate_table (O : Oracles) (qy : Query) (q : AggStmt) (hq : qy.stmt = .aggregate q)
    (joined : List FileLine) (files : List (List FileLine)) (k : Nat) (idx : JoinIndex)
    (hidx : joinOutcome qy joined = .ok idx) (r : RowOut)
    (hok : hasFailed (runFiles O qy idx false none (takeLines k files) {}).out = false)
    (hr : finalResult O q (runFiles O qy idx false none (takeLines k files) {}).es = .ok r) :
    (runBatch O qy joined files (some k)).printed = printResult r true ∧
    runBatch O qy joined files (some k) = runBatch O qy joined (takeLines k files) none := by
  refine ⟨?_, interrupt_is_run_over_prefix O qy joined files k⟩
  rw [interrupt_is_run_over_prefix, runBatch_eq_runWithIndex, hidx]
  simp only [runWithIndex, hq, Bool.not_true, hok, Bool.false_eq_true, if_false, hr]
  rw [runFiles_agg_silent O qy q hq idx none (takeLines k files) {}]
  rfl

/-- **The interruption itself never produces an error** (all statements): the outcome of the interrupted run
is the outcome of the run over the lines consumed before — error kind, panic flag and all -/
theorem interrupt_no_error (O : Oracles) (qy : Query) (joined : List FileLine) (files : List (List FileLine)) (k : Nat) :
    (runBatch O qy joined files (some k)).error = (runBatch O qy joined (takeLines k files) none).error ∧
    (runBatch O qy joined files (some k)).panicked = (runBatch O qy joined (takeLines k files) none).panicked := by
  rw [interrupt_is_run_over_prefix]; exact ⟨rfl, rfl⟩

/-- … and for a non-aggregate statement an interrupted run that reports a failure IS the uninterrupted run: the
failure arose before the clearing point was reached -/
theorem interrupt_no_error_select (O : Oracles) (qy : Query) (q : SelectStmt) (hq : qy.stmt = .select q)
    (joined : List FileLine) (files : List (List FileLine)) (k : Nat)
    (hf : hasFailed (runBatch O qy joined files (some k)) = true) :
    runBatch O qy joined files (some k) = runBatch O qy joined files none := by
  rw [runBatch_eq_runWithIndex, runBatch_eq_runWithIndex] at *
  cases hidx : joinOutcome qy joined with
  | ok idx =>
    rw [hidx, runWithIndex_select O qy q hq] at hf
    rw [runWithIndex_select O qy q hq, runWithIndex_select O qy q hq]
    rcases runFiles_rel_init O qy idx true k files with h | h
    · rw [h]
    · have hs := (runFiles_sound O qy idx true (some k) files {} sound_init).2 hf
      rw [h.2.1] at hs; cases hs
  | error e => rfl
  | panic s => rfl
  | oracleMissing s => rfl

/-! ### the joined-file loader -/

/-- the extended model is the model: without a clearing during the load, `runBatchI` is `runBatch` -/
theorem runBatchI_no_clear (O : Oracles) (qy : Query) (joined : List FileLine) (files : List (List FileLine))
    (stopAt : Option Nat) : (runBatchI O qy (some joined) files none stopAt).1 = runBatch O qy joined files stopAt := by
  rw [runBatch_eq_runWithIndex]
  unfold runBatchI joinOutcome
  cases hj : qy.join with
  | none => rfl
  | some j =>
    simp only
    rw [loadJoinFileI_none j joined]
    simp

/-- **At most ten more lines while the joined file is being loaded**: if the flag is cleared before line `m`
of the joined file, the loader has processed `n ≤ m + 10` lines when it leaves, and what it returns is the index
of exactly the first `n` lines (loaded without any interrupt) -/
theorem interrupt_loader_at_most_ten_more (j : JoinInfo) (joined : List FileLine) (m : Nat) (idx : JoinIndex) (n : Nat)
    (h : loadJoinFileI j (some joined) (some m) = .ok (idx, n)) :
    n ≤ m + 10 ∧ n ≤ joined.length ∧ loadJoinFileI j (some (joined.take n)) none = .ok (idx, n) := by
  unfold loadJoinFileI at h ⊢
  cases hk : indexOf? j.joined.columns j.joinedColumn with
  | none => rw [hk] at h; cases h
  | some ki =>
    rw [hk] at h
    simp only at h ⊢
    obtain ⟨_, h2, h3, _, _⟩ := loadJoinLoop_cut ki m joined 0 [] idx n h
    exact ⟨loadJoinLoop_at_most_ten ki m joined idx n h, by omega, by simpa using h3⟩

/-- **An interrupt during the load consumes no input line, prints what a run over no input prints, and is no
error**: the whole run equals the uninterrupted run over the partial joined file and an empty input (for an
aggregate statement: the table of zero lines) -/
theorem interrupt_during_load (O : Oracles) (qy : Query) (j : JoinInfo) (hj : qy.join = some j)
    (joined : List FileLine) (files : List (List FileLine)) (m : Nat) (stopAt : Option Nat)
    (hm : m < joined.length) (idx : JoinIndex) (n : Nat)
    (h : loadJoinFileI j (some joined) (some m) = .ok (idx, n)) :
    (runBatchI O qy (some joined) files (some m) stopAt).1 = runBatch O qy (joined.take n) [] none ∧
    (runBatchI O qy (some joined) files (some m) stopAt).1.totalLines = 0 := by
  have h3 := (interrupt_loader_at_most_ten_more j joined m idx n h).2.2
  have hI : (runBatchI O qy (some joined) files (some m) stopAt).1 =
      runWithIndex O qy (setupJoin qy.table j (.ok idx)) files (some 0) := by
    unfold runBatchI
    simp only [hj, h, Outcome.bind, hm, decide_true, if_true]
  have hU : runBatch O qy (joined.take n) [] none = runWithIndex O qy (setupJoin qy.table j (.ok idx)) [] none := by
    rw [runBatch_eq_runWithIndex]
    unfold joinOutcome
    simp only [hj]
    have := loadJoinFileI_none j (joined.take n)
    rw [h3] at this
    simp only [Outcome.bind] at this
    rw [← this]
  have hz : runWithIndex O qy (setupJoin qy.table j (.ok idx)) files (some 0) =
      runWithIndex O qy (setupJoin qy.table j (.ok idx)) [] none := by
    rw [runWithIndex_stop_eq_take]
    cases hs : setupJoin qy.table j (.ok idx) with
    | ok i =>
      simp only [runWithIndex, runFiles_takeLines_zero]
      rfl
    | error e => rfl
    | panic s => rfl
    | oracleMissing s => rfl
  refine ⟨by rw [hI, hU, hz], ?_⟩
  rw [hI, hz]
  cases hs : setupJoin qy.table j (.ok idx) with
  | ok i =>
    rw [runWithIndex_totalLines]
    simp [runFiles]
  | error e => simp [runWithIndex, failWith]
  | panic s => simp [runWithIndex, failWith]
  | oracleMissing s => simp [runWithIndex, failWith]

/-! ### follow mode (model of `FollowFileExecutor::execute`; tied to the code through the per-line engine step only) -/

/-- follow mode: an interrupted run is the uninterrupted run over the lines delivered before the interruption,
and consumes no further delivered line -/
theorem follow_interrupt_is_run_over_prefix (O : Oracles) (qy : Query) (lines : List Line) (k : Nat) :
    runFollowAll O qy (some k) lines = runFollowAll O qy none (lines.take k) ∧
    (runFollowAll O qy (some k) lines).totalLines ≤ k := by
  unfold runFollowAll
  split
  · exact ⟨rfl, Nat.zero_le _⟩
  · have h := runFollow_stop_eq_take O qy k lines {} (Nat.zero_le _)
    simp only [Nat.sub_zero] at h
    have hb := runFollow_consumed_le O qy none (lines.take k) {}
    rw [h]
    refine ⟨rfl, ?_⟩
    rw [List.length_take] at hb
    simp only at hb ⊢
    omega

/-- follow mode: everything printed (rows, or the successive tables of an aggregate statement) is a prefix of
what the uninterrupted run prints over the same delivered lines -/
theorem follow_interrupt_output_prefix (O : Oracles) (qy : Query) (lines : List Line) (k : Nat) :
    (runFollowAll O qy (some k) lines).printed <+: (runFollowAll O qy none lines).printed := by
  unfold runFollowAll
  split
  · exact List.prefix_refl _
  · rcases runFollow_rel O qy k lines {} (Nat.zero_le _) rfl with h | h
    · rw [h]; exact List.prefix_refl _
    · exact h.2.2

/-! ### non-vacuity -/

def exQ : Query :=
  { stmt := .select { projections := [("k", .column "k")], wildcard := false, filter := none, limit := none, distinct := false },
    table := { name := "t", columns := ["k"] }, join := none }
def exLine (b : Nat) : FileLine := { readable := true, line := { text := [b], row := [.text [b]] } }
def exO : Oracles := default

-- an interrupted run that really stops in the middle: 3 of 5 lines, records a strict prefix
example : (runBatch exO exQ [] [[exLine 97, exLine 98], [exLine 99, exLine 100, exLine 101]] (some 3)).totalLines = 3 := by decide
example : (runBatch exO exQ [] [[exLine 97, exLine 98], [exLine 99, exLine 100, exLine 101]] (some 3)).printed.length = 3 ∧
    (runBatch exO exQ [] [[exLine 97, exLine 98], [exLine 99, exLine 100, exLine 101]] none).printed.length = 5 := by decide
-- hypotheses of `interrupt_aggregate_table` on a COUNT(*) query interrupted before line 3 of 5: the loop over the
-- prefix does not fail and the final result exists (one row)
def exAgg : Query :=
  { stmt := .aggregate { items := [⟨"count0", .count none false, none⟩], filter := none, groupBy := none, having := none,
                         havingAggs := [], havingKeys := [], limit := none, distinct := false },
    table := { name := "t", columns := ["k"] }, join := none }
example : joinOutcome exAgg [] = .ok [] := rfl
example : hasFailed (runFiles exO exAgg [] false none
    (takeLines 3 [[exLine 97, exLine 98], [exLine 99, exLine 100, exLine 101]]) {}).out = false := by decide
example : (runBatch exO exAgg [] [[exLine 97, exLine 98], [exLine 99, exLine 100, exLine 101]] (some 3)).printed = ["count0: 3"] ∧
    (runBatch exO exAgg [] [[exLine 97, exLine 98], [exLine 99, exLine 100, exLine 101]] none).printed = ["count0: 5"] := by decide
-- hypotheses of `interrupt_during_load`: a 25-line joined file, flag cleared before its line 3 → 10 lines loaded
def exJ : JoinInfo := { joined := { name := "u", columns := ["k"] }, joinerColumn := "k", joinedColumn := "k", isOuter := false }
example : linesLoaded (loadJoinFileI exJ (some (List.replicate 25 (exLine 97))) (some 3)) = some 10 ∧
    3 < (List.replicate 25 (exLine 97)).length := by decide
-- the loader: cleared before line 3 of a 25-line file → 10 lines processed; before line 11 → 20
example : linesLoaded (loadJoinLoop 0 (some 3) (List.replicate 25 (exLine 97)) 0 []) = some 10 := by decide
example : linesLoaded (loadJoinLoop 0 (some 11) (List.replicate 25 (exLine 97)) 0 []) = some 20 := by decide
example : linesLoaded (loadJoinLoop 0 (some 21) (List.replicate 25 (exLine 97)) 0 []) = some 25 := by decide

end Sqlgrep.Props.C19
