import SqlgrepModel.Model.Eval
/- The evaluator model never takes a panic outcome (every former Rust panic site is a checked operation). -/
namespace Sqlgrep

/-- the outcome is not a panic -/
def NP {α : Type} (o : Outcome α) : Prop := o.isPanic = false

@[simp] theorem NP_ok {α : Type} (a : α) : NP (Outcome.ok a) := rfl
@[simp] theorem NP_pure {α : Type} (a : α) : NP (pure a : Outcome α) := rfl
@[simp] theorem NP_error {α : Type} (k : ErrKind) : NP (Outcome.error k : Outcome α) := rfl
@[simp] theorem NP_missing {α : Type} (w : String) : NP (Outcome.oracleMissing w : Outcome α) := rfl

theorem NP_bind {α β : Type} {x : Outcome α} {f : α → Outcome β} (hx : NP x) (hf : ∀ a, NP (f a)) : NP (x >>= f) := by
  cases x <;> simp_all [NP, bind, Outcome.bind, Outcome.isPanic]

theorem NP_bind' {α β : Type} {x : Outcome α} {f : α → Outcome β} (hx : NP x) (hf : ∀ a, NP (f a)) : NP (x.bind f) :=
  NP_bind hx hf

theorem NP_ofOption {α : Type} (k : ErrKind) (o : Option α) : NP (Outcome.ofOption k o) := by
  cases o <;> rfl

/-- case-split a definition that contains no panic constructor until every leaf is a non-panic constructor -/
macro "np" : tactic => `(tactic| (repeat' (first | rfl | split | (dsimp only))))

theorem NP_parseLit (O : Oracles) (t : VType) (s : Bytes) : NP (parseLit O t s) := by
  unfold parseLit; np

theorem NP_tsAdd (d s f ns : Int) : NP (tsAdd d s f ns) := by
  unfold tsAdd; np

theorem NP_ivChecked (ns : Int) : NP (ivChecked ns) := by
  unfold ivChecked; np

theorem NP_arith (op : ArithOp) (l r : Value) : NP (arith op l r) := by
  unfold arith
  repeat' (first | rfl | exact NP_tsAdd _ _ _ _ | exact NP_ivChecked _ | split | (dsimp only))

theorem NP_negate (v : Value) : NP (negate v) := by
  unfold negate; np

theorem NP_invert (v : Value) : NP (invert v) := by
  unfold invert; np

theorem NP_condHolds (v : Value) : NP (condHolds v) := by
  unfold condHolds; np

theorem NP_dateTrunc (p : Bytes) (d s f : Int) : NP (dateTrunc p d s f) := by
  unfold dateTrunc; np

theorem NP_castValue (O : Oracles) (v : Value) (t : VType) : NP (castValue O v t) := by
  unfold castValue
  split
  · apply NP_bind' (NP_parseLit _ _ _)
    intro r; cases r <;> rfl
  all_goals np

theorem NP_makeTimestampOf (y mo d h mi s us : Int) : NP (makeTimestampOf y mo d h mi s us) := by
  unfold makeTimestampOf; np

theorem NP_callFunction (O : Oracles) (f : Func) (args : List Value) : NP (callFunction O f args) := by
  unfold callFunction
  repeat' (first | rfl | exact NP_dateTrunc _ _ _ _ | exact NP_makeTimestampOf _ _ _ _ _ _ _ | split | (dsimp only))

macro "npb" : tactic => `(tactic| (repeat' (first
  | rfl | assumption
  | exact NP_arith _ _ _ | exact NP_negate _ | exact NP_invert _ | exact NP_condHolds _ | exact NP_callFunction _ _ _
  | exact NP_castValue _ _ _ | exact NP_ofOption _ _ | exact NP_parseLit _ _ _
  | (apply NP_bind) | (apply NP_bind') | (intro _) | split | (dsimp only))))

theorem NP_tsOfText (O : Oracles) (s : Bytes) : NP (tsOfText O s) := by
  unfold tsOfText
  exact NP_bind (NP_parseLit _ _ _) (fun p => by split <;> rfl)

theorem NP_coerceTs (O : Oracles) (lv rv : Value) : NP (coerceTs O lv rv) := by
  unfold coerceTs
  split
  · exact NP_bind' (NP_tsOfText _ _) (fun _ => rfl)
  · exact NP_bind' (NP_tsOfText _ _) (fun _ => rfl)
  · rfl

theorem NP_prepCompare (O : Oracles) (lv rv : Value) : NP (prepCompare O lv rv) := by
  unfold prepCompare
  exact NP_bind' (NP_coerceTs _ _ _) (fun p => by split <;> rfl)

mutual
theorem NP_eval (O : Oracles) (env : Env) : ∀ (e : Expr), NP (eval O env e)
  | .value _ => by simp only [eval]; npb
  | .column _ => by simp only [eval]; npb
  | .scoped _ _ => by simp only [eval]; npb
  | .wildcard => by simp only [eval]; npb
  | .compare _ l r => by
    have h1 := NP_eval O env l; have h2 := NP_eval O env r
    simp only [eval]
    refine NP_bind h1 (fun lv => NP_bind h2 (fun rv => NP_bind (NP_prepCompare O lv rv) (fun p => ?_)))
    split <;> rfl
  | .nullCmp _ l r => by
    have := NP_eval O env l; have := NP_eval O env r
    simp only [eval]; npb
  | .arith _ l r => by
    have := NP_eval O env l; have := NP_eval O env r
    simp only [eval]; npb
  | .boolOp _ l r => by
    have := NP_eval O env l; have := NP_eval O env r
    simp only [eval]; npb
  | .neg e => by
    have := NP_eval O env e
    simp only [eval]; npb
  | .not e => by
    have := NP_eval O env e
    simp only [eval]; npb
  | .inList _ e vs => by
    have := NP_eval O env e
    have h := NP_evalIn O env vs
    simp only [eval]
    apply NP_bind this
    intro v; exact h _ _ _
  | .call _ args => by
    have := NP_evalList O env args
    simp only [eval]; npb
  | .index a i => by
    have := NP_eval O env a; have := NP_eval O env i
    simp only [eval]; npb
  | .cast e _ => by
    have := NP_eval O env e
    simp only [eval]; npb
  | .case clauses els => by
    have := NP_evalCase O env clauses; have := NP_eval O env els
    simp only [eval]; npb
  | .groupKeyRef _ => by simp only [eval]; npb
  | .groupValueRef _ => by simp only [eval]; npb
theorem NP_evalList (O : Oracles) (env : Env) : ∀ (es : List Expr), NP (evalList O env es)
  | [] => by simp only [evalList]; npb
  | e :: es => by
    have := NP_eval O env e; have := NP_evalList O env es
    simp only [evalList]; npb
theorem NP_evalIn (O : Oracles) (env : Env) : ∀ (es : List Expr) (isNot : Bool) (v : Value) (anyNull : Bool),
    NP (evalIn O env isNot v anyNull es)
  | [], _, _, _ => by simp only [evalIn]; npb
  | e :: es, isNot, v, a => by
    have := NP_eval O env e
    have h := NP_evalIn O env es
    simp only [evalIn]
    apply NP_bind this
    intro x
    split
    · exact h _ _ _
    · split
      · exact h _ _ _
      · refine NP_bind (NP_prepCompare O v x) (fun p => ?_)
        split
        · rfl
        · exact h _ _ _
theorem NP_evalCase (O : Oracles) (env : Env) : ∀ (cs : List (Expr × Expr)), NP (evalCase O env cs)
  | [] => by simp only [evalCase]; npb
  | (c, r) :: rest => by
    have := NP_eval O env c; have := NP_eval O env r; have := NP_evalCase O env rest
    simp only [evalCase]; npb
end

end Sqlgrep
