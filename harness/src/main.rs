mod util;
mod runq;
mod witness;

fn main() {
    util::silence_panics();
    let args: Vec<String> = std::env::args().collect();
    let cmd = args.get(1).map(|s| s.as_str()).unwrap_or("");
    match cmd {
        "witness" => {
            // harness witness [ID|Cxx ...]  : run the defect witnesses on the implementation
            let filter: Vec<&String> = args.iter().skip(2).collect();
            let mut failed = 0;
            for w in witness::all() {
                if !filter.is_empty() && !filter.iter().any(|f| *f == w.id || w.props.contains(&f.as_str())) {
                    continue;
                }
                match (w.run)() {
                    Ok(()) => println!("HOLDS {} {:?} {}", w.id, w.props, w.what),
                    Err(e) => { failed += 1; println!("FAILS {} {:?} {} :: {}", w.id, w.props, w.what, e.replace('\n', "\\n")); }
                }
            }
            runq::cleanup_tmp();
            eprintln!("{} witnesses fail", failed);
        }
        _ => {
            eprintln!("usage: harness witness [ids]");
            std::process::exit(2);
        }
    }
}
