import SqlgrepModel.Model.Value
import SqlgrepModel.Model.DecFloat
/-
IEEE-754 binary64 arithmetic on bit patterns, in exact integer arithmetic (no `Float`): `+ − × ÷ sqrt` and `i64 as f64`
are *the correctly rounded (nearest, ties to even) result of the exact operation on the values of the operands*, which
is what the standard demands and what the hardware Rust runs on delivers. The exact result of an operation on two
finite patterns is a rational `N / D` (sum and product are dyadic, a quotient is a ratio of two dyadics, a square root is
bracketed by an integer square root with a sticky bit); `DecFloat.magBits N D` rounds it (`Lemmas/DecFloat.lean`
`magBits_nearest`, `magBits_tie_even`, `magBits_overflow_iff`). The special cases are those of the standard in the default
rounding mode:
* a NaN operand, `inf − inf`, `0 · inf`, `0 / 0`, `inf / inf`, `sqrt` of a negative number give NaN — the canonical quiet
  NaN `canonNaN` (payloads and the sign of a NaN are not observable in sqlgrep; the drivers canonicalise answers);
* an exact zero sum is `+0` unless both operands are `−0`; a zero product / quotient has the XOR of the signs;
  `sqrt(−0) = −0`;
* `x / 0 = ±inf` for `x ≠ 0`, `x / inf = ±0`, `inf · x = ±inf`; overflow gives `±inf`, underflow goes through the
  subnormals to `±0` (both are part of `magBits`).
`pow` is NOT here: Rust's `f64::powf` is the platform's libm, which is not correctly rounded — it stays a shipped fact.
-/
namespace Sqlgrep
namespace F64

def canonNaN : Nat := 0x7ff8000000000000
def signMask : Nat := 2 ^ 63
def posInf : Nat := 0x7ff0000000000000

/-! exact decomposition of a finite pattern: value = (-1)^s · m · 2^e -/
def expBits (n : Nat) : Nat := n / 2^52 % 2^11
def fracBits (n : Nat) : Nat := n % 2^52
def isInf (n : Nat) : Bool := mag n == 0x7ff0000000000000
/-- integer mantissa and binary exponent of a finite pattern -/
def mantExp (n : Nat) : Nat × Int :=
  if expBits n == 0 then (fracBits n, -1074) else (2^52 + fracBits n, (expBits n : Int) - 1075)

/-- the pattern with sign `neg` and magnitude bits `m` -/
def withSign (neg : Bool) (m : Nat) : Nat := if neg then signMask + m else m

/-- the REAL nearest to `(-1)^neg · n · 2^e` (`n`, `e` exact) -/
def roundDyadic (neg : Bool) (n : Nat) (e : Int) : Nat :=
  withSign neg (if 0 ≤ e then DecFloat.magBits (n * 2 ^ e.toNat) 1 else DecFloat.magBits n (2 ^ (-e).toNat))

/-- the signed integer mantissa of a finite pattern -/
def smant (a : Nat) : Int := if signBit a then -((mantExp a).1 : Int) else ((mantExp a).1 : Int)

/-- `a + b` -/
def addX (a b : Nat) : Nat :=
  if isNaN a || isNaN b then canonNaN
  else if isInf a then (if isInf b && (signBit a != signBit b) then canonNaN else a)
  else if isInf b then b
  else
    let e := min (mantExp a).2 (mantExp b).2
    let s : Int := smant a * 2 ^ ((mantExp a).2 - e).toNat + smant b * 2 ^ ((mantExp b).2 - e).toNat
    if s = 0 then (if signBit a && signBit b then signMask else 0)
    else roundDyadic (decide (s < 0)) s.natAbs e

/-- flips the sign bit -/
def negX (a : Nat) : Nat := if a / 2^63 % 2 == 1 then a - 2^63 else a + 2^63

/-- `a − b = a + (−b)` -/
def subX (a b : Nat) : Nat := addX a (negX b)

/-- `a · b` -/
def mulX (a b : Nat) : Nat :=
  if isNaN a || isNaN b then canonNaN
  else
    let neg := signBit a != signBit b
    if isInf a then (if mag b = 0 then canonNaN else withSign neg posInf)
    else if isInf b then (if mag a = 0 then canonNaN else withSign neg posInf)
    else roundDyadic neg ((mantExp a).1 * (mantExp b).1) ((mantExp a).2 + (mantExp b).2)

/-- `a / b` -/
def divX (a b : Nat) : Nat :=
  if isNaN a || isNaN b then canonNaN
  else
    let neg := signBit a != signBit b
    if isInf a then (if isInf b then canonNaN else withSign neg posInf)
    else if isInf b then withSign neg 0
    else if mag b = 0 then (if mag a = 0 then canonNaN else withSign neg posInf)
    else
      let e := (mantExp a).2 - (mantExp b).2
      withSign neg (if 0 ≤ e then DecFloat.magBits ((mantExp a).1 * 2 ^ e.toNat) (mantExp b).1
                    else DecFloat.magBits (mantExp a).1 ((mantExp b).1 * 2 ^ (-e).toNat))

/-- `⌊√n⌋` for `n < 4^bits`, bit by bit from the top (structural recursion, so the kernel can evaluate it) -/
def isqrtAux (n : Nat) : Nat → Nat → Nat
  | 0, r => r
  | i + 1, r => if (r + 2 ^ i) * (r + 2 ^ i) ≤ n then isqrtAux n i (r + 2 ^ i) else isqrtAux n i r

def isqrt (n : Nat) : Nat := isqrtAux n (n.log2 / 2 + 1) 0

/-- `sqrt a`. For a positive finite `a = m · 2^e`: with `t ∈ {112, 113}` of the parity of `e`, `M = m · 2^t ≥ 2^112`
and `a = M · 2^(e−t)`, `e − t` even; `s = ⌊√M⌋ ≥ 2^56` and `√a = √M · 2^((e−t)/2)` lies in `[s, s+1) · 2^((e−t)/2)`. No REAL and no
midpoint between two REALs lies strictly between `s` and `s + 1` in these units (they are multiples of 4 resp. 2 units, `s`
having at least 57 bits), and `√M` is never a midpoint (its square would need more than 53 significant bits), so `√M` rounds
like `s` when `M` is a perfect square and like `s + ½` when it is not. -/
def sqrtX (a : Nat) : Nat :=
  if isNaN a then canonNaN
  else if mag a = 0 then a
  else if signBit a then canonNaN
  else if isInf a then a
  else
    let (m, e) := mantExp a
    let t : Int := if (e - 112) % 2 = 0 then 112 else 113
    let bigM := m * 2 ^ t.toNat
    let s := isqrt bigM
    let sticky := if s * s = bigM then 0 else 1
    -- value (2s + sticky) · 2^(h − 1) with h = (e − t) / 2
    roundDyadic false (2 * s + sticky) ((e - t) / 2 - 1)

/-- `i as f64` -/
def ofIntX (i : Int) : Nat := DecFloat.decToF64 (decide (i < 0)) i.natAbs 0

/-- clears the sign bit -/
def absX (a : Nat) : Nat := a % 2^63

end F64
end Sqlgrep
