import SqlgrepModel.Model.FloatArith
/-
REAL arithmetic. Bit patterns are `Nat` (< 2^64). `+ − × ÷ sqrt` and `i64 as f64` are computed EXACTLY on the bit
patterns (`Model/FloatArith.lean`: the correctly rounded result of the exact operation, as IEEE-754 demands) — the kernel
can evaluate them and `Lemmas/FloatArith.lean` proves their laws. The hardware versions through Lean's opaque `Float`
(`addHw` …) are kept for the drivers' cross-check only: on every case each REAL operation is also done by the
hardware and a difference is reported (`fact-mismatch f64-arith`). `pow` (libm, not correctly rounded) is executed by
the hardware `Float` and, in the end-to-end facts, shipped.
`{:.2}` rendering and INT/REAL comparison are exact integer arithmetic on the bit pattern.
-/
namespace Sqlgrep
namespace F64

def toFloat (bits : Nat) : Float := Float.ofBits (UInt64.ofNat bits)
def ofFloat (f : Float) : Nat := f.toBits.toNat
/-- results are reported with NaN payloads normalised (payloads are not observable in sqlgrep) -/
def canon (bits : Nat) : Nat := if isNaN bits then canonNaN else bits

/-! the hardware operations (cross-check only) -/
def addHw (a b : Nat) : Nat := ofFloat (toFloat a + toFloat b)
def subHw (a b : Nat) : Nat := ofFloat (toFloat a - toFloat b)
def mulHw (a b : Nat) : Nat := ofFloat (toFloat a * toFloat b)
def divHw (a b : Nat) : Nat := ofFloat (toFloat a / toFloat b)
def sqrtHw (a : Nat) : Nat := ofFloat (Float.sqrt (toFloat a))
def ofIntHw (i : Int) : Nat := ofFloat (Float.ofInt i)

/-! the model's operations: exact (`Model/FloatArith.lean`) -/
def add (a b : Nat) : Nat := addX a b
def sub (a b : Nat) : Nat := subX a b
def mul (a b : Nat) : Nat := mulX a b
def div (a b : Nat) : Nat := divX a b
def sqrt (a : Nat) : Nat := sqrtX a
def pow (a b : Nat) : Nat := ofFloat (Float.pow (toFloat a) (toFloat b))      -- libm: stays outside
def neg (a : Nat) : Nat := negX a                                              -- flips the sign bit
def abs (a : Nat) : Nat := absX a                                              -- clears the sign bit
def ofInt (i : Int) : Nat := ofIntX i                                          -- `i as f64`
def zero : Nat := 0

/-- `f64::max`/`f64::min` (Rust: if one operand is NaN the other is returned) -/
def fmax (a b : Nat) : Nat :=
  if isNaN a then b else if isNaN b then a else if key a < key b then b else a
def fmin (a b : Nat) : Nat :=
  if isNaN a then b else if isNaN b then a else if key b < key a then b else a

/-- exact comparison of an integer with a REAL (`compare_int_float`): NaN is greater than every number -/
def cmpIntReal (x : Int) (y : Nat) : Ordering :=
  if isNaN y then .lt
  else if isInf y then (if signBit y then .gt else .lt)
  else
    let (m, e) := mantExp y
    -- compare x with s·m·2^e exactly
    let sm : Int := if signBit y then -(m : Int) else m
    if e ≥ 0 then compare x (sm * 2^e.toNat)
    else compare (x * 2^(-e).toNat) sm

/-- `format!("{:.2}", f)`: exact decimal expansion rounded half-to-even to two places -/
def fmt2 (n : Nat) : String :=
  if isNaN n then "NaN"
  else
    let sign := if signBit n then "-" else ""
    if isInf n then sign ++ "inf"
    else
      let (m, e) := mantExp n
      let q : Nat :=
        if e ≥ 0 then m * 2^e.toNat * 100
        else
          let den := 2^(-e).toNat
          let num := m * 100
          let q := num / den
          let r := num % den
          if 2 * r > den then q + 1 else if 2 * r < den then q else (if q % 2 == 0 then q else q + 1)
      let frac := q % 100
      sign ++ toString (q / 100) ++ "." ++ (if frac < 10 then "0" else "") ++ toString frac

end F64
end Sqlgrep
