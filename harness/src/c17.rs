// C17: printed records faithfully carry the result rows in every output format.
// Correspondence: the lines the real `OutputPrinter` hands to `Printer::println` vs the Lean model.
// Property oracle: the printed records are re-read (JSON with serde_json; CSV / text by their field structure)
// and compared with the rows by value.
use std::collections::BTreeSet;

use chrono::{Local, NaiveDate, TimeZone};
use sqlgrep::data_model::Row;
use sqlgrep::execution::ResultRow;
use sqlgrep::executor::{OutputFormat, OutputPrinter};
use sqlgrep::model::{Float, Value, ValueType};

use crate::gen::*;
use crate::run::{Params, Run};
use crate::runq::CapturePrinter;
use crate::util::{catch, hex, hexs, value_sexp, Caught, Rng};

const NAMES: &[&str] = &["a", "b", "c", "x", "col", "p0", "line", "count", "max(x)", "x y", "näme", "日本", "q\"uote", "back\\slash", "a,b", "a;b", "k: v", "tab\there", "nl\nname", "", "Input", "input ", "'input'", "\u{1}ctl"];
const C17_TEXTS: &[&str] = &[
    "", "plain", "two words", "it's", "say \"hi\"", "semi;colon", "com,ma", "a, b", "k: v", "tab\tbed", "line\nbreak", "cr\rlf\r\n",
    "\u{0}", "\u{1}\u{2}\u{1f}", "\u{8}\u{c}", "\u{7f}", "back\\slash", "\\n", "\\u0041", "\"", "\\", "\\\"", "/", "é", "ß→日本", "\u{10000}\u{10ffff}", "\u{2028}\u{2029}",
    "{1, 2}", "NULL", "null", "true", "'", "''", "|", "||", "a|b", "{\"k\":1}", "[1,2]", "1e5", "-0",
];
const DELIMS: &[&str] = &[";", ";", ";", ";", ",", "\t", "|", "||", " ", ", ", "é", "\"", ""];

fn gen_c17_text(rng: &mut Rng) -> String {
    match rng.below(4) {
        0 => (*rng.pick(C17_TEXTS)).to_owned(),
        1 => gen_text(rng),
        2 => {
            // mixture of characters that need JSON escaping / are delimiters / are multi-byte
            let n = rng.below(8);
            let mut s = String::new();
            for _ in 0..n {
                let c = match rng.below(10) {
                    0 => char::from_u32(rng.range(0, 31) as u32).unwrap(),
                    1 => '"',
                    2 => '\\',
                    3 => *rng.pick(&[';', ',', '\'', '\n', '\r', '\t', ':', ' ', '|', '{', '}']),
                    4 => char::from_u32(rng.range(0x7f, 0xff) as u32).unwrap(),
                    5 => char::from_u32(rng.range(0x100, 0xd7ff) as u32).unwrap_or('x'),
                    6 => char::from_u32(rng.range(0xe000, 0x10ffff) as u32).unwrap_or('y'),
                    _ => char::from_u32(rng.range(32, 126) as u32).unwrap(),
                };
                s.push(c);
            }
            s
        }
        _ => {
            // harmless text (passes the CSV / text guard)
            let n = rng.below(6);
            (0..n).map(|_| *rng.pick(&['a', 'b', 'Z', '0', '_', '.', 'é', '日'])).collect()
        }
    }
}

fn gen_c17_timestamp(rng: &mut Rng) -> Value {
    match rng.below(8) {
        0 => {
            // far-away years: 0000, 0001, negative, five digits
            let secs = *rng.pick(&[-62135596800i64, -62167219200, -62167219201, -62198755200, -377705116800, 253402300799, 253402300800, 32503680000, 4102444800, -1]);
            match Local.timestamp_opt(secs, rng.range(0, 999_999_999) as u32).single() {
                Some(t) => Value::Timestamp(t),
                None => gen_timestamp(rng),
            }
        }
        1 => {
            // leap second representation: nanosecond >= 10^9
            let d = NaiveDate::from_ymd_opt(2016, 12, 31).unwrap();
            match d.and_hms_nano_opt(23, 59, 59, 1_000_000_000 + rng.range(0, 999_999_999) as u32) {
                Some(n) => Value::Timestamp(Local.from_utc_datetime(&n)),
                None => gen_timestamp(rng),
            }
        }
        2 => {
            // leap-year and month boundaries
            let (y, m, d) = *rng.pick(&[(2000, 2, 29), (1900, 2, 28), (1900, 3, 1), (2024, 2, 29), (2023, 12, 31), (2024, 1, 1), (2100, 3, 1), (1600, 2, 29), (1970, 1, 1), (1969, 12, 31), (400, 2, 29), (9999, 12, 31)]);
            let n = NaiveDate::from_ymd_opt(y, m, d).unwrap().and_hms_milli_opt(rng.below(24) as u32, rng.below(60) as u32, rng.below(60) as u32, rng.below(1000) as u32).unwrap();
            Value::Timestamp(Local.from_utc_datetime(&n))
        }
        _ => gen_timestamp(rng),
    }
}

fn gen_c17_interval(rng: &mut Rng) -> Value {
    use chrono::Duration;
    match rng.below(6) {
        0 => Value::Interval(Duration::nanoseconds(*rng.pick(&[0i64, 1, -1, 999_999, -999_999, 1_000_000, -1_000_000, 999_999_999, -999_999_999, 1_000_000_000, -1_000_000_000, -1_000_000_001, -59_999_000_000, -60_000_000_000, -3_599_999_000_000, -3_600_000_000_000, 86_400_000_000_000, i64::MAX, i64::MIN + 1]))),
        1 => Value::Interval(Duration::milliseconds(rng.range(-400_000_000, 400_000_000))),
        2 => Value::Interval(Duration::milliseconds(*rng.pick(&[i64::MAX, -i64::MAX, i64::MAX / 2, -5, -50, -500, -1005, -61_005, -3_661_005]))),
        _ => gen_interval(rng),
    }
}

fn gen_c17_value_of(rng: &mut Rng, t: &ValueType, null_pct: u64, long: bool) -> Value {
    if rng.chance(null_pct, 100) {
        return Value::Null;
    }
    match t {
        ValueType::String => Value::String(gen_c17_text(rng)),
        ValueType::Timestamp => gen_c17_timestamp(rng),
        ValueType::Interval => gen_c17_interval(rng),
        ValueType::Array(e) => {
            let n = if long && rng.chance(1, 3) { rng.range(20, 60) as usize } else { rng.below(4) };
            let xs = (0..n).map(|_| gen_c17_value_of(rng, e, 15, false)).collect();
            Value::Array((**e).clone(), xs)
        }
        other => gen_value_of(rng, other, 0),
    }
}

struct Res {
    columns: Vec<String>,
    rows: Vec<Vec<Value>>,
    single: bool,
    malformed: bool,
}

fn gen_columns(rng: &mut Rng, n: usize) -> Vec<String> {
    let mut names: Vec<String> = Vec::new();
    let allow_dup = rng.chance(1, 12);
    while names.len() < n {
        let name = match rng.below(5) {
            0 if names.is_empty() => "input".to_owned(),
            0 | 1 | 2 => (*rng.pick(&NAMES[..8])).to_owned(),
            3 => (*rng.pick(NAMES)).to_owned(),
            _ => format!("c{}", names.len()),
        };
        if allow_dup || !names.contains(&name) {
            names.push(name);
        }
    }
    names
}

fn gen_result(rng: &mut Rng) -> Res {
    let lone_input = rng.chance(1, 6);
    let ncols = if lone_input { 1 } else { 1 + rng.below(4) };
    let columns = if lone_input { vec!["input".to_owned()] } else { gen_columns(rng, ncols) };
    let types: Vec<ValueType> = (0..ncols).map(|_| if lone_input && rng.chance(2, 3) { ValueType::String } else { gen_type(rng, 2) }).collect();
    let nrows = match rng.below(8) { 0 => 0, 1 | 2 | 3 => 1, 4 | 5 => 2, 6 => 3, _ => 4 + rng.below(4) };
    let long = rng.chance(1, 10);
    let mut rows: Vec<Vec<Value>> = (0..nrows).map(|_| types.iter().map(|t| gen_c17_value_of(rng, t, 10, long)).collect()).collect();
    let mut malformed = false;
    if rng.chance(1, 40) && !rows.is_empty() {
        // rows not matching the column list (never produced by the engine): the index expressions decide
        malformed = true;
        let i = rng.below(rows.len());
        match rng.below(5) {
            0 | 1 => { rows[i].pop(); }
            2 | 3 => { rows[i].push(gen_c17_value_of(rng, &ValueType::Int, 0, false)); }
            _ => { return Res { columns: Vec::new(), rows, single: rng.chance(1, 2), malformed }; }
        }
    }
    Res { columns, rows, single: rng.chance(1, 2), malformed }
}

fn collect_reals(v: &Value, out: &mut Vec<u64>) {
    match v {
        Value::Float(Float(f)) => { if !out.contains(&f.to_bits()) { out.push(f.to_bits()); } }
        Value::Array(_, xs) => for x in xs { collect_reals(x, out); },
        _ => {}
    }
}

fn format_sexp(f: &OutputFormat) -> String {
    match f {
        OutputFormat::Text => "text".to_owned(),
        OutputFormat::Json => "json".to_owned(),
        OutputFormat::CSV(d) => format!("(csv {})", hexs(d)),
    }
}

fn clone_format(f: &OutputFormat) -> OutputFormat {
    match f {
        OutputFormat::Text => OutputFormat::Text,
        OutputFormat::Json => OutputFormat::Json,
        OutputFormat::CSV(d) => OutputFormat::CSV(d.clone()),
    }
}

fn clone_value(v: &Value) -> Value { v.clone() }

fn vkind(v: &Value) -> &'static str {
    match v {
        Value::Null => "null",
        Value::Int(_) => "int",
        Value::Float(Float(f)) => if f.is_finite() { "real" } else { "nonfinite" },
        Value::Bool(_) => "bool",
        Value::String(s) => {
            if s.bytes().any(|b| b < 0x20) { "text-ctl" }
            else if s.contains('"') || s.contains('\\') { "text-esc" }
            else if !s.is_ascii() { "text-utf8" }
            else if s.contains(';') || s.contains(',') || s.contains('\'') { "text-delim" }
            else { "text" }
        }
        Value::Array(_, xs) => if xs.len() >= 20 { "array-long" } else if xs.iter().any(|x| matches!(x, Value::Array(_, _))) { "array-nested" } else if xs.is_empty() { "array0" } else { "array" },
        Value::Timestamp(_) => "ts",
        Value::Interval(d) => if *d < chrono::Duration::zero() { "iv-neg" } else { "iv" },
    }
}

/// all TEXT payloads of a value (cells and array elements)
fn texts<'a>(v: &'a Value, out: &mut Vec<&'a str>) {
    match v {
        Value::String(s) => out.push(s),
        Value::Array(_, xs) => for x in xs { texts(x, out); },
        _ => {}
    }
}

/// the property's guard: text values free of delimiter, quote and line-break characters
fn guard_ok(row: &[Value], delim_chars: &str) -> bool {
    let mut ts = Vec::new();
    for v in row { texts(v, &mut ts); }
    ts.iter().all(|s| !s.chars().any(|c| c == '\'' || c == '"' || c == '\n' || c == '\r' || delim_chars.contains(c)))
}

/// the number tokens of a JSON text in document order, read back with Rust's `str::parse` — independent of serde_json's
/// float reader (which is only exact with `float_roundtrip`, enabled in /repo 265d413: finding D66); also used by extract.rs
pub fn number_tokens(text: &str) -> Vec<String> {
    let b = text.as_bytes();
    let mut out = Vec::new();
    let mut i = 0;
    while i < b.len() {
        if b[i] == b'"' {
            i += 1;
            while i < b.len() && b[i] != b'"' { if b[i] == b'\\' { i += 1; } i += 1; }
            i += 1;
        } else if b[i] == b'-' || b[i].is_ascii_digit() {
            let s = i;
            while i < b.len() && (b[i].is_ascii_digit() || matches!(b[i], b'-' | b'+' | b'.' | b'e' | b'E')) { i += 1; }
            out.push(text[s..i].to_owned());
        } else {
            i += 1;
        }
    }
    out
}

/// does the JSON document `j` recover the value `v`? number tokens are consumed from `toks` in document order
fn json_recovers(v: &Value, j: &serde_json::Value, toks: &mut std::slice::Iter<String>) -> Result<(), String> {
    use serde_json::Value as J;
    if let J::Number(_) = j {
        let tok = toks.next().ok_or_else(|| "number token missing".to_owned())?;
        return match v {
            Value::Int(i) => if tok.parse::<i64>().ok() == Some(*i) { Ok(()) } else { Err(format!("INT {} printed as number {}", i, tok)) },
            Value::Float(Float(f)) if f.is_finite() => {
                match tok.parse::<f64>() {
                    Ok(g) if g.to_bits() == f.to_bits() => Ok(()),
                    _ => Err(format!("REAL bits {:#x} printed as number {}", f.to_bits(), tok)),
                }
            }
            _ => Err(format!("{} printed as number {}", value_sexp(v), tok)),
        };
    }
    match (v, j) {
        (Value::Null, J::Null) => Ok(()),
        (Value::Float(Float(f)), _) if !f.is_finite() => Ok(()), // the property speaks about finite REAL only
        (Value::Bool(a), J::Bool(b)) if a == b => Ok(()),
        (Value::String(a), J::String(b)) if a == b => Ok(()),
        (Value::Interval(d), J::String(b)) if *b == v.to_string() => {
            // the text form of an interval carries the value (to the millisecond): an optional sign, then
            // hours:minutes:seconds.millis with hours unbounded — judged by reading the text back, not by re-deriving the text
            {
                let (neg, body) = match b.strip_prefix('-') { Some(r) => (true, r), None => (false, b.as_str()) };
                let parts: Vec<&str> = body.split(|c| c == ':' || c == '.').collect();
                let nums: Vec<Option<i64>> = parts.iter().map(|p| if p.chars().all(|c| c.is_ascii_digit()) { p.parse::<i64>().ok() } else { None }).collect();
                let ok = nums.len() == 4 && nums.iter().all(|n| n.is_some()) && {
                    let n: Vec<i64> = nums.iter().map(|n| n.unwrap()).collect();
                    let mag = n[0].checked_mul(3_600_000).and_then(|h| h.checked_add(n[1] * 60_000 + n[2] * 1000 + n[3]));
                    n[1] < 60 && n[2] < 60 && n[3] < 1000 && mag.map(|m| if neg { -m } else { m }) == Some(d.num_milliseconds()) && (!neg || *d < chrono::Duration::zero())
                };
                if !ok { return Err(format!("INTERVAL of {} ms printed as {:?}, which does not read back as that duration", d.num_milliseconds(), b)); }
            }
            Ok(())
        }
        (Value::Timestamp(t), J::String(b)) if *b == v.to_string() => {
            // likewise a timestamp with a four-digit year reads back (to the millisecond) as the same local time
            use chrono::{Datelike, Timelike};
            if (1000..=9999).contains(&t.year()) && t.nanosecond() < 1_000_000_000 {
                match chrono::NaiveDateTime::parse_from_str(b, "%Y-%m-%d %H:%M:%S%.3f") {
                    Ok(n) if n == t.naive_local().with_nanosecond(t.nanosecond() / 1_000_000 * 1_000_000).unwrap_or(t.naive_local()) => {}
                    other => return Err(format!("TIMESTAMP {:?} printed as {:?}, which reads back as {:?}", t, b, other)),
                }
            }
            Ok(())
        }
        (Value::Array(_, xs), J::Array(ys)) => {
            if xs.len() != ys.len() { return Err(format!("array of {} elements printed with {}", xs.len(), ys.len())); }
            for (x, y) in xs.iter().zip(ys.iter()) { json_recovers(x, y, toks)?; }
            Ok(())
        }
        _ => Err(format!("{} printed as {}", value_sexp(v), j)),
    }
}

fn distinct(names: &[String]) -> bool {
    names.iter().collect::<BTreeSet<_>>().len() == names.len()
}

fn describe(format: &OutputFormat, seq: &[Res]) -> String {
    let mut s = format!("format={} results=[", format_sexp(format));
    for r in seq {
        s.push_str(&format!("{{single={} columns={:?} rows=[", r.single, r.columns));
        for row in &r.rows { s.push_str(&crate::util::values_sexp(row)); }
        s.push_str("]}");
    }
    s.push(']');
    s
}

/// the property evaluated on the implementation's printed lines
fn check_property(run: &mut Run, format: &OutputFormat, seq: &[Res], lines: &[String]) {
    run.oracle_checks += 1;
    let desc = || describe(format, seq);
    let is_csv = matches!(format, OutputFormat::CSV(_));
    let total_rows: usize = seq.iter().map(|r| r.rows.len()).sum();
    let seps: usize = seq.iter().filter(|r| r.rows.len() > 1 && !r.single).count();
    let expected = total_rows + seps + if is_csv && total_rows > 0 { 1 } else { 0 };
    if lines.len() != expected {
        run.fail(desc(), "record-count", format!("{} rows (+{} separators{}) but {} lines printed", total_rows, seps, if is_csv { " +1 header" } else { "" }, lines.len()));
        return;
    }
    let mut pos = 0;
    let mut header_seen = false;
    for r in seq {
        for (ri, row) in r.rows.iter().enumerate() {
            if is_csv && !header_seen {
                // exactly one header (the count above), before the first record, made of the column names
                header_seen = true;
                if let OutputFormat::CSV(d) = format {
                    if lines[pos] != r.columns.join(d) {
                        run.fail(desc(), "csv-header", format!("first printed line {:?} is not the header of {:?}", lines[pos], r.columns));
                        return;
                    }
                }
                pos += 1;
            }
            let rec = &lines[pos];
            pos += 1;
            match format {
                OutputFormat::Json => {
                    let parsed: Result<serde_json::Value, _> = serde_json::from_str(rec);
                    let obj = match parsed {
                        Ok(serde_json::Value::Object(m)) => m,
                        Ok(other) => { run.fail(desc(), "json-not-object", format!("row {} printed as {}", ri, other)); return; }
                        Err(e) => { run.fail(desc(), "json-invalid", format!("row {} printed as {:?}: {}", ri, rec, e)); return; }
                    };
                    if !distinct(&r.columns) { run.count("oracle:json-duplicate-names-skipped"); continue; }
                    let keys: Vec<&String> = obj.keys().collect();
                    if keys != r.columns.iter().collect::<Vec<_>>() {
                        run.fail(desc(), "json-keys", format!("row {}: keys {:?}, columns {:?}", ri, keys, r.columns));
                        return;
                    }
                    let toks = number_tokens(rec);
                    let mut it = toks.iter();
                    for (v, (_, j)) in row.iter().zip(obj.iter()) {
                        if let Err(e) = json_recovers(v, j, &mut it) {
                            let class = match v { Value::Float(_) => "json-real-lossy", Value::Int(_) => "json-int-lossy", Value::String(_) => "json-text-lossy", _ => "json-value" };
                            run.fail(desc(), class, format!("row {}: {}", ri, e));
                            return;
                        }
                    }
                    run.count("oracle:json-row-recovered");
                }
                OutputFormat::CSV(d) => {
                    if d.is_empty() { run.count("oracle:csv-empty-delimiter-skipped"); continue; }
                    if !guard_ok(row, d) { run.count("oracle:csv-guard-excluded"); continue; }
                    let fields: Vec<&str> = rec.split(d.as_str()).collect();
                    let cells: Vec<String> = row.iter().map(|v| v.to_string()).collect();
                    if fields.len() != r.columns.len() {
                        if d != ";" && cells.iter().any(|c| d.chars().any(|dc| c.contains(dc))) {
                            // a delimiter the program itself never uses (`--format csv` is always ';') occurs in the
                            // rendering of a non-TEXT cell (`{1, 2}`, `12:00:00.000`): outside the reachable configurations
                            run.count("observed:csv-nondefault-delimiter-in-nontext-cell");
                            continue;
                        }
                        run.fail(desc(), "csv-field-count", format!("row {}: {} fields for {} columns: {:?}", ri, fields.len(), r.columns.len(), rec));
                        return;
                    }
                    if fields.iter().map(|f| (*f).to_owned()).collect::<Vec<_>>() != cells {
                        if d != ";" && cells.iter().any(|c| d.chars().any(|dc| c.contains(dc))) {
                            run.count("observed:csv-nondefault-delimiter-in-nontext-cell");
                            continue;
                        }
                        run.fail(desc(), "csv-fields", format!("row {}: fields {:?} for cells {:?}", ri, fields, cells));
                        return;
                    }
                    run.count("oracle:csv-row-checked");
                }
                OutputFormat::Text => {
                    if !guard_ok(row, ",") { run.count("oracle:text-guard-excluded"); continue; }
                    if r.columns.len() == 1 && r.columns[0] == "input" {
                        // "a lone input column prints just the line": no `input: ` prefix, only the value
                        if *rec != row[0].to_string() {
                            run.fail(desc(), "text-lone-input", format!("row {}: {:?}", ri, rec));
                            return;
                        }
                        run.count("oracle:text-lone-input-checked");
                        continue;
                    }
                    // `name: value` pairs in column order, read left to right
                    let mut rest: &str = rec;
                    let mut ok = true;
                    for (ci, (name, v)) in r.columns.iter().zip(row.iter()).enumerate() {
                        let pair = format!("{}{}: {}", if ci > 0 { ", " } else { "" }, name, v);
                        if rest.starts_with(&pair) { rest = &rest[pair.len()..]; } else { ok = false; break; }
                    }
                    if !ok || !rest.is_empty() {
                        run.fail(desc(), "text-pairs", format!("row {}: {:?} for columns {:?}", ri, rec, r.columns));
                        return;
                    }
                    run.count("oracle:text-row-checked");
                }
            }
        }
        if r.rows.len() > 1 && !r.single {
            if !lines[pos].is_empty() {
                run.fail(desc(), "separator", format!("line {} after a multi-row result is {:?}", pos, lines[pos]));
                return;
            }
            pos += 1;
        }
    }
}

fn emit(run: &mut Run, format: &OutputFormat, seq: &[Res]) {
    // the implementation
    let mut printer = OutputPrinter::with_printer(CapturePrinter::new(), clone_format(format));
    let outcome = catch(|| {
        for r in seq {
            let rr = ResultRow {
                data: r.rows.iter().map(|row| Row::new(row.iter().map(clone_value).collect())).collect(),
                columns: r.columns.clone(),
            };
            printer.print(&rr, r.single);
        }
    });
    let malformed = seq.iter().any(|r| r.malformed);
    let answer = match &outcome {
        Caught::Done(()) => {
            let lines = &printer.printer().lines;
            let mut s = format!("lines {}", lines.len());
            for l in lines { s.push(' '); s.push_str(&hex(l.as_bytes())); }
            s
        }
        Caught::Panic(_) => "panic".to_owned(),
    };
    // the case for the model
    let mut reals = Vec::new();
    for r in seq { for row in &r.rows { for v in row { collect_reals(v, &mut reals); } } }
    let mut line = format!("print {} 1 (", format_sexp(format));
    for (i, r) in seq.iter().enumerate() {
        if i > 0 { line.push(' '); }
        line.push_str(&format!("({} (", if r.single { 1 } else { 0 }));
        line.push_str(&r.columns.iter().map(|c| hexs(c)).collect::<Vec<_>>().join(" "));
        line.push_str(") (");
        line.push_str(&r.rows.iter().map(|row| crate::util::values_sexp(row)).collect::<Vec<_>>().join(" "));
        line.push_str("))");
    }
    line.push_str(") (");
    for (i, bits) in reals.iter().enumerate() {
        let f = f64::from_bits(*bits);
        if i > 0 { line.push(' '); }
        // external oracles: Rust std `{:.2}` and serde_json's number rendering (ryu); non-finite has no JSON number
        let json = if f.is_finite() { serde_json::to_string(&f).unwrap() } else { "null".to_owned() };
        line.push_str(&format!("({} {} {})", bits, hexs(&format!("{:.2}", f)), hexs(&json)));
    }
    line.push(')');
    // tag: format, shape of the sequence, kinds of values
    let fmt_tag = match format { OutputFormat::Text => "text".to_owned(), OutputFormat::Json => "json".to_owned(), OutputFormat::CSV(d) => if d == ";" { "csv;".to_owned() } else { "csv-other".to_owned() } };
    let mut kinds: BTreeSet<&'static str> = BTreeSet::new();
    for r in seq { for row in &r.rows { for v in row { kinds.insert(vkind(v)); run.count(&format!("value:{}", vkind(v))); } } }
    let shape: Vec<String> = seq.iter().map(|r| format!("{}{}", r.rows.len().min(3), if r.single { "s" } else { "m" })).collect();
    let lone = seq.iter().any(|r| r.columns.len() == 1 && r.columns[0] == "input");
    let first_kind = kinds.iter().next().cloned().unwrap_or("none");
    let tag = format!("{}/{}/{}{}{}", fmt_tag, shape.join("+"), first_kind, if lone { "/lone" } else { "" }, if matches!(outcome, Caught::Panic(_)) { "/panic" } else { "" });
    run.count(&format!("format:{}", fmt_tag));
    run.count(&format!("results:{}", seq.len()));
    for k in &kinds { run.tags.insert(format!("{}/{}", fmt_tag, k)); }
    run.case(line, answer, tag);

    match outcome {
        Caught::Done(()) => {
            if !malformed {
                let lines = printer.printer().lines.clone();
                check_property(run, format, seq, &lines);
            }
        }
        Caught::Panic(msg) => {
            if !malformed {
                run.oracle_checks += 1;
                let class = if msg.contains("unwrap") { "D27:json-nonfinite-panic" } else { "print-panic" };
                run.fail(describe(format, seq), class, format!("OutputPrinter::print panicked: {}", msg));
            }
        }
    }
}

fn gen_format(rng: &mut Rng) -> OutputFormat {
    match rng.below(3) {
        0 => OutputFormat::Text,
        1 => OutputFormat::Json,
        _ => OutputFormat::CSV((*rng.pick(DELIMS)).to_owned()),
    }
}

pub fn run(p: &Params) -> Run {
    let mut run = Run::new("C17");
    let mut rng = Rng::new(p.seed ^ 0x17);
    let formats = [OutputFormat::Text, OutputFormat::Json, OutputFormat::CSV(";".to_owned()), OutputFormat::CSV(",".to_owned())];

    // boundary block 1: every fixed text / every REAL edge / every INT edge as a one-cell row, in every format,
    // as a lone `input` column and as a named column, single- and multi-row
    let mut singles: Vec<Value> = Vec::new();
    for t in C17_TEXTS.iter().chain(TEXTS.iter()) { singles.push(Value::String((*t).to_owned())); }
    for b in F64_EDGE_BITS { singles.push(Value::Float(Float(f64::from_bits(*b)))); }
    for b in &[0.005f64, 0.015, 0.125, 1.005, 2.675, -0.004, -0.005, 1e21, 1e-7, 123456789.125, 0.1, 1e16, 1.5e300, 5e-324] { singles.push(Value::Float(Float(*b))); }
    for i in INT_EDGES { singles.push(Value::Int(*i)); }
    singles.push(Value::Null);
    singles.push(Value::Bool(true));
    singles.push(Value::Bool(false));
    singles.push(Value::Array(ValueType::Int, vec![]));
    singles.push(Value::Array(ValueType::String, vec![Value::String("a\"b".to_owned()), Value::Null, Value::String("é".to_owned())]));
    singles.push(Value::Array(ValueType::Array(Box::new(ValueType::Float)), vec![Value::Array(ValueType::Float, vec![Value::Float(Float(f64::NAN)), Value::Float(Float(1.5))]), Value::Array(ValueType::Float, vec![])]));
    for _ in 0..24 { singles.push(gen_c17_timestamp(&mut rng)); singles.push(gen_c17_interval(&mut rng)); }
    for v in &singles {
        for f in &formats {
            for name in &["input", "v"] {
                let one = Res { columns: vec![(*name).to_owned()], rows: vec![vec![v.clone()]], single: rng.chance(1, 2), malformed: false };
                emit(&mut run, f, &[one]);
            }
        }
        let two = Res { columns: vec!["k".to_owned(), "v".to_owned()], rows: vec![vec![Value::Int(1), v.clone()], vec![v.clone(), Value::Null]], single: false, malformed: false };
        let f = rng.pick(&formats);
        emit(&mut run, f, &[two]);
    }
    run.notes.push(format!("boundary block: {} single values x 4 formats x lone-input/named column", singles.len()));

    // boundary block 2: every byte 0..=0x7f and a sample of non-ASCII scalars as one-character TEXT in JSON
    let mut chars: Vec<char> = (0u32..=0x7f).filter_map(char::from_u32).collect();
    for c in &[0x80u32, 0xff, 0x100, 0x7ff, 0x800, 0xd7ff, 0xe000, 0xfffd, 0xffff, 0x10000, 0x10ffff] { chars.push(char::from_u32(*c).unwrap()); }
    for c in &chars {
        let s = format!("a{}b", c);
        let r = Res { columns: vec![s.clone()], rows: vec![vec![Value::String(s.clone())]], single: true, malformed: false };
        emit(&mut run, &OutputFormat::Json, &[r]);
    }
    run.notes.push(format!("JSON escaping block: {} characters, as TEXT value and as column name", chars.len()));

    // random sequences of 1..=3 results
    let n = p.n(3000, 100_000);
    for _ in 0..n {
        let format = gen_format(&mut rng);
        let k = 1 + rng.below(3);
        let seq: Vec<Res> = (0..k).map(|_| gen_result(&mut rng)).collect();
        emit(&mut run, &format, &seq);
    }
    // the end-to-end stream: the same property seen from raw texts and raw file bytes (`e2e.rs`, Lean `Pipeline.runText`)
    crate::e2e::stream(&mut run, &mut Rng::new(p.seed ^ 0xe2e17), p.n(250, 3000), "print");
    // the RFC 8259 grammar the JSON theorems are stated against (Spec/JsonGrammar.lean), validated on its own:
    // generated JSON texts judged by serde_json and by the Lean parser that decides that grammar
    crate::jsontext::stream(&mut run, &mut Rng::new(p.seed ^ 0x8259), p.n(1500, 40_000));
    run
}
