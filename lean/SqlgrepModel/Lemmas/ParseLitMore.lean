import SqlgrepModel.Lemmas.ParseLit
/-
Characterisations of the remaining literal parsers of `Model/ParseLit.lean`: BOOLEAN, month names, `str::split(":")`
and INTERVAL — "what exactly is accepted", independent of the branch structure of the definitions.
-/
namespace Sqlgrep.Lit

theorem parseBool_iff (s : Text) (b : Bool) :
    parseBool s = some b ↔ (b = true ∧ s = [116, 114, 117, 101]) ∨ (b = false ∧ s = [102, 97, 108, 115, 101]) := by
  unfold parseBool
  by_cases h1 : s = [116, 114, 117, 101]
  · subst h1; cases b <;> simp
  · by_cases h2 : s = [102, 97, 108, 115, 101]
    · subst h2; cases b <;> simp
    · simp [h1, h2]

/-! ### `split(":")` -/

theorem splitColon_ne_nil : ∀ s : Text, splitColon s ≠ []
  | [] => by simp [splitColon]
  | b :: rest => by
    unfold splitColon
    split
    · simp
    · split <;> simp

/-- the pieces contain no colon and, put together with colons, give the text back -/
theorem splitColon_spec : ∀ s : Text,
    (∀ p ∈ splitColon s, (58 : Nat) ∉ p) ∧ List.intercalate [58] (splitColon s) = s
  | [] => by simp [splitColon, List.intercalate]
  | b :: rest => by
    have ih := splitColon_spec rest
    unfold splitColon
    by_cases hb : (b == 58) = true
    · have hb' : b = 58 := by simpa using hb
      simp only [hb, if_true]
      refine ⟨?_, ?_⟩
      · intro p hp
        rcases List.mem_cons.1 hp with rfl | hp
        · simp
        · exact ih.1 p hp
      · cases hs : splitColon rest with
        | nil => exact absurd hs (splitColon_ne_nil rest)
        | cons q qs =>
          have := ih.2
          rw [hs] at this
          subst hb'
          simp [List.intercalate, List.intersperse] at this ⊢
          exact this
    · have hb' : b ≠ 58 := by simpa using hb
      simp only [hb]
      cases hs : splitColon rest with
      | nil => exact absurd hs (splitColon_ne_nil rest)
      | cons q qs =>
        have h1 := ih.1
        have h2 := ih.2
        rw [hs] at h1 h2
        refine ⟨?_, ?_⟩
        · intro p hp
          simp only [Bool.false_eq_true, if_false] at hp
          rcases List.mem_cons.1 hp with rfl | hp
          · intro hm
            rcases List.mem_cons.1 hm with h | h
            · exact hb' h.symm
            · exact h1 q List.mem_cons_self h
          · exact h1 p (List.mem_cons_of_mem _ hp)
        · simp only [Bool.false_eq_true, if_false]
          cases qs with
          | nil => simpa [List.intercalate, List.intersperse] using h2
          | cons r rs =>
            simp [List.intercalate, List.intersperse] at h2 ⊢
            exact h2

/-- a piece without colon followed by a colon is split off -/
theorem splitColon_append (a : Text) (ha : (58 : Nat) ∉ a) (rest : Text) :
    splitColon (a ++ 58 :: rest) = a :: splitColon rest := by
  induction a with
  | nil => simp [splitColon]
  | cons x xs ih =>
    have hx : x ≠ 58 := fun h => ha (by simp [h])
    have hxs : (58 : Nat) ∉ xs := fun h => ha (List.mem_cons_of_mem _ h)
    have hb : (x == 58) = false := by simpa using hx
    simp only [List.cons_append]
    rw [splitColon, hb, ih hxs]
    simp

theorem splitColon_nocolon (a : Text) (ha : (58 : Nat) ∉ a) : splitColon a = [a] := by
  induction a with
  | nil => rfl
  | cons x xs ih =>
    have hx : x ≠ 58 := fun h => ha (by simp [h])
    have hxs : (58 : Nat) ∉ xs := fun h => ha (List.mem_cons_of_mem _ h)
    have hb : (x == 58) = false := by simpa using hx
    rw [splitColon, hb, ih hxs]
    simp

/-- exactly three pieces ⇔ the text is `a:b:c` with colon-free `a`, `b`, `c` -/
theorem splitColon_three (s a b c : Text) :
    splitColon s = [a, b, c] ↔
      s = a ++ 58 :: (b ++ 58 :: c) ∧ (58 : Nat) ∉ a ∧ (58 : Nat) ∉ b ∧ (58 : Nat) ∉ c := by
  constructor
  · intro h
    have hs := splitColon_spec s
    rw [h] at hs
    refine ⟨?_, hs.1 a (by simp), hs.1 b (by simp), hs.1 c (by simp)⟩
    have := hs.2
    simp [List.intercalate, List.intersperse] at this
    rw [← this]
  · rintro ⟨rfl, ha, hb, hc⟩
    rw [splitColon_append a ha, splitColon_append b hb, splitColon_nocolon c hc]

/-- **INTERVAL literals**: exactly the texts `h:m:s` of three 64-bit integer literals whose parts and partial sums stay
within chrono's `TimeDelta` range; the value is the exact number of nanoseconds -/
theorem parseInterval_iff (s : Text) (v : Value) :
    parseInterval s = some v ↔
      ∃ a b c h m sec, s = a ++ 58 :: (b ++ 58 :: c) ∧ (58 : Nat) ∉ a ∧ (58 : Nat) ∉ b ∧ (58 : Nat) ∉ c ∧
        parseI64 a = some h ∧ parseI64 b = some m ∧ parseI64 c = some sec ∧
        deltaOk (h * 3600) = true ∧ deltaOk (m * 60) = true ∧ deltaOk (h * 3600 + m * 60) = true ∧ deltaOk sec = true ∧
        deltaOk (h * 3600 + m * 60 + sec) = true ∧
        v = .interval ((h * 3600 + m * 60 + sec) * 1000000000) := by
  constructor
  · intro hp
    unfold parseInterval at hp
    split at hp
    · rename_i a b c hsplit
      split at hp
      · rename_i h m sec ha hb hc
        split at hp
        · rename_i hok
          simp only [Bool.and_eq_true] at hok
          obtain ⟨⟨⟨⟨o1, o2⟩, o3⟩, o4⟩, o5⟩ := hok
          have := (splitColon_three s a b c).1 hsplit
          cases hp
          exact ⟨a, b, c, h, m, sec, this.1, this.2.1, this.2.2.1, this.2.2.2, ha, hb, hc, o1, o2, o3, o4, o5, rfl⟩
        · cases hp
      · cases hp
    · cases hp
  · rintro ⟨a, b, c, h, m, sec, hs, ha, hb, hc, pa, pb, pc, o1, o2, o3, o4, o5, rfl⟩
    have hsplit := (splitColon_three s a b c).2 ⟨hs, ha, hb, hc⟩
    unfold parseInterval
    rw [hsplit]
    simp [pa, pb, pc, o1, o2, o3, o4, o5]

/-! ### month names -/

theorem lookup_eq_some_of_nodup {α β : Type} [BEq α] [LawfulBEq α] :
    ∀ (l : List (α × β)) (k : α) (v : β), (l.map (·.1)).Nodup → (l.lookup k = some v ↔ (k, v) ∈ l)
  | [], k, v, _ => by simp
  | (k', v') :: l, k, v, hn => by
    simp only [List.map_cons, List.nodup_cons] at hn
    by_cases hk : k = k'
    · subst hk
      simp only [List.lookup_cons_self, Option.some.injEq, List.mem_cons, Prod.mk.injEq, true_and]
      constructor
      · intro h; exact .inl h.symm
      · rintro (h | h)
        · exact h.symm
        · exact absurd (List.mem_map.2 ⟨(k, v), h, rfl⟩) hn.1
    · have : (k == k') = false := by simpa using hk
      rw [List.lookup_cons, this]
      rw [lookup_eq_some_of_nodup l k v hn.2]
      simp [hk]

theorem monthTable_keys_nodup : (monthTable.map (·.1)).Nodup := by decide

/-- a text is a month name exactly when it is ASCII and its lower case is one of the fifteen spellings of the table -/
theorem monthOfName_iff (s : Text) (m : Nat) :
    monthOfName s = some m ↔ isAscii s = true ∧ (asciiLower s, m) ∈ monthTable := by
  unfold monthOfName
  by_cases ha : isAscii s = true
  · simp only [ha, if_true, true_and]
    exact lookup_eq_some_of_nodup monthTable _ _ monthTable_keys_nodup
  · simp [ha]

/-- every month of the table is a month -/
theorem monthTable_range : ∀ p ∈ monthTable, 1 ≤ p.2 ∧ p.2 ≤ 12 := by decide

end Sqlgrep.Lit
