import SqlgrepModel.Model.Engine
import SqlgrepModel.Spec.Agg
import SqlgrepModel.Lemmas.ValueOrder
/-
The group maps of the aggregation engine (`BTreeMap<GroupKey, HashMap<usize, _>>` as a key-sorted association
list of association lists): lookup after modification, sortedness, key lists.
-/
set_option linter.unusedSimpArgs false
namespace Sqlgrep
open Value

/-! ### the order on key vectors -/

theorem cmpList_refl (a : List Value) : cmpList a a = .eq := by
  have h := cmpList_swap a a
  cases h' : cmpList a a <;> rw [h'] at h <;> simp [Ordering.swap] at h ⊢

theorem cmpList_eq_symm {a b : List Value} (h : cmpList a b = .eq) : cmpList b a = .eq := by
  rw [cmpList_swap a b, h]; rfl

theorem cmpList_gt_of_lt {a b : List Value} (h : cmpList a b = .lt) : cmpList b a = .gt := by
  rw [cmpList_swap a b, h]; rfl

theorem cmpList_lt_of_gt {a b : List Value} (h : cmpList a b = .gt) : cmpList b a = .lt := by
  rw [cmpList_swap a b, h]; rfl

/-- equal keys compare alike on the left -/
theorem cmpList_congr_left {a b : List Value} (h : cmpList a b = .eq) (c : List Value) :
    cmpList a c = cmpList b c := (cmpList_T a b c).2.1 h

/-- equal keys compare alike on the right -/
theorem cmpList_congr_right {b c : List Value} (h : cmpList b c = .eq) (a : List Value) :
    cmpList a c = cmpList a b := (cmpList_T a b c).2.2 h

theorem cmpList_eq_trans {a b c : List Value} (h1 : cmpList a b = .eq) (h2 : cmpList b c = .eq) :
    cmpList a c = .eq := by rw [cmpList_congr_left h1 c, h2]

theorem cmpList_lt_trans {a b c : List Value} (h1 : cmpList a b = .lt) (h2 : cmpList b c = .lt) :
    cmpList a c = .lt := (cmpList_T a b c).1 h1 h2

/-! ### inner maps (aggregate index ↦ entry) -/

theorem alGet_cons {α : Type} (p : Nat × α) (ps : List (Nat × α)) (j : Nat) :
    alGet (p :: ps) j = if p.1 = j then some p.2 else alGet ps j := by
  unfold alGet
  by_cases h : p.1 = j
  · simp [List.find?, h]
  · have : (p.1 == j) = false := by simp [h]
    simp [List.find?, h, this]

theorem alGet_map_other {α : Type} (l : List (Nat × α)) {i j : Nat} (v : α) (hij : i ≠ j) :
    alGet (l.map (fun p => if p.1 == i then (i, v) else p)) j = alGet l j := by
  induction l with
  | nil => rfl
  | cons p ps ih =>
    rw [List.map_cons, alGet_cons, alGet_cons, ih]
    by_cases hp : p.1 = i
    · have h2 : ¬ p.1 = j := by rw [hp]; exact hij
      simp [hp, hij, h2]
    · have h1 : (p.1 == i) = false := by simp [hp]
      simp [h1]

theorem alGet_map_same {α : Type} (l : List (Nat × α)) {i : Nat} (v : α) (h : l.any (·.1 == i) = true) :
    alGet (l.map (fun p => if p.1 == i then (i, v) else p)) i = some v := by
  induction l with
  | nil => simp at h
  | cons p ps ih =>
    rw [List.map_cons, alGet_cons]
    by_cases hp : p.1 = i
    · simp [hp]
    · have h1 : (p.1 == i) = false := by simp [hp]
      have h' : ps.any (·.1 == i) = true := by simpa [List.any_cons, h1] using h
      simp only [h1, Bool.false_eq_true, if_false, hp]
      exact ih h'

theorem alGet_none_of_not_any {α : Type} (l : List (Nat × α)) {i : Nat} (h : ¬ l.any (·.1 == i) = true) :
    alGet l i = none := by
  unfold alGet
  have : l.find? (fun p => p.1 == i) = none := by
    apply List.find?_eq_none.mpr
    intro q hq hqi
    exact h (List.any_eq_true.mpr ⟨q, hq, hqi⟩)
  rw [this]; rfl

theorem alGet_append_single {α : Type} (l : List (Nat × α)) (i j : Nat) (v : α) :
    alGet (l ++ [(i, v)]) j = match alGet l j with
      | some x => some x
      | none => if i = j then some v else none := by
  unfold alGet
  rw [List.find?_append]
  cases l.find? (fun p => p.1 == j) with
  | some r => rfl
  | none =>
    by_cases hij : i = j
    · simp [List.find?, hij]
    · have : (i == j) = false := by simp [hij]
      simp [List.find?, hij, this]

theorem alGet_alSet {α : Type} (l : List (Nat × α)) (i j : Nat) (v : α) :
    alGet (alSet l i v) j = if i = j then some v else alGet l j := by
  unfold alSet
  by_cases hany : l.any (·.1 == i) = true
  · simp only [hany, if_true]
    by_cases hij : i = j
    · subst hij
      simp only [if_true]
      exact alGet_map_same l v hany
    · simp only [hij, if_false]
      exact alGet_map_other l v hij
  · simp only [hany]
    simp only [Bool.false_eq_true, if_false]
    rw [alGet_append_single]
    by_cases hij : i = j
    · subst hij
      rw [alGet_none_of_not_any l hany]
    · simp only [hij, if_false]
      cases alGet l j <;> rfl

/-! ### outer maps (group key ↦ inner map) -/

/-- the keys of a group map are strictly ascending -/
def GmSorted {α : Type} (m : GroupMap α) : Prop := (m.map (·.1)).Pairwise (fun a b => cmpList a b = .lt)

theorem gmSorted_nil {α : Type} : GmSorted ([] : GroupMap α) := List.Pairwise.nil

theorem gmKeys_gmModify {α : Type} (m : GroupMap α) (k : List Value) (f : List (Nat × α) → List (Nat × α)) :
    (gmModify m k f).map (·.1) = Spec.Agg.insertKey k (m.map (·.1)) := by
  induction m with
  | nil => rfl
  | cons g rest ih =>
    simp only [gmModify, List.map, Spec.Agg.insertKey]
    cases cmpList k g.1 <;> simp [ih]

theorem insertKey_mem {k x : List Value} {ks : List (List Value)} (h : x ∈ Spec.Agg.insertKey k ks) : x = k ∨ x ∈ ks := by
  induction ks with
  | nil => simp [Spec.Agg.insertKey] at h; exact Or.inl h
  | cons y ys ih =>
    simp only [Spec.Agg.insertKey] at h
    cases hc : cmpList k y <;> rw [hc] at h <;> simp at h
    · rcases h with h | h | h
      · exact Or.inl h
      · exact Or.inr (by simp [h])
      · exact Or.inr (by simp [h])
    · exact Or.inr (by simpa using h)
    · rcases h with h | h
      · exact Or.inr (by simp [h])
      · rcases ih h with h | h
        · exact Or.inl h
        · exact Or.inr (by simp [h])

theorem insertKey_sorted {k : List Value} {ks : List (List Value)}
    (hs : ks.Pairwise (fun a b => cmpList a b = .lt)) :
    (Spec.Agg.insertKey k ks).Pairwise (fun a b => cmpList a b = .lt) := by
  induction ks with
  | nil => simp [Spec.Agg.insertKey]
  | cons y ys ih =>
    simp only [Spec.Agg.insertKey]
    rw [List.pairwise_cons] at hs
    cases hc : cmpList k y
    · -- k < y: k goes first
      refine List.Pairwise.cons ?_ (List.Pairwise.cons hs.1 hs.2)
      intro z hz
      rcases List.mem_cons.mp hz with hz | hz
      · rw [hz]; exact hc
      · exact cmpList_lt_trans hc (hs.1 z hz)
    · exact List.Pairwise.cons hs.1 hs.2
    · refine List.Pairwise.cons ?_ (ih hs.2)
      intro z hz
      rcases insertKey_mem hz with hz | hz
      · rw [hz]; exact cmpList_lt_of_gt hc
      · exact hs.1 z hz

theorem gmSorted_gmModify {α : Type} {m : GroupMap α} (hs : GmSorted m) (k : List Value) (f : List (Nat × α) → List (Nat × α)) :
    GmSorted (gmModify m k f) := by
  unfold GmSorted
  rw [gmKeys_gmModify]
  exact insertKey_sorted hs

/-- a property of the inner maps that `f` establishes and keeps holds for every group after `gmModify` -/
theorem gm_all_gmModify {α : Type} {P : List (Nat × α) → Prop} {m : GroupMap α} (hm : ∀ g ∈ m, P g.2)
    (k : List Value) {f : List (Nat × α) → List (Nat × α)} (h0 : P (f [])) (hf : ∀ l, P l → P (f l)) :
    ∀ g ∈ gmModify m k f, P g.2 := by
  induction m with
  | nil => intro g hg; simp [gmModify] at hg; subst hg; exact h0
  | cons x rest ih =>
    intro g hg
    simp only [gmModify] at hg
    cases hc : cmpList k x.1 <;> rw [hc] at hg <;> simp only [List.mem_cons] at hg
    · rcases hg with hg | hg | hg
      · subst hg; exact h0
      · subst hg; exact hm _ (by simp)
      · exact hm g (by simp [hg])
    · rcases hg with hg | hg
      · subst hg; exact hf _ (hm x (by simp))
      · exact hm g (by simp [hg])
    · rcases hg with hg | hg
      · subst hg; exact hm _ (by simp)
      · exact ih (fun g hg => hm g (by simp [hg])) g hg

theorem gm_key_gmModify {α : Type} (m : GroupMap α) (k : List Value) (f : List (Nat × α) → List (Nat × α)) :
    ∀ g ∈ gmModify m k f, g.1 = k ∨ g.1 ∈ m.map (·.1) := by
  intro g hg
  have : g.1 ∈ (gmModify m k f).map (·.1) := List.mem_map.mpr ⟨g, hg, rfl⟩
  rw [gmKeys_gmModify] at this
  exact insertKey_mem this

theorem alSet_nodup {α : Type} (l : List (Nat × α)) (i : Nat) (v : α) (h : (l.map (·.1)).Nodup) :
    ((alSet l i v).map (·.1)).Nodup := by
  unfold alSet
  by_cases hany : l.any (·.1 == i) = true
  · simp only [hany, if_true]
    have : (l.map (fun p => if p.1 == i then (i, v) else p)).map (·.1) = l.map (·.1) := by
      rw [List.map_map]
      apply List.map_congr_left
      intro p _
      by_cases hp : p.1 = i
      · simp [hp]
      · simp [hp]
    rw [this]; exact h
  · simp only [hany, Bool.false_eq_true, if_false, List.map_append, List.map_cons, List.map_nil]
    rw [List.nodup_append]
    refine ⟨h, by simp, ?_⟩
    intro a ha b hb
    simp only [List.mem_singleton] at hb
    subst hb
    intro hab
    subst hab
    obtain ⟨p, hp, hpe⟩ := List.mem_map.mp ha
    exact hany (List.any_eq_true.mpr ⟨p, hp, by simp [hpe]⟩)

theorem alSet_ne_nil {α : Type} (l : List (Nat × α)) (i : Nat) (v : α) : alSet l i v ≠ [] := by
  unfold alSet
  by_cases hany : l.any (·.1 == i) = true
  · simp only [hany, if_true]
    cases l with
    | nil => simp at hany
    | cons p ps => simp
  · simp [hany]

/-- in a sorted map, a key below the first key is absent -/
theorem gmGet_none_of_lt {α : Type} {m : GroupMap α} {k : List Value}
    (h : ∀ g ∈ m, cmpList k g.1 = .lt) : gmGet m k = none := by
  unfold gmGet
  have : m.find? (fun g => cmpList g.1 k == .eq) = none := by
    apply List.find?_eq_none.mpr
    intro g hg
    have := cmpList_gt_of_lt (h g hg)
    simp [this]
  rw [this]; rfl

theorem gmGet_gmModify_same {α : Type} {m : GroupMap α} (hs : GmSorted m) {k k' : List Value}
    (hk : cmpList k k' = .eq) (f : List (Nat × α) → List (Nat × α)) :
    gmGet (gmModify m k f) k' = some (f ((gmGet m k).getD [])) := by
  induction m with
  | nil =>
    simp [gmModify, gmGet, List.find?, hk]
  | cons g rest ih =>
    unfold GmSorted at hs
    simp only [List.map, List.pairwise_cons] at hs
    simp only [gmModify]
    cases hc : cmpList k g.1
    · -- inserted in front; k was absent
      have habs : gmGet (g :: rest) k = none := by
        apply gmGet_none_of_lt
        intro h hh
        rcases List.mem_cons.mp hh with hh | hh
        · rw [hh]; exact hc
        · exact cmpList_lt_trans hc (hs.1 h.1 (List.mem_map.mpr ⟨h, hh, rfl⟩))
      rw [habs]
      simp [gmGet, List.find?, hk]
    · -- the entry of g is modified
      have hgk' : cmpList g.1 k' = .eq := cmpList_eq_trans (cmpList_eq_symm hc) hk
      have hgk : cmpList g.1 k = .eq := cmpList_eq_symm hc
      simp [gmGet, List.find?, hgk', hgk]
    · have hgk : cmpList g.1 k = .lt := cmpList_lt_of_gt hc
      have hgk' : cmpList g.1 k' = .lt := by rw [cmpList_congr_right hk g.1]; exact hgk
      have := ih hs.2
      simp only [gmGet, List.find?, hgk, hgk'] at this ⊢
      simpa using this

theorem gmGet_gmModify_other {α : Type} (m : GroupMap α) {k k' : List Value}
    (hk : cmpList k k' ≠ .eq) (f : List (Nat × α) → List (Nat × α)) :
    gmGet (gmModify m k f) k' = gmGet m k' := by
  induction m with
  | nil =>
    have : (cmpList k k' == .eq) = false := by simp [hk]
    simp [gmModify, gmGet, List.find?, this]
  | cons g rest ih =>
    simp only [gmModify]
    cases hc : cmpList k g.1
    · have : (cmpList k k' == .eq) = false := by simp [hk]
      simp [gmGet, List.find?, this]
    · have hne : (cmpList g.1 k' == .eq) = false := by
        have : cmpList g.1 k' = cmpList k k' := (cmpList_congr_left hc k').symm
        simp [this, hk]
      simp [gmGet, List.find?, hne]
    · cases hg : (cmpList g.1 k' == .eq)
      · simp only [gmGet, List.find?, hg] at ih ⊢
        exact ih
      · simp [gmGet, List.find?, hg]

theorem gmLookup_gmSet {α : Type} {m : GroupMap α} (hs : GmSorted m) (k k' : List Value) (i i' : Nat) (v : α) :
    gmLookup (gmSet m k i v) k' i' =
      if cmpList k k' = .eq ∧ i = i' then some v else gmLookup m k' i' := by
  unfold gmLookup gmSet
  by_cases hk : cmpList k k' = .eq
  · rw [gmGet_gmModify_same hs hk]
    simp only [Option.bind, hk, true_and, alGet_alSet]
    by_cases hi : i = i'
    · simp [hi]
    · simp only [hi, if_false]
      -- the old inner map of k is the old inner map of k'
      have hget : gmGet m k = gmGet m k' := by
        unfold gmGet
        have : (fun g : List Value × List (Nat × α) => cmpList g.1 k == .eq) = (fun g => cmpList g.1 k' == .eq) := by
          funext g
          rw [cmpList_congr_right hk g.1]
        rw [this]
      rw [hget]
      cases gmGet m k' with
      | none => simp [alGet, List.find?]
      | some l => simp
  · rw [gmGet_gmModify_other m hk]
    simp [hk]

end Sqlgrep
