import SqlgrepModel.Model.Value
/- Expression trees of `src/model.rs` (`ExpressionTree`) and evaluation outcomes. -/
namespace Sqlgrep

inductive ErrKind where
  | columnNotFound | expectedNonNull | typeError | groupKeyNotFound | groupValueNotFound
  | undefinedOperation | undefinedFunction | invalidRegex | expectedArray | expectedArrayIndexInt
  | expectedArrayElementType | failedToTruncate | invalidTruncatePart | failedToParseTimestamp | failedToConvert
  -- ExecutionError kinds raised by the engines
  | groupKeyNotAvailable | expectedBoolValue | expectedStringValue | cannotCreateArrayOfNullType
  | distinctRequiresColumn | internalError | tableNotFound | failReadFile | failOpenFile
  deriving DecidableEq, Repr, Inhabited

def ErrKind.name : ErrKind → String
  | .columnNotFound => "ColumnNotFound" | .expectedNonNull => "ExpectedNonNull" | .typeError => "TypeError"
  | .groupKeyNotFound => "GroupKeyNotFound" | .groupValueNotFound => "GroupValueNotFound"
  | .undefinedOperation => "UndefinedOperation" | .undefinedFunction => "UndefinedFunction"
  | .invalidRegex => "InvalidRegex" | .expectedArray => "ExpectedArray"
  | .expectedArrayIndexInt => "ExpectedArrayIndexingToBeInt" | .expectedArrayElementType => "ExpectedArrayElementType"
  | .failedToTruncate => "FailedToTruncate" | .invalidTruncatePart => "InvalidTruncatePart"
  | .failedToParseTimestamp => "FailedToParseTimestamp" | .failedToConvert => "FailedToConvert"
  | .groupKeyNotAvailable => "GroupKeyNotAvailable" | .expectedBoolValue => "ExpectedBoolValue"
  | .expectedStringValue => "ExpectedStringValue" | .cannotCreateArrayOfNullType => "CannotCreateArrayOfNullType"
  | .distinctRequiresColumn => "DistinctRequiresColumn" | .internalError => "InternalError" | .tableNotFound => "TableNotFound"
  | .failReadFile => "FailReadFile" | .failOpenFile => "FailOpenFile"

/-- result of running a piece of sqlgrep: a value, a reported error, a Rust panic (explicit, so that
"never panics" is a statement), or a request for an external fact the case did not ship -/
inductive Outcome (α : Type) where
  | ok (a : α)
  | error (k : ErrKind)
  | panic (site : String)
  | oracleMissing (what : String)
  deriving Repr, Inhabited

namespace Outcome
@[inline] def bind {α β : Type} (x : Outcome α) (f : α → Outcome β) : Outcome β :=
  match x with
  | ok a => f a
  | error k => error k
  | panic s => panic s
  | oracleMissing w => oracleMissing w
instance : Monad Outcome where
  pure := Outcome.ok
  bind := Outcome.bind
def ofOption {α : Type} (k : ErrKind) : Option α → Outcome α
  | some a => ok a
  | none => error k
def isPanic {α : Type} : Outcome α → Bool
  | panic _ => true
  | _ => false
end Outcome

inductive CmpOp where | eq | ne | gt | ge | lt | le deriving DecidableEq, Repr, Inhabited
inductive ArithOp where | add | sub | mul | div deriving DecidableEq, Repr, Inhabited
inductive Scope where | table | aggValue | groupKey | groupValue deriving DecidableEq, Repr, Inhabited

inductive Func where
  | greatest | least | abs | sqrt | pow | length | upper | lower | regexMatches
  | createArray | arrayUnique | arrayLength | arrayCat | arrayAppend | arrayPrepend
  | now | makeTimestamp | epoch | year | month | day | hour | minute | second | dateTrunc
  deriving DecidableEq, Repr, Inhabited

inductive Expr where
  | value (v : Value)
  | column (name : String)
  | scoped (s : Scope) (name : String)
  | wildcard
  | compare (op : CmpOp) (l r : Expr)
  | nullCmp (isNot : Bool) (l r : Expr)
  | arith (op : ArithOp) (l r : Expr)
  | boolOp (isAnd : Bool) (l r : Expr)
  | neg (e : Expr)
  | not (e : Expr)
  | inList (isNot : Bool) (e : Expr) (vs : List Expr)
  | call (f : Func) (args : List Expr)
  | index (a i : Expr)
  | cast (e : Expr) (t : VType)
  | case (clauses : List (Expr × Expr)) (els : Expr)
  /-- `ExpressionTree::Aggregate(id, GroupKey(column))` inside HAVING: looked up by the structural identity
  (canonical text) of `column` among the GROUP BY parts -/
  | groupKeyRef (canon : String)
  /-- `ExpressionTree::Aggregate(id, aggregate)` inside HAVING: looked up by `id` -/
  | groupValueRef (id : Nat)
  deriving Repr, Inhabited

end Sqlgrep
