// C09: execution is total — extreme-value generators at expression and statement level, all output formats,
// every case under catch_unwind; thorough tier repeats the statement-level scan in child processes under
// time zones with DST gaps. A panic anywhere is a failure; the text-format runs are also correspondence cases.
use std::fs::File;
use std::sync::atomic::AtomicBool;
use std::sync::Arc;

use sqlgrep::execution::execution_engine::ExecutionEngine;
use sqlgrep::executor::{DisplayOptions, FileExecutor, OutputFormat};
use sqlgrep::model::ValueType;

use crate::c03::{check_expr, gen_env, gen_expr};
use crate::c04::{gen_input, join_lines};
use crate::engine_run::*;
use crate::queries::*;
use crate::run::{Params, Run};
use crate::runq::{tmp_file, CapturePrinter};
use crate::util::{catch, Caught, Rng};

const TS_DEFS: &str = "CREATE TABLE t(line = '^([^;]*);([^;]*);([^;]*);([^;]*);([^;]*);([^;]*);([^;]*);([^;]*)$', line[1], line[2], line[3], line[4], line[5], line[6], line[7] => ts TIMESTAMP, line[8] => iv INTERVAL, line[1], line[2] => arr INT[], line[8] => x TEXT);\nCREATE TABLE j({.a} => a INT, {.b[0]} => b REAL, {.c.d} => c TEXT DEFAULT 'z', {.t} => t TIMESTAMP CONVERT, {.i} => i INTERVAL CONVERT);";

use crate::gen::awkward_text;

fn ts_line(rng: &mut Rng) -> String {
    let num = |rng: &mut Rng, normal: &[&str]| -> String {
        if rng.chance(1, 5) { (*rng.pick(&["4294967297", "-1", "99999999999999999999", "", "x", "2147483648", "9999999", "0"])).to_owned() } else { (*rng.pick(normal)).to_owned() }
    };
    format!("{};{};{};{};{};{};{};{}",
        num(rng, &["2020", "1999", "2018", "262142", "1"]), num(rng, &["1", "2", "11", "12", "jan", "Feb", "sept"]), num(rng, &["1", "4", "28", "29", "31"]),
        num(rng, &["0", "12", "23"]), num(rng, &["0", "30", "59"]), num(rng, &["0", "30", "59", "60"]), num(rng, &["0", "5", "999", "999999"]),
        if rng.chance(1, 4) { awkward_text(rng) } else { (*rng.pick(&["1:2:3", "9999999999999999:0:0", "0:9999999999999999:0", "-5:0:0", "x", "2562047788015:0:0", "2018-11-04 00:30:00",
            // every part inside chrono's range, the SUM of the parts just outside / just inside (both signs)
            "2562047788015:13:00", "2562047788015:12:60", "2562047788015:12:55", "-2562047788015:-13:00", "2562047788015:0:99999", "0:153722867280912:56", "0:0:9223372036854775"])).to_owned() })
}

fn json_line(rng: &mut Rng) -> String {
    if rng.chance(1, 5) {
        return format!("{{\"a\": 1, \"t\": \"{}\", \"i\": \"{}\", \"c\": {{\"d\": \"{}\"}}}}", awkward_text(rng), awkward_text(rng), awkward_text(rng));
    }
    (*rng.pick(&[
        "{\"a\": 1, \"b\": [1.5], \"c\": {\"d\": \"x\"}, \"t\": \"2018-11-04 00:30:00\", \"i\": \"1:2:3\"}",
        "{\"a\": 9223372036854775808, \"b\": [1e308], \"t\": \"2018-02-17 23:30:00\", \"i\": \"99999999999999:0:0\"}", "{\"a\": 2, \"i\": \"2562047788015:13:00\", \"t\": \"2018-02-17 23:30:00\"}", "{\"a\": 3, \"i\": \"-2562047788015:-12:-60\"}",
        "{\"a\": -9223372036854775808, \"b\": [], \"c\": 5}", "{\"a\": 1e400}", "[1,2", "", "null", "{\"a\": {\"a\": 1}}", "{\"b\": [\"x\"]}",
        "{\"a\": 18446744073709551616, \"b\": [-0.0]}", "{\"t\": \"0000-00-00 00:00:00\", \"i\": \"::\"}",
    ])).to_owned()
}

const TS_QUERIES: &[&str] = &[
    "SELECT ts, iv, arr, x FROM t", "SELECT * FROM t", "SELECT ts + iv, ts - ts, iv + iv, iv - iv FROM t", "SELECT MIN(ts), MAX(ts), SUM(iv), AVG(iv), COUNT(*) FROM t",
    "SELECT EXTRACT(EPOCH FROM ts), EXTRACT(YEAR FROM ts), date_trunc('hour', ts), date_trunc('day', ts), date_trunc('year', ts) FROM t",
    "SELECT ts FROM t WHERE ts > '2018-11-04 00:30:00'", "SELECT ts FROM t WHERE ts > x", "SELECT x FROM t WHERE make_timestamp(2020, 1, 1, 0, 0, 0, 0, 0) < x", "SELECT x FROM t WHERE x >= make_timestamp(2005, 6, 17, 7, 7, 7, 0, 0) OR x = ts", "SELECT x::timestamp, x::interval, iv::int, iv::real, ts::text, iv::text FROM t",
    "SELECT arr[1], arr[0], arr[9223372036854775807], arr[-9223372036854775807 - 1], array_unique(arr), array_length(arr) FROM t",
    "SELECT STDDEV(iv), VARIANCE(iv), PERCENTILE(ts, 0.5), ARRAY_AGG(ts), STRING_AGG(x, ',') FROM t", "SELECT ts, COUNT(*) FROM t GROUP BY ts HAVING MAX(iv) > MIN(iv)",
    "SELECT greatest(ts, ts), least(iv, iv), abs(iv), -iv FROM t", "SELECT make_timestamp(2018, 11, 4, 0, 30, 0, 0, 0), make_timestamp(-262144, 1, 1, 0, 0, 0, 0, 0) + iv FROM t",
];
const JSON_QUERIES: &[&str] = &[
    "SELECT * FROM j", "SELECT a + 1, a * a, a / 0, -a, abs(a), pow(a, 2), pow(a, 70) FROM j", "SELECT b * b, sqrt(b), b / 0.0, b::text FROM j",
    "SELECT SUM(a), AVG(a), STDDEV(a), VARIANCE(b), MIN(b), MAX(b), PERCENTILE(b, 1.0) FROM j", "SELECT t, i, t + i, t - t FROM j", "SELECT c, COUNT(DISTINCT b) FROM j GROUP BY c",
];

fn run_formats(run: &mut Run, defs: &str, query: &str, files: &[Vec<u8>]) {
    let prepared = match catch(|| prepare(defs, query)) {
        Caught::Done(Ok(p)) => p,
        Caught::Done(Err(_)) => { run.count("rejected"); return; }
        Caught::Panic(m) => { run.fail(format!("query={}", query), "panic:parse", m); return; }
    };
    for (name, format) in &[("text", OutputFormat::Text), ("json", OutputFormat::Json), ("csv", OutputFormat::CSV(";".to_owned()))] {
        run.oracle_checks += 1;
        let paths: Vec<_> = files.iter().map(|c| tmp_file(c)).collect();
        let r = catch(|| {
            let fs: Vec<File> = paths.iter().map(|p| File::open(p).unwrap()).collect();
            let display = DisplayOptions { output_format: format.clone(), single_result: false, print_result: true };
            let engine = ExecutionEngine::new(&prepared.tables, &prepared.statement);
            let mut ex = FileExecutor::with_output_printer(Arc::new(AtomicBool::new(true)), fs, display, CapturePrinter::new(), engine).unwrap();
            let r = ex.execute();
            (r.is_ok(), ex.output_printer().printer().lines.len())
        });
        for p in paths { let _ = std::fs::remove_file(p); }
        match r {
            Caught::Done((ok, n)) => run.count(&format!("fmt:{}:{}", name, if ok { if n > 0 { "rows" } else { "empty" } } else { "error" })),
            Caught::Panic(m) => run.fail(format!("format={} query={} input={:?}", name, query, files.iter().map(|f| String::from_utf8_lossy(f).to_string()).collect::<Vec<_>>()), &format!("panic:run-{}", name), m),
        }
    }
}

/// statement-level scan (no model): used in-process and in the TZ children
pub fn scan(run: &mut Run, rng: &mut Rng, n: usize) {
    for i in 0..n {
        match i % 4 {
            0 => {
                let nl = rng.below(6) + 1;
                let lines: Vec<String> = (0..nl).map(|_| ts_line(rng)).collect();
                let q = *rng.pick(TS_QUERIES);
                run_formats(run, TS_DEFS, q, &[join_lines(&lines)]);
            }
            1 => {
                let nl = rng.below(5) + 1;
                let lines: Vec<String> = (0..nl).map(|_| json_line(rng)).collect();
                let q = *rng.pick(JSON_QUERIES);
                run_formats(run, TS_DEFS, q, &[join_lines(&lines)]);
            }
            _ => {
                let sch = gen_schema(rng);
                let nj = rng.below(6);
                let jlines: Vec<String> = (0..nj).map(|_| gen_join_line(rng)).collect();
                let jpath = tmp_file(&join_lines(&jlines));
                let opts = QueryOpts { allow_limit: true, allow_distinct: true, allow_join: true, aggregate: None };
                let gq = gen_query(rng, &sch, &opts, &jpath.display().to_string());
                let nl = rng.below(12);
                let np = *rng.pick(&[10u64, 50]);
                let lines = gen_input(rng, nl, np, true);
                let mut bytes = join_lines(&lines);
                if rng.chance(1, 10) { bytes.extend_from_slice(b"\xff\xfe;1;2;3;4;\nlater;1;2;3;4;\n"); }
                run_formats(run, &sch.defs, &gq.text, &[bytes]);
                let _ = std::fs::remove_file(jpath);
            }
        }
    }
}

pub fn run(p: &Params) -> Run {
    let mut run = Run::new("C09");
    let mut rng = Rng::new(p.seed ^ 0x09);
    // expression level, biased to ill-typed and extreme operands (also correspondence cases)
    for _ in 0..p.n(2500, 100_000) {
        let env = gen_env(&mut rng);
        let t = match rng.below(5) { 0 => ValueType::Int, 1 => ValueType::Float, 2 => ValueType::Timestamp, 3 => ValueType::Interval, _ => ValueType::Bool };
        let depth = 1 + rng.below(3);
        let e = gen_expr(&mut rng, depth, &t, 30);
        check_expr(&mut run, &env, &e, "x:");
    }
    let env0 = gen_env(&mut rng);
    crate::c03::boundary_cases(&mut run, &env0, p.tier_thorough);
    // every function × every argument type and its boundary values (pow beyond u32, abs at MIN, out-of-range date parts)
    crate::c03func::function_cases(&mut run, &mut rng, p.tier_thorough);
    // statement level with extreme inputs: correspondence (text format) ...
    let opts = QueryOpts { allow_limit: true, allow_distinct: true, allow_join: false, aggregate: None };
    for _ in 0..p.n(800, 30_000) {
        let sch = gen_schema(&mut rng);
        let gq = gen_query(&mut rng, &sch, &opts, "");
        let prepared = match prepare(&sch.defs, &gq.text) { Ok(p) => p, Err(_) => continue };
        let nl = rng.below(14);
        let np = *rng.pick(&[10u64, 40]);
        let lines = gen_input(&mut rng, nl, np, true);
        let files = vec![join_lines(&lines)];
        let result = run_files(&prepared, &files);
        run.oracle_checks += 1;
        if result.status == "panic" {
            run.fail(format!("query={} input={:?}", gq.text, lines), "panic:run-text", "batch run panicked".to_owned());
        }
        if let Some(case) = batch_case(&prepared, b"", &files, None) {
            run.case_with_desc(case, result.wire(), format!("stmt:{}:{}", if gq.is_aggregate { "agg" } else { "sel" }, result.status), format!("query={} input={:?}", gq.text, lines));
        }
    }
    // ... and the panic scan over all formats, timestamp/interval/array/JSON tables
    let nscan = p.n(600, 20_000);
    scan(&mut run, &mut rng, nscan);
    if p.tier_thorough {
        // DST zones: child processes (chrono's local zone is per process)
        for zone in &["America/Sao_Paulo", "Europe/London", "Asia/Beirut", "Australia/Lord_Howe"] {
            let exe = std::env::current_exe().unwrap();
            let out = std::process::Command::new(exe).env("TZ", zone).arg("tzscan").arg(p.seed.to_string()).arg("4000").output();
            match out {
                Ok(o) => {
                    let text = String::from_utf8_lossy(&o.stdout).to_string();
                    let mut n = 0;
                    for l in text.lines() {
                        if let Some(rest) = l.strip_prefix("FAIL ") {
                            let mut it = rest.splitn(2, " :: ");
                            let class = it.next().unwrap_or("panic:tz");
                            run.fail(format!("TZ={} {}", zone, it.next().unwrap_or("")), class, "panicked under this time zone".to_owned());
                        }
                        if let Some(c) = l.strip_prefix("CHECKS ") { n = c.trim().parse().unwrap_or(0); }
                    }
                    run.oracle_checks += n;
                    run.count(&format!("tz:{}", zone));
                    if !o.status.success() { run.fail(format!("TZ={}", zone), "panic:tz-child-died", format!("child exit {:?}", o.status)); }
                }
                Err(e) => run.notes.push(format!("could not start TZ child: {}", e)),
            }
        }
    }
    run.notes.push("almost-literal text with a multi-byte character at every byte offset 0..30 in TIMESTAMP / INTERVAL / TEXT fields and JSON strings".to_owned());
    // extraction over generated definitions (every pattern kind incl. split field 0 = the whole line, every column type
    // and modifier, JSON paths) and lines made for them: a panic is a failure, the rows are correspondence cases
    let mut xrng = Rng::new(p.seed ^ 0x09E);
    crate::extract::random_cases(&mut run, &mut xrng, p.n(140, 3_000), 5, 3);
    run.notes.push("every case runs under catch_unwind with overflow checks on; a panic is a failure; text-format runs and expressions are also model correspondence cases".to_owned());
    run
}

/// child-process entry: statement-level scan under the inherited TZ
pub fn tzscan(seed: u64, n: usize) {
    let mut run = Run::new("C09");
    let mut rng = Rng::new(seed ^ 0x0909);
    scan(&mut run, &mut rng, n);
    for f in &run.failures {
        println!("FAIL {} :: {}", f.class, f.case.replace('\n', "\\n"));
    }
    println!("CHECKS {}", run.oracle_checks);
}
