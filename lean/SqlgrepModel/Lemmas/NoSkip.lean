import SqlgrepModel.Model.Eval
/-
When does the evaluator model stop for a missing external fact (`Outcome.oracleMissing`, which a run reports as
`skipped`)?  Only inside `callFunction`, at four sites, and only when the oracle has no total functions behind its finite
tables (`O.total = none`, as in every oracle the driver builds): `upper` / `lower` of a non-ASCII text that is not in
the shipped table, `regexp_matches` on a (value, pattern) pair that is not in the shipped table, and `now()`.  With total
functions (`Oracles.Total`) no call is ever unanswered (`NM_callFunction_total`) — the form in which C09's "results or a
reported error" is stated for EVERY statement.  This file
proves it in two layers, structured like `Lemmas/NoPanic.lean`:

* generic: if every function symbol occurring in an expression satisfies `ok`, and calls of `ok` functions never
  answer `oracleMissing` under the oracle tables `O`, then `eval O env e` never answers `oracleMissing`
  (`NM_eval`, mutual over `Expr`);
* the decidable syntactic instance `factFreeFunc` (every function except `upper`, `lower`, `regexp_matches`, `now`):
  the hypothesis holds for ALL oracle tables (`NM_callFunction_factFree`);
* the exact characterisation of the four sites (`callFunction_missing_iff`).
-/
namespace Sqlgrep

/-- the outcome is a request for an external fact the case did not ship -/
def Outcome.isMissing {α : Type} : Outcome α → Bool
  | .oracleMissing _ => true
  | _ => false

/-- the outcome is not a request for a missing fact -/
def NM {α : Type} (o : Outcome α) : Prop := o.isMissing = false

@[simp] theorem NM_ok {α : Type} (a : α) : NM (Outcome.ok a) := rfl
@[simp] theorem NM_pure {α : Type} (a : α) : NM (pure a : Outcome α) := rfl
@[simp] theorem NM_error {α : Type} (k : ErrKind) : NM (Outcome.error k : Outcome α) := rfl
@[simp] theorem NM_panic {α : Type} (s : String) : NM (Outcome.panic s : Outcome α) := rfl

theorem NM_bind {α β : Type} {x : Outcome α} {f : α → Outcome β} (hx : NM x) (hf : ∀ a, NM (f a)) : NM (x >>= f) := by
  cases x <;> simp_all [NM, bind, Outcome.bind, Outcome.isMissing]

theorem NM_bind' {α β : Type} {x : Outcome α} {f : α → Outcome β} (hx : NM x) (hf : ∀ a, NM (f a)) : NM (x.bind f) :=
  NM_bind hx hf

/-- the continuation only has to be looked at on the values the first part can return -/
theorem NM_bind_ok {α β : Type} {x : Outcome α} {f : α → Outcome β} (hx : NM x) (hf : ∀ a, x = .ok a → NM (f a)) :
    NM (x >>= f) := by
  cases x with
  | ok a => exact hf a rfl
  | error k => rfl
  | panic s => rfl
  | oracleMissing w => simp [NM, Outcome.isMissing] at hx

theorem NM_ofOption {α : Type} (k : ErrKind) (o : Option α) : NM (Outcome.ofOption k o) := by
  cases o <;> rfl

theorem NM_iff {α : Type} (o : Outcome α) : NM o ↔ ∀ w, o ≠ .oracleMissing w := by
  cases o <;> simp [NM, Outcome.isMissing]

/-- case-split a definition that contains no `oracleMissing` constructor until every leaf is another constructor -/
macro "nm" : tactic => `(tactic| (repeat' (first | rfl | split | (dsimp only))))

theorem NM_parseLit (O : Oracles) (t : VType) (s : Bytes) : NM (parseLit O t s) := by
  unfold parseLit; nm

theorem NM_tsAdd (d s f ns : Int) : NM (tsAdd d s f ns) := by
  unfold tsAdd; nm

theorem NM_ivChecked (ns : Int) : NM (ivChecked ns) := by
  unfold ivChecked; nm

theorem NM_arith (op : ArithOp) (l r : Value) : NM (arith op l r) := by
  unfold arith
  repeat' (first | rfl | exact NM_tsAdd _ _ _ _ | exact NM_ivChecked _ | split | (dsimp only))

theorem NM_negate (v : Value) : NM (negate v) := by
  unfold negate; nm

theorem NM_invert (v : Value) : NM (invert v) := by
  unfold invert; nm

theorem NM_condHolds (v : Value) : NM (condHolds v) := by
  unfold condHolds; nm

theorem NM_dateTrunc (p : Bytes) (d s f : Int) : NM (dateTrunc p d s f) := by
  unfold dateTrunc; nm

theorem NM_castValue (O : Oracles) (v : Value) (t : VType) : NM (castValue O v t) := by
  unfold castValue
  split
  · apply NM_bind' (NM_parseLit _ _ _)
    intro r; cases r <;> rfl
  all_goals nm

theorem NM_makeTimestampOf (y mo d h mi s us : Int) : NM (makeTimestampOf y mo d h mi s us) := by
  unfold makeTimestampOf; nm

theorem NM_tsOfText (O : Oracles) (s : Bytes) : NM (tsOfText O s) := by
  unfold tsOfText
  exact NM_bind (NM_parseLit _ _ _) (fun p => by split <;> rfl)

theorem NM_coerceTs (O : Oracles) (lv rv : Value) : NM (coerceTs O lv rv) := by
  unfold coerceTs
  split
  · exact NM_bind' (NM_tsOfText _ _) (fun _ => rfl)
  · exact NM_bind' (NM_tsOfText _ _) (fun _ => rfl)
  · rfl

theorem NM_prepCompare (O : Oracles) (lv rv : Value) : NM (prepCompare O lv rv) := by
  unfold prepCompare
  exact NM_bind' (NM_coerceTs _ _ _) (fun p => by split <;> rfl)

/-! ### the four sites -/

/-- the functions whose model never asks for an external fact: all but `upper`, `lower`, `regexp_matches`, `now` -/
def factFreeFunc (f : Func) : Bool :=
  match f with
  | .upper | .lower | .regexMatches | .now => false
  | _ => true

/-- a call of a fact-free function never stops for a missing fact — whatever the oracle tables hold -/
theorem NM_callFunction_factFree (O : Oracles) (f : Func) (hf : factFreeFunc f = true) (args : List Value) :
    NM (callFunction O f args) := by
  unfold callFunction
  repeat' (first | rfl | exact NM_dateTrunc _ _ _ _ | exact NM_makeTimestampOf _ _ _ _ _ _ _ | (exfalso; revert hf; decide) | split | (dsimp only))

/-- the four places where `callFunction` stops for a missing fact, with the name of the fact it reports — all four only
when the oracle has no total functions behind its tables (`O.total = none`: every oracle the driver builds) -/
inductive MissingSite (O : Oracles) : Func → List Value → String → Prop where
  /-- `upper(s)`: `s` is not ASCII and `str::to_uppercase(s)` was not shipped -/
  | upper (s : Bytes) (ha : isAscii s = false) (hl : lookupB O.upper s = none) (ht : O.total = none) :
      MissingSite O .upper [.text s] "upper"
  /-- `lower(s)`: `s` is not ASCII and `str::to_lowercase(s)` was not shipped -/
  | lower (s : Bytes) (ha : isAscii s = false) (hl : lookupB O.lower s = none) (ht : O.total = none) :
      MissingSite O .lower [.text s] "lower"
  /-- `regexp_matches(v, p)`: the verdict of `Regex::new(p)` / `is_match(v)` on this pair was not shipped -/
  | regex (v p : Bytes) (hl : O.regex.find? (fun e => e.1.1 == v && e.1.2 == p) = none) (ht : O.total = none) :
      MissingSite O .regexMatches [.text v, .text p] "regex"
  /-- `now()`: the model has no clock of its own; without a total oracle it always stops -/
  | now (ht : O.total = none) : MissingSite O .now [] "now"

/-- `callFunction` stops for a missing fact only at one of the four sites … -/
theorem callFunction_missing_site (O : Oracles) (f : Func) (args : List Value) (w : String)
    (h : callFunction O f args = .oracleMissing w) : MissingSite O f args w := by
  unfold callFunction at h
  dsimp only at h
  repeat' (first
    | split at h
    | cases h
    | exact absurd h ((NM_iff _).1 (NM_dateTrunc _ _ _ _) w)
    | exact absurd h ((NM_iff _).1 (NM_makeTimestampOf _ _ _ _ _ _ _) w))
  · rename_i s hna _ hl _ ht
    exact .upper s (by simpa using hna) hl ht
  · rename_i s hna _ hl _ ht
    exact .lower s (by simpa using hna) hl ht
  · rename_i v p _ hl _ ht
    exact .regex v p (by simpa using hl) ht
  · rename_i ht
    exact .now ht

/-- … and at each of them it does stop -/
theorem callFunction_at_missing_site (O : Oracles) (f : Func) (args : List Value) (w : String)
    (h : MissingSite O f args w) : callFunction O f args = .oracleMissing w := by
  cases h with
  | upper s ha hl ht => simp [callFunction, ha, hl, ht]
  | lower s ha hl ht => simp [callFunction, ha, hl, ht]
  | regex v p hl ht => simp [callFunction, hl, ht]
  | now ht => simp [callFunction, ht]

/-- **exactly when a function call is skipped** -/
theorem callFunction_missing_iff (O : Oracles) (f : Func) (args : List Value) (w : String) :
    callFunction O f args = .oracleMissing w ↔ MissingSite O f args w :=
  ⟨callFunction_missing_site O f args w, callFunction_at_missing_site O f args w⟩

/-- **a total oracle answers every call**: with total functions behind the tables (`O.Total`) no function call —
whatever the function, whatever the arguments — stops for a missing fact -/
theorem NM_callFunction_total (O : Oracles) (hT : O.Total) (f : Func) (args : List Value) : NM (callFunction O f args) := by
  obtain ⟨T, hT⟩ := hT
  rw [NM_iff]
  intro w hw
  have hs := callFunction_missing_site O f args w hw
  cases hs with
  | upper _ _ _ ht => rw [hT] at ht; cases ht
  | lower _ _ _ ht => rw [hT] at ht; cases ht
  | regex _ _ _ ht => rw [hT] at ht; cases ht
  | now ht => rw [hT] at ht; cases ht

/-- the site characterisation, read per function: `upper` -/
theorem upper_missing_iff (O : Oracles) (s : Bytes) :
    (callFunction O .upper [.text s]).isMissing = true ↔ isAscii s = false ∧ lookupB O.upper s = none ∧ O.total = none := by
  constructor
  · intro h
    cases hc : callFunction O .upper [.text s] with
    | oracleMissing w =>
      have hs := callFunction_missing_site O _ _ w hc
      cases hs with
      | upper _ ha hl ht => exact ⟨ha, hl, ht⟩
    | ok a => rw [hc] at h; cases h
    | error k => rw [hc] at h; cases h
    | panic k => rw [hc] at h; cases h
  · rintro ⟨ha, hl, ht⟩
    rw [callFunction_at_missing_site O _ _ _ (.upper s ha hl ht)]; rfl

theorem lower_missing_iff (O : Oracles) (s : Bytes) :
    (callFunction O .lower [.text s]).isMissing = true ↔ isAscii s = false ∧ lookupB O.lower s = none ∧ O.total = none := by
  constructor
  · intro h
    cases hc : callFunction O .lower [.text s] with
    | oracleMissing w =>
      have hs := callFunction_missing_site O _ _ w hc
      cases hs with
      | lower _ ha hl ht => exact ⟨ha, hl, ht⟩
    | ok a => rw [hc] at h; cases h
    | error k => rw [hc] at h; cases h
    | panic k => rw [hc] at h; cases h
  · rintro ⟨ha, hl, ht⟩
    rw [callFunction_at_missing_site O _ _ _ (.lower s ha hl ht)]; rfl

theorem regex_missing_iff (O : Oracles) (v p : Bytes) :
    (callFunction O .regexMatches [.text v, .text p]).isMissing = true ↔
      O.regex.find? (fun e => e.1.1 == v && e.1.2 == p) = none ∧ O.total = none := by
  constructor
  · intro h
    cases hc : callFunction O .regexMatches [.text v, .text p] with
    | oracleMissing w =>
      have hs := callFunction_missing_site O _ _ w hc
      cases hs with
      | regex _ _ hl ht => exact ⟨hl, ht⟩
    | ok a => rw [hc] at h; cases h
    | error k => rw [hc] at h; cases h
    | panic k => rw [hc] at h; cases h
  · rintro ⟨hl, ht⟩
    rw [callFunction_at_missing_site O _ _ _ (.regex v p hl ht)]; rfl

/-- `now()` is skipped exactly when the oracle has no clock reading — always, for the oracles the driver builds -/
theorem now_missing_iff (O : Oracles) : callFunction O .now [] = .oracleMissing "now" ↔ O.total = none := by
  constructor
  · intro h
    cases callFunction_missing_site O _ _ _ h with
    | now ht => exact ht
  · intro ht; exact callFunction_at_missing_site O _ _ _ (.now ht)

/-! ### which functions an expression calls -/

mutual
/-- every function symbol that occurs anywhere in the expression satisfies `ok` -/
def Expr.allFuncs (ok : Func → Bool) : Expr → Bool
  | .value _ => true
  | .column _ => true
  | .scoped _ _ => true
  | .wildcard => true
  | .compare _ l r => l.allFuncs ok && r.allFuncs ok
  | .nullCmp _ l r => l.allFuncs ok && r.allFuncs ok
  | .arith _ l r => l.allFuncs ok && r.allFuncs ok
  | .boolOp _ l r => l.allFuncs ok && r.allFuncs ok
  | .neg e => e.allFuncs ok
  | .not e => e.allFuncs ok
  | .inList _ e vs => e.allFuncs ok && Expr.allFuncsList ok vs
  | .call f args => ok f && Expr.allFuncsList ok args
  | .index a i => a.allFuncs ok && i.allFuncs ok
  | .cast e _ => e.allFuncs ok
  | .case clauses els => Expr.allFuncsCases ok clauses && els.allFuncs ok
  | .groupKeyRef _ => true
  | .groupValueRef _ => true
def Expr.allFuncsList (ok : Func → Bool) : List Expr → Bool
  | [] => true
  | e :: es => e.allFuncs ok && Expr.allFuncsList ok es
def Expr.allFuncsCases (ok : Func → Bool) : List (Expr × Expr) → Bool
  | [] => true
  | (c, r) :: rest => c.allFuncs ok && r.allFuncs ok && Expr.allFuncsCases ok rest
end

/-- the trivial instance: every function symbol is allowed — true of every expression -/
abbrev anyFunc : Func → Bool := fun _ => true

mutual
theorem Expr.allFuncs_any : ∀ e : Expr, e.allFuncs anyFunc = true
  | .value _ => rfl
  | .column _ => rfl
  | .scoped _ _ => rfl
  | .wildcard => rfl
  | .compare _ l r => by simp only [Expr.allFuncs, Expr.allFuncs_any l, Expr.allFuncs_any r, Bool.and_self]
  | .nullCmp _ l r => by simp only [Expr.allFuncs, Expr.allFuncs_any l, Expr.allFuncs_any r, Bool.and_self]
  | .arith _ l r => by simp only [Expr.allFuncs, Expr.allFuncs_any l, Expr.allFuncs_any r, Bool.and_self]
  | .boolOp _ l r => by simp only [Expr.allFuncs, Expr.allFuncs_any l, Expr.allFuncs_any r, Bool.and_self]
  | .neg e => by simp only [Expr.allFuncs, Expr.allFuncs_any e]
  | .not e => by simp only [Expr.allFuncs, Expr.allFuncs_any e]
  | .inList _ e vs => by simp only [Expr.allFuncs, Expr.allFuncs_any e, Expr.allFuncsList_any vs, Bool.and_self]
  | .call _ args => by simp only [Expr.allFuncs, Expr.allFuncsList_any args, Bool.and_self]
  | .index a i => by simp only [Expr.allFuncs, Expr.allFuncs_any a, Expr.allFuncs_any i, Bool.and_self]
  | .cast e _ => by simp only [Expr.allFuncs, Expr.allFuncs_any e]
  | .case clauses els => by simp only [Expr.allFuncs, Expr.allFuncsCases_any clauses, Expr.allFuncs_any els, Bool.and_self]
  | .groupKeyRef _ => rfl
  | .groupValueRef _ => rfl
theorem Expr.allFuncsList_any : ∀ es : List Expr, Expr.allFuncsList anyFunc es = true
  | [] => rfl
  | e :: es => by simp only [Expr.allFuncsList, Expr.allFuncs_any e, Expr.allFuncsList_any es, Bool.and_self]
theorem Expr.allFuncsCases_any : ∀ cs : List (Expr × Expr), Expr.allFuncsCases anyFunc cs = true
  | [] => rfl
  | (c, r) :: rest => by
    simp only [Expr.allFuncsCases, Expr.allFuncs_any c, Expr.allFuncs_any r, Expr.allFuncsCases_any rest, Bool.and_self]
end

/-- the expression calls none of `upper`, `lower`, `regexp_matches`, `now` (at any depth) -/
abbrev Expr.factFree (e : Expr) : Bool := e.allFuncs factFreeFunc

/-- split a monadic definition until every leaf is a constructor other than `oracleMissing`, a hypothesis, or a call
known not to ask -/
macro "nmb" : tactic => `(tactic| (repeat' (first
  | rfl | assumption
  | exact NM_arith _ _ _ | exact NM_negate _ | exact NM_invert _ | exact NM_condHolds _
  | exact NM_castValue _ _ _ | exact NM_ofOption _ _ | exact NM_parseLit _ _ _
  | (apply NM_bind) | (apply NM_bind') | (intro _) | split | (dsimp only))))

section
variable (O : Oracles) (ok : Func → Bool) (hok : ∀ f, ok f = true → ∀ args, NM (callFunction O f args))
include hok
set_option linter.unusedSectionVars false   -- (the four theorems are mutual: each of them needs `hok` through `NM_eval`)

mutual
/-- **the generic layer**: an expression all of whose function symbols are answered under `O` never stops for a
missing fact, in any environment -/
theorem NM_eval (env : Env) : ∀ (e : Expr), e.allFuncs ok = true → NM (eval O env e)
  | .value _, _ => by simp only [eval]; nmb
  | .column _, _ => by simp only [eval]; nmb
  | .scoped _ _, _ => by simp only [eval]; nmb
  | .wildcard, _ => by simp only [eval]; nmb
  | .compare _ l r, h => by
    simp only [Expr.allFuncs, Bool.and_eq_true] at h
    have h1 := NM_eval env l h.1; have h2 := NM_eval env r h.2
    simp only [eval]
    refine NM_bind h1 (fun lv => NM_bind h2 (fun rv => NM_bind (NM_prepCompare O lv rv) (fun p => ?_)))
    split <;> rfl
  | .nullCmp _ l r, h => by
    simp only [Expr.allFuncs, Bool.and_eq_true] at h
    have := NM_eval env l h.1; have := NM_eval env r h.2
    simp only [eval]; nmb
  | .arith _ l r, h => by
    simp only [Expr.allFuncs, Bool.and_eq_true] at h
    have := NM_eval env l h.1; have := NM_eval env r h.2
    simp only [eval]; nmb
  | .boolOp _ l r, h => by
    simp only [Expr.allFuncs, Bool.and_eq_true] at h
    have := NM_eval env l h.1; have := NM_eval env r h.2
    simp only [eval]; nmb
  | .neg e, h => by
    simp only [Expr.allFuncs] at h
    have := NM_eval env e h
    simp only [eval]; nmb
  | .not e, h => by
    simp only [Expr.allFuncs] at h
    have := NM_eval env e h
    simp only [eval]; nmb
  | .inList _ e vs, h => by
    simp only [Expr.allFuncs, Bool.and_eq_true] at h
    have := NM_eval env e h.1
    have hi := NM_evalIn env vs h.2
    simp only [eval]
    apply NM_bind this
    intro v; exact hi _ _ _
  | .call f args, h => by
    simp only [Expr.allFuncs, Bool.and_eq_true] at h
    have := NM_evalList env args h.2
    have hc := hok f h.1
    simp only [eval]
    exact NM_bind this (fun vs => hc vs)
  | .index a i, h => by
    simp only [Expr.allFuncs, Bool.and_eq_true] at h
    have := NM_eval env a h.1; have := NM_eval env i h.2
    simp only [eval]; nmb
  | .cast e _, h => by
    simp only [Expr.allFuncs] at h
    have := NM_eval env e h
    simp only [eval]; nmb
  | .case clauses els, h => by
    simp only [Expr.allFuncs, Bool.and_eq_true] at h
    have := NM_evalCase env clauses h.1; have := NM_eval env els h.2
    simp only [eval]; nmb
  | .groupKeyRef _, _ => by simp only [eval]; nmb
  | .groupValueRef _, _ => by simp only [eval]; nmb
theorem NM_evalList (env : Env) : ∀ (es : List Expr), Expr.allFuncsList ok es = true → NM (evalList O env es)
  | [], _ => by simp only [evalList]; nmb
  | e :: es, h => by
    simp only [Expr.allFuncsList, Bool.and_eq_true] at h
    have := NM_eval env e h.1; have := NM_evalList env es h.2
    simp only [evalList]; nmb
theorem NM_evalIn (env : Env) : ∀ (es : List Expr), Expr.allFuncsList ok es = true →
    ∀ (isNot : Bool) (v : Value) (anyNull : Bool), NM (evalIn O env isNot v anyNull es)
  | [], _, _, _, _ => by simp only [evalIn]; nmb
  | e :: es, h, isNot, v, a => by
    simp only [Expr.allFuncsList, Bool.and_eq_true] at h
    have := NM_eval env e h.1
    have hi := NM_evalIn env es h.2
    simp only [evalIn]
    apply NM_bind this
    intro x
    split
    · exact hi _ _ _
    · split
      · exact hi _ _ _
      · refine NM_bind (NM_prepCompare O v x) (fun p => ?_)
        split
        · rfl
        · exact hi _ _ _
theorem NM_evalCase (env : Env) : ∀ (cs : List (Expr × Expr)), Expr.allFuncsCases ok cs = true → NM (evalCase O env cs)
  | [], _ => by simp only [evalCase]; nmb
  | (c, r) :: rest, h => by
    simp only [Expr.allFuncsCases, Bool.and_eq_true] at h
    have := NM_eval env c h.1.1; have := NM_eval env r h.1.2; have := NM_evalCase env rest h.2
    simp only [evalCase]; nmb
end
end

/-- **the syntactic instance**: a fact-free expression is evaluated without any external fact — for ALL oracle tables -/
theorem NM_eval_factFree (O : Oracles) (env : Env) (e : Expr) (h : e.factFree = true) : NM (eval O env e) :=
  NM_eval O factFreeFunc (NM_callFunction_factFree O) env e h

/-- **the total instance**: with total functions behind the tables EVERY expression is evaluated without stopping for a
missing fact, in every environment -/
theorem NM_eval_total (O : Oracles) (hT : O.Total) (env : Env) (e : Expr) : NM (eval O env e) :=
  NM_eval O anyFunc (fun f _ => NM_callFunction_total O hT f) env e (Expr.allFuncs_any e)

end Sqlgrep
