import SqlgrepModel.Lemmas.ExtractRow
/- JSON side: path following, `from_linear`, independence of JSON columns, regex columns of mixed tables. -/
namespace Sqlgrep.Extract
open Lit

/-- following a path fails exactly when some step is absent from the value reached so far -/
theorem followPath_none_iff (steps : List JsonStep) :
    ∀ j : Json, followPath steps j = none ↔
      ∃ (pre : List JsonStep) (s : JsonStep) (post : List JsonStep) (v : Json),
        steps = pre ++ s :: post ∧ followPath pre j = some v ∧ JsonAccess.step v s = none := by
  induction steps with
  | nil =>
    intro j
    simp only [followPath, reduceCtorEq, false_iff]
    rintro ⟨pre, s, post, v, h, _⟩
    cases pre <;> cases h
  | cons s rest ih =>
    intro j
    simp only [followPath]
    cases hs : JsonAccess.step j s with
    | none =>
      simp only [true_iff]
      exact ⟨[], s, rest, j, rfl, rfl, hs⟩
    | some v =>
      simp only []
      rw [ih v]
      constructor
      · rintro ⟨pre, s', post, w, h1, h2, h3⟩
        refine ⟨s :: pre, s', post, w, by rw [h1]; rfl, ?_, h3⟩
        simp only [followPath, hs, h2]
      · rintro ⟨pre, s', post, w, h1, h2, h3⟩
        cases pre with
        | nil =>
          simp only [List.nil_append, List.cons.injEq] at h1
          simp only [followPath, Option.some.injEq] at h2
          obtain ⟨rfl, rfl⟩ := h1
          subst h2
          rw [hs] at h3
          cases h3
        | cons p pre =>
          simp only [List.cons_append, List.cons.injEq] at h1
          obtain ⟨rfl, rfl⟩ := h1
          simp only [followPath, hs] at h2
          exact ⟨pre, s', post, w, rfl, h2, h3⟩

/-- following a path step by step: the value reached after `pre ++ post` is the value reached by `post` from
the value reached by `pre` -/
theorem followPath_append (pre post : List JsonStep) :
    ∀ j : Json, followPath (pre ++ post) j = (followPath pre j).bind (followPath post) := by
  induction pre with
  | nil => intro j; rfl
  | cons s pre ih =>
    intro j
    simp only [List.cons_append, followPath]
    cases JsonAccess.step j s with
    | none => rfl
    | some v => exact ih v

theorem foldl_setInner (rev : List JsonStep) (cur : JsonAccess) :
    ∃ a, rev.foldl (fun current part => some (JsonAccess.setInner (JsonAccess.last part) current)) (some cur) = some a ∧
      a.steps = rev.reverse ++ cur.steps := by
  induction rev generalizing cur with
  | nil => exact ⟨cur, rfl, rfl⟩
  | cons s rest ih =>
    simp only [List.foldl_cons, JsonAccess.setInner]
    obtain ⟨a, h1, h2⟩ := ih (JsonAccess.cons s cur)
    refine ⟨a, h1, ?_⟩
    rw [h2]
    simp [JsonAccess.steps]

/-- `from_linear` is total on non-empty part lists and builds exactly the listed path; on the empty list it has
no value (the `unwrap` of D30, which the parser now rejects before calling it) -/
theorem fromLinear_spec (parts : List JsonStep) :
    (parts = [] → JsonAccess.fromLinear parts = none) ∧
    (parts ≠ [] → ∃ a, JsonAccess.fromLinear parts = some a ∧ a.steps = parts) := by
  constructor
  · intro h; subst h; rfl
  · intro h
    unfold JsonAccess.fromLinear
    cases hr : parts.reverse with
    | nil => simp at hr; exact absurd hr h
    | cons s rest =>
      simp only [List.foldl_cons, JsonAccess.setInner]
      obtain ⟨a, h1, h2⟩ := foldl_setInner rest (JsonAccess.last s)
      refine ⟨a, h1, ?_⟩
      rw [h2]
      have : parts = (s :: rest).reverse := by rw [← hr, List.reverse_reverse]
      rw [this]
      simp [JsonAccess.steps]

/-- the value of a JSON column is a function of its own definition and the JSON tree alone -/
theorem json_columnValue_congr (o : Oracles) (c : Column) (inp inp' : ParsingInput) (hj : c.isJson = true)
    (h : inp.json = inp'.json) : columnValue o c inp = columnValue o c inp' := by
  apply columnValue_congr
  refine ⟨?_, fun _ => h⟩
  intro r hr
  unfold Column.refs at hr
  unfold Column.isJson at hj
  cases hp : c.parsing with
  | json a => rw [hp] at hr; cases hr
  | regex r' => rw [hp] at hj; cases hj
  | multi rs => rw [hp] at hj; cases hj

/-- the table without its JSON columns -/
def withoutJson (d : TableDef) : TableDef :=
  { d with columns := d.columns.filter (fun c => !c.isJson) }

theorem regex_column_same_input (o : Oracles) (d : TableDef) (lo : LineOracle) (c : Column) (hj : c.isJson = false) :
    columnValue o c (ParsingInput.new d lo) = columnValue o c (ParsingInput.new (withoutJson d) lo) := by
  apply columnValue_congr
  refine ⟨fun r _ => rfl, ?_⟩
  intro h; rw [hj] at h; cases h

end Sqlgrep.Extract
