import SqlgrepModel.Model.ExtractSpec
import SqlgrepModel.Lemmas.Civil
/-
`create_timestamp` never alters a part: the civil fields read back from the timestamp value are the
numbers that were put in (year, month, day, hour, minute, second, microsecond incl. the leap-second form).
-/
namespace Sqlgrep.Extract
open Lit

/-- the civil fields of a TIMESTAMP value in UTC (inverse of `mkTimestamp`) -/
def tsFields : Value → Option TsParts
  | .timestamp d s f =>
    let c := Civil.civilOfDays d
    some { year := c.1, month := c.2.1, day := c.2.2,
           hour := s.toNat / 3600, minute := s.toNat % 3600 / 60, second := s.toNat % 60,
           micro := f.toNat / 1000 }
  | _ => none

theorem mkTimestamp_some_iff (y : Int) (mo d h mi s us : Nat) (t : Value) :
    mkTimestamp y mo d h mi s us = some t ↔
      Civil.validDate y mo d = true ∧ us * 1000 < 4294967296 ∧ Civil.validTimeNano h mi s (us * 1000) = true ∧
      t = .timestamp (Civil.daysFromCE y mo d) ((h * 3600 + mi * 60 + s : Nat) : Int) ((us * 1000 : Nat) : Int) := by
  unfold mkTimestamp
  split
  · rename_i hc
    simp only [Bool.and_eq_true, decide_eq_true_eq] at hc
    simp only [Option.some.injEq]
    constructor
    · intro h; exact ⟨hc.1.1, hc.1.2, hc.2, h.symm⟩
    · intro h; exact h.2.2.2.symm
  · rename_i hc
    simp only [Bool.and_eq_true, decide_eq_true_eq] at hc
    simp only [reduceCtorEq, false_iff]
    intro h
    exact hc ⟨⟨h.1, h.2.1⟩, h.2.2.1⟩

theorem mkTimestamp_fields (y : Int) (mo d h mi s us : Nat) (t : Value)
    (hm : mkTimestamp y mo d h mi s us = some t) :
    tsFields t = some { year := y, month := mo, day := d, hour := h, minute := mi, second := s, micro := us } := by
  obtain ⟨hd, _, ht, rfl⟩ := (mkTimestamp_some_iff y mo d h mi s us t).1 hm
  unfold Civil.validTimeNano at ht
  simp only [Bool.and_eq_true, decide_eq_true_eq] at ht
  obtain ⟨⟨⟨hh, hmi⟩, hs⟩, _⟩ := ht
  have hc := Civil.civilOfDays_daysFromCE y mo d hd
  unfold tsFields
  dsimp only
  rw [hc, Int.toNat_natCast, Int.toNat_natCast]
  have e1 : (h * 3600 + mi * 60 + s) / 3600 = h := by omega
  have e2 : (h * 3600 + mi * 60 + s) % 3600 / 60 = mi := by omega
  have e3 : (h * 3600 + mi * 60 + s) % 60 = s := by omega
  have e4 : us * 1000 / 1000 = us := Nat.mul_div_cancel us (by decide)
  rw [e1, e2, e3, e4]

end Sqlgrep.Extract
