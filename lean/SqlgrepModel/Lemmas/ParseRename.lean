import SqlgrepModel.Lemmas.ParseLoc
import SqlgrepModel.Lemmas.LowerNames
import Lean
set_option linter.unusedSimpArgs false
/-
The expression parser is equivariant under respelling identifiers: run on the token vector in which every identifier
token `n` is replaced by `ρ n` — `ρ` a change of letter case (`CaseOnly`) that respects the `.` of qualified names and
fixes the two names the parser makes up itself (`NameMap`) — it gives the same answer with every name of the tree
respelled (`PExpr.renAll`: column names AND call names; type names never reach the tree, `x::INT` and `x::int` are the
same node). Proved for the six mutually recursive functions at once by induction on the fuel, in lock step (same
scheme as `Lemmas/ParseLoc.lean`).
-/
namespace Sqlgrep

/-- respell an identifier token -/
def Tok.ren (ρ : List Char → List Char) : Tok → Tok
  | .ident n => .ident (ρ n)
  | t => t

def PTok.ren (ρ : List Char → List Char) (t : PTok) : PTok := ⟨t.loc, t.tok.ren ρ⟩
def PSt.ren (ρ : List Char → List Char) (s : PSt) : PSt := ⟨s.cur.ren ρ, s.rest.map (PTok.ren ρ)⟩

/-- the one parser error that quotes an identifier: `NotDefinedType` -/
def PErrKind.ren (ρ : List Char → List Char) : PErrKind → PErrKind
  | .notDefinedType n => .notDefinedType (ρ n)
  | k => k
def PErr.ren (ρ : List Char → List Char) (e : PErr) : PErr := ⟨e.loc, e.kind.ren ρ⟩

def PRes.ren {α : Type} (ρ : List Char → List Char) (f : α → α) : PRes α → PRes α
  | .ok a s => .ok (f a) (s.ren ρ)
  | .err e s => .err (e.ren ρ) (s.ren ρ)
  | .fuel => .fuel

mutual
/-- respell every name of a tree: column names and call names -/
def PExpr.renAll (ρ : List Char → List Char) : PExpr → PExpr
  | .value l v => .value l v
  | .column l n => .column l (ρ n)
  | .wildcard l => .wildcard l
  | .tuple l vs => .tuple l (PExpr.renAllList ρ vs)
  | .binop l o a b => .binop l o (a.renAll ρ) (b.renAll ρ)
  | .boolop l o a b => .boolop l o (a.renAll ρ) (b.renAll ρ)
  | .unop l o e => .unop l o (e.renAll ρ)
  | .invert l e => .invert l (e.renAll ρ)
  | .nullcmp l n a b => .nullcmp l n (a.renAll ρ) (b.renAll ρ)
  | .inList l n e vs => .inList l n (e.renAll ρ) (PExpr.renAllList ρ vs)
  | .call l n args d => .call l (ρ n) (PExpr.renAllList ρ args) d
  | .index l a i => .index l (a.renAll ρ) (i.renAll ρ)
  | .cast l e t => .cast l (e.renAll ρ) t
  | .case l cs els => .case l (PExpr.renAllClauses ρ cs) (els.renAll ρ)
def PExpr.renAllList (ρ : List Char → List Char) : List PExpr → List PExpr
  | [] => []
  | x :: xs => x.renAll ρ :: PExpr.renAllList ρ xs
def PExpr.renAllClauses (ρ : List Char → List Char) : List (PExpr × PExpr) → List (PExpr × PExpr)
  | [] => []
  | (c, r) :: xs => (c.renAll ρ, r.renAll ρ) :: PExpr.renAllClauses ρ xs
end

/-- what the parser needs of a respelling: a change of letter case only; compatible with the `.` of qualified names
(`a.b` is read as the one column name `a.b`); fixing the two call names the parser makes up (`array[…]` is the call
`create_array`, `EXTRACT(part FROM e)` the call `timestamp_extract_<part>`) -/
structure NameMap (ρ : List Char → List Char) : Prop where
  caseOnly : CaseOnly ρ
  dot : ∀ a b, ρ (a ++ ['.'] ++ b) = ρ a ++ ['.'] ++ ρ b
  createArray : ρ "create_array".toList = "create_array".toList
  extract : ∀ p, ρ ("timestamp_extract_".toList ++ lowerChars p) = "timestamp_extract_".toList ++ lowerChars p

/-- no identifier is an operator of the precedence tables (true of the code's: `noIdentOps_code`) -/
def NoIdentOps (T : PrecTables) : Prop := ∀ n, lookupTok T.other (.ident n) = none

theorem noIdentOps_code : NoIdentOps PrecTables.code := by
  intro n; simp [lookupTok, PrecTables.code]

namespace Parse

variable (ρ : List Char → List Char)

theorem ren_ok {α} (f : α → α) (a : α) (s : PSt) : (PRes.ok a s).ren ρ f = .ok (f a) (s.ren ρ) := rfl
theorem ren_err {α} (f : α → α) (e : PErr) (s : PSt) : (PRes.err e s : PRes α).ren ρ f = .err (e.ren ρ) (s.ren ρ) := rfl
theorem ren_fuel {α} (f : α → α) : (PRes.fuel : PRes α).ren ρ f = .fuel := rfl

@[simp] theorem ren_cur_tok (s : PSt) : (s.ren ρ).cur.tok = s.cur.tok.ren ρ := rfl
@[simp] theorem ren_cur_loc (s : PSt) : (s.ren ρ).cur.loc = s.cur.loc := rfl

/-- a token that is not an identifier is recognised before and after the respelling alike -/
theorem tok_ren_eq {X : Tok} (hX : ∀ n, X ≠ .ident n) (t : Tok) : (t.ren ρ = X) = (t = X) := by
  cases t <;> simp [Tok.ren]
  · constructor
    · intro h; exact absurd h.symm (hX _)
    · intro h; exact absurd h.symm (hX _)

theorem tok_ren_eq_kw (k : Keyword) (t : Tok) : (t.ren ρ = .kw k) = (t = .kw k) := tok_ren_eq ρ (by simp) t
theorem tok_ren_eq_op (o : Operator) (t : Tok) : (t.ren ρ = .op o) = (t = .op o) := tok_ren_eq ρ (by simp) t
theorem tok_ren_eq_lp (t : Tok) : (t.ren ρ = .lp) = (t = .lp) := tok_ren_eq ρ (by simp) t
theorem tok_ren_eq_rp (t : Tok) : (t.ren ρ = .rp) = (t = .rp) := tok_ren_eq ρ (by simp) t
theorem tok_ren_eq_lsq (t : Tok) : (t.ren ρ = .lsq) = (t = .lsq) := tok_ren_eq ρ (by simp) t
theorem tok_ren_eq_rsq (t : Tok) : (t.ren ρ = .rsq) = (t = .rsq) := tok_ren_eq ρ (by simp) t
theorem tok_ren_eq_comma (t : Tok) : (t.ren ρ = .comma) = (t = .comma) := tok_ren_eq ρ (by simp) t
theorem tok_ren_eq_semi (t : Tok) : (t.ren ρ = .semi) = (t = .semi) := tok_ren_eq ρ (by simp) t
theorem tok_ren_eq_dcolon (t : Tok) : (t.ren ρ = .dcolon) = (t = .dcolon) := tok_ren_eq ρ (by simp) t
theorem tok_ren_eq_eof (t : Tok) : (t.ren ρ = .eof) = (t = .eof) := tok_ren_eq ρ (by simp) t
/-- … for a token variable known not to be an identifier (the closing token of `parse_list`) -/
theorem tok_ren_eq_of {X : Tok} (hX : X.ren ρ = X ∧ ∀ n, X ≠ .ident n) (t : Tok) : (t.ren ρ = X) = (t = X) :=
  tok_ren_eq ρ hX.2 t

theorem next_ren (s : PSt) : next (s.ren ρ) = (next s).ren ρ id := by
  unfold next
  cases h : s.rest with
  | nil => simp [PSt.ren, h, mkErr, PRes.ren, PErr.ren, PErrKind.ren, PTok.ren]
  | cons t r => simp [PSt.ren, h, PRes.ren, PTok.ren]

theorem mkErr_ren {α} (s : PSt) (k : PErrKind) (f : α → α) (hk : k.ren ρ = k) :
    (mkErr (s.ren ρ) k : PRes α) = (mkErr s k).ren ρ f := by
  simp [mkErr, PRes.ren, PErr.ren, hk]

theorem tokenPrecedence_ren (T : PrecTables) (hT : NoIdentOps T) (s : PSt) :
    tokenPrecedence T (s.ren ρ) = (tokenPrecedence T s).ren ρ id := by
  unfold tokenPrecedence
  simp only [ren_cur_tok]
  cases h : s.cur.tok <;> simp only [Tok.ren] <;> try rfl
  · split <;> simp [PRes.ren, mkErr, PErr.ren, PErrKind.ren]
  · rename_i n; simp [hT n, hT (ρ n), PRes.ren]

theorem expectConsume_ren (t : Tok) (k : PErrKind) (s : PSt) (ht : ∀ n, t ≠ .ident n) (hk : k.ren ρ = k) :
    expectConsume t k (s.ren ρ) = (expectConsume t k s).ren ρ id := by
  unfold expectConsume
  simp only [ren_cur_tok, tok_ren_eq ρ ht]
  by_cases h : s.cur.tok = t
  · simp only [h, if_true]; exact next_ren ρ s
  · simp only [h, if_false]; exact mkErr_ren ρ s k id hk

theorem consumeIdentifier_ren (s : PSt) : consumeIdentifier (s.ren ρ) = (consumeIdentifier s).ren ρ ρ := by
  unfold consumeIdentifier
  simp only [ren_cur_tok]
  cases h : s.cur.tok <;> simp only [Tok.ren] <;>
    first
      | (rw [next_ren]; cases next s <;> rfl)
      | exact mkErr_ren ρ s _ _ rfl

theorem renAllList_append (a b : List PExpr) :
    PExpr.renAllList ρ (a ++ b) = PExpr.renAllList ρ a ++ PExpr.renAllList ρ b := by
  induction a with
  | nil => rfl
  | cons x xs ih => simp [PExpr.renAllList, ih]

theorem renAllClauses_append (a b : List (PExpr × PExpr)) :
    PExpr.renAllClauses ρ (a ++ b) = PExpr.renAllClauses ρ a ++ PExpr.renAllClauses ρ b := by
  induction a with
  | nil => rfl
  | cons x xs ih => obtain ⟨c, r⟩ := x; simp [PExpr.renAllClauses, ih]

def renExc : Except PErr PExpr → Except PErr PExpr
  | .ok t => .ok (t.renAll ρ)
  | .error e => .error (e.ren ρ)

theorem renExc_ok (t : PExpr) : renExc ρ (.ok t) = .ok (t.renAll ρ) := rfl
theorem renExc_error (e : PErr) : renExc ρ (.error e) = .error (e.ren ρ) := rfl

variable {ρ}

theorem combine_ren (hρ : NameMap ρ) (loc : Loc) (op : Tok) (l r : PExpr) :
    combine loc op (l.renAll ρ) (r.renAll ρ) = renExc ρ (combine loc op l r) := by
  unfold combine
  split
  · cases l <;> cases r <;> simp only [PExpr.renAll, renExc, PErr.ren, PErrKind.ren]
    rw [hρ.dot]
  · cases r <;> simp only [PExpr.renAll, renExc, PErr.ren, PErrKind.ren]
    rw [hρ.caseOnly]
    split <;> simp only [PExpr.renAll, renExc, PErr.ren, PErrKind.ren]
  all_goals simp only [PExpr.renAll, renExc, PErr.ren, PErrKind.ren]

theorem perr_ren_mk (ρ : List Char → List Char) (l : Loc) (k : PErrKind) : PErr.ren ρ ⟨l, k⟩ = ⟨l, k.ren ρ⟩ := rfl

theorem combine_tok_ren (ρ : List Char → List Char) (loc : Loc) (t : Tok) (a b : PExpr) :
    combine loc (t.ren ρ) a b = combine loc t a b := by
  cases t <;> rfl

/-- a token is an identifier, or it is no identifier and the respelling leaves it alone -/
theorem tok_ren_cases (ρ : List Char → List Char) (t : Tok) :
    ((∀ n, t ≠ .ident n) ∧ t.ren ρ = t) ∨ ∃ n, t = .ident n := by
  cases t <;> first | exact .inl ⟨by simp, rfl⟩ | exact .inr ⟨_, rfl⟩

open Lean Elab Tactic Meta in
/-- find `Tok.ren ρ x` in the goal with `x` not a constructor application and split into "`x` is no identifier (and
`Tok.ren ρ x = x`)" / "`x = .ident n`" -/
elab "ren_tok" : tactic => withMainContext do
  let g ← getMainGoal
  let t ← instantiateMVars (← g.getType)
  let env ← getEnv
  let isCtorApp (e : Lean.Expr) : Bool :=
    match e.getAppFn with
    | .const n _ => (match env.find? n with | some (.ctorInfo _) => true | _ => false)
    | _ => false
  let some e := t.find? (fun e => e.isAppOf ``Tok.ren && e.getAppNumArgs == 2 && !e.hasLooseBVars && !isCtorApp e.getAppArgs[1]!)
    | throwError "no Tok.ren of a variable token"
  let r ← Term.exprToSyntax e.getAppArgs[0]!
  let x ← Term.exprToSyntax e.getAppArgs[1]!
  let hni := mkIdent `hni
  let htk := mkIdent `htk
  let nid := mkIdent `nid
  evalTactic (← `(tactic| (rcases tok_ren_cases $r $x with ⟨$hni, $htk⟩ | ⟨$nid, $htk⟩ <;> simp only [$htk:ident, Tok.ren])))

open Lean Elab Tactic Meta in
/-- goal `_ = PRes.ren ρ f (match d with …)` with `d : PRes _` not a constructor application: `cases d` -/
elab "ren_cases" : tactic => withMainContext do
  let g ← getMainGoal
  let t := (← instantiateMVars (← g.getType)).cleanupAnnotations
  unless t.isAppOf ``Eq && t.getAppArgs.size == 3 do throwError "not an equation"
  let rhs := t.getAppArgs[2]!.cleanupAnnotations
  unless rhs.isAppOf ``PRes.ren && rhs.getAppArgs.size == 4 do throwError "right side is not a ren"
  let inner := rhs.getAppArgs[3]!.cleanupAnnotations
  unless inner.getAppFn.isConst do throwError "not a match"
  let some info ← getMatcherInfo? inner.getAppFn.constName! | throwError "not a match"
  let discr := inner.getAppArgs[info.getFirstDiscrPos]!
  if discr.isAppOf ``ite then
    let c ← Term.exprToSyntax discr.getAppArgs[1]!
    evalTactic (← `(tactic| by_cases hc : $c <;> simp only [hc, if_true, if_false, and_self]))
    return
  let dty ← whnfR (← inferType discr)
  unless dty.isAppOf ``PRes || dty.isAppOf ``Except do throwError "scrutinee is not a result"
  if discr.getAppFn.isConstOf ``PRes.ok || discr.getAppFn.isConstOf ``PRes.err || discr.getAppFn.isConstOf ``PRes.fuel then
    throwError "scrutinee is a constructor"
  let d ← Term.exprToSyntax discr
  evalTactic (← `(tactic| (cases hd : $d <;> try simp only [hd])))

variable (T : PrecTables)

set_option hygiene false in
macro "ren_simp" : tactic => `(tactic| simp only [ren_ok, ren_err, ren_fuel, renExc_ok, renExc_error, PRes.bind, id, ren_cur_tok,
  ren_cur_loc, next_ren, htp, consumeIdentifier_ren, hcomb, combine_tok_ren, hrp, hrsq, hlpx, hfrom, hwhen, hthen, hend,
  hmk, ihE, ihU, ihP, ihR, ihC, ihL0rp, ihL0rsq, ihL1, ihLc, renAllList_append, renAllClauses_append, PExpr.renAll,
  PExpr.renAllList, PExpr.renAllClauses, tok_ren_eq_kw, tok_ren_eq_op, tok_ren_eq_lp, tok_ren_eq_rp, tok_ren_eq_lsq,
  tok_ren_eq_rsq, tok_ren_eq_comma, perr_ren_mk, PErrKind.ren, hco, hca, hex, apply_ite, ite_self])

set_option hygiene false in
macro "ren_auto" : tactic => `(tactic| repeat' (first
   | rfl
   | (exfalso; exact hni _ (by assumption))
   | (rw [← ihR]; ren_simp; done)
   | (rw [← ihC]; ren_simp; done)
   | (rw [← ihLc _ _ _ hcl]; ren_simp; done)
   | dsimp +instances only [ren_cur_tok, ren_cur_loc]
   | ren_simp
   | ren_cases
   | ren_tok
   | split))

set_option maxHeartbeats 1600000 in
theorem ren_all (hρ : NameMap ρ) (hT : NoIdentOps T) (n : Nat) :
    (∀ s, parseExpr T n (s.ren ρ) = (parseExpr T n s).ren ρ (PExpr.renAll ρ)) ∧
    (∀ p l s, parseRhs T n p (l.renAll ρ) (s.ren ρ) = (parseRhs T n p l s).ren ρ (PExpr.renAll ρ)) ∧
    (∀ s, parseUnary T n (s.ren ρ) = (parseUnary T n s).ren ρ (PExpr.renAll ρ)) ∧
    (∀ s, parsePrimary T n (s.ren ρ) = (parsePrimary T n s).ren ρ (PExpr.renAll ρ)) ∧
    (∀ loc cl s, parseCase T n loc (PExpr.renAllClauses ρ cl) (s.ren ρ) =
      (parseCase T n loc cl s).ren ρ (PExpr.renAll ρ)) ∧
    (∀ c acc s, (∀ i, c ≠ .ident i) → parseList T n c (PExpr.renAllList ρ acc) (s.ren ρ) =
      (parseList T n c acc s).ren ρ (PExpr.renAllList ρ)) := by
  have htp := tokenPrecedence_ren ρ T hT
  have hcomb := combine_ren hρ
  have hco : ∀ n, lowerChars (ρ n) = lowerChars n := hρ.caseOnly
  have hca := hρ.createArray
  have hex := hρ.extract
  have hrp : ∀ s, expectConsume .rp .expectedRightParentheses (s.ren ρ) = (expectConsume .rp .expectedRightParentheses s).ren ρ id :=
    fun s => expectConsume_ren ρ _ _ s (by simp) rfl
  have hrsq : ∀ s, expectConsume .rsq .expectedRightSquareParentheses (s.ren ρ) = (expectConsume .rsq .expectedRightSquareParentheses s).ren ρ id :=
    fun s => expectConsume_ren ρ _ _ s (by simp) rfl
  have hlpx : ∀ s, expectConsume .lp .expectedLeftParentheses (s.ren ρ) = (expectConsume .lp .expectedLeftParentheses s).ren ρ id :=
    fun s => expectConsume_ren ρ _ _ s (by simp) rfl
  have hfrom : ∀ s, expectConsume (.kw .from) (.expectedKeyword .from) (s.ren ρ) = (expectConsume (.kw .from) (.expectedKeyword .from) s).ren ρ id :=
    fun s => expectConsume_ren ρ _ _ s (by simp) rfl
  have hwhen : ∀ s, expectConsume (.kw .when) (.expectedKeyword .when) (s.ren ρ) = (expectConsume (.kw .when) (.expectedKeyword .when) s).ren ρ id :=
    fun s => expectConsume_ren ρ _ _ s (by simp) rfl
  have hthen : ∀ s, expectConsume (.kw .then) (.expectedKeyword .then) (s.ren ρ) = (expectConsume (.kw .then) (.expectedKeyword .then) s).ren ρ id :=
    fun s => expectConsume_ren ρ _ _ s (by simp) rfl
  have hend : ∀ s, expectConsume (.kw .end) (.expectedKeyword .end) (s.ren ρ) = (expectConsume (.kw .end) (.expectedKeyword .end) s).ren ρ id :=
    fun s => expectConsume_ren ρ _ _ s (by simp) rfl
  have hmk : ∀ (s : PSt) (f : PExpr → PExpr), (mkErr (s.ren ρ) .expectedExpression : PRes PExpr) = (mkErr s .expectedExpression).ren ρ f :=
    fun s f => mkErr_ren ρ s _ f rfl
  induction n with
  | zero =>
    refine ⟨?_, ?_, ?_, ?_, ?_, ?_⟩ <;> intros
    · rw [parseExpr, parseExpr]; rfl
    · rw [parseRhs, parseRhs]; rfl
    · rw [parseUnary, parseUnary]; rfl
    · rw [parsePrimary, parsePrimary]; rfl
    · rw [parseCase, parseCase]; rfl
    · rw [parseList, parseList]; rfl
  | succ n ih =>
    obtain ⟨ihE, ihR, ihU, ihP, ihC, ihLc⟩ := ih
    have ihL0rp : ∀ s, parseList T n .rp [] (s.ren ρ) = (parseList T n .rp [] s).ren ρ (PExpr.renAllList ρ) :=
      fun s => ihLc .rp [] s (by simp)
    have ihL0rsq : ∀ s, parseList T n .rsq [] (s.ren ρ) = (parseList T n .rsq [] s).ren ρ (PExpr.renAllList ρ) :=
      fun s => ihLc .rsq [] s (by simp)
    have ihL1 : ∀ e s, parseList T n .rp [PExpr.renAll ρ e] (s.ren ρ) = (parseList T n .rp [e] s).ren ρ (PExpr.renAllList ρ) :=
      fun e s => ihLc .rp [e] s (by simp)
    refine ⟨?_, ?_, ?_, ?_, ?_, ?_⟩
    · intro s; rw [parseExpr, parseExpr]; ren_auto
    · intro p l s; rw [parseRhs, parseRhs]; dsimp only; ren_auto
    · intro s; rw [parseUnary, parseUnary]; dsimp only; ren_auto
    · intro s; rw [parsePrimary, parsePrimary]; dsimp only; ren_auto
    · intro loc cl s; rw [parseCase, parseCase]; dsimp only; ren_auto
    · intro c acc s hcl; rw [parseList, parseList]; dsimp only
      have hcc : ∀ t : Tok, (t.ren ρ = c) = (t = c) := tok_ren_eq ρ hcl
      have hmkl : ∀ (s : PSt) (f : List PExpr → List PExpr), (mkErr (s.ren ρ) .expectedArgumentListContinuation : PRes (List PExpr)) =
          (mkErr s .expectedArgumentListContinuation).ren ρ f := fun s f => mkErr_ren ρ s _ f rfl
      rw [ihE]
      cases hd : parseExpr T n s with
      | err e s1 => rfl
      | fuel => rfl
      | ok e s1 =>
        have happ : PExpr.renAllList ρ acc ++ [PExpr.renAll ρ e] = PExpr.renAllList ρ (acc ++ [e]) := by
          rw [renAllList_append]; rfl
        simp only [ren_ok, ren_cur_tok, hcc, tok_ren_eq_comma, happ]
        by_cases h1 : s1.cur.tok = c
        · simp only [h1, if_true, next_ren]
          cases next s1 <;> rfl
        · simp only [h1, if_false]
          by_cases h2 : s1.cur.tok = .comma
          · simp only [h2, if_true, next_ren]
            cases next s1 with
            | err e2 s2 => rfl
            | fuel => rfl
            | ok u s2 => simp only [ren_ok]; exact ihLc c _ s2 hcl
          · simp only [h2, if_false]; exact hmkl s1 _

end Parse
end Sqlgrep
