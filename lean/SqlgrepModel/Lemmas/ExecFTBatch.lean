import SqlgrepModel.Lemmas.ExecFT
import SqlgrepModel.Lemmas.ExecTLines
import SqlgrepModel.Lemmas.ExecTAgg
import SqlgrepModel.Lemmas.AggFollowExec
import SqlgrepModel.Lemmas.Pipeline
/-
The traced follow run against the traced batch run over the same lines (C11 with the result tables handed to the
printer instead of their text rendering):

* non-aggregate statement (no join; WHERE, DISTINCT, LIMIT included): the traced follow run IS the traced batch run over
  one file holding the lines — same `RunOut`, same print calls (`runFollowAllT_select_eq_runBatchT`);
* aggregate statement (no join, no LIMIT): the calls of the follow run are the tables `followTables` shows, one per line
  that WHERE admits (`runFollowAllT_agg`), and the table shown for the k-th line is THE table the batch run over the
  first k lines hands to the printer (`followT_agg_step`: `follow_exec_step` for print calls).
-/
set_option linter.unusedSimpArgs false
namespace Sqlgrep
open Value Spec.Agg Spec.Select

/-! ### non-aggregate statements -/

theorem runFollowT_select_calls (O : Oracles) (qy : Query) (q : SelectStmt) (hq : qy.stmt = .select q)
    (lines : List Line) (s : TraceState) (h0 : reachedLimit qy s.ls.es = false) :
    (runFollowT O qy none lines s).calls = (runFileT O qy [] true (readableFile lines) s).calls := by
  induction lines generalizing s with
  | nil => rfl
  | cons l rest ih =>
    have hrl : ({ readable := true, line := l } : FileLine).readable = true := rfl
    have hn : ((none : Option Nat) == some s.ls.consumed) = false := rfl
    have hu : isUpdated qy = false := by simp [isUpdated, hq]
    show (runFollowT O qy none (l :: rest) s).calls = (runFileT O qy [] true ({ readable := true, line := l } :: readableFile rest) s).calls
    cases hx : executeLine O qy [] true s.ls.es l with
    | ok p =>
      obtain ⟨es1, lo⟩ := p
      rw [runFileT_cons_ok O qy [] true _ (readableFile rest) s es1 lo hrl hx]
      rw [runFollowT]
      simp only [hn, Bool.false_eq_true, if_false, hx]
      have hflag := executeLine_select_reached O qy q hq [] true s.ls.es es1 l lo hx
      cases hres : lo.result with
      | none =>
        have hnum := executeLine_select_noresult O qy q hq [] true s.ls.es es1 l lo hx hres
        have hl : lo.reachedLimit = false := by
          rw [hflag]
          simp only [reachedLimit, hq] at h0 ⊢
          rw [hnum]; exact h0
        simp only [hl, Bool.false_eq_true, if_false]
        rw [ih _ (by show reachedLimit qy es1 = false; rw [← hflag]; exact hl)]
        simp only [advanceT, advance, hres, callsOf, List.append_nil, piece]
      | some r =>
        simp only [hu]
        by_cases hl : lo.reachedLimit = true
        · simp only [hl, if_true, hres, callsOf]
        · simp only [hl, Bool.false_eq_true, if_false]
          rw [ih _ (by show reachedLimit qy es1 = false; rw [← hflag]; simpa using hl)]
          simp only [advanceT, advance, hres, callsOf, piece]
    | error k =>
      have hne : ∀ p, executeLine O qy [] true s.ls.es l ≠ .ok p := by intro p hp; rw [hx] at hp; cases hp
      rw [(runFileT_cons_fail O qy [] true _ (readableFile rest) s hrl hne).1]
      simp [runFollowT, hn, hx]
    | panic k =>
      have hne : ∀ p, executeLine O qy [] true s.ls.es l ≠ .ok p := by intro p hp; rw [hx] at hp; cases hp
      rw [(runFileT_cons_fail O qy [] true _ (readableFile rest) s hrl hne).1]
      simp [runFollowT, hn, hx]
    | oracleMissing k =>
      have hne : ∀ p, executeLine O qy [] true s.ls.es l ≠ .ok p := by intro p hp; rw [hx] at hp; cases hp
      rw [(runFileT_cons_fail O qy [] true _ (readableFile rest) s hrl hne).1]
      simp [runFollowT, hn, hx]

/-- **follow mode = batch mode for a non-aggregate statement** (no join — follow mode has none; WHERE, DISTINCT, LIMIT
included): over the same lines the traced follow run and the traced batch run over one file holding them are equal —
the same `RunOut`, the same calls of the printer -/
theorem runFollowAllT_select_eq_runBatchT (O : Oracles) (qy : Query) (q : SelectStmt) (hq : qy.stmt = .select q)
    (hj : qy.join = none) (joined : Option (List FileLine)) (lines : List Line) :
    runFollowAllT O qy none lines = runBatchT O qy joined [readableFile lines] := by
  have hout : (runFollowAllT O qy none lines).out = (runBatchT O qy joined [readableFile lines]).out := by
    rw [runFollowAllT_out, Pipeline.runBatchT_nojoin O qy hj joined, Pipeline.runBatchT_some_out]
    exact runFollowAll_select_eq_runBatch O qy q hq hj lines
  have hcalls : (runFollowAllT O qy none lines).calls = (runBatchT O qy joined [readableFile lines]).calls := by
    unfold runFollowAllT runBatchT joinSetup runWithIndexT
    simp only [hj, hq, Bool.not_false, runFilesT_single]
    have e : (({} : TraceState).ls.stop || reachedLimit qy ({} : TraceState).ls.es) = reachedLimit qy ({} : EngineState) := by
      show (false || _) = _
      rw [Bool.false_or]
    rw [e]
    by_cases h0 : reachedLimit qy ({} : EngineState) = true
    · simp only [h0, if_true]
      split <;> rfl
    · simp only [h0, Bool.false_eq_true, if_false]
      rw [runFollowT_select_calls O qy q hq lines {} (by simpa using h0)]
      split <;> rfl
  cases ha : runFollowAllT O qy none lines with
  | mk o c =>
    cases hb : runBatchT O qy joined [readableFile lines] with
    | mk o' c' =>
      rw [ha, hb] at hout hcalls
      simp only at hout hcalls
      rw [hout, hcalls]

/-! ### aggregate statements -/

theorem runFollowT_agg_calls (O : Oracles) (qy : Query) (q : AggStmt) (hq : qy.stmt = .aggregate q) (hj : qy.join = none)
    (hlim : q.limit = none) (lines : List Line) (s : TraceState) {st : AggState} {ts : List RowOut}
    (h : followTables O q (followEnvs qy.table lines) s.ls.es.agg = .ok (st, ts)) :
    (runFollowT O qy none lines s).calls = s.calls ++ ts.map (fun r => { result := r, final := true }) := by
  induction lines generalizing s ts with
  | nil =>
    simp only [followEnvs, asFile, List.map_nil, envsOf, List.filter_nil, followTables, Outcome.ok.injEq, Prod.mk.injEq] at h
    obtain ⟨_, h2⟩ := h
    subst h2
    simp [runFollowT]
  | cons l rest ih =>
    have hnone : ((none : Option Nat) == some s.ls.consumed) = false := rfl
    have hu : isUpdated qy = true := by simp [isUpdated, hq]
    rw [followEnvs_cons] at h
    rw [runFollowT]
    simp only [hnone, Bool.false_eq_true, if_false]
    by_cases hadm : anyResult l.row = true
    · simp only [hadm, if_true, followTables] at h
      obtain ⟨⟨st1, r⟩, h1, h2⟩ := obind_ok h
      obtain ⟨⟨st2, ts2⟩, h3, h4⟩ := obind_ok h2
      simp only [Outcome.ok.injEq, Prod.mk.injEq] at h4
      obtain ⟨h4a, h4b⟩ := h4
      subst h4a; subst h4b
      rw [executeLine_follow_agg O qy q [] _ l hq hj hadm]
      simp only [h1, Outcome.bind, updateLimit, hlim]
      cases r with
      | none =>
        simp only []
        rw [ih _ (by simpa using h3)]
        simp
      | some out =>
        simp only [hu, Bool.false_eq_true, if_false]
        rw [ih _ (by simpa using h3)]
        simp
    · simp only [hadm, Bool.false_eq_true, if_false] at h
      have hex : executeLine O qy [] true
          { s.ls with consumed := s.ls.consumed + 1, out := { s.ls.out with totalLines := s.ls.out.totalLines + 1 } }.es l =
          .ok (s.ls.es, { result := none, reachedLimit := false }) := by
        simp only [executeLine, hq, hadm, Bool.not_false, if_true, updateLimit, hlim, Nat.add_zero]
      rw [hex]
      simp only []
      exact ih _ (by simpa using h)

/-- **the traced follow run of an aggregate statement** (no join, no LIMIT) whose steps do not fail: it prints and hands
to the printer exactly the tables `followTables` shows — one per line that WHERE admits, each with `single_result`
(= `output.updated`) set -/
theorem runFollowAllT_agg (O : Oracles) (qy : Query) (q : AggStmt) (hq : qy.stmt = .aggregate q) (hj : qy.join = none)
    (hlim : q.limit = none) (lines : List Line) {st : AggState} {ts : List RowOut}
    (h : followTables O q (followEnvs qy.table lines) {} = .ok (st, ts)) :
    runFollowAllT O qy none lines =
      { out := { printed := ts.flatMap (fun r => printResult r true), totalLines := lines.length },
        calls := ts.map (fun r => { result := r, final := true }) } := by
  have hout := runFollowAllT_out O qy none lines
  rw [runFollowAll_agg O qy q hq hj hlim lines h] at hout
  have hl : reachedLimit qy {} = false := by simp [reachedLimit, hq]
  have hcalls : (runFollowAllT O qy none lines).calls = ts.map (fun r => { result := r, final := true }) := by
    unfold runFollowAllT
    simp only [hl, Bool.false_eq_true, if_false]
    rw [runFollowT_agg_calls O qy q hq hj hlim lines {} h]
    rfl
  cases ha : runFollowAllT O qy none lines with
  | mk o c =>
    rw [ha] at hout hcalls
    simp only at hout hcalls
    rw [hout, hcalls]

/-- the traced batch run of an aggregate statement (no join, every line readable) whose updates and final result
succeed: it prints the final table once, finally -/
theorem runBatchT_agg (O : Oracles) (qy : Query) (q : AggStmt) (hq : qy.stmt = .aggregate q) (hj : qy.join = none)
    (joined : Option (List FileLine)) (files : List (List FileLine)) (hread : ∀ fl ∈ files.flatten, fl.readable = true)
    {st : AggState} (hrun : aggRun O q (envsOf qy.table files.flatten) {} = .ok st)
    {r : RowOut} (hfin : finalResult O q { agg := st } = .ok r) :
    runBatchT O qy joined files =
      { out := { printed := printResult r true, totalLines := files.flatten.length },
        calls := [{ result := r, final := true }] } := by
  have hls := runFiles_agg O qy q hq hj files hread {} rfl hrun
  have hfin' : finalResult O q { seen := ([] : List (List Value)), agg := st, numOut := 0 } = .ok r := hfin
  have hT : (runFilesT O qy [] false files {}).ls = afterLines {} st files.flatten.length := by
    rw [runFilesT_ls]; exact hls
  have hC : (runFilesT O qy [] false files {}).calls = [] := runFilesT_agg_calls O qy q hq [] files {}
  unfold runBatchT joinSetup runWithIndexT
  simp only [hj, hq, Bool.not_true, hT, hC]
  simp only [afterLines, hasFailed, hfin']
  simp

/-- **the k-th line, both cases, for what reaches the printer.** `runFollowAllT` over the first k delivered lines and
`runBatchT` over the same lines as one file; neither reports a failure; the GROUP BY keys seen are exact; no LIMIT, no
JOIN. The follow run over the first k−1 lines did not fail either, the batch run makes exactly one print call — its
final table `r` — and
* if the k-th line is shown (admitted, WHERE admits its row), the follow run's calls are those over the first k−1 lines
  followed by exactly that call: the screen it shows is the table of the batch run over the first k lines;
* otherwise the follow run makes no call for it, and the batch run over the first k−1 lines (which does not fail
  either) makes the same call `r`: the table is unchanged. -/
theorem followT_agg_step (O : Oracles) (qy : Query) (q : AggStmt) (hq : qy.stmt = .aggregate q) (hj : qy.join = none)
    (hlim : q.limit = none) (joined : Option (List FileLine)) (pre : List Line) (l : Line)
    (hf : hasFailed (runFollowAllT O qy none (pre ++ [l])).out = false)
    (hb : hasFailed (runBatchT O qy joined [asFile (pre ++ [l])]).out = false)
    (hex : KeysExact (groupKeysOf O q (followEnvs qy.table (pre ++ [l])))) :
    hasFailed (runFollowAllT O qy none pre).out = false ∧
    ∃ r, (runBatchT O qy joined [asFile (pre ++ [l])]).calls = [{ result := r, final := true }] ∧
      (lineShown O qy q l →
        (runFollowAllT O qy none (pre ++ [l])).calls =
          (runFollowAllT O qy none pre).calls ++ [{ result := r, final := true }]) ∧
      (¬ lineShown O qy q l →
        (runFollowAllT O qy none (pre ++ [l])).calls = (runFollowAllT O qy none pre).calls ∧
        (runBatchT O qy joined [asFile pre]).calls = [{ result := r, final := true }] ∧
        hasFailed (runBatchT O qy joined [asFile pre]).out = false) := by
  rw [runFollowAllT_out] at hf
  rw [Pipeline.runBatchT_nojoin O qy hj joined, Pipeline.runBatchT_some_out] at hb
  obtain ⟨st2, ts, hft⟩ := runFollowAll_agg_ok O qy q hq hj hlim _ hf
  obtain ⟨sb, r, hrun, hfin⟩ := runBatch_agg_ok O qy q hq hj [] _ (asFile_readable _) hb
  have hF := runFollowAllT_agg O qy q hq hj hlim _ hft
  have hB := runBatchT_agg O qy q hq hj joined [asFile (pre ++ [l])] (by simpa using asFile_readable _)
    (by simpa using hrun) hfin
  have hrun' : aggRun O q (followEnvs qy.table (pre ++ [l])) {} = .ok sb := hrun
  by_cases hadm : anyResult l.row = true
  · have he : followEnvs qy.table (pre ++ [l]) = followEnvs qy.table pre ++ [lineEnv qy.table l] := by
      rw [followEnvs_append, followEnvs_cons]
      simp [hadm, followEnvs, asFile, envsOf]
    rw [he] at hft hex hrun'
    obtain ⟨sf, ts0, hpre, hcase⟩ := followTables_snoc_batch hlim _ _ hft hrun' hfin hex
    have hFp := runFollowAllT_agg O qy q hq hj hlim pre hpre
    refine ⟨by rw [hFp]; rfl, r, by rw [hB], ?_, ?_⟩
    · intro hs
      rcases hcase with ⟨_, hts⟩ | ⟨hp, _, _⟩
      · rw [hF, hFp, hts]
        simp
      · rw [hs.2] at hp; cases hp
    · intro hns
      rcases hcase with ⟨hp, _⟩ | ⟨_, hts, hbp⟩
      · exact absurd ⟨hadm, hp⟩ hns
      · have hBp := runBatchT_agg O qy q hq hj joined [asFile pre] (by simpa using asFile_readable _)
          (by simpa [followEnvs] using hbp) hfin
        rw [hF, hFp, hBp, hts]
        exact ⟨rfl, rfl, rfl⟩
  · have he : followEnvs qy.table (pre ++ [l]) = followEnvs qy.table pre := by
      rw [followEnvs_append, followEnvs_cons]
      simp [hadm, followEnvs, asFile, envsOf]
    rw [he] at hft hrun'
    have hFp := runFollowAllT_agg O qy q hq hj hlim pre hft
    have hBp := runBatchT_agg O qy q hq hj joined [asFile pre] (by simpa using asFile_readable _)
      (by simpa [followEnvs] using hrun') hfin
    refine ⟨by rw [hFp]; rfl, r, by rw [hB], fun hs => absurd hs.1 hadm, fun _ => ?_⟩
    rw [hF, hFp, hBp]
    exact ⟨rfl, rfl, rfl⟩

/-! ### failure agreement at the k-th line -/

/-- the result step after the k-th row: `execute_result` on the follow-mode state and the final result of the batch run
over the same k rows have the same outcome — the same table, or the same failure -/
theorem follow_result_outcome_eq_batch {O : Oracles} {q : AggStmt} (hlim : q.limit = none) (pre : List Env) (env : Env)
    {sf sf1 sb : AggState}
    (hfollow : followRun O q pre {} = .ok sf) (hupd : aggUpdateRow O q sf env = .ok (sf1, true))
    (hbatch : aggRun O q (pre ++ [env]) {} = .ok sb)
    (hex : KeysExact (groupKeysOf O q (pre ++ [env]))) :
    (aggResult O q sf1).bind (fun r => .ok r.2) = finalResult O q { agg := sb } := by
  rw [aggRun_append] at hbatch
  obtain ⟨sbp, hbp, hbl⟩ := obind_ok hbatch
  simp only [aggRun] at hbl
  obtain ⟨⟨sb', u'⟩, hbu, hbe⟩ := obind_ok hbl
  simp only [Outcome.ok.injEq] at hbe
  subst hbe
  obtain ⟨S, hsim, hSk⟩ := sim2_runs pre (sim2_init q) (K := []) (fun k hk => by simp at hk) hfollow hbp
  obtain ⟨hu, S1, hsim1, _, hnew⟩ := sim2_step hsim hupd hbu
  have hexS : KeysExact S1 := by
    have hsubK : ∀ k ∈ S1, k ∈ groupKeysOf O q (pre ++ [env]) := by
      intro k hk
      simp only [groupKeysOf, List.filterMap_append, List.mem_append]
      rcases hnew k hk with h1 | h1
      · rcases hSk k h1 with h2 | h2
        · simp at h2
        · exact Or.inl h2
      · right; simp [h1]
    intro a ha b hb hab
    exact hex a (hsubK a ha) b (hsubK b hb) hab
  have := aggResult_sim2 (O := O) hsim1 hexS
  rw [this]
  simp only [finalResult, hlim, bind]
  cases aggResult O q sb' <;> rfl

/-- how the executed follow loop ends when the rows of `pre` were fed without failure and then one more admitted line
arrives: as the engine step for that line ends -/
theorem runFollow_agg_snoc_status (O : Oracles) (qy : Query) (q : AggStmt) (hq : qy.stmt = .aggregate q) (hj : qy.join = none)
    (hlim : q.limit = none) (pre : List Line) (l : Line) (hadm : anyResult l.row = true) (ls : LoopState)
    {sf : AggState} {ts0 : List RowOut}
    (h : followTables O q (followEnvs qy.table pre) ls.es.agg = .ok (sf, ts0)) :
    endStatus (runFollow O qy none (pre ++ [l]) ls).out =
      endStatus (match followStep O q sf (lineEnv qy.table l) with
        | .ok _ => ls.out
        | o => failWith ls.out o) := by
  induction pre generalizing ls ts0 with
  | nil =>
    simp only [followEnvs, asFile, List.map_nil, envsOf, List.filter_nil, followTables, Outcome.ok.injEq, Prod.mk.injEq] at h
    obtain ⟨h1, _⟩ := h
    subst h1
    have hnone : ((none : Option Nat) == some ls.consumed) = false := rfl
    simp only [List.nil_append, runFollow, hnone, Bool.false_eq_true, if_false]
    rw [executeLine_follow_agg O qy q [] _ l hq hj hadm]
    cases hs : followStep O q ls.es.agg (lineEnv qy.table l) with
    | ok p =>
      obtain ⟨st1, r⟩ := p
      have hs' : followStep O q
          { ls with consumed := ls.consumed + 1, out := { ls.out with totalLines := ls.out.totalLines + 1 } }.es.agg
          (lineEnv qy.table l) = .ok (st1, r) := hs
      simp only [hs', Outcome.bind, updateLimit, hlim]
      cases r <;> simp [endStatus, hq]
    | error k =>
      have hs' : followStep O q
          { ls with consumed := ls.consumed + 1, out := { ls.out with totalLines := ls.out.totalLines + 1 } }.es.agg
          (lineEnv qy.table l) = .error k := hs
      simp [hs', Outcome.bind, failWith, endStatus]
    | panic k =>
      have hs' : followStep O q
          { ls with consumed := ls.consumed + 1, out := { ls.out with totalLines := ls.out.totalLines + 1 } }.es.agg
          (lineEnv qy.table l) = .panic k := hs
      simp [hs', Outcome.bind, failWith, endStatus]
    | oracleMissing k =>
      have hs' : followStep O q
          { ls with consumed := ls.consumed + 1, out := { ls.out with totalLines := ls.out.totalLines + 1 } }.es.agg
          (lineEnv qy.table l) = .oracleMissing k := hs
      simp [hs', Outcome.bind, failWith, endStatus]
  | cons x rest ih =>
    have hnone : ((none : Option Nat) == some ls.consumed) = false := rfl
    rw [followEnvs_cons] at h
    simp only [List.cons_append, runFollow, hnone, Bool.false_eq_true, if_false]
    by_cases hx : anyResult x.row = true
    · simp only [hx, if_true, followTables] at h
      obtain ⟨⟨st1, r⟩, h1, h2⟩ := obind_ok h
      obtain ⟨⟨st2, ts2⟩, h3, h4⟩ := obind_ok h2
      simp only [Outcome.ok.injEq, Prod.mk.injEq] at h4
      obtain ⟨h4a, _⟩ := h4
      subst h4a
      rw [executeLine_follow_agg O qy q [] _ x hq hj hx]
      simp only [h1, Outcome.bind, updateLimit, hlim]
      cases r with
      | none =>
        simp only []
        rw [ih _ (by simpa using h3)]
        cases followStep O q st2 (lineEnv qy.table l) <;> simp [endStatus, failWith]
      | some out =>
        simp only [hq, Bool.false_eq_true, if_false]
        rw [ih _ (by simpa using h3)]
        cases followStep O q st2 (lineEnv qy.table l) <;> simp [endStatus, failWith]
    · simp only [hx, Bool.false_eq_true, if_false] at h
      have hex : executeLine O qy [] true
          { ls with consumed := ls.consumed + 1, out := { ls.out with totalLines := ls.out.totalLines + 1 } }.es x =
          .ok (ls.es, { result := none, reachedLimit := false }) := by
        simp only [executeLine, hq, hx, Bool.not_false, if_true, updateLimit, hlim, Nat.add_zero]
      rw [hex]
      simp only []
      rw [ih _ (by simpa using h)]
      cases followStep O q sf (lineEnv qy.table l) <;> simp [endStatus, failWith]

/-- **failure agreement at the k-th line** (the result step): the rows of the first k−1 lines fed one at a time without
failure, the k-th line admitted and its update accepted by WHERE in follow mode, the batch updates over the first k lines
succeed, exact keys: then the executed follow run over the k lines and the executed batch run over them end alike — both
`Ok`, or both with the SAME error (or missing fact) raised by `execute_result` -/
theorem followT_agg_step_status (O : Oracles) (qy : Query) (q : AggStmt) (hq : qy.stmt = .aggregate q) (hj : qy.join = none)
    (hlim : q.limit = none) (joined : Option (List FileLine)) (pre : List Line) (l : Line) (hadm : anyResult l.row = true)
    {sf sf1 sb : AggState} {ts0 : List RowOut}
    (hF : followTables O q (followEnvs qy.table pre) {} = .ok (sf, ts0))
    (hupd : aggUpdateRow O q sf (lineEnv qy.table l) = .ok (sf1, true))
    (hB : aggRun O q (followEnvs qy.table (pre ++ [l])) {} = .ok sb)
    (hex : KeysExact (groupKeysOf O q (followEnvs qy.table (pre ++ [l])))) :
    endStatus (runFollowAllT O qy none (pre ++ [l])).out = endStatus (runBatchT O qy joined [asFile (pre ++ [l])]).out := by
  have he : followEnvs qy.table (pre ++ [l]) = followEnvs qy.table pre ++ [lineEnv qy.table l] := by
    rw [followEnvs_append, followEnvs_cons]
    simp [hadm, followEnvs, asFile, envsOf]
  have hB0 := hB
  rw [he] at hB hex
  have hkey := follow_result_outcome_eq_batch hlim _ _ (followRun_of_tables hF) hupd hB hex
  have hl : reachedLimit qy {} = false := by simp [reachedLimit, hq]
  -- the follow side
  have hfs : followStep O q sf (lineEnv qy.table l) = (aggResult O q sf1).bind (fun r => .ok (r.1, some r.2)) := by
    simp only [followStep, hupd, Outcome.bind, if_true]
  have hL : endStatus (runFollowAllT O qy none (pre ++ [l])).out =
      endStatus (match followStep O q sf (lineEnv qy.table l) with
        | .ok _ => ({} : RunOut)
        | o => failWith {} o) := by
    rw [runFollowAllT_out]
    unfold runFollowAll
    simp only [hl, Bool.false_eq_true, if_false]
    exact runFollow_agg_snoc_status O qy q hq hj hlim pre l hadm {} hF
  -- the batch side
  have hR : endStatus (runBatchT O qy joined [asFile (pre ++ [l])]).out =
      endStatus (match finalResult O q { agg := sb } with
        | .ok _ => ({} : RunOut)
        | o => failWith {} o) := by
    rw [Pipeline.runBatchT_nojoin O qy hj joined, Pipeline.runBatchT_some_out]
    have hls := runFiles_agg O qy q hq hj [asFile (pre ++ [l])] (by simpa using asFile_readable _) {} rfl
      (by simpa [followEnvs] using hB0)
    simp only [runBatch, hj, hq, Bool.not_true]
    rw [hls]
    simp only [afterLines, hasFailed]
    have hfin : finalResult O q { seen := ([] : List (List Value)), agg := sb, numOut := 0 } = finalResult O q { agg := sb } := rfl
    simp only [Option.isSome_none, Bool.or_self, Bool.false_eq_true, if_false]
    rw [hfin]
    cases hfr : finalResult O q { agg := sb } <;> simp [endStatus, failWith]
  rw [hL, hR, hfs, ← hkey]
  cases aggResult O q sf1 <;> simp [Outcome.bind, endStatus, failWith]

/-- … and what it has handed to the printer: the tables shown for `pre`, then the table of the last line if its step
succeeded and WHERE admitted it -/
theorem runFollowT_agg_snoc_calls (O : Oracles) (qy : Query) (q : AggStmt) (hq : qy.stmt = .aggregate q) (hj : qy.join = none)
    (hlim : q.limit = none) (pre : List Line) (l : Line) (hadm : anyResult l.row = true) (s : TraceState)
    {sf : AggState} {ts0 : List RowOut}
    (h : followTables O q (followEnvs qy.table pre) s.ls.es.agg = .ok (sf, ts0)) :
    (runFollowT O qy none (pre ++ [l]) s).calls =
      s.calls ++ ts0.map (fun r => { result := r, final := true }) ++
        (match followStep O q sf (lineEnv qy.table l) with
          | .ok (_, some r) => [{ result := r, final := true }]
          | _ => []) := by
  have hu : isUpdated qy = true := by simp [isUpdated, hq]
  induction pre generalizing s ts0 with
  | nil =>
    simp only [followEnvs, asFile, List.map_nil, envsOf, List.filter_nil, followTables, Outcome.ok.injEq, Prod.mk.injEq] at h
    obtain ⟨h1, h2⟩ := h
    subst h1; subst h2
    have hnone : ((none : Option Nat) == some s.ls.consumed) = false := rfl
    simp only [List.nil_append, runFollowT, hnone, Bool.false_eq_true, if_false, List.map_nil, List.append_nil]
    rw [executeLine_follow_agg O qy q [] _ l hq hj hadm]
    cases hs : followStep O q s.ls.es.agg (lineEnv qy.table l) with
    | ok p =>
      obtain ⟨st1, r⟩ := p
      have hs' : followStep O q
          { s.ls with consumed := s.ls.consumed + 1, out := { s.ls.out with totalLines := s.ls.out.totalLines + 1 } }.es.agg
          (lineEnv qy.table l) = .ok (st1, r) := hs
      simp only [hs', Outcome.bind, updateLimit, hlim]
      cases r <;> simp [hu]
    | error k =>
      have hs' : followStep O q
          { s.ls with consumed := s.ls.consumed + 1, out := { s.ls.out with totalLines := s.ls.out.totalLines + 1 } }.es.agg
          (lineEnv qy.table l) = .error k := hs
      simp [hs', Outcome.bind]
    | panic k =>
      have hs' : followStep O q
          { s.ls with consumed := s.ls.consumed + 1, out := { s.ls.out with totalLines := s.ls.out.totalLines + 1 } }.es.agg
          (lineEnv qy.table l) = .panic k := hs
      simp [hs', Outcome.bind]
    | oracleMissing k =>
      have hs' : followStep O q
          { s.ls with consumed := s.ls.consumed + 1, out := { s.ls.out with totalLines := s.ls.out.totalLines + 1 } }.es.agg
          (lineEnv qy.table l) = .oracleMissing k := hs
      simp [hs', Outcome.bind]
  | cons x rest ih =>
    have hnone : ((none : Option Nat) == some s.ls.consumed) = false := rfl
    rw [followEnvs_cons] at h
    simp only [List.cons_append, runFollowT, hnone, Bool.false_eq_true, if_false]
    by_cases hx : anyResult x.row = true
    · simp only [hx, if_true, followTables] at h
      obtain ⟨⟨st1, r⟩, h1, h2⟩ := obind_ok h
      obtain ⟨⟨st2, ts2⟩, h3, h4⟩ := obind_ok h2
      simp only [Outcome.ok.injEq, Prod.mk.injEq] at h4
      obtain ⟨h4a, h4b⟩ := h4
      subst h4a; subst h4b
      rw [executeLine_follow_agg O qy q [] _ x hq hj hx]
      simp only [h1, Outcome.bind, updateLimit, hlim]
      cases r with
      | none =>
        simp only []
        rw [ih _ (by simpa using h3)]
        simp
      | some out =>
        simp only [hu, Bool.false_eq_true, if_false]
        rw [ih _ (by simpa using h3)]
        simp
    · simp only [hx, Bool.false_eq_true, if_false] at h
      have hex : executeLine O qy [] true
          { s.ls with consumed := s.ls.consumed + 1, out := { s.ls.out with totalLines := s.ls.out.totalLines + 1 } }.es x =
          .ok (s.ls.es, { result := none, reachedLimit := false }) := by
        simp only [executeLine, hq, hx, Bool.not_false, if_true, updateLimit, hlim, Nat.add_zero]
      rw [hex]
      simp only []
      exact ih _ (by simpa using h)

/-- the executed follow run over `pre ++ [l]` (rows of `pre` fed without failure, `l` admitted): what it hands to the
printer and how it ends, in terms of the engine step for `l` -/
theorem followT_agg_snoc_trace (O : Oracles) (qy : Query) (q : AggStmt) (hq : qy.stmt = .aggregate q) (hj : qy.join = none)
    (hlim : q.limit = none) (pre : List Line) (l : Line) (hadm : anyResult l.row = true) {sf : AggState} {ts0 : List RowOut}
    (hF : followTables O q (followEnvs qy.table pre) {} = .ok (sf, ts0)) :
    (runFollowAllT O qy none (pre ++ [l])).calls =
      ts0.map (fun r => { result := r, final := true }) ++
        (match followStep O q sf (lineEnv qy.table l) with
          | .ok (_, some r) => [{ result := r, final := true }]
          | _ => []) ∧
    endStatus (runFollowAllT O qy none (pre ++ [l])).out =
      endStatus (match followStep O q sf (lineEnv qy.table l) with
        | .ok _ => ({} : RunOut)
        | o => failWith {} o) := by
  have hl : reachedLimit qy {} = false := by simp [reachedLimit, hq]
  constructor
  · unfold runFollowAllT
    simp only [hl, Bool.false_eq_true, if_false]
    rw [runFollowT_agg_snoc_calls O qy q hq hj hlim pre l hadm {} hF]
    simp
  · rw [runFollowAllT_out]
    unfold runFollowAll
    simp only [hl, Bool.false_eq_true, if_false]
    exact runFollow_agg_snoc_status O qy q hq hj hlim pre l hadm {} hF

/-- a failed batch run of an aggregate statement has handed nothing to the printer -/
theorem runBatchT_agg_failed_calls (O : Oracles) (qy : Query) (q : AggStmt) (hq : qy.stmt = .aggregate q) (hj : qy.join = none)
    (joined : Option (List FileLine)) (files : List (List FileLine))
    (h : hasFailed (runBatchT O qy joined files).out = true) : (runBatchT O qy joined files).calls = [] := by
  have hC : (runFilesT O qy [] false files {}).calls = [] := runFilesT_agg_calls O qy q hq [] files {}
  unfold runBatchT joinSetup runWithIndexT at h ⊢
  simp only [hj, hq, Bool.not_true] at h ⊢
  split
  · exact hC
  · rename_i hnf
    simp only [hnf, Bool.false_eq_true, if_false] at h
    cases hfr : finalResult O q (runFilesT O qy [] false files {}).ls.es with
    | ok r =>
      rw [hfr] at h
      exact absurd h hnf
    | error k => exact hC
    | panic k => exact hC
    | oracleMissing k => exact hC

end Sqlgrep
