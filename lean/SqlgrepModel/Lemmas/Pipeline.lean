import SqlgrepModel.Lemmas.PipelineAligned
import SqlgrepModel.Spec.Pipeline
import SqlgrepModel.Props.C09
import SqlgrepModel.Props.C14
import SqlgrepModel.Props.C14Lex
import SqlgrepModel.Props.C19
import SqlgrepModel.Props.C04
import SqlgrepModel.Lemmas.SelectRun
/- Glue lemmas of the end-to-end model (`Model/Pipeline.lean`): each stage theorem lifted to the composition. -/
namespace Sqlgrep.Pipeline
open Sqlgrep Sqlgrep.Spec.Pipeline

/-! ### text → statement never panics -/

theorem lowerTree_no_panic (rv : List Char → Bool) (t : POp) (h : t.PathsOk) : ∀ site, lowerTree rv t ≠ .panic site := by
  intro site
  unfold lowerTree
  have hp := Props.C14.lower_never_panics rv t h
  cases hl : Lower.lowerStatement rv t with
  | ok s => simp
  | err e => simp
  | panic s => exact absurd hl (hp s)

theorem lowerTree_ne_fuel (rv : List Char → Bool) (t : POp) : lowerTree rv t ≠ .fuel := by
  unfold lowerTree; split <;> simp

theorem lowerTree_ne_missing (rv : List Char → Bool) (t : POp) : ∀ w, lowerTree rv t ≠ .missing w := by
  intro w; unfold lowerTree; split <;> simp

theorem parseToks_total (rv : List Char → Bool) (ts : List PTok) (hne : ts ≠ []) :
    (∀ site, parseToks rv ts ≠ .panic site) ∧ parseToks rv ts ≠ .fuel ∧ (∀ w, parseToks rv ts ≠ .missing w) := by
  unfold parseToks
  have h1 := Props.C14.parse_never_out_of_fuel PrecTables.code ts
  have h2 := Props.C14.parse_never_panics PrecTables.code ts hne
  cases hp : Parse.parseTokens PrecTables.code ts with
  | tree t =>
    have hl := lowerTree_no_panic rv t (Props.C14.no_empty_json_path_in_a_tree PrecTables.code ts t hp)
    dsimp only
    exact ⟨hl, lowerTree_ne_fuel rv t, lowerTree_ne_missing rv t⟩
  | error e => simp
  | fuel => exact absurd hp h1
  | panic => exact absurd hp h2

/-- `parsing::parse` on any text: a statement, one of the three kinds of located error, or a missing number fact -/
theorem parseText_total (lo : Lex.Oracles) (rv : List Char → Bool) (text : List Char) :
    (∀ site, parseText lo rv text ≠ .panic site) ∧ parseText lo rv text ≠ .fuel := by
  unfold parseText
  cases ht : Lex.tokenize lo text with
  | ok ts =>
    obtain ⟨init, loc, he⟩ := Lex.tokenize_ends_eof lo text ts ht
    have hne : ts ≠ [] := by rw [he]; simp
    exact ⟨(parseToks_total rv ts hne).1, (parseToks_total rv ts hne).2.1⟩
  | error loc e => simp
  | missing w => simp

/-! ### the run never panics -/

theorem runWithIndexT_error (O : Oracles) (qy : Query) (k : ErrKind) (files : List (List FileLine)) :
    (runWithIndexT O qy (.error k) files).out.panicked = false := rfl

theorem setupJoin_error (t : TableInfo) (j : JoinInfo) (k : ErrKind) : ∃ k', setupJoin t j (.error k) = .error k' := by
  unfold setupJoin
  cases indexOf? t.columns j.joinerColumn with
  | none => exact ⟨_, rfl⟩
  | some i => exact ⟨_, rfl⟩

theorem joinSetup_none_file (qy : Query) (j : JoinInfo) (hj : qy.join = some j) : ∃ k, joinSetup qy none = .error k := by
  unfold joinSetup
  rw [hj]
  simp only
  have : ∃ k, (loadJoinFileI j none none).bind (fun p => Outcome.ok p.1) = .error k := by
    unfold loadJoinFileI
    cases indexOf? j.joined.columns j.joinedColumn with
    | none => exact ⟨_, rfl⟩
    | some ki => exact ⟨_, rfl⟩
  obtain ⟨k, hk⟩ := this
  rw [hk]
  exact setupJoin_error _ _ _

/-- without a join the joined file does not matter -/
theorem runBatchT_nojoin (O : Oracles) (qy : Query) (hj : qy.join = none) (joined : Option (List FileLine))
    (files : List (List FileLine)) : runBatchT O qy joined files = runBatchT O qy (some []) files := by
  unfold runBatchT joinSetup
  rw [hj]

/-- the traced run with the joined file present is `runBatch` -/
theorem runBatchT_some_out (O : Oracles) (qy : Query) (joined : List FileLine) (files : List (List FileLine)) :
    (runBatchT O qy (some joined) files).out = runBatch O qy joined files none := by
  rw [runBatchT_out, Props.C19.runBatchI_no_clear]

theorem runBatchT_no_panic (O : Oracles) (qy : Query) (joined : Option (List FileLine)) (files : List (List FileLine)) :
    (runBatchT O qy joined files).out.panicked = false := by
  cases joined with
  | some jl => rw [runBatchT_some_out]; exact Props.C09.run_never_panics O qy jl files none
  | none =>
    cases hj : qy.join with
    | none => rw [runBatchT_nojoin O qy hj, runBatchT_some_out]; exact Props.C09.run_never_panics O qy [] files none
    | some j =>
      obtain ⟨k, hk⟩ := joinSetup_none_file qy j hj
      unfold runBatchT
      rw [hk]
      rfl

theorem runNoTable_no_panic (O : Oracles) (stmt : Stmt) (fromTable : String) (files : List (List Nat)) :
    (runNoTable O stmt fromTable files).out.panicked = false := by
  unfold runNoTable
  simp only
  split
  · exact runBatchT_no_panic ..
  · split
    · exact runBatchT_no_panic ..
    · rfl
    · rfl

/-- **the engine part of the end-to-end run never panics** (C09 `run_never_panics`, lifted over the table lookups) -/
theorem runStatement_no_panic (F : Facts) (tables : List Table) (stmt : Stmt) (fromTable : String) (join : Option LJoin)
    (files : List (List Nat)) (t : TraceOut) (h : runStatement F tables stmt fromTable join files = some t) :
    t.out.panicked = false := by
  unfold runStatement at h
  cases hg : getTable tables fromTable with
  | none =>
    rw [hg] at h
    cases join with
    | none => simp only [Option.some.injEq] at h; subst h; exact runNoTable_no_panic ..
    | some j => simp only [Option.some.injEq] at h; subst h; rfl
  | some tb =>
    rw [hg] at h
    cases join with
    | none =>
      simp only [bind, Option.bind] at h
      cases hf : files.mapM (fileLines F tb.defn) with
      | none => rw [hf] at h; cases h
      | some fs =>
        rw [hf] at h
        simp only [pure, Option.some.injEq] at h
        subst h
        exact runBatchT_no_panic ..
    | some j =>
      simp only [bind, Option.bind] at h
      cases hf : files.mapM (fileLines F tb.defn) with
      | none => rw [hf] at h; cases h
      | some fs =>
        rw [hf] at h
        simp only at h
        cases hu : getTable tables j.joinedTable with
        | none =>
          rw [hu] at h
          simp only [pure, Option.some.injEq] at h
          subst h
          obtain ⟨k, hk⟩ := setupJoin_error tb.info (joinInfo j { name := j.joinedTable, columns := [] }) .tableNotFound
          rw [hk]
          rfl
        | some u =>
          rw [hu] at h
          simp only at h
          cases ho : openJoined F j with
          | none =>
            rw [ho] at h
            simp only [pure, Option.some.injEq] at h
            subst h
            exact runBatchT_no_panic ..
          | some bytes =>
            rw [ho] at h
            simp only at h
            cases hjl : fileLines F u.defn bytes with
            | none => rw [hjl] at h; cases h
            | some jl =>
              rw [hjl] at h
              simp only [pure, Option.some.injEq] at h
              subst h
              exact runBatchT_no_panic ..

/-! ### every print call of the end-to-end run is aligned -/

theorem runBatchT_aligned (O : Oracles) (qy : Query) (joined : Option (List FileLine)) (files : List (List FileLine)) :
    CallsAligned (runBatchT O qy joined files).calls := runWithIndexT_aligned O qy _ files

theorem runStatement_aligned (F : Facts) (tables : List Table) (stmt : Stmt) (fromTable : String) (join : Option LJoin)
    (files : List (List Nat)) (t : TraceOut) (h : runStatement F tables stmt fromTable join files = some t) :
    CallsAligned t.calls := by
  have empty : CallsAligned ([] : List PrintCall) := by intro c hc; cases hc
  unfold runStatement at h
  cases hg : getTable tables fromTable with
  | none =>
    rw [hg] at h
    cases join with
    | none =>
      simp only [Option.some.injEq] at h; subst h
      unfold runNoTable
      simp only
      split
      · exact runBatchT_aligned _ _ _ _
      · split
        · exact runBatchT_aligned _ _ _ _
        · exact empty
        · exact empty
    | some j => simp only [Option.some.injEq] at h; subst h; exact empty
  | some tb =>
    rw [hg] at h
    cases join with
    | none =>
      simp only [bind, Option.bind] at h
      cases hf : files.mapM (fileLines F tb.defn) with
      | none => rw [hf] at h; cases h
      | some fs =>
        rw [hf] at h
        simp only [pure, Option.some.injEq] at h
        subst h
        exact runBatchT_aligned _ _ _ _
    | some j =>
      simp only [bind, Option.bind] at h
      cases hf : files.mapM (fileLines F tb.defn) with
      | none => rw [hf] at h; cases h
      | some fs =>
        rw [hf] at h
        simp only at h
        cases hu : getTable tables j.joinedTable with
        | none =>
          rw [hu] at h
          simp only [pure, Option.some.injEq] at h
          subst h
          exact runWithIndexT_aligned _ _ _ _
        | some u =>
          rw [hu] at h
          simp only at h
          cases ho : openJoined F j with
          | none =>
            rw [ho] at h
            simp only [pure, Option.some.injEq] at h
            subst h
            exact runBatchT_aligned _ _ _ _
          | some bytes =>
            rw [ho] at h
            simp only at h
            cases hjl : fileLines F u.defn bytes with
            | none => rw [hjl] at h; cases h
            | some jl =>
              rw [hjl] at h
              simp only [pure, Option.some.injEq] at h
              subst h
              exact runBatchT_aligned _ _ _ _

theorem printCalls_no_panic (fmt : Print.Format) (single : Bool) (calls : List PrintCall) (h : CallsAligned calls) :
    (printCalls single calls).any (fun c => Print.resultPanics fmt c.1) = false := by
  simp only [printCalls, List.any_map, List.any_eq_false]
  intro c hc
  simp only [Function.comp, toResultRow]
  rw [aligned_no_print_panic fmt c.result (h c hc)]
  simp

/-! ### the lowering delivers what the C04 refinement asks for -/

theorem havingAggs_eq (v : List HavingRef) : Lower.havingAggs v = v.filterMap havingAggOf := by
  induction v with
  | nil => rfl
  | cons r rest ih =>
    cases r with
    | key c => simp only [Lower.havingAggs, List.filterMap_cons, havingAggOf, ih]
    | agg id k => simp only [Lower.havingAggs, List.filterMap_cons, havingAggOf, ih]

/-- an aggregate statement produced by the lowering is well-formed in the sense of `Lemmas/AggResult.lean` -/
theorem lowerAggregateStmt_wf (q : PSelect) (a : AggStmt) (f : String) (file : Option String) (j : Option LJoin)
    (h : Lower.lowerAggregateStmt q = .ok (.aggregate a f file j)) : StmtWF a := by
  unfold Lower.lowerAggregateStmt at h
  cases h1 : Lower.lowerItems q.projections 0 with
  | ok items =>
    rw [h1] at h; simp only at h
    cases h2 : Lower.lowerOpt Lower.lowerPlain q.filter with
    | ok filter =>
      rw [h2] at h; simp only at h
      cases h3 : Lower.lowerHavingOpt q.having with
      | ok having =>
        rw [h3] at h; simp only at h
        cases h4 : Lower.lowerJoin q.loc q.fromTable q.join with
        | ok join =>
          rw [h4] at h; simp only at h
          cases h5 : Lower.lowerGroupBy q.groupBy with
          | ok groupBy =>
            rw [h5] at h
            simp only [LRes.ok.injEq, LStmt.aggregate.injEq] at h
            obtain ⟨rfl, _, _, _⟩ := h
            refine ⟨?_, ?_⟩
            · simp only [havingAggs_eq]
            · intro hn
              cases having with
              | none => rfl
              | some p => simp at hn
          | err e => rw [h5] at h; cases h
          | panic s => rw [h5] at h; cases h
        | err e => rw [h4] at h; cases h
        | panic s => rw [h4] at h; cases h
      | err e => rw [h3] at h; cases h
      | panic s => rw [h3] at h; cases h
    | err e => rw [h2] at h; cases h
    | panic s => rw [h2] at h; cases h
  | err e => rw [h1] at h; cases h
  | panic s => rw [h1] at h; cases h

/-! ### prepared runs -/

/-- where the specification prepares a run, the model runs exactly that engine-level run -/
theorem runStatement_of_prepare (F : Facts) (tables : List Table) (stmt : Stmt) (fromTable : String) (join : Option LJoin)
    (files : List (List Nat)) (p : Prepared) (h : prepare F tables stmt fromTable join files = some p) :
    runStatement F tables stmt fromTable join files = some (runBatchT F.eval p.qy (some p.joined) p.files) ∧
    p.qy.stmt = stmt := by
  unfold prepare at h
  unfold runStatement
  cases hg : getTable tables fromTable with
  | none => rw [hg] at h; cases h
  | some tb =>
    rw [hg] at h
    simp only at h
    cases hf : files.mapM (fileLines F tb.defn) with
    | none => rw [hf] at h; cases h
    | some fs =>
      rw [hf] at h
      simp only at h
      cases join with
      | none =>
        simp only [Option.some.injEq] at h
        subst h
        simp only [bind, Option.bind, pure, hf]
        exact ⟨by rw [runBatchT_nojoin F.eval _ rfl none fs], trivial⟩
      | some j =>
        simp only at h
        cases hu : getTable tables j.joinedTable with
        | none => rw [hu] at h; cases h
        | some u =>
          rw [hu] at h
          simp only at h
          cases ho : openJoined F j with
          | none => rw [ho] at h; cases h
          | some bytes =>
            rw [ho] at h
            simp only at h
            cases hjl : fileLines F u.defn bytes with
            | none => rw [hjl] at h; cases h
            | some jl =>
              rw [hjl] at h
              simp only [Option.some.injEq] at h
              subst h
              simp only [bind, Option.bind, pure, hf, hu, ho, hjl]
              exact ⟨trivial, trivial⟩

/-! ### the answer of the whole run -/

/-- the answer once the run of the statement is known -/
def answerOf (F : Facts) (fmt : Print.Format) (single : Bool) (t : TraceOut) : Answer :=
  if t.out.skipped.isSome then .skip (t.out.skipped.getD "")
  else if t.out.panicked then .panic "engine"
  else if !realsCover F t.calls then .skip "REAL rendering"
  else
    let calls := printCalls single t.calls
    if calls.any (fun c => Print.resultPanics fmt c.1) then .panic "OutputPrinter::print index"
    else .records t.out.error t.out.totalLines ((Print.printAll (realOracle F) fmt true calls).map Print.Line.bytes)

theorem runLowered_eq (F : Facts) (defs query : LStmt) (fmt : Print.Format) (single : Bool) (files : List (List Nat))
    (tables : List Table) (stmt : Stmt) (fromTable : String) (join : Option LJoin) (t : TraceOut)
    (ht : addTables defs = some tables) (hs : stmtOf query = some (stmt, fromTable, join))
    (hr : runStatement F tables stmt fromTable join files = some t) :
    runLowered F defs query fmt single files = answerOf F fmt single t := by
  unfold runLowered answerOf
  rw [ht]; simp only
  rw [hs]; simp only
  rw [hr]

theorem answerOf_no_panic (F : Facts) (fmt : Print.Format) (single : Bool) (t : TraceOut)
    (hp : t.out.panicked = false) (ha : CallsAligned t.calls) : ∀ site, answerOf F fmt single t ≠ .panic site := by
  intro site
  unfold answerOf
  simp only [hp, Bool.false_eq_true, if_false, printCalls_no_panic fmt single t.calls ha]
  split
  · simp
  · split <;> simp

theorem runLowered_no_panic (F : Facts) (defs query : LStmt) (fmt : Print.Format) (single : Bool) (files : List (List Nat)) :
    ∀ site, runLowered F defs query fmt single files ≠ .panic site := by
  intro site
  cases ht : addTables defs with
  | none => unfold runLowered; rw [ht]; simp
  | some tables =>
    cases hs : stmtOf query with
    | none => unfold runLowered; rw [ht]; simp only; rw [hs]; simp
    | some p =>
      obtain ⟨stmt, fromTable, join⟩ := p
      cases hr : runStatement F tables stmt fromTable join files with
      | none => unfold runLowered; rw [ht]; simp only; rw [hs]; simp only; rw [hr]; simp
      | some t =>
        rw [runLowered_eq F defs query fmt single files tables stmt fromTable join t ht hs hr]
        exact answerOf_no_panic F fmt single t (runStatement_no_panic F tables stmt fromTable join files t hr)
          (runStatement_aligned F tables stmt fromTable join files t hr) site

/-- the answer of a run that neither skips nor meets a missing REAL rendering -/
theorem answerOf_records (F : Facts) (fmt : Print.Format) (single : Bool) (t : TraceOut)
    (hp : t.out.panicked = false) (ha : CallsAligned t.calls) (hs : t.out.skipped = none) (hc : realsCover F t.calls = true) :
    answerOf F fmt single t = .records t.out.error t.out.totalLines
      ((Print.printAll (realOracle F) fmt true (printCalls single t.calls)).map Print.Line.bytes) := by
  unfold answerOf
  simp [hp, hs, hc, printCalls_no_panic fmt single t.calls ha]

/-- `runText` is `runLowered` on the statements the two texts lower to -/
theorem runText_eq_runLowered (F : Facts) (defsText queryText : List Char) (fmt : Print.Format) (single : Bool)
    (files : List (List Nat)) (defs query : LStmt)
    (hc : classesCover F defsText = true ∧ classesCover F queryText = true)
    (hd : parseText (lexOracles F) (regexValidFn F) defsText = .stmt defs)
    (hp : (createPatterns defs).all (fun re => ((Utf8.decode re).bind (regexValidOf F)).isSome) = true)
    (hq : parseText (lexOracles F) (regexValidFn F) queryText = .stmt query) :
    runText F defsText queryText fmt single files = runLowered F defs query fmt single files := by
  unfold runText
  simp only [hc.1, hc.2, Bool.not_true, Bool.or_self, Bool.false_eq_true, if_false, hd, hp, hq]

theorem runText_no_panic (F : Facts) (defsText queryText : List Char) (fmt : Print.Format) (single : Bool)
    (files : List (List Nat)) : ∀ site, runText F defsText queryText fmt single files ≠ .panic site := by
  intro site
  unfold runText
  split
  · simp
  · have hdt := parseText_total (lexOracles F) (regexValidFn F) defsText
    have hqt := parseText_total (lexOracles F) (regexValidFn F) queryText
    cases hd : parseText (lexOracles F) (regexValidFn F) defsText with
    | stmt defs =>
      simp only
      split
      · simp
      · cases hq : parseText (lexOracles F) (regexValidFn F) queryText with
        | stmt query => exact runLowered_no_panic F defs query fmt single files site
        | panic s => exact absurd hq (hqt.1 s)
        | fuel => exact absurd hq hqt.2
        | lexError l e => simp
        | parseError e => simp
        | convertError e => simp
        | missing w => simp
    | panic s => exact absurd hd (hdt.1 s)
    | fuel => exact absurd hd hdt.2
    | lexError l e => simp
    | parseError e => simp
    | convertError e => simp
    | missing w => simp

/-! ### the printed text of the engine models is the text rendering of the recorded calls, on every branch -/

theorem runNoTable_printed (O : Oracles) (stmt : Stmt) (fromTable : String) (files : List (List Nat)) :
    (runNoTable O stmt fromTable files).out.printed = renderCalls (runNoTable O stmt fromTable files).calls := by
  unfold runNoTable
  simp only
  split
  · exact runBatchT_printed ..
  · split
    · exact runBatchT_printed ..
    · rfl
    · rfl

/-! ### an aggregate statement that comes out of `parsing::parse` is well-formed -/

theorem lowerSelect_not_aggregate (q : PSelect) (a : AggStmt) (f : String) (file : Option String) (j : Option LJoin) :
    Lower.lowerSelect q ≠ .ok (.aggregate a f file j) := by
  unfold Lower.lowerSelect
  intro h
  split at h
  · split at h
    · split at h <;> cases h
    · cases h
    · cases h
  · cases h
  · cases h

theorem lowerCreate_not_aggregate (rv : List Char → Bool) (c : PCreate) (a : AggStmt) (f : String) (file : Option String)
    (j : Option LJoin) : Lower.lowerCreate rv c ≠ .ok (.aggregate a f file j) := by
  unfold Lower.lowerCreate
  intro h
  split at h
  · split at h <;> cases h
  · cases h
  · cases h

theorem lowerStatement_aggregate_wf (rv : List Char → Bool) (t : POp) (a : AggStmt) (f : String) (file : Option String)
    (j : Option LJoin) (h : Lower.lowerStatement rv t = .ok (.aggregate a f file j)) : StmtWF a := by
  cases t with
  | select q =>
    simp only [Lower.lowerStatement] at h
    by_cases h1 : q.groupBy.isSome = true
    · rw [if_pos h1] at h; exact lowerAggregateStmt_wf q a f file j h
    · rw [if_neg h1] at h
      by_cases h2 : Lower.anyAggregates q.projections = true
      · rw [if_pos h2] at h; exact lowerAggregateStmt_wf q a f file j h
      · rw [if_neg h2] at h
        by_cases h3 : q.having.isSome = true
        · rw [if_pos h3] at h; cases h
        · rw [if_neg h3] at h; exact absurd h (lowerSelect_not_aggregate q a f file j)
  | createTable c =>
    simp only [Lower.lowerStatement] at h
    exact absurd h (lowerCreate_not_aggregate rv c a f file j)
  | multiple cs =>
    simp only [Lower.lowerStatement] at h
    split at h <;> cases h

theorem parseText_aggregate_wf (lo : Lex.Oracles) (rv : List Char → Bool) (text : List Char) (a : AggStmt) (f : String)
    (file : Option String) (j : Option LJoin) (h : parseText lo rv text = .stmt (.aggregate a f file j)) : StmtWF a := by
  unfold parseText at h
  split at h
  · unfold parseToks at h
    split at h
    · unfold lowerTree at h
      split at h
      · rename_i t _ s hs
        simp only [Parsed.stmt.injEq] at h
        subst h
        exact lowerStatement_aggregate_wf rv _ a f file j hs
      · cases h
      · cases h
    · cases h
    · cases h
    · cases h
  · cases h
  · cases h

end Sqlgrep.Pipeline
