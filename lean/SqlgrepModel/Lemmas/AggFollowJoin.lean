import SqlgrepModel.Lemmas.AggJoin
import SqlgrepModel.Lemmas.AggFindings
import SqlgrepModel.Lemmas.AggFollowExec
import SqlgrepModel.Lemmas.NoiseFollow
/-
Line-at-a-time execution (update + result per line, `ExecutionConfig::default()`) of an aggregate statement, WITH OR
WITHOUT A JOIN, against batch execution (update only per line, one result at the end), for any join index: every
partner row of the line updates the state, then — iff one of them updated — ONE table is computed (D61 repaired: it
used to be one table per partner, concatenated). That table is the batch table over everything fed so far.

`feedLines` (Lemmas/NoiseFollow.lean) is the engine's answers for lines fed one at a time; the `incr` driver is a
rendering of it (`incrLoop_eq_feedLines`, `Props.C06.incr_driver_is_feedLines`). The batch side is the executed `runBatch`.
-/
set_option linter.unusedSimpArgs false
namespace Sqlgrep
open Value Spec.Agg

/-! ### the per-line step in both modes -/

/-- `ExecutionEngine::execute(line, default config)` for an aggregate statement: every environment of the line (one per
join partner; exactly one without a join) goes through `execute_update`, then one `execute_result` iff one of them updated -/
theorem executeLine_follow_join (O : Oracles) (qy : Query) (q : AggStmt) (idx : JoinIndex) (es : EngineState) (l : Line)
    (hq : qy.stmt = .aggregate q) (hadm : anyResult l.row = true) :
    executeLine O qy idx true es l =
      (lineEnvs qy idx false l).bind (fun envs =>
        (aggEnvs O q envs es.agg false).bind (fun p =>
          if p.2 then (aggResult O q p.1).bind (fun r => .ok (updateLimit false q.limit { es with agg := r.1 } (some r.2)))
          else .ok (updateLimit false q.limit { es with agg := p.1 } none))) := by
  simp only [executeLine, hq, hadm, Bool.not_true, Bool.false_eq_true, if_false, bind, if_true, pure]

/-- `execute(line, update-only config)`: every environment of the line goes through `execute_update`, nothing is shown -/
theorem executeLine_batch_join (O : Oracles) (qy : Query) (q : AggStmt) (idx : JoinIndex) (es : EngineState) (l : Line)
    (hq : qy.stmt = .aggregate q) (hadm : anyResult l.row = true) :
    executeLine O qy idx false es l =
      (lineEnvs qy idx false l).bind (fun envs =>
        (aggEnvs O q envs es.agg false).bind (fun p =>
          .ok ({ es with agg := p.1 }, { result := none, reachedLimit := false }))) := by
  simp only [executeLine, hq, hadm, Bool.not_true, Bool.false_eq_true, if_false, bind, pure]

/-- a line that is not admitted: no answer, no state change, in either mode -/
theorem executeLine_agg_not_admitted (O : Oracles) (qy : Query) (q : AggStmt) (idx : JoinIndex) (w : Bool) (es : EngineState)
    (l : Line) (hq : qy.stmt = .aggregate q) (hlim : q.limit = none) (hadm : anyResult l.row = false) :
    executeLine O qy idx w es l = .ok (es, { result := none, reachedLimit := false }) := by
  simp only [executeLine, hq, hadm, Bool.not_false, if_true, updateLimit, hlim, Nat.add_zero]
  cases w <;> rfl

/-! ### the same partner rows fed to the follow-mode and to the batch-mode state -/

theorem aggEnvs_sim2 {O : Oracles} {q : AggStmt} (envs : List (Env × List String)) {sf sb sf' sb' : AggState}
    {S K : List (List Value)} {any u u' : Bool} (h : Sim2 q sf sb S) (hS : ∀ k ∈ S, k ∈ K)
    (hK : ∀ k ∈ groupKeysOf O q (envs.map (·.1)), k ∈ K)
    (hf : aggEnvs O q envs sf any = .ok (sf', u)) (hb : aggEnvs O q envs sb any = .ok (sb', u')) :
    u = u' ∧ ∃ S', Sim2 q sf' sb' S' ∧ ∀ k ∈ S', k ∈ K := by
  induction envs generalizing sf sb S any with
  | nil =>
    simp only [aggEnvs, Outcome.ok.injEq, Prod.mk.injEq] at hf hb
    obtain ⟨h1, h2⟩ := hf
    obtain ⟨h3, h4⟩ := hb
    subst h1; subst h2; subst h3; subst h4
    exact ⟨rfl, S, h, hS⟩
  | cons e rest ih =>
    obtain ⟨env, keys⟩ := e
    simp only [aggEnvs, bind] at hf hb
    obtain ⟨⟨sf1, uf⟩, hfu, hf2⟩ := obind_ok hf
    obtain ⟨⟨sb1, ub⟩, hbu, hb2⟩ := obind_ok hb
    obtain ⟨hu, S1, hsim1, _, hnew⟩ := sim2_step h hfu hbu
    subst hu
    have hS1 : ∀ k ∈ S1, k ∈ K := by
      intro k hk
      rcases hnew k hk with h1 | h1
      · exact hS k h1
      · exact hK k (by simp [groupKeysOf, h1])
    have hKrest : ∀ k ∈ groupKeysOf O q (rest.map (·.1)), k ∈ K := by
      intro k hk
      apply hK
      simp only [groupKeysOf, List.map_cons, List.filterMap_cons] at hk ⊢
      cases keyOf O q env with
      | none => exact hk
      | some k0 => exact List.mem_cons_of_mem _ hk
    exact ih hsim1 hS1 hKrest hf2 hb2

/-- partner rows none of which updated leave the state as it is -/
theorem aggEnvs_unchanged {O : Oracles} {q : AggStmt} (envs : List (Env × List String)) {st st' : AggState} {any : Bool}
    (h : aggEnvs O q envs st any = .ok (st', false)) : st' = st := by
  induction envs generalizing st any with
  | nil =>
    simp only [aggEnvs, Outcome.ok.injEq, Prod.mk.injEq] at h
    exact h.1.symm
  | cons e rest ih =>
    obtain ⟨env, keys⟩ := e
    simp only [aggEnvs, bind] at h
    obtain ⟨⟨s1, u⟩, hu, h2⟩ := obind_ok h
    have h3 := ih h2
    cases u with
    | false =>
      obtain ⟨_, hfalse, _⟩ := aggUpdateRow_eq hu
      rw [h3, hfalse rfl]
    | true =>
      -- `any || true = true` can never end as `false`
      exfalso
      have : ∀ (es : List (Env × List String)) (s s' : AggState), aggEnvs O q es s true ≠ .ok (s', false) := by
        intro es
        induction es with
        | nil => intro s s' hh; simp [aggEnvs] at hh
        | cons e' r' ih' =>
          intro s s' hh
          obtain ⟨env', _⟩ := e'
          simp only [aggEnvs, bind] at hh
          obtain ⟨⟨s2, u2⟩, _, hh2⟩ := obind_ok hh
          simp only [Bool.true_or] at hh2
          exact ih' _ _ hh2
      simp only [Bool.or_true] at h2
      exact this _ _ _ h2

/-- **one line, both modes.** The follow-mode engine state is similar to the batch-mode engine state (after the same
lines); the same line goes through `execute` with the default configuration on the one and with the update-only
configuration on the other (no LIMIT; any join index). Then the states are similar again, and either
* the follow-mode answer carries a table, and that table is what `execute_result` shows on the batch-mode state after
  this line — the batch table over everything fed so far, for a line with SEVERAL join partners too; or
* it carries none, and neither aggregation state changed (no partner, no admitted row, or WHERE rejected every row). -/
theorem line_sim {O : Oracles} {qy : Query} {q : AggStmt} (hq : qy.stmt = .aggregate q) (hlim : q.limit = none)
    (idx : JoinIndex) (l : Line) {esf esb esf' esb' : EngineState} {lo lob : LineOut} {S K : List (List Value)}
    (h : Sim2 q esf.agg esb.agg S) (hS : ∀ k ∈ S, k ∈ K)
    (hK : ∀ envs, lineEnvs qy idx false l = .ok envs → ∀ k ∈ groupKeysOf O q (envs.map (·.1)), k ∈ K)
    (hex : KeysExact K)
    (hf : executeLine O qy idx true esf l = .ok (esf', lo)) (hb : executeLine O qy idx false esb l = .ok (esb', lob)) :
    (∃ S', Sim2 q esf'.agg esb'.agg S' ∧ ∀ k ∈ S', k ∈ K) ∧
    ((∃ out, lo.result = some out ∧ finalResult O q esb' = .ok out) ∨
     (lo.result = none ∧ esf'.agg = esf.agg ∧ esb'.agg = esb.agg)) := by
  by_cases hadm : anyResult l.row = true
  · rw [executeLine_follow_join O qy q idx esf l hq hadm] at hf
    rw [executeLine_batch_join O qy q idx esb l hq hadm] at hb
    obtain ⟨envs, henv, hf⟩ := obind_ok hf
    rw [henv] at hb
    simp only [Outcome.bind] at hb
    obtain ⟨⟨sf1, u⟩, hfa, hf⟩ := obind_ok hf
    obtain ⟨⟨sb1, u'⟩, hba, hb⟩ := obind_ok hb
    simp only [Outcome.ok.injEq, Prod.mk.injEq] at hb
    obtain ⟨hb1, _⟩ := hb
    subst hb1
    obtain ⟨hu, S1, hsim1, hS1⟩ := aggEnvs_sim2 envs h hS (hK envs henv) hfa hba
    subst hu
    cases u with
    | false =>
      simp only [Bool.false_eq_true, if_false, updateLimit, hlim, Nat.add_zero, Outcome.ok.injEq, Prod.mk.injEq] at hf
      obtain ⟨hf1, hf2⟩ := hf
      subst hf1; subst hf2
      refine ⟨⟨S1, hsim1, hS1⟩, Or.inr ⟨rfl, aggEnvs_unchanged envs hfa, aggEnvs_unchanged envs hba⟩⟩
    | true =>
      simp only [if_true] at hf
      obtain ⟨⟨sf2, out⟩, hres, hf⟩ := obind_ok hf
      simp only [updateLimit, hlim, Outcome.ok.injEq, Prod.mk.injEq] at hf
      obtain ⟨hf1, hf2⟩ := hf
      subst hf1; subst hf2
      have hexS : KeysExact S1 := fun a ha b hb' hab => hex a (hS1 a ha) b (hS1 b hb') hab
      have hsame := aggResult_sim2 (O := O) hsim1 hexS
      rw [hres] at hsame
      simp only [Outcome.bind] at hsame
      refine ⟨⟨S1, by simpa [aggResult_state hres] using sim2_publish hsim1, hS1⟩, Or.inl ⟨out, rfl, ?_⟩⟩
      cases hrb : aggResult O q sb1 with
      | ok rb =>
        rw [hrb] at hsame
        simp only [Outcome.bind, Outcome.ok.injEq] at hsame
        simp only [finalResult, hrb, hlim, bind, Outcome.bind, pure, hsame]
      | error e => rw [hrb] at hsame; simp [Outcome.bind] at hsame
      | panic e => rw [hrb] at hsame; simp [Outcome.bind] at hsame
      | oracleMissing e => rw [hrb] at hsame; simp [Outcome.bind] at hsame
  · have hadm' : anyResult l.row = false := by simpa using hadm
    rw [executeLine_agg_not_admitted O qy q idx true esf l hq hlim hadm'] at hf
    rw [executeLine_agg_not_admitted O qy q idx false esb l hq hlim hadm'] at hb
    simp only [Outcome.ok.injEq, Prod.mk.injEq] at hf hb
    obtain ⟨hf1, hf2⟩ := hf
    obtain ⟨hb1, _⟩ := hb
    subst hf1; subst hf2; subst hb1
    exact ⟨⟨S, h, hS⟩, Or.inr ⟨rfl, rfl, rfl⟩⟩

/-! ### any number of lines -/

/-- the group keys the lines present to the statement (over all join partners) -/
def lineKeys (O : Oracles) (qy : Query) (q : AggStmt) (idx : JoinIndex) (lines : List Line) : List (List Value) :=
  lines.flatMap (fun l => match lineEnvs qy idx false l with
    | .ok envs => groupKeysOf O q (envs.map (·.1))
    | _ => [])

theorem lineKeys_cons_mem {O : Oracles} {qy : Query} {q : AggStmt} {idx : JoinIndex} {l : Line} {rest : List Line}
    {envs : List (Env × List String)} (h : lineEnvs qy idx false l = .ok envs) :
    ∀ k ∈ groupKeysOf O q (envs.map (·.1)), k ∈ lineKeys O qy q idx (l :: rest) := by
  intro k hk
  simp only [lineKeys, List.flatMap_cons, List.mem_append, h]
  exact Or.inl hk

theorem feedLines_snoc_ok {O : Oracles} {qy : Query} {idx : JoinIndex} {w : Bool} (a : List Line) (l : Line) {es es2 : EngineState}
    {los : List LineOut} (h : feedLines O qy idx w (a ++ [l]) es = (los, .ok es2)) :
    ∃ los0 es1 lo, feedLines O qy idx w a es = (los0, .ok es1) ∧ executeLine O qy idx w es1 l = .ok (es2, lo) ∧
      los = los0 ++ [lo] := by
  induction a generalizing es los with
  | nil =>
    simp only [List.nil_append, feedLines] at h
    cases he : executeLine O qy idx w es l with
    | ok p =>
      obtain ⟨e1, lo⟩ := p
      rw [he] at h
      simp only [Prod.mk.injEq, Outcome.ok.injEq] at h
      obtain ⟨h1, h2⟩ := h
      subst h1; subst h2
      exact ⟨[], es, lo, rfl, he, rfl⟩
    | error k => rw [he] at h; simp at h
    | panic k => rw [he] at h; simp at h
    | oracleMissing k => rw [he] at h; simp at h
  | cons x rest ih =>
    simp only [List.cons_append, feedLines] at h
    cases he : executeLine O qy idx w es x with
    | ok p =>
      obtain ⟨e1, lo1⟩ := p
      rw [he] at h
      simp only [Prod.mk.injEq] at h
      obtain ⟨h1, h2⟩ := h
      obtain ⟨los0, es1, lo, h3, h4, h5⟩ := ih (es := e1) (los := (feedLines O qy idx w (rest ++ [l]) e1).1)
        (by rw [← h2])
      refine ⟨lo1 :: los0, es1, lo, ?_, h4, ?_⟩
      · simp only [feedLines, he, h3]
      · rw [← h1, h5]; rfl
    | error k => rw [he] at h; simp at h
    | panic k => rw [he] at h; simp at h
    | oracleMissing k => rw [he] at h; simp at h

/-- after the same lines, fed line by line with the default configuration on the one hand and with the update-only
configuration on the other, the two aggregation states are similar -/
theorem feed_sim {O : Oracles} {qy : Query} {q : AggStmt} (hq : qy.stmt = .aggregate q) (hlim : q.limit = none)
    (idx : JoinIndex) (lines : List Line) {esf esb esf' esb' : EngineState} {losf losb : List LineOut} {S K : List (List Value)}
    (h : Sim2 q esf.agg esb.agg S) (hS : ∀ k ∈ S, k ∈ K) (hK : ∀ k ∈ lineKeys O qy q idx lines, k ∈ K) (hex : KeysExact K)
    (hf : feedLines O qy idx true lines esf = (losf, .ok esf')) (hb : feedLines O qy idx false lines esb = (losb, .ok esb')) :
    ∃ S', Sim2 q esf'.agg esb'.agg S' ∧ ∀ k ∈ S', k ∈ K := by
  induction lines generalizing esf esb S losf losb with
  | nil =>
    simp only [feedLines, Prod.mk.injEq, Outcome.ok.injEq] at hf hb
    rw [← hf.2, ← hb.2]
    exact ⟨S, h, hS⟩
  | cons l rest ih =>
    simp only [feedLines] at hf hb
    cases hef : executeLine O qy idx true esf l with
    | ok pf =>
      cases heb : executeLine O qy idx false esb l with
      | ok pb =>
        obtain ⟨ef1, lof⟩ := pf
        obtain ⟨eb1, lob⟩ := pb
        rw [hef] at hf
        rw [heb] at hb
        simp only [Prod.mk.injEq] at hf hb
        obtain ⟨⟨S1, hs1, hS1⟩, _⟩ := line_sim hq hlim idx l h hS
          (fun envs he => fun k hk => hK k (lineKeys_cons_mem he k hk)) hex hef heb
        have hKrest : ∀ k ∈ lineKeys O qy q idx rest, k ∈ K := by
          intro k hk
          apply hK
          simp only [lineKeys, List.flatMap_cons, List.mem_append]
          exact Or.inr hk
        exact ih hs1 hS1 hKrest (losf := (feedLines O qy idx true rest ef1).1) (losb := (feedLines O qy idx false rest eb1).1)
          (by rw [← hf.2]) (by rw [← hb.2])
      | error k => rw [heb] at hb; simp at hb
      | panic k => rw [heb] at hb; simp at hb
      | oracleMissing k => rw [heb] at hb; simp at hb
    | error k => rw [hef] at hf; simp at hf
    | panic k => rw [hef] at hf; simp at hf
    | oracleMissing k => rw [hef] at hf; simp at hf

/-- **C11, aggregate half, WITH OR WITHOUT A JOIN, engine level.** Lines `pre ++ [l]` fed one at a time with the default
configuration (update + result) and, separately, with the update-only configuration, for any join index; no LIMIT; exact
group keys. Then the k-th answer of the first run either carries a table — and that table is what `execute_result` shows
after the second run, i.e. the batch table over the first k lines (also when the k-th line has several join partners) —
or it carries none and the second run's aggregation state is the one it had after the first k−1 lines. -/
theorem follow_feed_kth {O : Oracles} {qy : Query} {q : AggStmt} (hq : qy.stmt = .aggregate q) (hlim : q.limit = none)
    (idx : JoinIndex) (pre : List Line) (l : Line) {esf esb : EngineState} {losf losb : List LineOut}
    (hf : feedLines O qy idx true (pre ++ [l]) {} = (losf, .ok esf))
    (hb : feedLines O qy idx false (pre ++ [l]) {} = (losb, .ok esb))
    (hex : KeysExact (lineKeys O qy q idx (pre ++ [l]))) :
    ∃ los0 lo esf0 losb0 esb0, losf = los0 ++ [lo] ∧ feedLines O qy idx true pre {} = (los0, .ok esf0) ∧
      feedLines O qy idx false pre {} = (losb0, .ok esb0) ∧
      ((∃ out, lo.result = some out ∧ finalResult O q esb = .ok out) ∨ (lo.result = none ∧ esb.agg = esb0.agg)) := by
  obtain ⟨los0, esf0, lo, hf0, hfl, hlos⟩ := feedLines_snoc_ok pre l hf
  obtain ⟨losb0, esb0, lob, hb0, hbl, _⟩ := feedLines_snoc_ok pre l hb
  have hKpre : ∀ k ∈ lineKeys O qy q idx pre, k ∈ lineKeys O qy q idx (pre ++ [l]) := by
    intro k hk
    simp only [lineKeys, List.flatMap_append, List.mem_append]
    exact Or.inl hk
  obtain ⟨S, hsim, hS⟩ := feed_sim hq hlim idx pre (sim2_init q) (K := lineKeys O qy q idx (pre ++ [l]))
    (fun k hk => by simp at hk) hKpre hex hf0 hb0
  have hKl : ∀ envs, lineEnvs qy idx false l = .ok envs →
      ∀ k ∈ groupKeysOf O q (envs.map (·.1)), k ∈ lineKeys O qy q idx (pre ++ [l]) := by
    intro envs he k hk
    simp only [lineKeys, List.flatMap_append, List.mem_append, List.flatMap_cons, List.flatMap_nil, List.append_nil, he]
    exact Or.inr hk
  obtain ⟨_, hcase⟩ := line_sim hq hlim idx l hsim hS hKl hex hfl hbl
  refine ⟨los0, lo, esf0, losb0, esb0, hlos, hf0, hb0, ?_⟩
  rcases hcase with h1 | ⟨h1, _, h3⟩
  · exact Or.inl h1
  · exact Or.inr ⟨h1, h3⟩

/-! ### the batch side as the executed `runBatch` -/

theorem agg_batch_answer {O : Oracles} {qy : Query} {q : AggStmt} (hq : qy.stmt = .aggregate q) (hlim : q.limit = none)
    {idx : JoinIndex} {es es1 : EngineState} {l : Line} {lo : LineOut}
    (h : executeLine O qy idx false es l = .ok (es1, lo)) : lo = { result := none, reachedLimit := false } := by
  by_cases hadm : anyResult l.row = true
  · rw [executeLine_batch_join O qy q idx es l hq hadm] at h
    obtain ⟨envs, _, h⟩ := obind_ok h
    obtain ⟨p, _, h⟩ := obind_ok h
    simp only [Outcome.ok.injEq, Prod.mk.injEq] at h
    exact h.2.symm
  · rw [executeLine_agg_not_admitted O qy q idx false es l hq hlim (by simpa using hadm)] at h
    simp only [Outcome.ok.injEq, Prod.mk.injEq] at h
    exact h.2.symm

/-- the loop state after `n` lines of a batch run of an aggregate statement that ended in the engine state `es` -/
def afterFeed (ls : LoopState) (es : EngineState) (n : Nat) : LoopState :=
  { ls with es := es, consumed := ls.consumed + n, out := { ls.out with totalLines := ls.out.totalLines + n } }

/-- one file of the executed batch loop of an aggregate statement, for any join index, is the update-only feed of its
lines — and a failing feed is a reported failure -/
theorem runFile_agg_feed (O : Oracles) (qy : Query) (q : AggStmt) (hq : qy.stmt = .aggregate q) (hlim : q.limit = none)
    (idx : JoinIndex) (lines : List Line) (ls : LoopState) :
    (∀ es', (feedLines O qy idx false lines ls.es).2 = .ok es' →
      runFile O qy idx false none (asFile lines) ls = afterFeed ls es' lines.length) ∧
    ((∀ es', (feedLines O qy idx false lines ls.es).2 ≠ .ok es') →
      (runFile O qy idx false none (asFile lines) ls).stop = true ∧
      hasFailed (runFile O qy idx false none (asFile lines) ls).out = true) := by
  induction lines generalizing ls with
  | nil =>
    refine ⟨?_, fun h => absurd rfl (h ls.es)⟩
    intro es' h
    simp only [feedLines, Outcome.ok.injEq] at h
    subst h
    simp [runFile, asFile, afterFeed]
  | cons l rest ih =>
    have hnone : (none == some ls.consumed) = false := rfl
    simp only [asFile, List.map_cons, runFile, hnone, Bool.false_eq_true, if_false, Bool.not_true, feedLines]
    cases he : executeLine O qy idx false ls.es l with
    | ok p =>
      obtain ⟨es1, lo⟩ := p
      have hlo := agg_batch_answer hq hlim he
      subst hlo
      have he' : executeLine O qy idx false
          { ls with consumed := ls.consumed + 1, out := { ls.out with totalLines := ls.out.totalLines + 1 } }.es l =
          .ok (es1, { result := none, reachedLimit := false }) := he
      simp only [he', List.append_nil, Bool.false_eq_true, if_false]
      obtain ⟨ih1, ih2⟩ := ih { ls with consumed := ls.consumed + 1, out := { ls.out with totalLines := ls.out.totalLines + 1 }, es := es1 }
      refine ⟨?_, ?_⟩
      · intro es' h
        have := ih1 es' h
        simp only [asFile] at this
        rw [this]
        simp only [afterFeed, List.length_cons]
        have e1 : ls.out.totalLines + 1 + rest.length = ls.out.totalLines + (rest.length + 1) := by omega
        have e2 : ls.consumed + 1 + rest.length = ls.consumed + (rest.length + 1) := by omega
        rw [e1, e2]
      · intro h
        have := ih2 h
        simpa only [asFile] using this
    | error k =>
      have he' : executeLine O qy idx false
          { ls with consumed := ls.consumed + 1, out := { ls.out with totalLines := ls.out.totalLines + 1 } }.es l = .error k := he
      simp [he', failWith, hasFailed]
    | panic k =>
      have he' : executeLine O qy idx false
          { ls with consumed := ls.consumed + 1, out := { ls.out with totalLines := ls.out.totalLines + 1 } }.es l = .panic k := he
      simp [he', failWith, hasFailed]
    | oracleMissing k =>
      have he' : executeLine O qy idx false
          { ls with consumed := ls.consumed + 1, out := { ls.out with totalLines := ls.out.totalLines + 1 } }.es l = .oracleMissing k := he
      simp [he', failWith, hasFailed]

/-- **the executed batch run** of an aggregate statement (no LIMIT) over one file, whose join (if any) loaded into `idx`,
and which reports no failure: it is the update-only feed of the lines followed by one `finalResult`, printed once -/
theorem runBatch_agg_feed (O : Oracles) (qy : Query) (q : AggStmt) (hq : qy.stmt = .aggregate q) (hlim : q.limit = none)
    (joined : List FileLine) (idx : JoinIndex) (hidx : joinOutcome qy joined = .ok idx) (lines : List Line)
    (h : hasFailed (runBatch O qy joined [asFile lines] none) = false) :
    ∃ los es r, feedLines O qy idx false lines {} = (los, .ok es) ∧ finalResult O q es = .ok r ∧
      runBatch O qy joined [asFile lines] none = { printed := printResult r true, totalLines := lines.length } := by
  have hl : reachedLimit qy {} = false := by simp [reachedLimit, hq]
  obtain ⟨h1, h2⟩ := runFile_agg_feed O qy q hq hlim idx lines {}
  rw [runBatch_eq_runWithIndex, hidx] at h ⊢
  simp only [runWithIndex, hq, Bool.not_true, runFiles, hl, Bool.or_self, Bool.false_eq_true, if_false] at h ⊢
  cases hfe : (feedLines O qy idx false lines ({} : LoopState).es).2 with
  | ok es =>
    have hrun := h1 es hfe
    rw [hrun] at h ⊢
    have hs : (afterFeed {} es lines.length).stop = false := rfl
    simp only [hs, Bool.false_eq_true, if_false] at h ⊢
    have ho : hasFailed (afterFeed {} es lines.length).out = false := rfl
    simp only [ho, Bool.false_eq_true, if_false] at h ⊢
    have hes : (afterFeed {} es lines.length).es = es := rfl
    rw [hes] at h ⊢
    cases hfin : finalResult O q es with
    | ok r =>
      refine ⟨(feedLines O qy idx false lines {}).1, es, r, ?_, hfin, ?_⟩
      · have : ({} : LoopState).es = ({} : EngineState) := rfl
        rw [this] at hfe
        rw [← hfe]
      · simp [afterFeed]
    | error k => rw [hfin] at h; simp [failWith, hasFailed, afterFeed] at h
    | panic k => rw [hfin] at h; simp [failWith, hasFailed, afterFeed] at h
    | oracleMissing k => rw [hfin] at h; simp [failWith, hasFailed, afterFeed] at h
  | error k =>
    obtain ⟨hs, hf⟩ := h2 (by intro es' he; rw [hfe] at he; cases he)
    simp only [hs, if_true, hf] at h
    cases h
  | panic k =>
    obtain ⟨hs, hf⟩ := h2 (by intro es' he; rw [hfe] at he; cases he)
    simp only [hs, if_true, hf] at h
    cases h
  | oracleMissing k =>
    obtain ⟨hs, hf⟩ := h2 (by intro es' he; rw [hfe] at he; cases he)
    simp only [hs, if_true, hf] at h
    cases h

theorem runBatch_agg_of_feed (O : Oracles) (qy : Query) (q : AggStmt) (hq : qy.stmt = .aggregate q) (hlim : q.limit = none)
    (joined : List FileLine) (idx : JoinIndex) (hidx : joinOutcome qy joined = .ok idx) (lines : List Line)
    {los : List LineOut} {es : EngineState} {r : RowOut}
    (hfe : feedLines O qy idx false lines {} = (los, .ok es)) (hfin : finalResult O q es = .ok r) :
    runBatch O qy joined [asFile lines] none = { printed := printResult r true, totalLines := lines.length } := by
  have hl : reachedLimit qy {} = false := by simp [reachedLimit, hq]
  obtain ⟨h1, _⟩ := runFile_agg_feed O qy q hq hlim idx lines {}
  have hrun := h1 es (by
    have : ({} : LoopState).es = ({} : EngineState) := rfl
    rw [this, hfe])
  rw [runBatch_eq_runWithIndex, hidx]
  simp only [runWithIndex, hq, Bool.not_true, runFiles, hl, Bool.or_self, Bool.false_eq_true, if_false]
  rw [hrun]
  have hs : (afterFeed {} es lines.length).stop = false := rfl
  have ho : hasFailed (afterFeed {} es lines.length).out = false := rfl
  have hes : (afterFeed {} es lines.length).es = es := rfl
  simp only [hs, Bool.false_eq_true, if_false, ho, hes, hfin]
  simp [afterFeed]

theorem finalResult_same_agg (O : Oracles) (q : AggStmt) {e1 e2 : EngineState} (h : e1.agg = e2.agg) :
    finalResult O q e1 = finalResult O q e2 := by
  simp only [finalResult, h]

/-- **C11, aggregate half, with or without a JOIN; follow side = the line-at-a-time feed (the `incr` driver), batch side =
the executed `runBatch`.** The join (if any) loaded into `idx`; the feed of the first k lines with the default
configuration does not fail; the batch run over the same lines reports no failure; no LIMIT; exact group keys. Then the
answer for the k-th line either carries a table, and printing it is exactly what the batch run over the first k lines
prints — for a line with several join partners too — or it carries none, and the batch run over the first k lines prints
what the batch run over the first k−1 lines prints. -/
theorem follow_join_kth_line {O : Oracles} {qy : Query} {q : AggStmt} (hq : qy.stmt = .aggregate q) (hlim : q.limit = none)
    (joined : List FileLine) (idx : JoinIndex) (hidx : joinOutcome qy joined = .ok idx) (pre : List Line) (l : Line)
    {esf : EngineState} {losf : List LineOut}
    (hf : feedLines O qy idx true (pre ++ [l]) {} = (losf, .ok esf))
    (hb : hasFailed (runBatch O qy joined [asFile (pre ++ [l])] none) = false)
    (hex : KeysExact (lineKeys O qy q idx (pre ++ [l]))) :
    ∃ lo, losf = (feedLines O qy idx true pre {}).1 ++ [lo] ∧
      ((∃ out, lo.result = some out ∧
          (runBatch O qy joined [asFile (pre ++ [l])] none).printed = printResult out true) ∨
       (lo.result = none ∧
          (runBatch O qy joined [asFile (pre ++ [l])] none).printed = (runBatch O qy joined [asFile pre] none).printed ∧
          hasFailed (runBatch O qy joined [asFile pre] none) = false)) := by
  obtain ⟨losb, esb, r, hfb, hfin, hrun⟩ := runBatch_agg_feed O qy q hq hlim joined idx hidx _ hb
  obtain ⟨los0, lo, esf0, losb0, esb0, hlos, hf0, hb0, hcase⟩ := follow_feed_kth hq hlim idx pre l hf hfb hex
  refine ⟨lo, by rw [hf0]; exact hlos, ?_⟩
  rcases hcase with ⟨out, hout, hres⟩ | ⟨hnone, hagg⟩
  · left
    rw [hfin] at hres
    simp only [Outcome.ok.injEq] at hres
    subst hres
    exact ⟨r, hout, by rw [hrun]⟩
  · right
    have hfin0 : finalResult O q esb0 = .ok r := by rw [← finalResult_same_agg O q hagg]; exact hfin
    have hrun0 := runBatch_agg_of_feed O qy q hq hlim joined idx hidx pre hb0 hfin0
    refine ⟨hnone, by rw [hrun, hrun0], by rw [hrun0]; rfl⟩

end Sqlgrep
