import SqlgrepModel.Model.ParseLit
/- `Lit.parseTimestampLit` (the Lean model of chrono's `parse_from_str(_, "%Y-%m-%d %H:%M:%S")`, which the evaluator
now calls when no `tsparse` fact is shipped) answers a TIMESTAMP or nothing. -/
namespace Sqlgrep
namespace Lit
/-- what `parseTimestampLit` returns is a TIMESTAMP -/
theorem parseTimestampLit_timestamp (s : Text) (v : Value) (h : parseTimestampLit s = some v) :
    ∃ d sec f, v = .timestamp d sec f := by
  unfold parseTimestampLit at h
  simp only [bind, Option.bind_eq_some_iff] at h
  obtain ⟨_, _, _, _, _, _, _, _, _, _, _, _, _, _, _, _, _, _, _, _, h⟩ := h
  split at h
  · cases h
  · split at h
    · cases h
    · simp only [Option.some.injEq] at h
      exact ⟨_, _, _, h.symm⟩
end Lit
end Sqlgrep
