import SqlgrepModel.Drivers.Run
import SqlgrepModel.Model.ExecI
import SqlgrepModel.Spec.Join
import SqlgrepModel.Model.JoinClause
/- `join` (C05: FileExecutor run of a statement with a join; the joined file may be missing; the nested-loop
   specification's answer travels with the model's) and `intr` (C19: the same run with the `running` flag cleared
   before line `clear` of the joined file or before line `stop` of the input). -/
namespace Sqlgrep.Drivers.Join
open Sqlgrep Sqlgrep.Drivers.Run

def joinedOfSexp : Sexp → Option (Option (List FileLine))
  | .list [.atom "nofile"] => some none
  | s => (fileOfSexp s).map some

def handleJoin (args : List Sexp) : String :=
  match args with
  | [o, q, j, .list (.atom "files" :: fs)] =>
    match Oracles.ofSexp o, Query.ofSexp q, joinedOfSexp j, fs.mapM fileOfSexp with
    | some o, some q, some j, some fs =>
      let model := runOutToWire (runBatchI o q j fs none none).1
      let spec := match j with
        | some jl => Spec.Join.batch o q jl fs
        | none => none
      match spec with
      | some (ro, cls) => model ++ " ## " ++ runOutToWire ro ++ " ## " ++ cls
      | none => model
    | _, _, _, _ => "bad-case"
  | _ => "bad-case"

def handleIntr (args : List Sexp) : String :=
  match args with
  | [o, q, j, .list (.atom "files" :: fs), clear, stop] =>
    match Oracles.ofSexp o, Query.ofSexp q, joinedOfSexp j, fs.mapM fileOfSexp, optNat clear, optNat stop with
    | some o, some q, some j, some fs, some clear, some stop =>
      let (ro, n) := runBatchI o q j fs clear stop
      -- what the per-line hook of the loader observes: the lines LOOKED AT (one more than processed when the loop
      -- left at a sampling point before the end of the file)
      let len := match j with
        | some ls => ls.length
        | none => 0
      let looked := if n < len then n + 1 else n
      -- (not compared for a failed run: a load that fails does not say how far it got)
      if ro.skipped.isSome then runOutToWire ro
      else if hasFailed ro then runOutToWire ro ++ " jl=-"
      else runOutToWire ro ++ " jl=" ++ toString looked
    | _, _, _, _, _, _ => "bad-case"
  | _ => "bad-case"

/-- `followi <oracles> <query> <ignored> (files <file>) <stop>`: `FollowFileExecutor`'s loop over the delivered
lines; the executor keeps no line statistics, so only status and records are answered -/
def handleFollowI (args : List Sexp) : String :=
  match args with
  | [o, q, _, .list [.atom "files", f], stop] =>
    match Oracles.ofSexp o, Query.ofSexp q, fileOfSexp f, optNat stop with
    | some o, some q, some f, some stop =>
      let ro := runFollowAll o q stop (f.map (·.line))
      if ro.skipped.isSome then "skip " ++ ro.skipped.getD ""
      else statusOf ro ++ " out=" ++ ",".intercalate (ro.printed.map (fun l => Sexp.showBytes (strBytes l)))
    | _, _, _, _ => "bad-case"
  | _ => "bad-case"

/-- `onres <from> <joiner> <leftTable> <leftColumn> <rightTable> <rightColumn>`: `transform_join` -/
def handleOnRes (args : List Sexp) : String :=
  match args.mapM str? with
  | some [fromTable, joiner, lt, lc, rt, rc] =>
    match resolveJoin fromTable { joinerTable := joiner, leftTable := lt, leftColumn := lc, rightTable := rt, rightColumn := rc } with
    | .ok (a, b) => "ok joiner=" ++ a ++ " joined=" ++ b ++ " table=" ++ joiner
    | .error .invalidOnJoin => "err:InvalidOnJoin"
    | .error .invalidJoinerTable => "err:InvalidJoinerTable"
  | _ => "bad-case"

end Sqlgrep.Drivers.Join
