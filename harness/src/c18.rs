// C18: output is deterministic and independent of hash seeds: the same cases are executed in this process
// (twice), in k fresh child processes (fresh SipHash keys), and with unrelated extra tables defined; all outputs must
// be byte-identical, and equal to the (deterministic) Lean model's single answer.
use crate::c04::{gen_input, join_lines};
use crate::engine_run::*;
use crate::queries::*;
use crate::run::{Params, Run};
use crate::runq::tmp_file;
use crate::util::{hex, Rng};
use crate::e2e;

const EXTRA_TABLES: &str = "CREATE TABLE zz1(line = '(x)', line[1] => a TEXT);\nCREATE TABLE aa2(line = '(y)(z)?', line[1] => b TEXT, line[2] => c TEXT);\nCREATE TABLE mm3({.q} => q INT);";

// statements whose output order would expose a leaked hash order: many groups, many columns, many partners
const WIDE: &[&str] = &[
    "SELECT * FROM t",
    "SELECT k, v, w, r, s, input FROM t",
    "SELECT k, w, COUNT(*), SUM(v), MIN(v), MAX(v), AVG(v), COUNT(DISTINCT v), PERCENTILE(v, 0.5) FROM t GROUP BY k, w",
    "SELECT v, COUNT(*), ARRAY_AGG(k), STRING_AGG(s, ',') FROM t GROUP BY v",
    "SELECT s, k, COUNT(DISTINCT w), BOOL_OR(v > 2), STDDEV(v) FROM t GROUP BY s, k HAVING COUNT(*) > 0 AND SUM(v) > -100",
    "SELECT DISTINCT k, w FROM t",
    "SELECT array_unique(create_array(v, w, 3, 1, 2)), k FROM t",
];

// names that differ only in letter case, and statements that spell them a third way: name resolution is exact, so
// these are "not found" errors — unless a lookup falls back to scanning a hash map, whose order depends on the seed
const CASE_TABLES: &str = "CREATE TABLE Sessions(line = '^([a-z]+);([0-9]+);([0-9]+)$', line[1] => Host TEXT, line[2] => id INT, line[3] => ID INT);\nCREATE TABLE SESSIONS(line = '^([a-z]+);([0-9]+);([0-9]+)$', line[1] => host TEXT, line[3] => Id INT);\nCREATE TABLE sessionS(line = '^([a-z]+)', line[1] => HOST TEXT);";
const CASE_QUERIES: &[&str] = &[
    "SELECT * FROM sessions",
    "SELECT host FROM sessions",
    "SELECT Id FROM Sessions",
    "SELECT HOST, iD FROM Sessions",
    "SELECT Host, id, ID FROM Sessions",
    "SELECT COUNT(*), MAX(Id) FROM Sessions",
    "SELECT Host, COUNT(iD) FROM Sessions GROUP BY Host",
    "SELECT host, COUNT(*) FROM sESSIONS GROUP BY host",
    "SELECT * FROM Sessions WHERE Id > 3",
];

pub struct Case { pub defs: String, pub query: String, pub files: Vec<Vec<u8>>, pub joined: Vec<u8> }

/// the deterministic list of cases (a function of the seed only), so that children regenerate the same ones
pub fn cases(seed: u64, n: usize, join_path: &str) -> Vec<Case> {
    let mut rng = Rng::new(seed ^ 0x18);
    let mut out = Vec::new();
    let jlines: Vec<String> = (0..12).map(|_| gen_join_line(&mut rng)).collect();
    let joined = join_lines(&jlines);
    for i in 0..n {
        if i % 8 == 7 {
            let nl = 3 + rng.below(6);
            let lines: Vec<String> = (0..nl).map(|_| format!("{};{};{}", rng.pick(&["web", "alpha", "db"]), rng.below(9), 10 + rng.below(9))).collect();
            out.push(Case { defs: CASE_TABLES.to_owned(), query: (*rng.pick(CASE_QUERIES)).to_owned(), files: vec![join_lines(&lines)], joined: joined.clone() });
            continue;
        }
        let sch = gen_schema(&mut rng);
        let query = if i % 3 == 0 {
            (*rng.pick(WIDE)).to_owned()
        } else if i % 3 == 1 {
            let sel = *rng.pick(&["*", "t.k, u.k, y, t.v", "x.k"]);
            let sel = if sel == "x.k" { "k, y" } else { sel };
            format!("SELECT {} FROM t {} JOIN u::'{}' ON t.k = u.k", sel, rng.pick(&["INNER", "OUTER"]), join_path)
        } else {
            let opts = QueryOpts { allow_limit: true, allow_distinct: true, allow_join: false, aggregate: None };
            gen_query(&mut rng, &sch, &opts, "").text
        };
        let nl = 10 + rng.below(30);
        let lines = gen_input(&mut rng, nl, 15, false);
        // 1..4 input files (rows of a plain query come out in command-line order of the files, then file order)
        let nfiles = *rng.pick(&[1usize, 1, 2, 3, 4]);
        let mut cuts: Vec<usize> = (0..nfiles - 1).map(|_| rng.below(lines.len() + 1)).collect();
        cuts.sort();
        let mut files = Vec::new();
        let mut last = 0;
        for c in cuts { files.push(join_lines(&lines[last..c])); last = c; }
        files.push(join_lines(&lines[last..]));
        let defs = if rng.chance(1, 2) { format!("{}\n{}", sch.defs, EXTRA_TABLES) } else { sch.defs.clone() };
        out.push(Case { defs, query, files, joined: joined.clone() });
    }
    out
}

fn outputs(seed: u64, n: usize) -> Vec<String> {
    let jpath = tmp_file(b"");
    let cs = cases(seed, n, &jpath.display().to_string());
    let mut res = Vec::new();
    for c in &cs {
        std::fs::write(&jpath, &c.joined).unwrap();
        match prepare(&c.defs, &c.query) {
            Ok(p) => res.push(run_files(&p, &c.files).wire()),
            Err(e) => res.push(format!("rejected {}", hex(e.as_bytes()))),
        }
    }
    let _ = std::fs::remove_file(jpath);
    res
}

pub fn child(seed: u64, n: usize) {
    for o in outputs(seed, n) { println!("{}", o); }
}

// ---------------------------------------------------------------------------------------------
// "irrespective of which other tables are defined", on the whole program and on raw TEXTS (Props/C18Defs.lean):
// the same query text, format and input files with definition texts that differ only in further CREATE TABLE
// statements under OTHER names — before, after, between the statements the query uses, with different separators — must
// give the identical answer (status, line count, printed lines). Every variant also goes to the model as an `e2e` case
// (`Pipeline.runText`), together with the cases the sentence does not speak about and the model mirrors: a name defined
// twice (the LAST definition is the one used), an extra definition that is rejected (the whole definition text is
// rejected: an error, never another table), a definition text whose end swallows the next one (an unterminated comment).
// ---------------------------------------------------------------------------------------------

const EXTRA_STMTS: &[&str] = &[
    "CREATE TABLE zz1(line = '(x)', line[1] => a TEXT);",
    "CREATE TABLE aa2(line = '(y)(z)?', line[1] => b TEXT, line[2] => c TEXT);",
    "CREATE TABLE mm3({.q} => q INT);",
    "CREATE TABLE T(line = '^(.*)$', line[1] => k TEXT, line[1] => v TEXT);",   // differs from `t` in letter case: another name
    "CREATE TABLE tt(row = split ';', row[1] => k TEXT, row[2] => v INT);",
    "CREATE TABLE odd(line = '(x)', other[1] => a TEXT);",   // a column over a pattern that is not defined: accepted (an extraction matter)
];
// other definitions of the queried / joined table's NAME (not "other tables": the last definition of a name wins)
const SHADOW_STMTS: &[&str] = &[
    "CREATE TABLE t(line = '^([a-z]+)', line[1] => k TEXT);",
    "CREATE TABLE t(line = '^([a-z]+)?;(-?[0-9]+)?', line[2] => v INT, line[1] => k TEXT);",
    "CREATE TABLE u(row = '^#([a-z]+)', row[1] => k TEXT);",
];
// extra definitions that are not accepted: the whole text is rejected
const BAD_STMTS: &[&str] = &[
    "CREATE TABLE bad(line = '(', line[1] => a TEXT);",
    "CREATE TABLE bad(line = '(x)', line[1] => a NOSUCHTYPE);",
    "CREATE TABLE bad(line = '(x)', line[1] => a TEXT)",
    "CREATE TABLE bad(",
    "SELECT 1 FROM t;",
];

fn split_defs(defs: &str) -> Option<(String, String)> {
    // the two statements of the schema of `queries.rs`, when the text was not re-laid-out
    for main in [MAIN_DEF, MAIN_DEF_BOOL] {
        if defs == format!("{}\n{}", main, JOIN_DEF) { return Some((main.to_owned(), JOIN_DEF.to_owned())); }
    }
    None
}

fn with_defs(c: &e2e::Case, defs: String, family: &'static str) -> e2e::Case {
    e2e::Case { defs, query: c.query.clone(), format: c.format.clone(), single: c.single, files: c.files.clone(), joined: c.joined.clone(), family }
}

pub fn defs_relation(run: &mut Run, rng: &mut Rng, n: usize) {
    let jpath = crate::runq::tmp_dir().join("c18-defs-joined.txt");
    let jp = jpath.display().to_string();
    let mut pairs = 0usize;
    for _ in 0..n {
        let base = e2e::gen_schema_case(rng, "c18", &jp);
        let _ = std::fs::remove_file(&jpath);
        if let Some((p, Some(b))) = &base.joined { std::fs::write(p, b).unwrap(); }
        let base_answer = e2e::run_real(&base);
        let mut emit = |run: &mut Run, c: &e2e::Case, answer: &str| {
            let tag = format!("e2e:{}:{}:{}", c.family, e2e::shape(&c.query), e2e::result_kind(answer));
            run.count(&format!("e2e:{}", c.family));
            let desc = format!("e2e defs={:?} query={:?} format={:?} single={} files={:?} joined={:?}", c.defs, c.query, c.format, c.single,
                c.files.iter().map(|f| String::from_utf8_lossy(f).to_string()).collect::<Vec<_>>(),
                c.joined.as_ref().map(|(p, b)| (p.clone(), b.as_ref().map(|b| String::from_utf8_lossy(b).to_string()))));
            run.case_with_desc(e2e::case_line(c), answer.to_owned(), tag, desc);
        };
        emit(run, &base, &base_answer);
        // 1..3 unrelated extra statements, in one of the positions
        let k = 1 + rng.below(3);
        let extras: Vec<&str> = (0..k).map(|_| *rng.pick(EXTRA_STMTS)).collect();
        let sep = *rng.pick(&["\n", " ", "", "\n\n", " -- more tables\n", "\r\n"]);
        let extra_text = extras.join(sep);
        let mut variants: Vec<(String, &'static str)> = vec![
            (format!("{}{}{}", extra_text, sep, base.defs), "c18-extra-before"),
            (format!("{}{}{}", base.defs, if base.defs.trim_end().ends_with(';') { sep } else { "\n" }, extra_text), "c18-extra-after"),
        ];
        if let Some((main, join)) = split_defs(&base.defs) {
            variants.push((format!("{}{}{}{}{}", main, sep, extra_text, sep, join), "c18-extra-between"));
            // interleaved: an extra statement before, between and after
            variants.push((format!("{}{}{}{}{}{}{}{}{}", extras[0], sep, main, sep, rng.pick(EXTRA_STMTS), sep, join, sep, rng.pick(EXTRA_STMTS)), "c18-extra-interleaved"));
            // the two statements the query uses in the other order (different names: the order of definition is immaterial)
            variants.push((format!("{}{}{}", join, sep, main), "c18-defs-swapped"));
        }
        for (defs, family) in variants {
            let v = with_defs(&base, defs, family);
            let a = e2e::run_real(&v);
            pairs += 1;
            run.oracle_checks += 1;
            // a definition text that was re-laid-out may end inside a comment: then the appended text is part of the comment
            // and the definitions are the same — still the identical answer
            if a != base_answer {
                run.fail(format!("query={:?} format={:?} files={:?}\n  definitions A={:?}\n  definitions B={:?}", base.query, base.format,
                        base.files.iter().map(|f| String::from_utf8_lossy(f).to_string()).collect::<Vec<_>>(), base.defs, v.defs),
                    "other-tables-change-output", format!("with definitions A the program answers {} ; with definitions B (A plus CREATE TABLE statements under other names) it answers {}", base_answer, a));
            }
            emit(run, &v, &a);
        }
        // not "other tables" — correspondence only (the model: the last definition of a name wins; a rejected extra
        // statement rejects the whole text; a text that ends inside a comment swallows what is appended up to the line end)
        let shadow = *rng.pick(SHADOW_STMTS);
        for (defs, family) in [
            (format!("{}\n{}", shadow, base.defs), "c18-same-name-before"),
            (format!("{}\n{}", base.defs, shadow), "c18-same-name-after"),
            (format!("{}\n{}", base.defs, rng.pick(BAD_STMTS)), "c18-bad-extra-after"),
            (format!("{}\n{}", rng.pick(BAD_STMTS), base.defs), "c18-bad-extra-before"),
            (format!("{} -- and now{}", rng.pick(EXTRA_STMTS), base.defs), "c18-comment-swallows"),
        ] {
            let v = with_defs(&base, defs, family);
            let a = e2e::run_real(&v);
            run.oracle_checks += 1;
            // the one thing demanded of these: a rejected extra statement never leaves a run over SOME table
            if family.starts_with("c18-bad") && !(a.starts_with("rejected defs") || a == "not-create-table") {
                run.fail(format!("query={:?} definitions={:?}", base.query, v.defs), "bad-definition-not-rejected", format!("a definition text with a statement that is not accepted gave {}", a));
            }
            // an EARLIER definition of a name that the base text defines again: by `HashMap::insert` the later one is used, so
            // the answer is the base answer. The sentence is silent about a name defined twice; a deviation shows as a
            // disagreement with the model, here it is only counted
            if family == "c18-same-name-before" && a != base_answer { run.count("c18:earlier-same-name-definition-visible"); }
            emit(run, &v, &a);
        }
    }
    let _ = std::fs::remove_file(&jpath);
    run.notes.push(format!("definition texts: {} base invocations (raw texts, every format), {} variants with unrelated extra CREATE TABLE statements before / after / between / interleaved / swapped — identical answer demanded —, and per base 5 variants outside the sentence (a name defined twice, a rejected extra statement, a comment swallowing the next statement) compared with Pipeline.runText only", n, pairs));
}

pub fn run(p: &Params) -> Run {
    let mut run = Run::new("C18");
    let n = p.n(250, 3000);
    let procs = p.n(4, 32);
    let first = outputs(p.seed, n);
    let second = outputs(p.seed, n);
    let jpath = tmp_file(b"");
    let cs = cases(p.seed, n, &jpath.display().to_string());
    for (i, c) in cs.iter().enumerate() {
        run.oracle_checks += 1;
        let desc = format!("query={} files={:?}", c.query, c.files.iter().map(|f| String::from_utf8_lossy(f).to_string()).collect::<Vec<_>>());
        if first[i] != second[i] {
            run.fail(desc.clone(), "differs-within-process", format!("{} vs {}", first[i], second[i]));
        }
        // rows of a plain query come out in input order: over several files the output is the concatenation, in
        // command-line order, of the outputs over each file alone
        let q = c.query.to_uppercase();
        if c.files.len() > 1 && !q.contains("GROUP BY") && !q.contains("DISTINCT") && !q.contains("LIMIT") && !q.contains("COUNT(") && !q.contains("SUM(") && !q.contains("MAX(") && !q.contains("MIN(") && !q.contains("AVG(") && !q.contains("_AGG(") && !q.contains("STDDEV") && !q.contains("VARIANCE") && !q.contains("PERCENTILE") && !q.contains("BOOL_") {
            std::fs::write(&jpath, &c.joined).unwrap();
            if let Ok(prepared) = prepare(&c.defs, &c.query) {
                let whole = run_files(&prepared, &c.files);
                if whole.status == "ok" {
                    let mut concat: Vec<String> = Vec::new();
                    let mut all_ok = true;
                    for f in &c.files {
                        let one = run_files(&prepared, std::slice::from_ref(f));
                        if one.status != "ok" { all_ok = false; break; }
                        concat.extend(one.records());
                    }
                    run.oracle_checks += 1;
                    if all_ok && whole.records() != concat {
                        run.fail(desc.clone(), "rows-not-in-input-order", format!("over {} files the run prints {:?}; file by file in command-line order: {:?}", c.files.len(), whole.records(), concat));
                    }
                }
            }
        }
        // correspondence: the model has no hash iteration at all, its answer is the single reference
        std::fs::write(&jpath, &c.joined).unwrap();
        if let Ok(prepared) = prepare(&c.defs, &c.query) {
            if let Some(case) = batch_case(&prepared, &c.joined, &c.files, None) {
                let status = first[i].split(' ').next().unwrap_or("").to_owned();
                run.case_with_desc(case, first[i].clone(), format!("{}:{}:f{}:x{}", if c.query.contains("JOIN") { "join" } else if c.query.contains("GROUP BY") { "group" } else { "plain" }, status, c.files.len(), c.defs.contains("zz1") as u8), desc.clone());
            }
        }
    }
    let _ = std::fs::remove_file(jpath);
    let exe = std::env::current_exe().unwrap();
    let mut children = Vec::new();
    for _ in 0..procs {
        children.push(std::process::Command::new(&exe).arg("c18child").arg(p.seed.to_string()).arg(n.to_string()).stdout(std::process::Stdio::piped()).spawn());
    }
    for (ci, ch) in children.into_iter().enumerate() {
        match ch.and_then(|c| c.wait_with_output()) {
            Ok(o) => {
                let text = String::from_utf8_lossy(&o.stdout).to_string();
                let lines: Vec<&str> = text.lines().collect();
                // the joined-file path differs per process only inside the SQL text, never in the output
                for i in 0..n {
                    run.oracle_checks += 1;
                    if lines.get(i).copied() != Some(first[i].as_str()) {
                        run.fail(format!("query={} child={}", cs[i].query, ci), "differs-across-processes", format!("{} vs {:?}", first[i], lines.get(i)));
                        break;
                    }
                }
            }
            Err(e) => run.notes.push(format!("child failed to run: {}", e)),
        }
    }
    defs_relation(&mut run, &mut Rng::new(p.seed ^ 0x1818_d3f5), p.n(50, 500));
    run.notes.push("every 8th case uses tables and columns whose names differ only in letter case and statements spelling them a third way (exact name resolution: not-found errors; a hash-order fallback would differ between runs)".to_owned());
    run.notes.push(format!("{} cases executed twice in-process and once in each of {} fresh processes (fresh SipHash keys); half of the cases with three unrelated extra tables defined", n, procs));
    run
}
